// obs_sentinel: C23 — scripted sentinel deployments (stale / short / failing sentinel answers, data
// nodes that are down or answer ROLE with the wrong or a malformed role, role flips with and without
// +switch-master) through the real sentinel client built from the working tree.
//
// kinds: refresh (NewClient = one synchronous _refresh over the generated world; the adopted
// addresses and the sentinel list are read through zz_verif_route.go) | switch (+switch-master events
// after a role flip; primary traffic is then sent and the role of the receiving node is checked).
package main

import (
	"context"
	"encoding/json"
	"flag"
	"fmt"
	"net"
	"strconv"
	"strings"
	"time"

	"github.com/redis/rueidis"

	fr "verifharness/fakeredis"
	fs "verifharness/fakesentinel"
	"verifharness/gen"
	"verifharness/obs"
	ro "verifharness/routeobs"
)

type Case struct {
	K    string  `json:"k"`
	Seed uint64  `json:"seed"`
	Rv   *revalX `json:"rv,omitempty"` // kind reval: the decisions of the history (reval.go)
}

var kindsFlag = flag.String("kinds", "refresh,refresh,refresh,switch", "case kinds to generate")

var enumFlag = flag.Bool("enum", true, "run the enumerated re-validation histories (reval.go) before the random cases")

func genCase(r *gen.Rand, i int) any {
	if *enumFlag && i < len(revalTable) {
		return revalTable[i]
	}
	return Case{K: gen.Pick(r, strings.Split(*kindsFlag, ",")), Seed: r.U64() ^ ro.SeedMix()}
}

func saddr(a string) string {
	h, p, err := net.SplitHostPort(a)
	if err != nil {
		return "(" + obs.HS(a) + ", " + obs.HS("") + ")"
	}
	return "(" + obs.HS(h) + ", " + obs.HS(p) + ")"
}

func osaddr(a string) string {
	if a == "" {
		return obs.None
	}
	return obs.Some(saddr(a))
}

func nodeAddr(i int) string { return "127.0.0.1:" + strconv.Itoa(6379+i) }
func sentAddr(i int) string { return "127.0.0.1:" + strconv.Itoa(26379+i) }

func pairs[T any](keys []string, f func(string) T, pr func(T) string) string {
	out := make([]string, len(keys))
	for i, k := range keys {
		out[i] = "(" + saddr(k) + ", " + pr(f(k)) + ")"
	}
	return obs.List(out)
}

func bulkPair(a string) fr.V {
	h, p, _ := net.SplitHostPort(a)
	return fr.Arr(fr.Bulk(h), fr.Bulk(p))
}

func runRefresh(c Case) (res obs.Result) {
	r := gen.New(c.Seed)
	res.Kind = "refresh"
	d := fs.New("mymaster")
	nn := r.Range(2, 3)
	var nodes []string
	master := r.Intn(nn)
	nodeUp := map[string]bool{}
	roleCoq := map[string]string{}
	cfg := r.Intn(3) // 0 default, 1 ReplicaOnly, 2 SendToReplicas
	for i := 0; i < nn; i++ {
		a := nodeAddr(i)
		nodes = append(nodes, a)
		role := "slave"
		if i == master {
			role = "master"
		}
		n := d.AddNode(a, role)
		nodeUp[a] = true
		roleCoq[a] = fmt.Sprintf("(RoleArr [%s])", obs.HS(role))
		switch r.Intn(12) {
		case 0:
			n.Down = true
			nodeUp[a] = false
		case 1:
			v := fr.Error("ERR no role")
			n.RoleV = &v
			roleCoq[a] = "RoleErr"
		case 2:
			v := fr.Arr(fr.Bulk("sentinel"), fr.Arr())
			n.RoleV = &v
			roleCoq[a] = fmt.Sprintf("(RoleArr [%s])", obs.HS("sentinel"))
		case 3:
			if cfg != 2 { // with SendToReplicas the switch runs in a goroutine: a panic there cannot be recovered
				v := fr.Arr()
				n.RoleV = &v
				roleCoq[a] = "(RoleArr [])"
			}
		case 4:
			// a slave that claims to be master / a master that claims to be slave
			if role == "master" {
				v := fr.Arr(fr.Bulk("slave"), fr.Bulk("x"), fr.Int(1), fr.Bulk("connected"), fr.Int(0))
				n.RoleV = &v
				roleCoq[a] = fmt.Sprintf("(RoleArr [%s])", obs.HS("slave"))
			}
		}
	}
	ns := r.Range(1, 3)
	var sents, init []string
	supCoq := map[string]bool{}
	snCoq, msCoq, rpCoq := map[string]string{}, map[string]string{}, map[string]string{}
	extra := sentAddr(7) // a sentinel only known through other sentinels' answers
	hasExtra := false
	for i := 0; i < ns; i++ {
		a := sentAddr(i)
		sents = append(sents, a)
		init = append(init, a)
	}
	all := append([]string{}, sents...)
	if r.Chance(1, 3) {
		hasExtra = true
		all = append(all, extra)
	}
	for _, a := range all {
		sn := d.AddSentinel(a)
		supCoq[a] = true
		if r.Chance(1, 6) {
			sn.Down = true
			supCoq[a] = false
		}
		// the other sentinels this one reports
		var others []string
		for _, o := range all {
			if o != a && (o != extra || r.Chance(2, 3)) && r.Chance(3, 4) {
				others = append(others, o)
			}
		}
		oth := others
		switch r.Intn(8) {
		case 0:
			sn.Others = func() *fr.V { v := fr.Error("ERR sentinels"); return &v }
			snCoq[a] = "SnErr"
		default:
			sn.Others = func() *fr.V {
				var out []fr.V
				for _, o := range oth {
					h, p, _ := net.SplitHostPort(o)
					out = append(out, fr.Map(fr.Bulk("name"), fr.Bulk("s"), fr.Bulk("ip"), fr.Bulk(h), fr.Bulk("port"), fr.Bulk(p)))
				}
				v := fr.Arr(out...)
				return &v
			}
			snCoq[a] = "(SnList " + obs.ListOf(oth, saddr) + ")"
		}
		// the master this one reports
		rep := gen.Pick(r, nodes)
		if r.Chance(1, 2) {
			rep = nodes[master]
		}
		switch r.Intn(10) {
		case 0:
			sn.Master = func() *fr.V { v := fr.Nil(); return &v }
			msCoq[a] = "MErr"
		case 1:
			if cfg == 0 {
				h, _, _ := net.SplitHostPort(rep)
				sn.Master = func() *fr.V { v := fr.Arr(fr.Bulk(h)); return &v }
				msCoq[a] = "(MList [" + obs.HS(h) + "])"
				break
			}
			fallthrough
		case 2:
			if cfg == 0 {
				sn.Master = func() *fr.V { v := fr.Arr(); return &v }
				msCoq[a] = "(MList [])"
				break
			}
			fallthrough
		default:
			rp := rep
			sn.Master = func() *fr.V { v := bulkPair(rp); return &v }
			h, p, _ := net.SplitHostPort(rp)
			msCoq[a] = "(MList [" + obs.HS(h) + "; " + obs.HS(p) + "])"
		}
		// replicas
		var el []string
		var repl []fr.V
		for _, n := range nodes {
			if n == nodes[master] && r.Chance(3, 4) {
				continue
			}
			h, p, _ := net.SplitHostPort(n)
			kv := []fr.V{fr.Bulk("name"), fr.Bulk(n), fr.Bulk("ip"), fr.Bulk(h), fr.Bulk("port"), fr.Bulk(p)}
			// pickReplica draws at random among the eligible ones: at most one is left eligible so that the
			// outcome does not depend on the draw
			if r.Chance(1, 5) || len(el) > 0 {
				kv = append(kv, fr.Bulk("s-down-time"), fr.Bulk("99"))
			} else {
				el = append(el, n)
			}
			repl = append(repl, fr.Map(kv...))
		}
		if r.Chance(1, 10) {
			sn.Replicas = func() *fr.V { v := fr.Error("ERR replicas"); return &v }
			rpCoq[a] = "RpErr"
		} else {
			rv := fr.Arr(repl...)
			sn.Replicas = func() *fr.V { return &rv }
			rpCoq[a] = "(RpList " + obs.ListOf(el, saddr) + ")"
		}
	}
	_ = hasExtra
	opt := rueidis.ClientOption{InitAddress: init, DialCtxFn: d.Dial, DisableCache: true, PipelineMultiplex: -1}
	opt.Sentinel.MasterSet = "mymaster"
	switch cfg {
	case 1:
		opt.ReplicaOnly = true
	case 2:
		opt.SendToReplicas = func(cmd rueidis.Completed) bool { return cmd.IsReadOnly() }
	}
	var cli rueidis.Client
	var err error
	panicked := ""
	done := make(chan struct{})
	go func() {
		defer close(done)
		defer func() {
			if p := recover(); p != nil {
				panicked = fmt.Sprint(p)
			}
		}()
		cli, err = rueidis.NewClient(opt)
	}()
	select {
	case <-done:
	case <-time.After(30 * time.Second):
		res.Kind = "refresh-stuck"
		return
	}
	impl, m, rr := "OOk", "", ""
	var list []string
	switch {
	case panicked != "":
		impl = "OPanic"
	case err != nil || cli == nil:
		impl = "OErr"
	default:
		m, rr, _, list, _ = rueidis.VerifRouteSentinelState(cli)
		defer cli.Close()
	}
	cq := fmt.Sprintf("(mkScfg %s %s %s)", obs.Bool(cfg == 1), obs.Bool(cfg == 2), obs.HS("mymaster"))
	res.Coq = obs.App("CRefresh", cq, obs.ListOf(init, saddr),
		pairs(all, func(k string) bool { return supCoq[k] }, obs.Bool),
		pairs(all, func(k string) string { return snCoq[k] }, func(s string) string { return s }),
		pairs(all, func(k string) string { return msCoq[k] }, func(s string) string { return s }),
		pairs(all, func(k string) string { return rpCoq[k] }, func(s string) string { return s }),
		pairs(nodes, func(k string) bool { return nodeUp[k] }, obs.Bool),
		pairs(nodes, func(k string) string { return roleCoq[k] }, func(s string) string { return s }),
		impl, osaddr(m), osaddr(rr), obs.ListOf(list, saddr))
	res.Sig = fmt.Sprint("refresh", cfg, nodeUp, roleCoq, supCoq, snCoq, msCoq, rpCoq, init)
	res.Nontrivial = true
	res.Obs = map[string]any{"cfg": cfg, "impl": impl, "m": m, "r": rr, "list": list, "err": fmt.Sprint(err), "panic": panicked, "master": nodes[master], "roles": roleCoq, "ms": msCoq, "sup": supCoq}
	res.Site = "sentinel.go:_refresh"
	// direct oracle: the adopted master answered "master" to the last ROLE before adoption and some sentinel named it
	if impl == "OOk" && cfg != 1 {
		lastRole := ""
		for _, rec := range d.Roles() {
			if rec.Node == m {
				lastRole = rec.Role
			}
		}
		named := false
		for _, a := range all {
			if strings.Contains(msCoq[a], "MList") {
				h, p, _ := net.SplitHostPort(m)
				if msCoq[a] == "(MList ["+obs.HS(h)+"; "+obs.HS(p)+"])" {
					named = true
				}
			}
		}
		n := d.Nodes[m]
		if n == nil || !named {
			res.Oracle, res.Class = fmt.Sprintf("adopted master %q was not reported by any sentinel", m), "unannounced-master"
		} else if n.RoleV == nil && lastRole != "master" {
			res.Oracle, res.Class = fmt.Sprintf("adopted master %q answered ROLE with %q", m, lastRole), "wrong-role-adopted"
		} else if n.RoleV != nil && !strings.Contains(roleCoq[m], obs.HS("master")) {
			res.Oracle, res.Class = fmt.Sprintf("adopted master %q answered ROLE with %s", m, roleCoq[m]), "wrong-role-adopted"
		}
	}
	if impl == "OPanic" {
		res.Class = "panic-on-short-answer" // S2: observation only, C23 does not state crash freedom
	}
	return
}

func runSwitch(c Case) (res obs.Result) {
	r := gen.New(c.Seed)
	res.Kind = "switch"
	d := fs.New("mymaster")
	n1, n2 := nodeAddr(0), nodeAddr(1)
	d.AddNode(n1, "master")
	d.AddNode(n2, "slave")
	ns := r.Range(1, 2)
	var init []string
	for i := 0; i < ns; i++ {
		d.AddSentinel(sentAddr(i))
		init = append(init, sentAddr(i))
	}
	variant := r.Intn(4) // 0 failover + event, 1 event for another set, 2 event names a node that is not master, 3 event for a dead node
	opt := rueidis.ClientOption{InitAddress: init, DialCtxFn: d.Dial, DisableCache: true, PipelineMultiplex: -1}
	opt.Sentinel.MasterSet = "mymaster"
	cli, err := rueidis.NewClient(opt)
	if err != nil {
		res.Oracle, res.Site, res.Class = "harness: NewClient failed: "+err.Error(), "harness", "setup"
		return
	}
	defer cli.Close()
	m0, _, _, list0, _ := rueidis.VerifRouteSentinelState(cli)
	h1, p1, _ := net.SplitHostPort(n1)
	h2, p2, _ := net.SplitHostPort(n2)
	set := "mymaster"
	target := n2
	switch variant {
	case 0:
		d.Failover(n2, false)
	case 1:
		set = "othermaster"
	case 2:
		// no role flip: n2 still answers "slave"
	case 3:
		d.SetDown(n2, true)
	}
	rolesBefore := len(d.Roles())
	msg := set + " " + h1 + " " + p1 + " " + h2 + " " + p2
	// subscriptions are set up asynchronously: publish until a sentinel has the subscriber
	deadline := time.Now().Add(10 * time.Second)
	delivered := false
	for time.Now().Before(deadline) && !delivered {
		for _, sa := range init {
			sn := d.Sentinels[sa]
			sn.S.Lock()
			if sn.S.Publish("+switch-master", msg) > 0 {
				delivered = true
			}
			sn.S.Unlock()
			if delivered {
				break
			}
		}
		if !delivered {
			time.Sleep(5 * time.Millisecond)
		}
	}
	if !delivered {
		res.Kind = "switch-nosub"
		return
	}
	// wait for the client to have reacted: a ROLE request to the target (variants 0, 2), else a quiet period
	wait := func(cond func() bool, max time.Duration) bool {
		end := time.Now().Add(max)
		for time.Now().Before(end) {
			if cond() {
				return true
			}
			time.Sleep(3 * time.Millisecond)
		}
		return cond()
	}
	switch variant {
	case 0:
		// Nodes() reads mConn itself (mAddr is stored a moment before the connection is swapped)
		wait(func() bool { _, ok := cli.Nodes()[n2]; return ok }, 60*time.Second)
	case 2:
		wait(func() bool { return len(d.Roles()) > rolesBefore+1 }, 30*time.Second)
		time.Sleep(50 * time.Millisecond)
	default:
		time.Sleep(150 * time.Millisecond)
	}
	m1, _, _, _, _ := rueidis.VerifRouteSentinelState(cli)
	// primary traffic
	ctx, cancel := context.WithTimeout(context.Background(), 20*time.Second)
	defer cancel()
	cli.Do(ctx, cli.B().Set().Key("k").Value("v").Build())
	var got []string
	for _, a := range d.Arrivals() {
		got = append(got, a.Node+"/"+a.Role)
	}
	role := map[string]string{n1: "master", n2: "slave"}
	if variant == 0 {
		role = map[string]string{n1: "slave", n2: "master"}
	}
	up := map[string]bool{n1: true, n2: variant != 3}
	cq := fmt.Sprintf("(mkScfg false false %s)", obs.HS("mymaster"))
	parts := []string{obs.HS(set), obs.HS(h1), obs.HS(p1), obs.HS(h2), obs.HS(p2)}
	res.Coq = obs.App("CSwitch", cq, obs.ListOf(list0, saddr), osaddr(m0), obs.List(parts),
		pairs([]string{n1, n2}, func(k string) bool { return up[k] }, obs.Bool),
		pairs([]string{n1, n2}, func(k string) string { return fmt.Sprintf("(RoleArr [%s])", obs.HS(role[k])) }, func(s string) string { return s }),
		osaddr(m1))
	res.Sig = fmt.Sprint("switch", variant, ns)
	res.Nontrivial = true
	res.Obs = map[string]any{"variant": variant, "m0": m0, "m1": m1, "target": target, "arrivals": got}
	res.Site = "sentinel.go:_switchTarget"
	for _, a := range d.Arrivals() {
		if a.Role != "master" {
			res.Oracle, res.Class = fmt.Sprintf("primary traffic %v reached %s which reports role %q", a.Argv, a.Node, a.Role), "traffic-to-non-master"
		}
	}
	if variant == 0 && m1 != n2 {
		res.Oracle, res.Class = fmt.Sprintf("after +switch-master to %s (which answers master) the client still uses %s", n2, m1), "switch-not-followed"
	}
	return
}

func main() {
	obs.Main(obs.Runner{
		Name: "obs_sentinel", Salt: 23,
		Gen: genCase,
		Decode: func(raw json.RawMessage) (any, error) {
			var c Case
			err := json.Unmarshal(raw, &c)
			return c, err
		},
		Run: func(ci any) obs.Result {
			c := ci.(Case)
			switch c.K {
			case "refresh":
				return runRefresh(c)
			case "switch":
				return runSwitch(c)
			case "reval":
				return runReval(c)
			}
			return obs.Result{Kind: "other"}
		},
	})
}
