// tr_builders: translator T-bld (C18 key methods, C32, C33).
//
// Regenerates coq/Gen/Builders.v — the command-builder graph — from the sources of the repository:
//
//	internal/cmds/gen_*.go   every builder type, root constructor, method and terminal
//	internal/cmds/cmds.go    tag constants, predefined commands, check()
//	internal/cmds/builder.go Arbitrary (its methods are pinned to the text the hand-written model transcribes)
//	hack/cmds/*.json         the Redis command tables: which arguments are typed "key"
//
// Only go/ast, go/parser, go/printer and encoding/json are used.  Every function body in gen_*.go must
// match one of the statement shapes emitted by hack/cmds/gen.go; anything else aborts with file:line
// (fail closed).  The literal arguments of strconv calls (base, format byte, precision, bit size) and
// the divisor of duration conversions are transcribed, not assumed: the Coq side checks them.
package main

import (
	"bytes"
	"encoding/hex"
	"encoding/json"
	"flag"
	"fmt"
	"go/ast"
	"go/parser"
	"go/printer"
	"go/token"
	"hash/fnv"
	"os"
	"path/filepath"
	"sort"
	"strconv"
	"strings"
	"unicode"
)

var fset = token.NewFileSet()

func die(pos token.Pos, f string, a ...any) {
	where := ""
	if pos.IsValid() {
		where = fset.Position(pos).String() + ": "
	}
	fmt.Fprintf(os.Stderr, "tr_builders: %s"+f+"\n", append([]any{where}, a...)...)
	os.Exit(1)
}

func src(n ast.Node) string {
	var b bytes.Buffer
	_ = printer.Fprint(&b, fset, n)
	return b.String()
}

// ---------------------------------------------------------------- data

type param struct {
	name string
	ty   string // Coq constructor of pty
	list bool
	str  bool // string-like (string, ...string, []string)
}

type item struct {
	kind string // T (token), P (param), A (all elements of param)
	tok  string
	idx  int
	fmt  string // Coq term of type fmt
}

type edge struct {
	name    string
	tgt     string
	params  []param
	items   []item
	cf      uint64
	ks      []string // "KO i" / "KM i"
	keydecl []int
	pos     token.Pos
}

type node struct {
	name         string
	edges        []*edge
	build, cache bool
	pos          token.Pos
	file         string
}

type root struct {
	name string
	node string
	toks []string
	cf   uint64
	pos  token.Pos
}

var (
	nodes  = map[string]*node{}
	roots  []*root
	consts = map[string]uint64{}
)

// ---------------------------------------------------------------- small AST matchers

func isIdent(e ast.Expr, name string) bool {
	id, ok := e.(*ast.Ident)
	return ok && id.Name == name
}

// sel matches a.b.c… given as "a.b.c"
func isSel(e ast.Expr, path string) bool { return selPath(e) == path }

func selPath(e ast.Expr) string {
	switch x := e.(type) {
	case *ast.Ident:
		return x.Name
	case *ast.SelectorExpr:
		p := selPath(x.X)
		if p == "" {
			return ""
		}
		return p + "." + x.Sel.Name
	}
	return ""
}

func strLit(e ast.Expr) (string, bool) {
	bl, ok := e.(*ast.BasicLit)
	if !ok || bl.Kind != token.STRING {
		return "", false
	}
	s, err := strconv.Unquote(bl.Value)
	if err != nil {
		return "", false
	}
	return s, true
}

func intLit(e ast.Expr) (int64, bool) {
	neg := false
	if u, ok := e.(*ast.UnaryExpr); ok && u.Op == token.SUB {
		neg = true
		e = u.X
	}
	bl, ok := e.(*ast.BasicLit)
	if !ok || bl.Kind != token.INT {
		return 0, false
	}
	v, err := strconv.ParseInt(strings.ReplaceAll(bl.Value, "_", ""), 0, 64)
	if err != nil {
		return 0, false
	}
	if neg {
		v = -v
	}
	return v, true
}

func charLit(e ast.Expr) (int64, bool) {
	bl, ok := e.(*ast.BasicLit)
	if !ok || bl.Kind != token.CHAR {
		return 0, false
	}
	r, _, _, err := strconv.UnquoteChar(bl.Value[1:len(bl.Value)-1], '\'')
	if err != nil {
		return 0, false
	}
	return int64(r), true
}

func hexN(v uint64) string { return "0x" + strconv.FormatUint(v, 16) }

func packed(s string) string { return "0x01" + hex.EncodeToString([]byte(s)) }

func zlit(v int64) string {
	if v < 0 {
		return "(-0x" + strconv.FormatInt(-v, 16) + ")%Z"
	}
	return "0x" + strconv.FormatInt(v, 16) + "%Z"
}

// ---------------------------------------------------------------- constants of cmds.go

func evalConst(e ast.Expr) uint64 {
	switch x := e.(type) {
	case *ast.ParenExpr:
		return evalConst(x.X)
	case *ast.BasicLit:
		v, ok := intLit(x)
		if !ok || v < 0 {
			die(x.Pos(), "constant expression not recognised: %s", src(e))
		}
		return uint64(v)
	case *ast.Ident:
		v, ok := consts[x.Name]
		if !ok {
			die(x.Pos(), "constant %s used before its declaration / unknown", x.Name)
		}
		return v
	case *ast.CallExpr:
		if isIdent(x.Fun, "uint16") && len(x.Args) == 1 {
			v := evalConst(x.Args[0])
			if v > 0xffff {
				die(x.Pos(), "uint16 constant overflows: %s", src(e))
			}
			return v
		}
	case *ast.BinaryExpr:
		a, b := evalConst(x.X), evalConst(x.Y)
		switch x.Op {
		case token.SHL:
			return a << b
		case token.OR:
			return a | b
		case token.AND:
			return a & b
		case token.ADD:
			return a + b
		}
	}
	die(e.Pos(), "constant expression not recognised: %s", src(e))
	return 0
}

var wantTags = []string{"optInTag", "blockTag", "readonly", "noRetTag", "mtGetTag", "scrRoTag", "unsubTag", "pipeTag", "retryableTag", "staticTTLTag", "InitSlot", "NoSlot"}

type predef struct {
	name string
	toks []string
	cf   uint64
}

var predefs []predef

const wantCheck = `func check(prev, new uint16) uint16 {
	if prev == InitSlot || prev == new {
		return new
	}
	panic(multiKeySlotErr)
}`

func norm(s string) string { return strings.Join(strings.Fields(s), " ") }

func parseCmdsGo(path string) {
	f, err := parser.ParseFile(fset, path, nil, 0)
	if err != nil {
		die(token.NoPos, "%v", err)
	}
	// constants: dependency order is not source order (readonly uses retryableTag), so iterate to a fixpoint
	type cdecl struct {
		name string
		e    ast.Expr
	}
	var pending []cdecl
	sawCheck := false
	for _, d := range f.Decls {
		switch d := d.(type) {
		case *ast.GenDecl:
			if d.Tok == token.CONST {
				for _, sp := range d.Specs {
					vs := sp.(*ast.ValueSpec)
					for i, nm := range vs.Names {
						if i >= len(vs.Values) {
							die(nm.Pos(), "constant %s without value (iota blocks are not recognised)", nm.Name)
						}
						if _, isStr := strLit(vs.Values[i]); isStr {
							continue
						}
						pending = append(pending, cdecl{nm.Name, vs.Values[i]})
					}
				}
			}
			if d.Tok == token.VAR {
				for _, sp := range d.Specs {
					vs := sp.(*ast.ValueSpec)
					for i, nm := range vs.Names {
						if i >= len(vs.Values) {
							continue
						}
						cl, ok := vs.Values[i].(*ast.CompositeLit)
						if !ok || !isIdent(cl.Type, "Completed") {
							continue
						}
						pending = append(pending, cdecl{"var:" + nm.Name, cl})
					}
				}
			}
		case *ast.FuncDecl:
			if d.Recv == nil && d.Name.Name == "check" {
				d.Doc = nil
				if norm(src(d)) != norm(wantCheck) {
					die(d.Pos(), "func check no longer has the shape transcribed in coq/Model/Slot.v:\n%s", src(d))
				}
				sawCheck = true
			}
		}
	}
	if !sawCheck {
		die(token.NoPos, "%s: func check not found", path)
	}
	// resolve constants
	for progress := true; progress; {
		progress = false
		for _, c := range pending {
			if strings.HasPrefix(c.name, "var:") {
				continue
			}
			if _, done := consts[c.name]; done {
				continue
			}
			ok := true
			ast.Inspect(c.e, func(n ast.Node) bool {
				if id, is := n.(*ast.Ident); is && id.Name != "uint16" {
					if _, known := consts[id.Name]; !known {
						ok = false
					}
				}
				return true
			})
			if ok {
				consts[c.name] = evalConst(c.e)
				progress = true
			}
		}
	}
	for _, t := range wantTags {
		if _, ok := consts[t]; !ok {
			die(token.NoPos, "%s: tag constant %s not found / not evaluable", path, t)
		}
	}
	for _, c := range pending {
		if !strings.HasPrefix(c.name, "var:") {
			continue
		}
		cl := c.e.(*ast.CompositeLit)
		p := predef{name: c.name[4:]}
		for _, el := range cl.Elts {
			kv, ok := el.(*ast.KeyValueExpr)
			if !ok {
				die(el.Pos(), "predefined command %s: positional field", p.name)
			}
			switch selPath(kv.Key) {
			case "cs":
				call, ok := kv.Value.(*ast.CallExpr)
				if !ok || !isIdent(call.Fun, "newCommandSlice") || len(call.Args) != 1 {
					die(kv.Pos(), "predefined command %s: cs is not newCommandSlice([]string{…})", p.name)
				}
				sl, ok := call.Args[0].(*ast.CompositeLit)
				if !ok {
					die(kv.Pos(), "predefined command %s: cs is not a []string literal", p.name)
				}
				for _, t := range sl.Elts {
					s, ok := strLit(t)
					if !ok {
						die(t.Pos(), "predefined command %s: non-literal token", p.name)
					}
					p.toks = append(p.toks, s)
				}
			case "cf":
				p.cf = evalConst(kv.Value)
			default:
				die(kv.Pos(), "predefined command %s: unexpected field %s", p.name, src(kv.Key))
			}
		}
		predefs = append(predefs, p)
	}
}

// Arbitrary: the hand-written model (Model/BuilderSem.v) transcribes these bodies
var wantArbitrary = map[string]string{
	"Builder.Arbitrary": `func (b Builder) Arbitrary(token ...string) (c Arbitrary) {
	c = Arbitrary{cs: get(), ks: b.ks}
	c.cs.s = append(c.cs.s, token...)
	return c
}`,
	"Arbitrary.Keys": `func (c Arbitrary) Keys(keys ...string) Arbitrary {
	if c.ks&NoSlot == NoSlot {
		for _, k := range keys {
			c.ks = NoSlot | slot(k)
			break
		}
	} else {
		for _, k := range keys {
			c.ks = check(c.ks, slot(k))
		}
	}
	c.cs.s = append(c.cs.s, keys...)
	return c
}`,
	"Arbitrary.Args": `func (c Arbitrary) Args(args ...string) Arbitrary {
	c.cs.s = append(c.cs.s, args...)
	return c
}`,
	"Arbitrary.Build": `func (c Arbitrary) Build() Completed {
	if len(c.cs.s) == 0 || len(c.cs.s[0]) == 0 {
		panic(arbitraryNoCommand)
	}
	if strings.HasSuffix(strings.ToUpper(c.cs.s[0]), "SUBSCRIBE") {
		panic(arbitrarySubscribe)
	}
	c.cs.Build()
	return Completed(c)
}`,
	"Arbitrary.Blocking": `func (c Arbitrary) Blocking() Completed {
	c.cf = blockTag
	return c.Build()
}`,
	"Arbitrary.ReadOnly": `func (c Arbitrary) ReadOnly() Completed {
	c.cf = readonly
	return c.Build()
}`,
	"Arbitrary.MultiGet": `func (c Arbitrary) MultiGet() Completed {
	if len(c.cs.s) == 0 || len(c.cs.s[0]) == 0 {
		panic(arbitraryNoCommand)
	}
	if c.cs.s[0] != "MGET" && c.cs.s[0] != "JSON.MGET" {
		panic(arbitraryMultiGet)
	}
	c.cf = mtGetTag
	return c.Build()
}`,
	"Arbitrary.IsZero": `func (c Arbitrary) IsZero() bool {
	return c.cs == nil
}`,
	"CommandSlice.Build": `func (cs *CommandSlice) Build() {
	if cs.l != -1 {
		panic(ErrBuiltTwice)
	}
	cs.l = int32(len(cs.s))
}`,
}

func recvName(d *ast.FuncDecl) string {
	if d.Recv == nil || len(d.Recv.List) != 1 {
		return ""
	}
	t := d.Recv.List[0].Type
	if st, ok := t.(*ast.StarExpr); ok {
		t = st.X
	}
	if id, ok := t.(*ast.Ident); ok {
		return id.Name
	}
	return ""
}

func parseBuilderGo(path string) {
	f, err := parser.ParseFile(fset, path, nil, 0)
	if err != nil {
		die(token.NoPos, "%v", err)
	}
	seen := map[string]bool{}
	for _, d := range f.Decls {
		fd, ok := d.(*ast.FuncDecl)
		if !ok {
			continue
		}
		rn := recvName(fd)
		if rn != "Arbitrary" && !(rn == "Builder") && !(rn == "CommandSlice" && fd.Name.Name == "Build") {
			continue
		}
		key := rn + "." + fd.Name.Name
		want, ok := wantArbitrary[key]
		if !ok {
			die(fd.Pos(), "builder.go: method %s is not known to the model of Arbitrary (Model/BuilderSem.v)", key)
		}
		fd.Doc = nil
		if norm(src(fd)) != norm(want) {
			die(fd.Pos(), "builder.go: %s no longer has the shape transcribed in Model/BuilderSem.v:\n%s", key, src(fd))
		}
		seen[key] = true
	}
	for k := range wantArbitrary {
		if !seen[k] {
			die(token.NoPos, "%s: %s not found", path, k)
		}
	}
}

// ---------------------------------------------------------------- gen_*.go

func goType(e ast.Expr) (param, bool) {
	if ix, ok := e.(*ast.IndexListExpr); ok && isSel(ix.X, "iter.Seq2") && len(ix.Indices) == 2 && isIdent(ix.Indices[0], "string") {
		switch selPath(ix.Indices[1]) {
		case "string":
			return param{ty: "PSeqSS", list: true}, true
		case "float64":
			return param{ty: "PSeqSF", list: true}, true
		}
		return param{}, false
	}
	variadic := false
	if el, ok := e.(*ast.Ellipsis); ok {
		variadic = true
		e = el.Elt
	}
	slice := false
	if at, ok := e.(*ast.ArrayType); ok && at.Len == nil {
		slice = true
		e = at.Elt
	}
	if variadic && slice {
		return param{}, false
	}
	list := variadic || slice
	switch selPath(e) {
	case "string":
		if list {
			return param{ty: "PStrs", list: true, str: true}, true
		}
		return param{ty: "PStr", str: true}, true
	case "int64":
		if slice {
			return param{}, false
		}
		if list {
			return param{ty: "PInts", list: true}, true
		}
		return param{ty: "PInt"}, true
	case "uint64":
		if slice {
			return param{}, false
		}
		if list {
			return param{ty: "PUints", list: true}, true
		}
		return param{ty: "PUint"}, true
	case "float64":
		if slice {
			return param{}, false
		}
		if list {
			return param{ty: "PF64s", list: true}, true
		}
		return param{ty: "PF64"}, true
	case "float32":
		if slice {
			return param{}, false
		}
		if list {
			return param{ty: "PF32s", list: true}, true
		}
		return param{ty: "PF32"}, true
	case "time.Duration":
		if list {
			return param{}, false
		}
		return param{ty: "PDur"}, true
	case "time.Time":
		if list {
			return param{}, false
		}
		return param{ty: "PTime"}, true
	}
	return param{}, false
}

// elemTy is the pty of one element of a list parameter / of a scalar parameter
func elemTy(ty string) string {
	switch ty {
	case "PStrs":
		return "PStr"
	case "PInts":
		return "PInt"
	case "PUints":
		return "PUint"
	case "PF64s":
		return "PF64"
	case "PF32s":
		return "PF32"
	}
	return ty
}

// fmtExpr recognises the formatting expression of one appended element. vars maps identifier -> (param index, element type)
type binding struct {
	idx int
	ty  string // scalar pty of the identifier
}

func fmtExpr(e ast.Expr, vars map[string]binding) (idx int, f string, ok bool) {
	if id, is := e.(*ast.Ident); is {
		b, known := vars[id.Name]
		if known && b.ty == "PStr" {
			return b.idx, "FS", true
		}
		return 0, "", false
	}
	call, is := e.(*ast.CallExpr)
	if !is {
		return 0, "", false
	}
	switch selPath(call.Fun) {
	case "strconv.FormatInt":
		if len(call.Args) != 2 {
			return 0, "", false
		}
		base, okb := intLit(call.Args[1])
		if !okb || base < 0 {
			return 0, "", false
		}
		a := call.Args[0]
		if id, is := a.(*ast.Ident); is {
			b, known := vars[id.Name]
			if known && b.ty == "PInt" {
				return b.idx, "FI " + hexN(uint64(base)), true
			}
			return 0, "", false
		}
		inner, is := a.(*ast.CallExpr)
		if !is {
			return 0, "", false
		}
		// int64(d / time.Unit)
		if isIdent(inner.Fun, "int64") && len(inner.Args) == 1 {
			be, is := inner.Args[0].(*ast.BinaryExpr)
			if !is || be.Op != token.QUO {
				return 0, "", false
			}
			id, is := be.X.(*ast.Ident)
			if !is {
				return 0, "", false
			}
			b, known := vars[id.Name]
			if !known || b.ty != "PDur" {
				return 0, "", false
			}
			var unit uint64
			switch selPath(be.Y) {
			case "time.Nanosecond":
				unit = 1
			case "time.Microsecond":
				unit = 1e3
			case "time.Millisecond":
				unit = 1e6
			case "time.Second":
				unit = 1e9
			case "time.Minute":
				unit = 60e9
			case "time.Hour":
				unit = 3600e9
			default:
				return 0, "", false
			}
			return b.idx, "FD " + hexN(uint64(base)) + " " + hexN(unit), true
		}
		// t.Unix() / t.UnixMilli()
		if se, is := inner.Fun.(*ast.SelectorExpr); is && len(inner.Args) == 0 {
			id, is := se.X.(*ast.Ident)
			if !is {
				return 0, "", false
			}
			b, known := vars[id.Name]
			if !known || b.ty != "PTime" {
				return 0, "", false
			}
			switch se.Sel.Name {
			case "Unix":
				return b.idx, "FTs " + hexN(uint64(base)), true
			case "UnixMilli":
				return b.idx, "FTms " + hexN(uint64(base)), true
			}
		}
		return 0, "", false
	case "strconv.FormatUint":
		if len(call.Args) != 2 {
			return 0, "", false
		}
		base, okb := intLit(call.Args[1])
		id, is := call.Args[0].(*ast.Ident)
		if !okb || base < 0 || !is {
			return 0, "", false
		}
		b, known := vars[id.Name]
		if known && b.ty == "PUint" {
			return b.idx, "FU " + hexN(uint64(base)), true
		}
		return 0, "", false
	case "strconv.FormatFloat":
		if len(call.Args) != 4 {
			return 0, "", false
		}
		fb, ok1 := charLit(call.Args[1])
		prec, ok2 := intLit(call.Args[2])
		bits, ok3 := intLit(call.Args[3])
		if !ok1 || !ok2 || !ok3 || bits < 0 {
			return 0, "", false
		}
		tail := fmt.Sprintf(" %s %s %s", hexN(uint64(fb)), "("+zlit(prec)+")", hexN(uint64(bits)))
		a := call.Args[0]
		if id, is := a.(*ast.Ident); is {
			b, known := vars[id.Name]
			if known && b.ty == "PF64" {
				return b.idx, "FF" + tail, true
			}
			return 0, "", false
		}
		if conv, is := a.(*ast.CallExpr); is && isIdent(conv.Fun, "float64") && len(conv.Args) == 1 {
			if id, is := conv.Args[0].(*ast.Ident); is {
				b, known := vars[id.Name]
				if known && b.ty == "PF32" {
					return b.idx, "FF32" + tail, true
				}
			}
		}
	}
	return 0, "", false
}

// appendStmt matches  c.cs.s = append(c.cs.s, …)  and returns its items
func appendStmt(s ast.Stmt, vars map[string]binding, params []param) ([]item, bool) {
	as, ok := s.(*ast.AssignStmt)
	if !ok || as.Tok != token.ASSIGN || len(as.Lhs) != 1 || len(as.Rhs) != 1 || !isSel(as.Lhs[0], "c.cs.s") {
		return nil, false
	}
	call, ok := as.Rhs[0].(*ast.CallExpr)
	if !ok || !isIdent(call.Fun, "append") || len(call.Args) < 2 || !isSel(call.Args[0], "c.cs.s") {
		return nil, false
	}
	if call.Ellipsis.IsValid() {
		// append(c.cs.s, x...)
		if len(call.Args) != 2 {
			return nil, false
		}
		id, ok := call.Args[1].(*ast.Ident)
		if !ok {
			return nil, false
		}
		for i, p := range params {
			if p.name == id.Name && p.ty == "PStrs" {
				return []item{{kind: "A", idx: i, fmt: "FS"}}, true
			}
		}
		return nil, false
	}
	var out []item
	for _, a := range call.Args[1:] {
		if s, ok := strLit(a); ok {
			out = append(out, item{kind: "T", tok: s})
			continue
		}
		idx, f, ok := fmtExpr(a, vars)
		if !ok {
			return nil, false
		}
		out = append(out, item{kind: "P", idx: idx, fmt: f})
	}
	return out, true
}

// ksSingle matches  if c.ks&NoSlot == NoSlot { c.ks = NoSlot | slot(p) } else { c.ks = check(c.ks, slot(p)) }
func isNoSlotCond(e ast.Expr) bool {
	be, ok := e.(*ast.BinaryExpr)
	if !ok || be.Op != token.EQL || !isIdent(be.Y, "NoSlot") {
		return false
	}
	l, ok := be.X.(*ast.BinaryExpr)
	return ok && l.Op == token.AND && isSel(l.X, "c.ks") && isIdent(l.Y, "NoSlot")
}

func slotCallArg(e ast.Expr) (string, bool) {
	c, ok := e.(*ast.CallExpr)
	if !ok || !isIdent(c.Fun, "slot") || len(c.Args) != 1 {
		return "", false
	}
	id, ok := c.Args[0].(*ast.Ident)
	if !ok {
		return "", false
	}
	return id.Name, true
}

// c.ks = NoSlot | slot(x)
func assignNoSlot(s ast.Stmt) (string, bool) {
	as, ok := s.(*ast.AssignStmt)
	if !ok || as.Tok != token.ASSIGN || len(as.Lhs) != 1 || len(as.Rhs) != 1 || !isSel(as.Lhs[0], "c.ks") {
		return "", false
	}
	be, ok := as.Rhs[0].(*ast.BinaryExpr)
	if !ok || be.Op != token.OR || !isIdent(be.X, "NoSlot") {
		return "", false
	}
	return slotCallArg(be.Y)
}

// c.ks = check(c.ks, slot(x))
func assignCheck(s ast.Stmt) (string, bool) {
	as, ok := s.(*ast.AssignStmt)
	if !ok || as.Tok != token.ASSIGN || len(as.Lhs) != 1 || len(as.Rhs) != 1 || !isSel(as.Lhs[0], "c.ks") {
		return "", false
	}
	c, ok := as.Rhs[0].(*ast.CallExpr)
	if !ok || !isIdent(c.Fun, "check") || len(c.Args) != 2 || !isSel(c.Args[0], "c.ks") {
		return "", false
	}
	return slotCallArg(c.Args[1])
}

// for _, k := range x { body… }
func rangeOver(s ast.Stmt) (v, over string, body []ast.Stmt, ok bool) {
	rs, is := s.(*ast.RangeStmt)
	if !is || rs.Tok != token.DEFINE || !isIdent(rs.Key, "_") {
		return
	}
	vi, is := rs.Value.(*ast.Ident)
	oi, is2 := rs.X.(*ast.Ident)
	if !is || !is2 {
		return
	}
	return vi.Name, oi.Name, rs.Body.List, true
}

func ksStmt(s ast.Stmt, params []param) (string, bool) {
	is, ok := s.(*ast.IfStmt)
	if !ok || is.Init != nil || !isNoSlotCond(is.Cond) || is.Else == nil {
		return "", false
	}
	els, ok := is.Else.(*ast.BlockStmt)
	if !ok || len(is.Body.List) != 1 || len(els.List) != 1 {
		return "", false
	}
	pidx := func(name string, wantTy string) int {
		for i, p := range params {
			if p.name == name && p.ty == wantTy {
				return i
			}
		}
		return -1
	}
	// single
	if a, ok := assignNoSlot(is.Body.List[0]); ok {
		b, ok2 := assignCheck(els.List[0])
		if !ok2 || a != b {
			return "", false
		}
		i := pidx(a, "PStr")
		if i < 0 {
			return "", false
		}
		return "KO " + hexN(uint64(i)), true
	}
	// variadic
	v1, o1, b1, ok1 := rangeOver(is.Body.List[0])
	v2, o2, b2, ok2 := rangeOver(els.List[0])
	if !ok1 || !ok2 || o1 != o2 || len(b1) != 2 || len(b2) != 1 {
		return "", false
	}
	a, okA := assignNoSlot(b1[0])
	br, okB := b1[1].(*ast.BranchStmt)
	c, okC := assignCheck(b2[0])
	if !okA || !okB || br.Tok != token.BREAK || br.Label != nil || !okC || a != v1 || c != v2 {
		return "", false
	}
	i := pidx(o1, "PStrs")
	if i < 0 {
		return "", false
	}
	return "KM " + hexN(uint64(i)), true
}

// c.cf |= int16(TAG)
func cfStmt(s ast.Stmt) (uint64, bool) {
	as, ok := s.(*ast.AssignStmt)
	if !ok || as.Tok != token.OR_ASSIGN || len(as.Lhs) != 1 || len(as.Rhs) != 1 || !isSel(as.Lhs[0], "c.cf") {
		return 0, false
	}
	c, ok := as.Rhs[0].(*ast.CallExpr)
	if !ok || !isIdent(c.Fun, "int16") || len(c.Args) != 1 {
		return 0, false
	}
	id, ok := c.Args[0].(*ast.Ident)
	if !ok {
		return 0, false
	}
	v, ok := consts[id.Name]
	if !ok || v == 0 || v >= 1<<15 {
		return 0, false
	}
	return v, true
}

func parseRoot(fd *ast.FuncDecl) {
	// func (b Builder) X() (c X) { c = X{cs: get(), ks: b.ks[, cf: int16(TAG)]}; c.cs.s = append(c.cs.s, "A", …); return c }
	bad := func(what string) { die(fd.Pos(), "root constructor %s not recognised (%s):\n%s", fd.Name.Name, what, src(fd)) }
	if fd.Recv.List[0].Names[0].Name != "b" || len(fd.Type.Params.List) != 0 || fd.Type.Results == nil || len(fd.Type.Results.List) != 1 {
		bad("signature")
	}
	res := fd.Type.Results.List[0]
	if len(res.Names) != 1 || res.Names[0].Name != "c" {
		bad("result name")
	}
	tn, ok := res.Type.(*ast.Ident)
	if !ok {
		bad("result type")
	}
	if tn.Name != fd.Name.Name {
		bad("result type differs from method name")
	}
	if len(fd.Body.List) != 3 {
		bad("statement count")
	}
	r := &root{name: fd.Name.Name, node: tn.Name, pos: fd.Pos()}
	// 1
	as, ok := fd.Body.List[0].(*ast.AssignStmt)
	if !ok || as.Tok != token.ASSIGN || len(as.Lhs) != 1 || !isIdent(as.Lhs[0], "c") || len(as.Rhs) != 1 {
		bad("first statement")
	}
	cl, ok := as.Rhs[0].(*ast.CompositeLit)
	if !ok || !isIdent(cl.Type, tn.Name) {
		bad("composite literal")
	}
	sawCs, sawKs := false, false
	for _, el := range cl.Elts {
		kv, ok := el.(*ast.KeyValueExpr)
		if !ok {
			bad("positional field")
		}
		switch selPath(kv.Key) {
		case "cs":
			c, ok := kv.Value.(*ast.CallExpr)
			if !ok || !isIdent(c.Fun, "get") || len(c.Args) != 0 {
				bad("cs")
			}
			sawCs = true
		case "ks":
			if !isSel(kv.Value, "b.ks") {
				bad("ks")
			}
			sawKs = true
		case "cf":
			c, ok := kv.Value.(*ast.CallExpr)
			if !ok || !isIdent(c.Fun, "int16") || len(c.Args) != 1 {
				bad("cf")
			}
			id, ok := c.Args[0].(*ast.Ident)
			if !ok {
				bad("cf tag")
			}
			v, ok := consts[id.Name]
			if !ok || v >= 1<<15 {
				bad("cf tag value (must fit int16)")
			}
			r.cf = v
		default:
			bad("field " + src(kv.Key))
		}
	}
	if !sawCs || !sawKs {
		bad("cs/ks missing")
	}
	// 2
	items, ok := appendStmt(fd.Body.List[1], nil, nil)
	if !ok || len(items) == 0 {
		bad("append")
	}
	for _, it := range items {
		if it.kind != "T" {
			bad("non-literal token")
		}
		r.toks = append(r.toks, it.tok)
	}
	// 3
	rs, ok := fd.Body.List[2].(*ast.ReturnStmt)
	if !ok || len(rs.Results) != 1 || !isIdent(rs.Results[0], "c") {
		bad("return")
	}
	roots = append(roots, r)
}

func parseTerminal(fd *ast.FuncDecl, n *node) {
	bad := func(what string) { die(fd.Pos(), "terminal %s.%s not recognised (%s):\n%s", n.name, fd.Name.Name, what, src(fd)) }
	want := map[string]string{"Build": "Completed", "Cache": "Cacheable"}[fd.Name.Name]
	if len(fd.Type.Params.List) != 0 || fd.Type.Results == nil || len(fd.Type.Results.List) != 1 || !isIdent(fd.Type.Results.List[0].Type, want) {
		bad("signature")
	}
	if len(fd.Body.List) != 2 {
		bad("statement count")
	}
	es, ok := fd.Body.List[0].(*ast.ExprStmt)
	if !ok {
		bad("first statement")
	}
	c, ok := es.X.(*ast.CallExpr)
	if !ok || !isSel(c.Fun, "c.cs.Build") || len(c.Args) != 0 {
		bad("c.cs.Build()")
	}
	rs, ok := fd.Body.List[1].(*ast.ReturnStmt)
	if !ok || len(rs.Results) != 1 {
		bad("return")
	}
	if norm(src(rs.Results[0])) != want+"{cs: c.cs, cf: uint16(c.cf), ks: c.ks}" {
		bad("returned literal")
	}
	if fd.Name.Name == "Build" {
		if n.build {
			bad("duplicate")
		}
		n.build = true
	} else {
		if n.cache {
			bad("duplicate")
		}
		n.cache = true
	}
}

func parseMethod(fd *ast.FuncDecl, n *node) {
	bad := func(what string) { die(fd.Pos(), "method %s.%s not recognised (%s):\n%s", n.name, fd.Name.Name, what, src(fd)) }
	if fd.Recv.List[0].Names[0].Name != "c" {
		bad("receiver name")
	}
	if _, isPtr := fd.Recv.List[0].Type.(*ast.StarExpr); isPtr {
		bad("pointer receiver")
	}
	if fd.Type.Results == nil || len(fd.Type.Results.List) != 1 || len(fd.Type.Results.List[0].Names) != 0 {
		bad("result")
	}
	tgt, ok := fd.Type.Results.List[0].Type.(*ast.Ident)
	if !ok {
		bad("result type")
	}
	e := &edge{name: fd.Name.Name, tgt: tgt.Name, pos: fd.Pos()}
	vars := map[string]binding{}
	for _, f := range fd.Type.Params.List {
		p, ok := goType(f.Type)
		if !ok {
			bad("parameter type " + src(f.Type))
		}
		if len(f.Names) == 0 {
			bad("unnamed parameter")
		}
		for _, nm := range f.Names {
			q := p
			q.name = nm.Name
			if nm.Name == "c" || nm.Name == "_" {
				bad("parameter name")
			}
			if _, dup := vars[nm.Name]; dup {
				bad("duplicate parameter name")
			}
			if !q.list {
				vars[nm.Name] = binding{len(e.params), q.ty}
			}
			e.params = append(e.params, q)
		}
	}
	for i, p := range e.params {
		if p.list && p.ty != "PStrs" && i != len(e.params)-1 {
			bad("list parameter not last")
		}
	}
	body := fd.Body.List
	if len(body) == 0 {
		bad("empty body")
	}
	// return
	rs, ok := body[len(body)-1].(*ast.ReturnStmt)
	if !ok || len(rs.Results) != 1 {
		bad("return")
	}
	if isIdent(rs.Results[0], "c") {
		if tgt.Name != n.name {
			bad("return c with a different result type")
		}
	} else {
		call, ok := rs.Results[0].(*ast.CallExpr)
		if !ok || len(call.Args) != 1 || !isIdent(call.Args[0], "c") {
			bad("return conversion")
		}
		pe, ok := call.Fun.(*ast.ParenExpr)
		if !ok || !isIdent(pe.X, tgt.Name) {
			bad("return conversion type")
		}
	}
	body = body[:len(body)-1]
	// phase 1: ks statements; phase 2: cf; phase 3: appends
	phase := 1
	for _, s := range body {
		if k, ok := ksStmt(s, e.params); ok {
			if phase > 1 {
				bad("key-slot statement after cf/append statements")
			}
			e.ks = append(e.ks, k)
			continue
		}
		if v, ok := cfStmt(s); ok {
			if phase > 2 || e.cf != 0 {
				bad("cf statement out of place")
			}
			phase = 2
			e.cf = v
			continue
		}
		if items, ok := appendStmt(s, vars, e.params); ok {
			phase = 3
			e.items = append(e.items, items...)
			continue
		}
		// for _, n := range xs { c.cs.s = append(c.cs.s, FMT(n)) }
		if v, over, b, ok := rangeOver(s); ok && len(b) == 1 {
			pi := -1
			for i, p := range e.params {
				if p.name == over && p.list {
					pi = i
				}
			}
			if pi >= 0 {
				if _, clash := vars[v]; clash || v == "c" {
					bad("loop variable shadows a parameter")
				}
				lv := map[string]binding{v: {pi, elemTy(e.params[pi].ty)}}
				items, ok := appendStmt(b[0], lv, nil)
				if ok && len(items) == 1 && items[0].kind == "P" && items[0].idx == pi {
					phase = 3
					e.items = append(e.items, item{kind: "A", idx: pi, fmt: items[0].fmt})
					continue
				}
			}
		}
		// for a, b := range seq { c.cs.s = append(c.cs.s, F1(x), F2(y)) }   (internal/cmds/iter.go)
		if rs, ok := s.(*ast.RangeStmt); ok && rs.Tok == token.DEFINE && len(rs.Body.List) == 1 {
			k, ok1 := rs.Key.(*ast.Ident)
			v, ok2 := rs.Value.(*ast.Ident)
			over, ok3 := rs.X.(*ast.Ident)
			pi := -1
			if ok1 && ok2 && ok3 {
				for i, p := range e.params {
					if p.name == over.Name && (p.ty == "PSeqSS" || p.ty == "PSeqSF") {
						pi = i
					}
				}
			}
			if pi >= 0 && k.Name != v.Name && k.Name != "c" && v.Name != "c" && k.Name != "_" && v.Name != "_" {
				second := "PStr"
				if e.params[pi].ty == "PSeqSF" {
					second = "PF64"
				}
				// component number is carried in binding.idx
				lv := map[string]binding{k.Name: {0, "PStr"}, v.Name: {1, second}}
				items, ok := appendStmt(rs.Body.List[0], lv, nil)
				if ok && len(items) == 2 && items[0].kind == "P" && items[1].kind == "P" {
					phase = 3
					e.items = append(e.items, item{kind: "Q", idx: pi, fmt: fmt.Sprintf("%s (%s) %s (%s)", hexN(uint64(items[0].idx)), items[0].fmt, hexN(uint64(items[1].idx)), items[1].fmt)})
					continue
				}
			}
		}
		bad("statement: " + src(s))
	}
	for _, o := range n.edges {
		if o.name == e.name {
			bad("duplicate method")
		}
	}
	n.edges = append(n.edges, e)
}

func parseGenFile(path string) {
	f, err := parser.ParseFile(fset, path, nil, 0)
	if err != nil {
		die(token.NoPos, "%v", err)
	}
	base := filepath.Base(path)
	// pass 1: types
	for _, d := range f.Decls {
		gd, ok := d.(*ast.GenDecl)
		if !ok {
			continue
		}
		switch gd.Tok {
		case token.IMPORT:
			for _, sp := range gd.Specs {
				p := sp.(*ast.ImportSpec).Path.Value
				if p != `"strconv"` && p != `"time"` {
					die(gd.Pos(), "unexpected import %s in a generated file", p)
				}
			}
		case token.TYPE:
			for _, sp := range gd.Specs {
				ts := sp.(*ast.TypeSpec)
				if ts.Assign.IsValid() || ts.TypeParams != nil || !isIdent(ts.Type, "Incomplete") {
					die(ts.Pos(), "type declaration not of the form `type X Incomplete`: %s", src(ts))
				}
				if _, dup := nodes[ts.Name.Name]; dup {
					die(ts.Pos(), "duplicate builder type %s", ts.Name.Name)
				}
				nodes[ts.Name.Name] = &node{name: ts.Name.Name, pos: ts.Pos(), file: base}
			}
		default:
			die(gd.Pos(), "unexpected %s declaration in a generated file", gd.Tok)
		}
	}
}

func parseGenFuncs(path string) {
	f, err := parser.ParseFile(fset, path, nil, 0)
	if err != nil {
		die(token.NoPos, "%v", err)
	}
	for _, d := range f.Decls {
		fd, ok := d.(*ast.FuncDecl)
		if !ok {
			continue
		}
		if fd.Recv == nil || len(fd.Recv.List) != 1 || len(fd.Recv.List[0].Names) != 1 || fd.Body == nil || fd.Type.TypeParams != nil {
			die(fd.Pos(), "plain function or unnamed receiver in a generated file: %s", fd.Name.Name)
		}
		rn := recvName(fd)
		if rn == "Builder" {
			parseRoot(fd)
			continue
		}
		n, ok := nodes[rn]
		if !ok {
			die(fd.Pos(), "method on unknown type %s", rn)
		}
		if fd.Name.Name == "Build" || fd.Name.Name == "Cache" {
			parseTerminal(fd, n)
			continue
		}
		parseMethod(fd, n)
	}
}

// ---------------------------------------------------------------- hack/cmds/*.json: key-typed arguments

func ucFirst(s string) string {
	for i, v := range s {
		return string(unicode.ToUpper(v)) + s[i+1:]
	}
	return ""
}
func lcFirst(s string) string {
	for i, v := range s {
		return string(unicode.ToLower(v)) + s[i+1:]
	}
	return ""
}

// name() of hack/cmds/gen.go
func genName(s string) (name string) {
	switch s {
	case "~":
		return "Almost"
	case "=":
		return "Exact"
	case "$":
		return "Last"
	case "\"\"":
		return "Empty"
	}
	for _, n := range strings.Split(strings.NewReplacer("-", " ", "_", " ", ":", " ", "/", " ", ".", " ", "*", "all").Replace(s), " ") {
		name += ucFirst(strings.ToLower(n))
	}
	return name
}

func goParamName(argName string) string {
	n := lcFirst(genName(argName))
	if n == "type" {
		return "typ"
	}
	return n
}

type jarg struct {
	Name      any      `json:"name"`
	Type      any      `json:"type"`
	Command   string   `json:"command"`
	Enum      []string `json:"enum"`
	Block     []jarg   `json:"block"`
	Arguments []jarg   `json:"arguments"`
}

type jcmd struct {
	Arguments []jarg `json:"arguments"`
}

// keyInfo: per Go parameter name, the generator type names (FullName of hack/cmds/gen.go) of the arguments that the
// command table types as key / as something else.  A name that occurs on both sides is disambiguated by the
// type name the method returns.
type keyInfo struct {
	key map[string]map[string]bool
	non map[string]map[string]bool
}

func (k *keyInfo) add(m map[string]map[string]bool, pname, full string) {
	if m[pname] == nil {
		m[pname] = map[string]bool{}
	}
	m[pname][full] = true
}

// argName is node.Name() of hack/cmds/gen.go
func argName(a jarg) string {
	var toks []string
	if a.Command != "" {
		toks = append(toks, genName(a.Command))
	} else {
		switch n := a.Name.(type) {
		case string:
			toks = append(toks, genName(n))
		case []any:
			for _, nn := range n {
				if s, ok := nn.(string); ok {
					toks = append(toks, genName(s))
				}
			}
		}
		if len(toks) == 0 {
			kids := a.Block
			if len(a.Arguments) != 0 {
				kids = a.Arguments
			}
			if len(kids) > 0 {
				toks = append(toks, argName(kids[0]))
			}
		}
	}
	dup := map[string]bool{}
	out := ""
	for _, t := range toks {
		if t == "" || dup[t] {
			continue
		}
		dup[t] = true
		out += t
	}
	return out
}

func keyNames(args []jarg, prefix string, ki *keyInfo) {
	for _, a := range args {
		kids := a.Block
		if len(a.Arguments) != 0 {
			kids = a.Arguments
		}
		// makeChildNodes: a block's command is pushed down to its first child
		if len(kids) > 0 && a.Command != "" {
			if t, _ := a.Type.(string); t != "oneof" {
				kids = append([]jarg(nil), kids...)
				if kids[0].Command == "" {
					kids[0].Command = a.Command
				} else {
					kids[0].Command = a.Command + " " + kids[0].Command
				}
			}
		}
		full := prefix + argName(a)
		switch t := a.Type.(type) {
		case string:
			if n, ok := a.Name.(string); ok {
				if t == "key" {
					ki.add(ki.key, goParamName(n), full)
				} else {
					ki.add(ki.non, goParamName(n), full)
				}
			}
		case []any:
			names, _ := a.Name.([]any)
			for i, ti := range t {
				ts, ok1 := ti.(string)
				if !ok1 || i >= len(names) {
					continue
				}
				if n, ok := names[i].(string); ok {
					if ts == "key" {
						ki.add(ki.key, goParamName(n), full)
					} else {
						ki.add(ki.non, goParamName(n), full)
					}
				}
			}
		}
		for _, e := range a.Enum {
			parts := strings.Split(e, " ")
			if len(parts) == 2 && parts[1] == "key" {
				ki.add(ki.key, "key", "")
			}
		}
		keyNames(kids, full, ki)
	}
}

var jsonKeys = map[string]*keyInfo{} // command (tokens joined by space) -> key information

func parseJSON(dir string) {
	files, _ := filepath.Glob(filepath.Join(dir, "*.json"))
	if len(files) == 0 {
		die(token.NoPos, "no command tables in %s", dir)
	}
	sort.Strings(files)
	for _, fn := range files {
		raw, err := os.ReadFile(fn)
		if err != nil {
			die(token.NoPos, "%v", err)
		}
		var cmds map[string]jcmd
		if err := json.Unmarshal(raw, &cmds); err != nil {
			die(token.NoPos, "%s: %v", fn, err)
		}
		for k, c := range cmds {
			ki := &keyInfo{key: map[string]map[string]bool{}, non: map[string]map[string]bool{}}
			keyNames(c.Arguments, genName(k), ki)
			if _, dup := jsonKeys[k]; dup {
				die(token.NoPos, "%s: command %s appears in two tables", fn, k)
			}
			jsonKeys[k] = ki
		}
	}
}

// declaredKey: does the command table type parameter pname of a method returning type tgt as a key?
func (k *keyInfo) declaredKey(pname, tgt string, pos token.Pos) bool {
	if len(k.key[pname]) == 0 {
		return false
	}
	if len(k.non[pname]) == 0 {
		return true
	}
	// the name is used for a key argument and for a non-key argument of the same command
	inKey, inNon := k.key[pname][tgt], k.non[pname][tgt]
	if inKey == inNon {
		die(pos, "parameter %s of a method returning %s: the command table uses this name both for a key and for a non-key argument and the type name does not tell them apart", pname, tgt)
	}
	return inKey
}

// ---------------------------------------------------------------- output

func fnv32(s string) uint64 {
	h := fnv.New32a()
	h.Write([]byte(s))
	return uint64(h.Sum32())
}

func coqList(items []string) string { return "[" + strings.Join(items, "; ") + "]" }

func main() {
	repo := flag.String("repo", "/repo", "repository under test")
	out := flag.String("out", "", "output .v file")
	flag.Parse()
	if *out == "" {
		die(token.NoPos, "-out required")
	}
	cdir := filepath.Join(*repo, "internal/cmds")
	parseCmdsGo(filepath.Join(cdir, "cmds.go"))
	parseBuilderGo(filepath.Join(cdir, "builder.go"))
	parseJSON(filepath.Join(*repo, "hack/cmds"))
	files, _ := filepath.Glob(filepath.Join(cdir, "gen_*.go"))
	var gens []string
	for _, f := range files {
		if !strings.HasSuffix(f, "_test.go") {
			gens = append(gens, f)
		}
	}
	sort.Strings(gens)
	if len(gens) == 0 {
		die(token.NoPos, "no gen_*.go in %s", cdir)
	}
	for _, f := range gens {
		parseGenFile(f)
	}
	for _, f := range gens {
		parseGenFuncs(f)
	}
	// hand-written iterator variants: same statement grammar plus the two-variable range loop
	iterGo := filepath.Join(cdir, "iter.go")
	if _, err := os.Stat(iterGo); err == nil {
		parseGenFuncs(iterGo)
	}
	// any other non-test file of the package defining methods on builder types would escape the graph
	all, _ := filepath.Glob(filepath.Join(cdir, "*.go"))
	for _, f := range all {
		b := filepath.Base(f)
		if strings.HasPrefix(b, "gen_") || strings.HasSuffix(b, "_test.go") || b == "iter.go" {
			continue
		}
		pf, err := parser.ParseFile(fset, f, nil, 0)
		if err != nil {
			die(token.NoPos, "%v", err)
		}
		for _, d := range pf.Decls {
			if fd, ok := d.(*ast.FuncDecl); ok {
				if _, isNode := nodes[recvName(fd)]; isNode {
					die(fd.Pos(), "method %s.%s on a generated builder type outside gen_*.go", recvName(fd), fd.Name.Name)
				}
				if recvName(fd) == "Builder" && fd.Name.Name != "Arbitrary" {
					die(fd.Pos(), "Builder method %s outside gen_*.go", fd.Name.Name)
				}
			}
		}
	}

	// indices
	var names []string
	for n := range nodes {
		names = append(names, n)
	}
	sort.Strings(names)
	index := map[string]int{}
	for i, n := range names {
		index[n] = i
	}
	hashes := map[uint64]string{}
	for _, n := range names {
		h := fnv32(n)
		if o, clash := hashes[h]; clash {
			die(token.NoPos, "FNV-1a collision between type names %s and %s", o, n)
		}
		hashes[h] = n
	}
	sort.Slice(roots, func(i, j int) bool { return roots[i].name < roots[j].name })
	for i := 1; i < len(roots); i++ {
		if roots[i].name == roots[i-1].name {
			die(roots[i].pos, "duplicate root %s", roots[i].name)
		}
	}
	// every edge target exists; every node reachable; key declarations
	for _, n := range names {
		for _, e := range nodes[n].edges {
			if _, ok := index[e.tgt]; !ok {
				die(e.pos, "method %s.%s returns unknown type %s", n, e.name, e.tgt)
			}
		}
	}
	reached := map[string]bool{}
	for _, r := range roots {
		if _, ok := index[r.node]; !ok {
			die(r.pos, "root %s returns unknown type %s", r.name, r.node)
		}
		cmd := strings.Join(r.toks, " ")
		keys, ok := jsonKeys[cmd]
		if !ok {
			die(r.pos, "root %s: command %q is not in hack/cmds/*.json", r.name, cmd)
		}
		seen := map[string]bool{r.node: true}
		todo := []string{r.node}
		for len(todo) > 0 {
			cur := todo[len(todo)-1]
			todo = todo[:len(todo)-1]
			if reached[cur] {
				die(nodes[cur].pos, "builder type %s is reachable from two roots (second: %s)", cur, r.name)
			}
			for _, e := range nodes[cur].edges {
				for i, p := range e.params {
					if p.str && keys.declaredKey(p.name, e.tgt, e.pos) {
						dup := false
						for _, k := range e.keydecl {
							dup = dup || k == i
						}
						if !dup {
							e.keydecl = append(e.keydecl, i)
						}
					}
				}
				if !seen[e.tgt] {
					seen[e.tgt] = true
					todo = append(todo, e.tgt)
				}
			}
		}
		for k := range seen {
			reached[k] = true
		}
	}
	for _, n := range names {
		if !reached[n] {
			die(nodes[n].pos, "builder type %s is not reachable from any root constructor", n)
		}
	}

	var b strings.Builder
	b.WriteString("(* Generated by harness/cmd/tr_builders from internal/cmds/gen_*.go, cmds.go, builder.go and hack/cmds/*.json —\n   rewritten on every run, never edit. *)\n")
	b.WriteString("From Coq Require Import List NArith ZArith Bool.\nRequire Import RV.Model.BuilderGraph.\nImport ListNotations.\nOpen Scope N_scope.\n\n")
	b.WriteString("Definition tags : tagset := Tags")
	for _, t := range wantTags {
		b.WriteString(" " + hexN(consts[t]))
	}
	b.WriteString(".\n(* " + strings.Join(wantTags, " ") + " *)\n\n")
	nEdges := 0
	for i, n := range names {
		nd := nodes[n]
		var es []string
		for _, e := range nd.edges {
			nEdges++
			var ps, its, kd []string
			for _, p := range e.params {
				ps = append(ps, p.ty)
			}
			for _, it := range e.items {
				switch it.kind {
				case "T":
					its = append(its, "IT "+packed(it.tok))
				case "P":
					its = append(its, fmt.Sprintf("IP %s (%s)", hexN(uint64(it.idx)), it.fmt))
				case "A":
					its = append(its, fmt.Sprintf("IA %s (%s)", hexN(uint64(it.idx)), it.fmt))
				case "Q":
					its = append(its, fmt.Sprintf("IQ %s %s", hexN(uint64(it.idx)), it.fmt))
				}
			}
			for _, k := range e.keydecl {
				kd = append(kd, hexN(uint64(k)))
			}
			es = append(es, fmt.Sprintf("\n  (* %s *) E %s %s %s %s %s %s %s", e.name, packed(e.name), hexN(uint64(index[e.tgt])), coqList(ps), coqList(its), hexN(e.cf), coqList(e.ks), coqList(kd)))
		}
		fmt.Fprintf(&b, "Definition n%d : node := (* %s  %s *) Nd %s %s %v %v.\n", i, n, nd.file, hexN(fnv32(n)), coqList(es), nd.build, nd.cache)
	}
	const chunk = 200
	var chunks []string
	for c := 0; c*chunk < len(names); c++ {
		var ids []string
		for i := c * chunk; i < (c+1)*chunk && i < len(names); i++ {
			ids = append(ids, fmt.Sprintf("n%d", i))
		}
		fmt.Fprintf(&b, "Definition nodes_%d : list node := %s.\n", c, coqList(ids))
		chunks = append(chunks, fmt.Sprintf("nodes_%d", c))
	}
	fmt.Fprintf(&b, "Definition nodes : list node := Eval cbv [app %s] in %s.\n\n", strings.Join(chunks, " "), strings.Join(chunks, " ++ "))
	b.WriteString("Definition roots : list root := [\n")
	for i, r := range roots {
		var ts []string
		for _, t := range r.toks {
			ts = append(ts, packed(t))
		}
		sep := ";"
		if i == len(roots)-1 {
			sep = ""
		}
		fmt.Fprintf(&b, "  (* %s: %s *) R %s %s %s %s%s\n", r.name, strings.Join(r.toks, " "), packed(r.name), hexN(uint64(index[r.node])), coqList(ts), hexN(r.cf), sep)
	}
	b.WriteString("].\n\n")
	b.WriteString("Definition predefined : list predef := [\n")
	for i, p := range predefs {
		var ts []string
		for _, t := range p.toks {
			ts = append(ts, packed(t))
		}
		sep := ";"
		if i == len(predefs)-1 {
			sep = ""
		}
		fmt.Fprintf(&b, "  (* %s *) Pre %s %s %s%s\n", p.name, packed(p.name), coqList(ts), hexN(p.cf), sep)
	}
	b.WriteString("].\n\n")
	b.WriteString("Definition builders : graph := G nodes roots.\n")
	fmt.Fprintf(&b, "(* %d builder types, %d methods, %d roots *)\n", len(names), nEdges, len(roots))
	if err := os.WriteFile(*out, []byte(b.String()), 0o644); err != nil {
		die(token.NoPos, "%v", err)
	}
}
