// obs_stall: C04 — a connection that stalls silently (the server keeps reading but never answers, the socket stays
// open) is failed by the keep-alive watchdog (backgroundPing), so that calls without a deadline never hang.
//
// The watchdog skips its PING while a blocking command is in flight (p.blcksig != 0).  The counter must be back at
// 0 once every blocking command has ended with a reply - a value, a null reply (server-side timeout) or an error
// reply alike.  Each case: a dedicated connection; a blocking command that ends in one of these ways (or none, or
// one cancelled on another connection); then the server goes silent; then calls without a deadline are issued:
// a pipelined Do / DoMulti with a cancel-only context, optionally a Receive and the error channel of
// SetPubSubHooks.  Oracle: each of them returns an error within 2 x ping interval + timeout + slack; afterwards a
// call on a freshly dedicated connection succeeds.
//
// Model: the execution as a schedule of the pipe LTS extended with the watchdog (PipeCase.CWatch): the blocking
// calls with their replies, the pending call, WTick (guard: blcksig = 0), WTimeout (_exit), the drain; the model
// must end with blcksig = 0 and hand the pending call an error as well.
package main

import (
	"context"
	"encoding/json"
	"errors"
	"fmt"
	"strings"
	"sync"
	"sync/atomic"
	"time"

	"github.com/redis/rueidis"
	"verifharness/fakeredis"
	"verifharness/gen"
	"verifharness/obs"
)

type Case struct {
	Queue   string `json:"queue"`
	Pre     string `json:"pre"`      // none | nil | err | val | cancelled : how the preceding blocking command ended
	PreN    int    `json:"pre_n"`    // how many such blocking commands
	Multi   bool   `json:"multi"`    // the pending call is a DoMulti
	Sub     bool   `json:"sub"`      // a Receive is pending too
	Hooks   bool   `json:"hooks"`    // SetPubSubHooks' error channel is watched too
	PingMs  int    `json:"ping_ms"`  // Dialer.KeepAlive
	TimeoMs int    `json:"timeo_ms"` // ConnWriteTimeout
}

const slack = 2 * time.Second

func genCase(r *gen.Rand, i int) any {
	pres := []string{"nil", "err", "val", "none", "cancelled"}
	c := Case{Queue: gen.Pick(r, []string{"ring", "flowbuffer"}), Pre: pres[i%len(pres)], PreN: r.Range(1, 3),
		Multi: r.Chance(1, 3), Sub: r.Chance(1, 2), Hooks: r.Chance(1, 3), PingMs: gen.Pick(r, []int{50, 100, 200}), TimeoMs: gen.Pick(r, []int{100, 300})}
	return c
}

func decode(raw json.RawMessage) (any, error) {
	var c Case
	err := json.Unmarshal(raw, &c)
	return c, err
}

func run(ci any) (res obs.Result) {
	c := ci.(Case)
	res.Kind = c.Pre
	res.Site, res.Class = "pipe.go:backgroundPing", "hang"
	res.Nontrivial = true
	res.Sig = fmt.Sprint(c)
	rueidis.VerifPipeSetQueueType(c.Queue)
	ping, timeo := time.Duration(c.PingMs)*time.Millisecond, time.Duration(c.TimeoMs)*time.Millisecond
	bound := 2*ping + timeo + slack

	s := fakeredis.New()
	s.Handle("BLPOP", func(fc *fakeredis.Conn, a []string) fakeredis.V {
		switch {
		case strings.HasPrefix(a[1], "q:nil"):
			return fakeredis.Nil() // the server-side timeout elapsed
		case strings.HasPrefix(a[1], "q:err"):
			return fakeredis.Error("WRONGTYPE Operation against a key holding the wrong kind of value")
		case strings.HasPrefix(a[1], "q:val"):
			return fakeredis.Arr(fakeredis.Bulk(a[1]), fakeredis.Bulk("v"))
		}
		return fakeredis.V{} // never answers
	})
	// While the stall lasts every command is read and never answered.  A connection that has swallowed a command
	// stays silent for good (answering the next command would hand its reply to the swallowed one: not a Redis server).
	var stalled atomic.Bool
	var silent sync.Map // *fakeredis.Conn -> true
	s.Fault = func(fc *fakeredis.Conn, cseq int, argv []string) fakeredis.Action {
		if _, ok := silent.Load(fc); ok || stalled.Load() {
			silent.Store(fc, true)
			return fakeredis.Action{Override: &fakeredis.V{}, Drop: true} // read, not executed (a SUBSCRIBE must not be confirmed either), never answered
		}
		return fakeredis.Action{}
	}
	opt := rueidis.ClientOption{InitAddress: []string{"127.0.0.1:6379"}, DialCtxFn: s.Dial, ForceSingleClient: true,
		DisableRetry: true, DisableCache: true, PipelineMultiplex: -1, ConnWriteTimeout: timeo}
	opt.Dialer.KeepAlive = ping
	cl, err := rueidis.NewClient(opt)
	if err != nil {
		res.Oracle, res.Class = "NewClient failed against a healthy server: "+err.Error(), "setup"
		return
	}
	defer func() {
		stalled.Store(false)
		for _, fc := range s.Conns() {
			fc.Kill()
		}
		cl.Close()
	}()
	bg := context.Background()
	var fails []string

	if c.Pre == "cancelled" {
		// a blocking command abandoned by its caller: the mux closes that connection (its blcksig stays up on purpose)
		for i := 0; i < c.PreN; i++ {
			ctx, cancel := context.WithTimeout(bg, 30*time.Millisecond)
			e := cl.Do(ctx, cl.B().Blpop().Key(fmt.Sprint("q:never", i)).Timeout(0).Build()).Error()
			cancel()
			if e == nil {
				fails = append(fails, "a blocking command on a silent key returned without error")
			}
		}
	}
	dc, release := cl.Dedicate()
	released := false
	defer func() {
		if !released {
			release()
		}
	}()
	preClass := ""
	if c.Pre == "nil" || c.Pre == "err" || c.Pre == "val" {
		for i := 0; i < c.PreN; i++ {
			r := dc.Do(bg, dc.B().Blpop().Key(fmt.Sprint("q:", c.Pre, i)).Timeout(1).Build())
			_, ne := r.ToArray()
			switch c.Pre {
			case "nil":
				if !rueidis.IsRedisNil(r.Error()) {
					fails = append(fails, fmt.Sprintf("BLPOP that timed out on the server returned %v, not a null reply", r.Error()))
				}
			case "err":
				if _, ok := rueidis.IsRedisErr(r.Error()); !ok || r.NonRedisError() != nil {
					fails = append(fails, fmt.Sprintf("BLPOP on a key of the wrong type returned %v, not the error reply", r.Error()))
				}
			case "val":
				if ne != nil {
					fails = append(fails, fmt.Sprintf("BLPOP on a non-empty list returned %v", ne))
				}
			}
		}
		preClass = c.Pre
	}
	if len(fails) > 0 {
		res.Oracle, res.Class = strings.Join(fails, "; "), "setup"
		return
	}

	// the server goes silent: it reads, it never answers, it does not close
	stalled.Store(true)
	t0 := time.Now()
	type pend struct {
		name string
		done chan struct{}
		err  error
		took time.Duration
	}
	var pends []*pend
	start := func(name string, f func() error) {
		p := &pend{name: name, done: make(chan struct{})}
		pends = append(pends, p)
		go func() { p.err = f(); p.took = time.Since(t0); close(p.done) }()
	}
	ctxC, cancelC := context.WithCancel(bg) // cancel-only: no deadline, served by the pipelining goroutines
	defer cancelC()
	if c.Hooks {
		ch := dc.SetPubSubHooks(rueidis.PubSubHooks{OnMessage: func(m rueidis.PubSubMessage) {}})
		start("the error channel of SetPubSubHooks", func() error {
			e, ok := <-ch
			if !ok || e == nil {
				return errors.New("closed without an error")
			}
			return e
		})
	}
	if c.Multi {
		start("a pipelined DoMulti without deadline", func() error {
			for _, r := range dc.DoMulti(ctxC, dc.B().Echo().Message("c2x0").Build(), dc.B().Echo().Message("c2x1").Build()) {
				if e := r.Error(); e != nil {
					return e
				}
			}
			return nil
		})
	} else {
		start("a pipelined Do without deadline", func() error { return dc.Do(ctxC, dc.B().Echo().Message("c2x0").Build()).Error() })
	}
	if c.Sub {
		start("Receive", func() error {
			return dc.Receive(bg, dc.B().Subscribe().Channel("ch:c3x0").Build(), func(m rueidis.PubSubMessage) {})
		})
	}
	deadline := time.After(bound)
	hung := false
	var worst time.Duration
	for _, p := range pends {
		select {
		case <-p.done:
			if p.name == "a pipelined Do without deadline" || p.name == "a pipelined DoMulti without deadline" || p.name == "Receive" {
				if p.err == nil {
					fails = append(fails, fmt.Sprintf("%s returned without error although the server never answered", p.name))
				}
			}
			if p.took > worst {
				worst = p.took
			}
		case <-deadline:
			hung = true
			fails = append(fails, fmt.Sprintf("%s is still pending %v after the server went silent (ping interval %v, timeout %v): the keep-alive watchdog did not fail the connection", p.name, bound, ping, timeo))
			deadline = time.After(0)
		}
	}
	// the server answers again on new connections; those that swallowed a command stay silent until they are closed
	stalled.Store(false)
	if hung {
		for _, fc := range s.Conns() {
			fc.Kill()
		}
		for _, p := range pends {
			select {
			case <-p.done:
			case <-time.After(3 * time.Second):
			}
		}
	}
	release()
	released = true
	followUps := 0
	if !hung {
		later := ""
		for attempt := 0; attempt < 6; attempt++ {
			dc2, rel2 := cl.Dedicate()
			okc := make(chan struct{})
			var v string
			var e error
			go func() { v, e = dc2.Do(bg, dc2.B().Echo().Message("c4x0").Build()).ToString(); close(okc) }()
			select {
			case <-okc:
			case <-time.After(bound):
				later = "a call on a freshly dedicated connection did not return after the failure"
			}
			rel2()
			if later != "" {
				break
			}
			if e == nil && v == "c4x0" {
				followUps = attempt + 1
				later = ""
				break
			}
			later = fmt.Sprintf("%d calls on freshly dedicated connections after the failure all failed (the last one with (%q, %v))", attempt+1, v, e)
			time.Sleep(10 * time.Millisecond)
		}
		if later != "" {
			fails = append(fails, later)
			res.Class = "no-fresh-conn"
		}
	}
	if len(fails) > 0 {
		res.Oracle = strings.Join(fails, "; ")
	}
	res.Obs = map[string]any{"worst_ms": worst.Milliseconds(), "bound_ms": bound.Milliseconds(), "follow_ups": followUps, "pending": len(pends)}

	// ---- model term ----
	// calls 10, 11, ..: the blocking commands (each returns before the next starts), call 2: the pending call,
	// 9: the sacrificial PING of _background.  The schedule must end with blcksig = 0 and hand call 2 an error.
	var steps []string
	add := func(ls ...string) {
		for _, l := range ls {
			steps = append(steps, "WL ("+l+")")
		}
	}
	replies := `[(900, Mb 43 "504f4e47")`
	for i := 0; i < c.PreN && preClass != ""; i++ {
		id := 10 + i
		switch preClass {
		case "nil":
			replies += fmt.Sprintf("; (%d, Mb 95 \"\")", id)
		case "err":
			replies += fmt.Sprintf("; (%d, Mb 45 \"57524f4e4754595045\")", id)
		default:
			replies += fmt.Sprintf("; (%d, Ma 42 [Mb 36 \"71\"; Mb 36 \"76\"])", id)
		}
		add(fmt.Sprintf("LCall %d [KI %d 3 32] false CtxBg", id, id), fmt.Sprintf("LIncr %d", id), fmt.Sprintf("LLoad %d", id),
			fmt.Sprintf("LSyncW %d", id), "LSrv", fmt.Sprintf("LSyncR %d", id), fmt.Sprintf("LDecr %d", id))
	}
	replies += "]"
	exp := "RcErr"
	if c.Multi {
		add("LCall 2 [KI 20 2 0; KI 21 2 0] true CtxCancel")
		exp = "RcErr; RcErr"
	} else {
		add("LCall 2 [KI 20 2 0] false CtxCancel")
	}
	add("LIncr 2", "LLoad 2", "LBg 2", "LPut 2", "LWNext", "LWFlush")
	// the watchdog: tick (PING issued, timer armed), time-out (_exit); then the reader fails, the sacrificial PING wakes
	// the writer, the clean-up loop hands call 2 the error
	steps = append(steps, "WTick", "WTimeout")
	add("LRFail", "LPostPing 9", "LPut 9", "LWNext", "LWExit", "LCleanNR", "LRecv 2", "LFin 2")
	if !hung {
		res.Coq = fmt.Sprintf("(CWatch %s 1024 %s [%s] [(2, [%s])] 0)", obs.Bool(c.Queue == "flowbuffer"), replies, strings.Join(steps, "; "), exp)
	}
	return
}

func main() {
	obs.Main(obs.Runner{Name: "obs_stall", Salt: 0xC04B, Gen: genCase, Decode: decode, Run: run})
}
