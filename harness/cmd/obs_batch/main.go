// obs_batch: C11 — batched cache reads return results positionally.
//
// REAL clients (single connection, PipelineMultiplex, cluster over a fake cluster) run generated
// batches against the in-process server: duplicates, pre-warmed hits, flights of another caller held
// open by a stalled server, missing keys, wrong-type keys, static-TTL commands, MOVED redirections.
// Oracle (independent of the model): values are tagged by key, so result[i] must be the reply for cmd[i].
// Each case is also printed as a Gallina term for CacheBatch.check_case.
package main

import (
	"context"
	"encoding/json"
	"errors"
	"flag"
	"fmt"
	"sort"
	"strings"
	"time"

	"github.com/redis/rueidis"
	"github.com/redis/rueidis/mock"

	"verifharness/csc"
	"verifharness/fakeredis"
	"verifharness/gen"
	"verifharness/obs"
)

type KeySpec struct {
	Name string `json:"n"`
	Kind string `json:"k"` // str | missing | hash | json
}

type HelperResp struct {
	Kind string `json:"k"` // val | nil | rerr | err
	S    string `json:"s,omitempty"`
}

type Case struct {
	Kind    string       `json:"kind"` // multi | mget | jmget | cluster | helper
	Mux     int          `json:"mux"`
	Adapter bool         `json:"adapter,omitempty"`
	BCast   bool         `json:"bcast,omitempty"`
	Keys    []KeySpec    `json:"keys,omitempty"`
	Batch   []int        `json:"batch,omitempty"`
	Static  []bool       `json:"static,omitempty"`
	Warm    []int        `json:"warm,omitempty"`
	Pend    []int        `json:"pend,omitempty"`
	Path    string       `json:"path,omitempty"`
	Nodes   int          `json:"nodes,omitempty"`
	Salt    int          `json:"salt,omitempty"`
	Moved   []int        `json:"moved,omitempty"`
	Asked   []int        `json:"asked,omitempty"` // keys whose slot is migrating: the owner answers -ASK
	Fail    string       `json:"fail,omitempty"` // mgetfail: abortcmd | abortpttl | experr
	HKeys   []string     `json:"hkeys,omitempty"`
	HResps  []HelperResp `json:"hresps,omitempty"`
}

const wrongType = "WRONGTYPE Operation against a key holding the wrong kind of value"

var namePool = []string{"a", "b", "c", "d", "e", "f", "g", "h", "k1", "k2", "k3", "k4", "k5", "k6", "k7", "k8", "k9", "k10",
	"{t}1", "{t}2", "{t}3", "{u}1", "{u}2", "user:1", "user:2", "user:3", "x", "y", "z", "foo", "bar", "baz", "qux", "", "a b", "é", "k\r\n"}

var kindsFlag = flag.String("kinds", "", "comma separated case kinds to generate (default: all): multi,mget,jmget,cluster,helper,mgetfail")

func genCase(r *gen.Rand, i int) any {
	for tries := 0; ; tries++ {
		c := genCase1(r, i).(Case)
		if *kindsFlag == "" || tries > 400 {
			return c
		}
		for _, k := range strings.Split(*kindsFlag, ",") {
			if k == c.Kind {
				return c
			}
		}
	}
}

func genCase1(r *gen.Rand, i int) any {
	c := Case{}
	switch r.Intn(20) {
	case 0, 1, 2, 3, 4, 5, 6:
		c.Kind = "multi"
	case 7, 8, 9, 10:
		c.Kind = "mget"
	case 11, 12:
		c.Kind = "jmget"
	case 13, 14, 15, 16, 17:
		c.Kind = "cluster"
	default:
		c.Kind = "helper"
	}
	if r.Chance(1, 8) {
		c.Kind = "mgetfail"
	}
	if c.Kind == "helper" {
		n := r.Size(12, 3)
		for j := 0; j < n; j++ {
			c.HKeys = append(c.HKeys, gen.Pick(r, namePool[:12]))
			hr := HelperResp{Kind: "val", S: "v" + fmt.Sprint(r.Intn(5))}
			switch r.Intn(12) {
			case 0:
				hr = HelperResp{Kind: "nil"}
			case 1:
				hr = HelperResp{Kind: "rerr", S: "ERR boom"}
			case 2:
				if r.Chance(1, 2) {
					hr = HelperResp{Kind: "err", S: "io"}
				}
			}
			c.HResps = append(c.HResps, hr)
		}
		return c
	}
	// key universe
	nk := 1 + r.Size(10, 3)
	perm := make([]int, len(namePool))
	for j := range perm {
		perm[j] = j
	}
	for j := len(perm) - 1; j > 0; j-- {
		k := r.Intn(j + 1)
		perm[j], perm[k] = perm[k], perm[j]
	}
	if nk > len(perm) {
		nk = len(perm)
	}
	valueKind := "str"
	if c.Kind == "mgetfail" && r.Chance(1, 3) {
		valueKind = "json"
		c.Path = gen.Pick(r, []string{"$", "$.a"})
	}
	if c.Kind == "jmget" {
		valueKind = "json"
		c.Path = gen.Pick(r, []string{"$", "$.a", ".b[0]"})
	}
	for j := 0; j < nk; j++ {
		k := KeySpec{Name: namePool[perm[j]], Kind: valueKind}
		switch r.Intn(10) {
		case 0:
			k.Kind = "missing"
		case 1:
			k.Kind = "hash"
		}
		c.Keys = append(c.Keys, k)
	}
	// batch with duplicates
	nb := 1 + r.Size(16, 4, 8)
	for j := 0; j < nb; j++ {
		if j > 0 && r.Chance(1, 4) {
			c.Batch = append(c.Batch, c.Batch[r.Intn(j)]) // duplicate of an earlier position
		} else {
			c.Batch = append(c.Batch, r.Intn(nk))
		}
	}
	if c.Kind == "multi" || c.Kind == "cluster" {
		mode := r.Intn(6) // mostly none static, sometimes all, sometimes mixed
		for range c.Batch {
			c.Static = append(c.Static, mode == 0 || (mode == 1 && r.Bool()))
		}
	}
	for j := 0; j < nk; j++ {
		switch r.Intn(5) {
		case 0:
			c.Warm = append(c.Warm, j)
		case 1:
			if r.Chance(2, 3) {
				c.Pend = append(c.Pend, j)
			}
		}
	}
	switch c.Kind {
	case "mgetfail":
		c.Mux = -1
		c.Fail = gen.Pick(r, []string{"abortcmd", "abortpttl", "experr"})
		for j := range c.Keys { // plain values only: the failure is injected, not produced by the data
			if c.Keys[j].Kind == "hash" {
				c.Keys[j].Kind = valueKind
			}
		}
	case "multi":
		c.Mux = gen.Pick(r, []int{-1, -1, 1, 2, 3})
		c.Adapter = r.Chance(1, 4)
		c.BCast = r.Chance(1, 6)
	case "mget", "jmget":
		c.Mux = gen.Pick(r, []int{-1, -1, -1, 2})
		c.Adapter = r.Chance(1, 5)
	case "cluster":
		c.Nodes = r.Range(2, 4)
		c.Salt = r.Intn(1000)
		for j := 0; j < nk; j++ {
			if r.Chance(1, 6) && !contains(c.Pend, j) {
				c.Moved = append(c.Moved, j)
			} else if r.Chance(1, 6) && !contains(c.Pend, j) {
				c.Asked = append(c.Asked, j)
			}
		}
	}
	return c
}

func contains(xs []int, x int) bool {
	for _, y := range xs {
		if y == x {
			return true
		}
	}
	return false
}

func put(s *fakeredis.Server, k KeySpec) {
	s.Lock()
	defer s.Unlock()
	switch k.Kind {
	case "str":
		s.DB[k.Name] = &fakeredis.Item{Kind: "string", Str: "v:" + k.Name}
	case "json":
		s.DB[k.Name] = &fakeredis.Item{Kind: "json", Str: "d:" + k.Name}
	case "hash":
		s.DB[k.Name] = &fakeredis.Item{Kind: "hash", Hash: map[string]string{"f": "x"}}
	}
}

// expected caller-visible outcome of reading key k with GET / JSON.GET path
func expectView(k KeySpec, jsonPath string, inMGet bool) []string {
	switch k.Kind {
	case "str":
		if jsonPath != "" {
			if inMGet {
				return []string{"E:nil"}
			}
			return []string{"E:" + wrongType}
		}
		return []string{"V:$v:" + k.Name}
	case "json":
		if jsonPath == "" {
			return []string{"E:" + wrongType, "E:nil"}
		}
		return []string{"V:$d:" + k.Name + "@" + jsonPath}
	case "hash":
		// a multi-key read answers nil for a wrong-type key, a single read answers WRONGTYPE; an entry
		// cached by one is served to the other (the cache key is shared), so both are "the reply for the key"
		return []string{"E:" + wrongType, "E:nil"}
	}
	return []string{"E:nil"}
}

func oneOf(v string, opts []string) bool {
	for _, o := range opts {
		if v == o {
			return true
		}
	}
	return false
}

func srvTable(entries []fakeredis.Entry) (srvt, qt string) {
	var ss, qs []string
	seen := map[string]bool{}
	for _, e := range entries {
		if len(e.Argv) == 0 {
			continue
		}
		switch strings.ToUpper(e.Argv[0]) {
		case "GET", "MGET", "JSON.GET", "JSON.MGET", "PTTL":
		default:
			continue
		}
		key := strings.Join(e.Argv, "\x00")
		isQ := e.Reply.T == '-' && (strings.HasPrefix(e.Reply.S, "MOVED ") || strings.HasPrefix(e.Reply.S, "ASK ") || e.Reply.S == "ERR injected") && !e.InTx
		if isQ {
			key = "q" + key
		} else if !e.InTx && isQueued(e.Reply) {
			continue
		}
		if seen[key] {
			continue
		}
		seen[key] = true
		p := csc.Pair(csc.Argv(e.Argv), csc.FromV(e.Reply).Coq())
		if isQ {
			qs = append(qs, p)
		} else if e.InTx || !isQueued(e.Reply) {
			ss = append(ss, p)
		}
	}
	return obs.List(ss), obs.List(qs)
}

func isQueued(v fakeredis.V) bool { return v.T == '+' && v.S == "QUEUED" }

const ttl = time.Hour

type env struct {
	single *fakeredis.Server
	cl     *csc.Cluster
	client rueidis.Client
	hold   *csc.Hold
}

func (e *env) close() {
	if e.hold != nil {
		e.hold.Release()
	}
	if e.client != nil {
		e.client.Close()
	}
}

func cacheable(cl rueidis.Client, c *Case, k KeySpec, static bool) rueidis.Cacheable {
	var cmd rueidis.Cacheable
	if c.Kind == "jmget" {
		cmd = cl.B().JsonGet().Key(k.Name).Path(c.Path).Cache()
	} else {
		cmd = cl.B().Get().Key(k.Name).Cache()
	}
	if static {
		cmd = cmd.ToStaticTTL()
	}
	return cmd
}

func argvOf(c *Case, k KeySpec) []string {
	if c.Kind == "jmget" {
		return []string{"JSON.GET", k.Name, c.Path}
	}
	return []string{"GET", k.Name}
}

func run(ci any) (res obs.Result) {
	c := ci.(Case)
	res.Kind = c.Kind
	res.Site, res.Class = "pipe.go:DoMultiCache", "positional"
	defer func() {
		if p := recover(); p != nil {
			res.Oracle = fmt.Sprintf("panic: %v", p)
			res.Class = "panic"
		}
	}()
	if c.Kind == "helper" {
		return runHelper(c)
	}
	if c.Kind == "mgetfail" {
		return runMGetFail(c)
	}
	if len(c.Static) < len(c.Batch) {
		c.Static = append(c.Static, make([]bool, len(c.Batch)-len(c.Static))...)
	}
	e := &env{}
	defer e.close()
	ctx := context.Background()
	var pendKeys []string
	for _, j := range c.Pend {
		if !contains(c.Warm, j) {
			pendKeys = append(pendKeys, c.Keys[j].Name)
		}
	}
	e.hold = csc.NewHold(pendKeys)
	nwires := 1
	var err error
	if c.Kind == "cluster" {
		salt := c.Salt
		e.cl = csc.NewCluster(c.Nodes, func(sl int) int { b := sl / 64; return (b*7 + salt + b/5) % 1000 })
		for _, s := range e.cl.Nodes {
			csc.RegisterJSON(s)
		}
		for _, k := range c.Keys {
			put(e.cl.Nodes[e.cl.Owner(k.Name)], k)
		}
		e.cl.Extra = func(node int, cn *fakeredis.Conn, cseq int, argv []string) fakeredis.Action { return e.hold.Fault(cn, cseq, argv) }
		e.client, err = e.cl.NewClient(nil)
	} else {
		e.single = fakeredis.New()
		csc.RegisterJSON(e.single)
		for _, k := range c.Keys {
			put(e.single, k)
		}
		e.single.Fault = e.hold.Fault
		e.client, err = csc.SingleClient(e.single, c.Mux, c.Adapter, c.BCast, nil)
		if c.Mux >= 0 {
			nwires = 1 << c.Mux
		}
	}
	if err != nil {
		res.Oracle = "harness: client: " + err.Error()
		return
	}
	initOwner := map[string]int{}
	if e.cl != nil {
		for _, k := range c.Keys {
			initOwner[k.Name] = e.cl.Owner(k.Name)
		}
	}
	mask := uint16(nwires - 1)
	wireOf := func(k KeySpec) string { // which connection the per-key command travels on
		cmd := cacheable(e.client, &c, k, false)
		sl := cmd.Slot()
		if e.cl != nil {
			return fmt.Sprint("n", initOwner[k.Name])
		}
		return fmt.Sprint("w", sl&mask)
	}
	isMGet := c.Kind == "mget" || c.Kind == "jmget"

	// 1. warm
	lk := map[string]string{} // key name -> Gallina lk
	var warmCT []rueidis.CacheableTTL
	var warmIdx []int
	for _, j := range c.Warm {
		warmCT = append(warmCT, rueidis.CT(cacheable(e.client, &c, c.Keys[j], false), ttl))
		warmIdx = append(warmIdx, j)
	}
	if len(warmCT) > 0 {
		if isMGet && c.Mux >= 0 {
			// multiplexed MGET lands on the wire of its last key: warm with the same command shape
			// (oracle-only cases; hits are not guaranteed)
			for _, j := range warmIdx {
				e.client.DoCache(ctx, cacheable(e.client, &c, c.Keys[j], false), ttl)
			}
		} else {
			rs := e.client.DoMultiCache(ctx, warmCT...)
			for x, j := range warmIdx {
				r := csc.FromResult(rs[x])
				if r.Err != "" {
					res.Oracle = "harness: warm-up failed: " + r.Err
					return
				}
				lk[c.Keys[j].Name] = "(LHit " + r.V.Coq() + ")"
			}
		}
	}
	// 2. migrate slots (cluster): the client keeps routing by its old map
	movedTo := map[string]int{}
	askedKey := map[string]bool{}
	if e.cl != nil {
		for _, j := range c.Moved {
			k := c.Keys[j]
			from := e.cl.Owner(k.Name)
			to := (from + 1) % c.Nodes
			// every key of that slot moves: copy all keys of the universe sharing the slot
			for _, k2 := range c.Keys {
				if csc.Slot(k2.Name) == csc.Slot(k.Name) {
					put(e.cl.Nodes[to], k2)
					movedTo[k2.Name] = to
				}
			}
			e.cl.Move(k.Name, to)
		}
		for _, j := range c.Asked {
			k := c.Keys[j]
			if _, mv := movedTo[k.Name]; mv {
				continue
			}
			from := e.cl.Owner(k.Name)
			to := (from + 1) % c.Nodes
			for _, k2 := range c.Keys {
				if csc.Slot(k2.Name) == csc.Slot(k.Name) {
					put(e.cl.Nodes[to], k2)
					movedTo[k2.Name] = to
					askedKey[k2.Name] = true
				}
			}
			e.cl.Migrate(k.Name, to)
		}
	}
	// 3. flights of another caller, held open by the stalled server
	type pendOut struct{ rs []csc.R }
	pendCh := make(chan pendOut, 1)
	var pendIdx []int
	if len(pendKeys) > 0 {
		var pct []rueidis.CacheableTTL
		wires := map[string]bool{}
		for _, j := range c.Pend {
			if contains(c.Warm, j) {
				continue
			}
			if _, mv := movedTo[c.Keys[j].Name]; mv {
				continue
			}
			pendIdx = append(pendIdx, j)
			pct = append(pct, rueidis.CT(cacheable(e.client, &c, c.Keys[j], false), ttl))
			wires[wireOf(c.Keys[j])] = true
		}
		if len(pct) > 0 {
			go func() {
				rs := e.client.DoMultiCache(ctx, pct...)
				out := pendOut{}
				for _, r := range rs {
					out.rs = append(out.rs, csc.FromResult(r))
				}
				pendCh <- out
			}()
			if !e.hold.WaitSignals(len(wires), 20*time.Second) {
				res.Oracle = "harness: pending flights did not reach the server"
				res.Class = "harness"
				return
			}
		}
	}
	// 4. the batch under test
	type batchOut struct {
		multi []csc.R
		one   csc.R
		pan   any
	}
	var items []string
	var argvs [][]string
	slotsTab := []string{}
	seenArgv := map[string]bool{}
	var bct []rueidis.CacheableTTL
	var mgetCmd rueidis.Cacheable
	var mgetArgv []string
	if isMGet {
		var names []string
		for _, j := range c.Batch {
			names = append(names, c.Keys[j].Name)
		}
		if c.Kind == "jmget" {
			mgetCmd = e.client.B().JsonMget().Key(names...).Path(c.Path).Cache()
			mgetArgv = append(append([]string{"JSON.MGET"}, names...), c.Path)
		} else {
			mgetCmd = e.client.B().Mget().Key(names...).Cache()
			mgetArgv = append([]string{"MGET"}, names...)
		}
	} else {
		for x, j := range c.Batch {
			cmd := cacheable(e.client, &c, c.Keys[j], c.Static[x])
			av := argvOf(&c, c.Keys[j])
			argvs = append(argvs, av)
			items = append(items, csc.Item(av, c.Static[x], false))
			if s := strings.Join(av, "\x00"); !seenArgv[s] {
				seenArgv[s] = true
				if e.cl != nil {
					slotsTab = append(slotsTab, csc.Pair(csc.Argv(av), obs.N(uint64(initOwner[c.Keys[j].Name]))))
				} else {
					slotsTab = append(slotsTab, csc.Pair(csc.Argv(av), obs.N(uint64(cmd.Slot()))))
				}
			}
			bct = append(bct, rueidis.CT(cmd, ttl))
		}
	}
	outCh := make(chan batchOut, 1)
	go func() {
		var out batchOut
		defer func() {
			if p := recover(); p != nil {
				out.pan = p
			}
			outCh <- out
		}()
		if isMGet {
			out.one = csc.FromResult(e.client.DoCache(ctx, mgetCmd, ttl))
		} else {
			for _, r := range e.client.DoMultiCache(ctx, bct...) {
				out.multi = append(out.multi, csc.FromResult(r))
			}
		}
	}()
	if len(pendIdx) > 0 {
		time.Sleep(25 * time.Millisecond) // let the batch reach its waits; only the case label depends on it
	}
	e.hold.Release()
	var out batchOut
	select {
	case out = <-outCh:
	case <-time.After(30 * time.Second):
		res.Oracle = "batch call did not return within 30s"
		res.Class = "hang"
		return
	}
	if len(pendIdx) > 0 {
		select {
		case po := <-pendCh:
			for x, j := range pendIdx {
				if x < len(po.rs) {
					lk[c.Keys[j].Name] = "(LWait " + po.rs[x].Coq() + ")"
				}
			}
		case <-time.After(30 * time.Second):
			res.Oracle = "pending call did not return within 30s"
			res.Class = "hang"
			return
		}
	}
	if out.pan != nil {
		res.Oracle = fmt.Sprintf("panic: %v", out.pan)
		res.Class = "panic"
	}

	// 5. oracle: result[i] is the reply for cmd[i]
	path := ""
	if c.Kind == "jmget" {
		path = c.Path
	}
	if out.pan == nil {
		if isMGet {
			res.Obs = out.one.View()
			if out.one.Err != "" || out.one.V.T != '*' {
				res.Oracle = "MGET did not return an array: " + out.one.View()
			} else if len(out.one.V.A) != len(c.Batch) {
				res.Oracle = fmt.Sprintf("MGET returned %d elements for %d keys", len(out.one.V.A), len(c.Batch))
			} else {
				for x, j := range c.Batch {
					got := csc.R{V: out.one.V.A[x]}.View()
					if !oneOf(got, expectView(c.Keys[j], path, true)) {
						res.Oracle = fmt.Sprintf("element %d (key %q, %s) is %s", x, c.Keys[j].Name, c.Keys[j].Kind, got)
						break
					}
				}
			}
			res.Site = "pipe.go:doCacheMGet"
		} else {
			var views []string
			for _, r := range out.multi {
				views = append(views, r.View())
			}
			res.Obs = views
			if len(out.multi) != len(c.Batch) {
				res.Oracle = fmt.Sprintf("%d results for %d commands", len(out.multi), len(c.Batch))
			} else {
				for x, j := range c.Batch {
					if !oneOf(views[x], expectView(c.Keys[j], path, false)) {
						res.Oracle = fmt.Sprintf("result %d (key %q, %s) is %s", x, c.Keys[j].Name, c.Keys[j].Kind, views[x])
						break
					}
				}
			}
			if e.cl != nil {
				res.Site = "cluster.go:DoMultiCache"
			} else if nwires > 1 {
				res.Site = "mux.go:DoMultiCache"
			}
		}
	}

	// 6. the Gallina case
	var lks []string
	lkOf := func(names map[string]bool) string {
		var out []string
		var ns []string
		for n := range names {
			ns = append(ns, n)
		}
		sort.Strings(ns)
		for _, n := range ns {
			if v, ok := lk[n]; ok {
				_, cc := ckOf(&c, n)
				out = append(out, csc.Pair(csc.CK(n, cc), v))
			}
		}
		return obs.List(out)
	}
	all := map[string]bool{}
	for _, k := range c.Keys {
		all[k.Name] = true
	}
	_ = lks
	optin := obs.Bool(!c.BCast)
	switch {
	case isMGet && c.Mux < 0:
		srvt, qt := srvTable(e.single.LogCopy())
		o := obs.Ok(out.one.Coq())
		if out.pan != nil {
			o = obs.Panic
		}
		res.Coq = obs.App("CMGet", optin, csc.Argv(mgetArgv), lkOf(all), srvt, qt, o)
	case isMGet:
		// multiplexed MGET: oracle only
	case e.cl == nil:
		srvt, qt := srvTable(e.single.LogCopy())
		o := obs.Panic
		if out.pan == nil {
			o = obs.Ok(obs.ListOf(out.multi, func(r csc.R) string { return r.Coq() }))
		}
		if nwires == 1 {
			res.Coq = obs.App("CMulti", obs.Bool(!c.Adapter), optin, obs.List(items), lkOf(all), srvt, qt, o)
		} else if !c.Adapter {
			res.Coq = obs.App("CMux", obs.N(uint64(nwires)), optin, obs.List(items), obs.List(slotsTab), lkOf(all), srvt, qt, o)
		}
	default:
		var lkss, srvts, qts, redir []string
		for n, s := range e.cl.Nodes {
			names := map[string]bool{}
			for _, k := range c.Keys {
				if initOwner[k.Name] == n {
					names[k.Name] = true
				}
			}
			srvt, qt := srvTable(s.LogCopy())
			lkss = append(lkss, csc.Pair(obs.N(uint64(n)), lkOf(names)))
			srvts = append(srvts, csc.Pair(obs.N(uint64(n)), srvt))
			qts = append(qts, csc.Pair(obs.N(uint64(n)), qt))
		}
		seenR := map[string]bool{}
		for _, s := range e.cl.Nodes {
			for _, en := range s.LogCopy() {
				isM := strings.HasPrefix(en.Reply.S, "MOVED ")
				if en.Reply.T == '-' && (isM || strings.HasPrefix(en.Reply.S, "ASK ")) && !seenR[en.Reply.S] {
					seenR[en.Reply.S] = true
					f := strings.Fields(en.Reply.S)
					for n, a := range e.cl.Addrs {
						if len(f) == 3 && a == f[2] {
							kind := "(RAsk "
							if isM {
								kind = "(RMoved "
							}
							redir = append(redir, csc.Pair(obs.HS(en.Reply.S), kind+obs.N(uint64(n))+")"))
						}
					}
				}
			}
		}
		o := obs.Panic
		if out.pan == nil {
			o = obs.Ok("(inl " + obs.ListOf(out.multi, func(r csc.R) string { return r.Coq() }) + ")")
		}
		res.Coq = obs.App("CCluster", optin, "0%nat", obs.List(items), obs.List(slotsTab), obs.List(lkss), obs.List(srvts), obs.List(qts), obs.List(redir), o)
	}
	// evidence: a case exercises the property when at least two of {hit, wait, miss, duplicate} occur
	feat := map[string]bool{}
	seenKey := map[int]bool{}
	for _, j := range c.Batch {
		if seenKey[j] {
			feat["dup"] = true
		}
		seenKey[j] = true
		switch {
		case contains(c.Warm, j):
			feat["hit"] = true
		case contains(pendIdx, j):
			feat["wait"] = true
		default:
			feat["miss"] = true
		}
		if _, mv := movedTo[c.Keys[j].Name]; mv && !contains(c.Warm, j) {
			if askedKey[c.Keys[j].Name] {
				feat["asked"] = true
			} else {
				feat["moved"] = true
			}
		}
	}
	var fs []string
	for f := range feat {
		fs = append(fs, f)
	}
	sort.Strings(fs)
	res.Kind = c.Kind + ":" + strings.Join(fs, "+")
	if nwires > 1 {
		res.Kind += fmt.Sprintf(":mux%d", nwires)
	}
	res.Nontrivial = len(feat) >= 2 && len(c.Batch) >= 2
	raw, _ := json.Marshal(c)
	res.Sig = string(raw)
	return
}


// ---- DoCache(MGET / JSON.MGET) whose rewritten request fails: result and cancelled flights (recording store) ----

func runMGetFail(c Case) (res obs.Result) {
	res.Kind = "mgetfail:" + c.Fail
	res.Site, res.Class = "pipe.go:doCacheMGet", "mget-failure-cancel"
	raw, _ := json.Marshal(c)
	res.Sig = string(raw)
	s := fakeredis.New()
	csc.RegisterJSON(s)
	for _, k := range c.Keys {
		put(s, k)
	}
	js := c.Path != ""
	cc, head := "GET", "MGET"
	if js {
		cc, head = "JSON.GET"+c.Path, "JSON.MGET"
	}
	var names []string
	for _, j := range c.Batch {
		names = append(names, c.Keys[j].Name)
	}
	var pendKeys []string
	for _, j := range c.Pend {
		if !contains(c.Warm, j) {
			pendKeys = append(pendKeys, c.Keys[j].Name)
		}
	}
	warm := map[string]bool{}
	for _, j := range c.Warm {
		warm[c.Keys[j].Name] = true
	}
	pend := map[string]bool{}
	for _, k := range pendKeys {
		pend[k] = true
	}
	var misses []string // first occurrences, in order
	seen := map[string]bool{}
	for _, n := range names {
		if !warm[n] && !pend[n] && !seen[n] {
			seen[n] = true
			misses = append(misses, n)
		}
	}
	hold := csc.NewHold(pendKeys)
	injected := false
	s.Fault = func(cn *fakeredis.Conn, cseq int, argv []string) fakeredis.Action {
		hold.Fault(cn, cseq, argv)
		reject := false
		switch c.Fail {
		case "abortcmd":
			reject = argv[0] == head && cn.CscInMulti()
		case "abortpttl":
			reject = len(misses) > 0 && argv[0] == "PTTL" && len(argv) == 2 && argv[1] == misses[0] && cn.CscInMulti() && len(cn.CscQueued()) == 0
		}
		if reject && !injected {
			injected = true
			cn.CscPoison()
			v := fakeredis.Error("ERR injected")
			return fakeredis.Action{Override: &v}
		}
		return fakeredis.Action{}
	}
	if c.Fail == "experr" {
		mg := s.CscHandler(head)
		s.Handle(head, func(cn *fakeredis.Conn, a []string) fakeredis.V {
			if !injected {
				injected = true
				return fakeredis.Error("ERR failure at execution time")
			}
			return mg(cn, a)
		})
	}
	rec := csc.NewRecorder(nil)
	A, err := csc.SingleClient(s, -1, false, c.BCast, func(o *rueidis.ClientOption) { o.NewCacheStoreFn = rec.Store })
	if err != nil {
		res.Oracle = "harness: " + err.Error()
		return
	}
	defer A.Close()
	defer hold.Release()
	ctx, cancel := context.WithTimeout(context.Background(), 40*time.Second)
	defer cancel()
	one := func(k string) rueidis.Cacheable {
		if js {
			return A.B().JsonGet().Key(k).Path(c.Path).Cache()
		}
		return A.B().Get().Key(k).Cache()
	}
	lk := map[string]string{}
	for _, j := range c.Warm {
		k := c.Keys[j].Name
		r := csc.FromResult(A.DoCache(ctx, one(k), ttl))
		if r.Err != "" {
			res.Oracle, res.Class = "harness: warm-up: "+r.Err, "harness"
			return
		}
		lk[k] = "(LHit " + r.V.Coq() + ")"
	}
	pendCh := make(chan []csc.R, 1)
	if len(pendKeys) > 0 {
		var cts []rueidis.CacheableTTL
		for _, k := range pendKeys {
			cts = append(cts, rueidis.CT(one(k), ttl))
		}
		go func() {
			var out []csc.R
			for _, r := range A.DoMultiCache(ctx, cts...) {
				out = append(out, csc.FromResult(r))
			}
			pendCh <- out
		}()
		if !hold.WaitSignals(1, 20*time.Second) {
			res.Oracle, res.Class = "harness: pending flight did not reach the server", "harness"
			return
		}
	}
	var cmd rueidis.Cacheable
	argv := append([]string{head}, names...)
	if js {
		cmd = A.B().JsonMget().Key(names...).Path(c.Path).Cache()
		argv = append(argv, c.Path)
	} else {
		cmd = A.B().Mget().Key(names...).Cache()
	}
	mark := rec.Len()
	outCh := make(chan csc.R, 1)
	go func() { outCh <- csc.FromResult(A.DoCache(ctx, cmd, ttl)) }()
	nf := func(evs []csc.StoreEvent) (n int) {
		for _, e := range evs {
			if e.Op == "flight" {
				n++
			}
		}
		return
	}
	if !rec.WaitFor(mark, 20*time.Second, func(evs []csc.StoreEvent) bool { return nf(evs) >= len(names) }) {
		res.Oracle, res.Class = "harness: the MGET did not look its keys up", "harness"
		return
	}
	hold.Release()
	var out csc.R
	select {
	case out = <-outCh:
	case <-time.After(30 * time.Second):
		res.Oracle, res.Class = "the MGET call did not return", "hang"
		return
	}
	if len(pendKeys) > 0 {
		select {
		case po := <-pendCh:
			for i, k := range pendKeys {
				lk[k] = "(LWait " + po[i].Coq() + ")"
			}
		case <-time.After(30 * time.Second):
			res.Oracle, res.Class = "pending call did not return", "hang"
			return
		}
	}
	var cancelled []string
	for _, e := range rec.Since(mark) {
		if e.Op == "cancel" {
			cancelled = append(cancelled, e.Key)
		}
	}
	res.Obs = map[string]any{"result": out.View(), "cancelled": cancelled, "misses": misses}
	// oracle
	switch {
	case len(misses) == 0:
		if len(cancelled) != 0 || strings.HasPrefix(out.View(), "E:") {
			res.Oracle = fmt.Sprintf("nothing was sent, yet result %s / cancelled %v", out.View(), cancelled)
		}
	case !strings.HasPrefix(out.View(), "E:"):
		res.Oracle = "the rewritten request failed but the call returned " + out.View()
	case strings.Join(cancelled, "\x00") != strings.Join(misses, "\x00"):
		res.Oracle = fmt.Sprintf("the failed call started flights for %q but cancelled %q", misses, cancelled)
	default:
		for _, k := range misses {
			c2, cancel2 := context.WithTimeout(ctx, 3*time.Second)
			r := csc.FromResult(A.DoCache(c2, one(k), ttl))
			cancel2()
			if r.Err != "" {
				res.Oracle = fmt.Sprintf("a later read of %q ended with %s (its failed flight was neither woken nor removed)", k, r.Err)
				res.Class = "dead-flight"
				break
			}
		}
	}
	// Gallina
	var lks []string
	var ns []string
	for n := range lk {
		ns = append(ns, n)
	}
	sort.Strings(ns)
	for _, n := range ns {
		lks = append(lks, csc.Pair(csc.CK(n, cc), lk[n]))
	}
	srvt, qt := srvTable(s.LogCopy())
	res.Coq = obs.App("CMGetFail", obs.Bool(!c.BCast), csc.Argv(argv), obs.List(lks), srvt, qt, obs.Ok(out.Coq()), obs.ListOf(cancelled, obs.HS))
	res.Nontrivial = len(misses) > 0 && (len(c.Warm) > 0 || len(pendKeys) > 0)
	return
}

func ckOf(c *Case, name string) (string, string) {
	if c.Kind == "jmget" {
		return name, "JSON.GET" + c.Path
	}
	return name, "GET"
}

// ---- helper.go doMultiCache through MGetCache with a client whose DoMultiCache is canned ----

type cannedClient struct {
	rueidis.Client
	resps []rueidis.RedisResult
	seen  [][]string
}

func (f *cannedClient) DoMultiCache(ctx context.Context, multi ...rueidis.CacheableTTL) []rueidis.RedisResult {
	for _, m := range multi {
		f.seen = append(f.seen, append([]string(nil), m.Cmd.Commands()...))
	}
	return append([]rueidis.RedisResult(nil), f.resps...)
}

func runHelper(c Case) (res obs.Result) {
	res.Kind = "helper"
	res.Site, res.Class = "helper.go:doMultiCache", "key-map"
	s := fakeredis.New()
	base, err := csc.SingleClient(s, -1, false, false, nil)
	if err != nil {
		res.Oracle = "harness: " + err.Error()
		return
	}
	defer base.Close()
	fc := &cannedClient{Client: base}
	var rs []csc.R
	for _, h := range c.HResps {
		var r rueidis.RedisResult
		switch h.Kind {
		case "val":
			r = mock.Result(mock.RedisString(h.S))
		case "nil":
			r = mock.Result(mock.RedisNil())
		case "rerr":
			r = mock.Result(mock.RedisError(h.S))
		default:
			r = mock.ErrorResult(errors.New(h.S))
		}
		fc.resps = append(fc.resps, r)
		rs = append(rs, csc.FromResult(r))
	}
	var got map[string]rueidis.RedisMessage
	var gerr error
	pan := false
	func() {
		defer func() {
			if p := recover(); p != nil {
				pan = true
			}
		}()
		got, gerr = rueidis.MGetCache(fc, context.Background(), time.Minute, c.HKeys)
	}()
	// oracle
	firstErr := -1
	for i, h := range c.HResps {
		if h.Kind == "err" {
			firstErr = i
			break
		}
	}
	want := map[string]string{}
	for i, k := range c.HKeys {
		if i < len(rs) {
			want[k] = rs[i].V.Dump()
		}
	}
	switch {
	case pan:
		res.Oracle = "panic"
	case len(c.HKeys) == 0:
		if gerr != nil || len(got) != 0 {
			res.Oracle = "empty key list must give an empty map"
		}
	case firstErr >= 0:
		if gerr == nil || got != nil {
			res.Oracle = "a failed request must make the helper return the error and no map"
		}
	default:
		if gerr != nil {
			res.Oracle = "unexpected error " + gerr.Error()
		} else if len(got) != len(want) {
			res.Oracle = fmt.Sprintf("map has %d keys, want %d", len(got), len(want))
		} else {
			for k, w := range want {
				g, ok := got[k]
				if !ok || csc.FromMsg(g).Dump() != w {
					res.Oracle = fmt.Sprintf("key %q maps to %v, want %s", k, csc.FromMsg(g).Dump(), w)
					break
				}
			}
		}
		for i, k := range c.HKeys {
			if i >= len(fc.seen) || len(fc.seen[i]) != 2 || fc.seen[i][0] != "GET" || fc.seen[i][1] != k {
				res.Oracle = fmt.Sprintf("command %d is not GET %q", i, k)
			}
		}
	}
	// Gallina
	if len(c.HKeys) > 0 {
		o := obs.Panic
		if !pan {
			if gerr != nil {
				o = obs.Ok("(inr " + csc.R{Err: csc.ErrKind(gerr)}.ErrCoq() + ")")
			} else {
				var kvs []string
				seen := map[string]bool{}
				for _, k := range c.HKeys {
					if !seen[k] {
						seen[k] = true
						kvs = append(kvs, csc.Pair(obs.HS(k), csc.FromMsg(got[k]).Coq()))
					}
				}
				o = obs.Ok("(inl " + obs.List(kvs) + ")")
			}
		}
		res.Coq = obs.App("CHelper", obs.ListOf(c.HKeys, obs.HS), obs.ListOf(rs, func(r csc.R) string { return r.Coq() }), o)
	}
	res.Nontrivial = len(c.HKeys) >= 2
	raw, _ := json.Marshal(c)
	res.Sig = string(raw)
	return
}

func main() {
	obs.Main(obs.Runner{
		Name: "obs_batch", Salt: 11,
		Gen: genCase,
		Decode: func(raw json.RawMessage) (any, error) {
			var c Case
			err := json.Unmarshal(raw, &c)
			return c, err
		},
		Run: run,
	})
}
