// obs_pool: C24 / C05 (pool half) — runs the real blocking pool (pool.go, built with -tags verif) under
// concurrent acquirers with live / cancellable / cancelled contexts, failing dials, wires whose timer
// cannot be stopped, broken and expiring idle wires, the idle clean-up timer and Close; records the
// event trace emitted by the hooks (each under the pool mutex unless stated otherwise in
// zz_verif_lts_ev.go) and prints it as a Gallina `Pool.case` for replay through the LTS.
//
// Direct oracles on the implementation (independent of the Coq model):
//   - live connections (made minus closed) never exceed the capacity;
//   - no wire is handed to two holders;
//   - a waiter whose context is cancelled returns within a bound, and returns the context error;
//   - nobody stays blocked in Acquire at the end of a program in which every holder stores its wire;
//   - after Close returned, Acquire hands out only wires with an error;
//   - at quiescence (everything stored, not closed) size == len(idle) and 0 <= size <= cap;
//   - DoStream / DoMultiStream give back the slot they acquired on every path (scripted, through mux).
package main

import (
	"context"
	"crypto/sha1"
	"encoding/json"
	"errors"
	"fmt"
	"sort"
	"strings"
	"sync"
	"sync/atomic"
	"time"

	"github.com/redis/rueidis"

	"verifharness/gen"
	"verifharness/obs"
)

// harness-level event kinds (>= 100)
const (
	hvCtxCancel      = 100 // a = tid, performed under the pool mutex
	hvWBreak         = 101 // a = wire id (idle wire: under the pool mutex)
	hvWExpire        = 102 // a = wire id (under the pool mutex)
	hvCtxCancelYield = 103 // a = tid, performed by the waiter itself at the yield point (it holds the mutex)
	hvWBreakHeld     = 104 // a = wire id, by the holder before it stores the wire
)

// pool.go event kinds (copied from zz_verif_lts_ev.go; the values are part of the hook contract)
const (
	evAcqEnter    = 1
	evAcqArm      = 2
	evAcqPark     = 3
	evAcqWake     = 4
	evAcqCtxDead  = 5
	evAcqDown     = 6
	evAcqMake     = 7
	evMakeOk      = 8
	evMakeBad     = 9
	evPopBad      = 10
	evPopOk       = 11
	evPoolState   = 12
	evStoreIdle   = 13
	evStoreDrop   = 14
	evSigPre      = 15
	evCloseCS     = 16
	evIdleCleanup = 17
	evCtxBcast    = 18
	evAcqReturn   = 19
	evStoreSkip   = 21
)

type Acq struct {
	Ctx     string `json:"ctx"` // bg | live | done | cancel | yield
	PreUs   int    `json:"pre,omitempty"`
	DelayUs int    `json:"delay,omitempty"` // cancel: microseconds after the call started
	HoldUs  int    `json:"hold,omitempty"`
	Break   bool   `json:"brk,omitempty"` // the holder closes the wire before storing it (mux.blocking on error)
}

type Make struct {
	Res     string `json:"res"` // ok | dead | err | nostop
	DelayUs int    `json:"delay,omitempty"`
}

type Ctl struct {
	AtUs int    `json:"at"`
	Op   string `json:"op"` // close | break | expire
}

type Case struct {
	Kind      string  `json:"kind"` // random | d6 | d8 | d14 | d7 | d7multi
	Cap       int     `json:"cap"`
	Min       int     `json:"min"`
	CleanupUs int     `json:"cleanup,omitempty"`
	Threads   [][]Acq `json:"threads,omitempty"`
	Makes     []Make  `json:"makes,omitempty"`
	Ctl       []Ctl   `json:"ctl,omitempty"`
	Gosched   int     `json:"gosched,omitempty"` // 1 in n yields at the hook yield points
}

func genCase(r *gen.Rand, i int) any {
	// the scripted scenarios run first on every invocation
	switch i {
	case 0:
		return Case{Kind: "d6", Cap: 1}
	case 1:
		return Case{Kind: "d8", Cap: 1}
	case 2:
		return Case{Kind: "d14", Cap: 1}
	case 3:
		return Case{Kind: "d7", Cap: 1}
	case 4:
		return Case{Kind: "d7multi", Cap: 1}
	}
	c := Case{Kind: "random", Cap: r.Range(1, 3)}
	if r.Chance(1, 3) {
		c.Min = r.Range(0, 2)
		c.CleanupUs = gen.Pick(r, []int{200, 500, 1500})
	}
	nt := r.Range(2, 5)
	if r.Chance(1, 6) {
		nt = r.Range(5, 8)
	}
	ctxKinds := []string{"bg", "bg", "live", "done", "cancel", "cancel", "yield", "yield"}
	for t := 0; t < nt; t++ {
		var ops []Acq
		for k := r.Range(1, 4); k > 0; k-- {
			a := Acq{Ctx: gen.Pick(r, ctxKinds)}
			if r.Chance(1, 2) {
				a.PreUs = r.Intn(300)
			}
			if a.Ctx == "cancel" {
				a.DelayUs = gen.Pick(r, []int{0, 20, 100, 300, 800})
			}
			a.HoldUs = gen.Pick(r, []int{0, 0, 50, 200, 600})
			a.Break = r.Chance(1, 6)
			ops = append(ops, a)
		}
		c.Threads = append(c.Threads, ops)
	}
	nm := r.Range(1, 6)
	for j := 0; j < nm; j++ {
		m := Make{Res: gen.Pick(r, []string{"ok", "ok", "ok", "ok", "dead", "err", "nostop"})}
		if r.Chance(1, 2) {
			m.DelayUs = gen.Pick(r, []int{20, 100, 400})
		}
		c.Makes = append(c.Makes, m)
	}
	// a make table in which every entry is "nostop" makes Acquire retry for ever (environment livelock, not a pool property)
	allBad := true
	for _, m := range c.Makes {
		allBad = allBad && m.Res == "nostop"
	}
	if allBad {
		c.Makes[0].Res = "ok"
	}
	if r.Chance(1, 4) {
		c.Ctl = append(c.Ctl, Ctl{AtUs: r.Intn(1500), Op: "close"})
	}
	for k := r.Intn(3); k > 0; k-- {
		c.Ctl = append(c.Ctl, Ctl{AtUs: r.Intn(1500), Op: gen.Pick(r, []string{"break", "expire"})})
	}
	sort.SliceStable(c.Ctl, func(a, b int) bool { return c.Ctl[a].AtUs < c.Ctl[b].AtUs })
	c.Gosched = gen.Pick(r, []int{0, 1, 2, 4})
	return c
}

func decode(raw json.RawMessage) (any, error) {
	var c Case
	if err := json.Unmarshal(raw, &c); err != nil {
		return nil, err
	}
	if c.Cap <= 0 {
		c.Cap = 1
	}
	return c, nil
}

// ---- running a program on the real pool ----

type acqState struct {
	tid       int
	spec      Acq
	cancel    context.CancelFunc
	once      sync.Once
	cancelled atomic.Int64 // unix nanos of the cancellation, 0 = not cancelled
	returned  atomic.Int64
	inAcquire atomic.Bool
}

type runner struct {
	c        Case
	vp       *rueidis.VerifPool
	mu       sync.Mutex
	wires    map[int]*rueidis.VerifWire
	bornBad  map[int]bool
	counted  map[int]bool // wires that are connections (not born with an error)
	makeIdx  atomic.Int64
	maxLive  int
	holder   sync.Map // wire id -> tid
	acqs     sync.Map // tid -> *acqState
	problems []string
	closed   atomic.Bool // Close() has returned
	yieldCtr atomic.Int64
}

func (rn *runner) problem(format string, a ...any) {
	rn.mu.Lock()
	rn.problems = append(rn.problems, fmt.Sprintf(format, a...))
	rn.mu.Unlock()
}

func sleepUs(us int) {
	if us <= 0 {
		return
	}
	if us < 100 {
		t := time.Now()
		for time.Since(t) < time.Duration(us)*time.Microsecond {
			// spin: short waits must not be rounded up by the timer granularity
		}
		return
	}
	time.Sleep(time.Duration(us) * time.Microsecond)
}

func (rn *runner) liveNow() int {
	n := 0
	for id, w := range rn.wires {
		if rn.counted[id] && w.Closes() == 0 {
			n++
		}
	}
	return n
}

func (rn *runner) makeFn(ctx context.Context) *rueidis.VerifWire {
	idx := int(rn.makeIdx.Add(1))
	m := Make{Res: "ok"}
	if len(rn.c.Makes) > 0 {
		m = rn.c.Makes[(idx-1)%len(rn.c.Makes)]
	}
	sleepUs(m.DelayUs)
	if m.Res == "dead" {
		return nil
	}
	w := rueidis.NewVerifWire(idx, m.Res == "err", m.Res == "nostop")
	rn.mu.Lock()
	rn.wires[idx] = w
	rn.bornBad[idx] = m.Res == "err"
	rn.counted[idx] = m.Res != "err"
	if l := rn.liveNow(); l > rn.maxLive {
		rn.maxLive = l
	}
	rn.mu.Unlock()
	return w
}

func (rn *runner) cancelLocked(a *acqState) {
	a.once.Do(func() {
		rn.vp.Locked(func() {
			rueidis.VerifEmit(hvCtxCancel, a.tid, 0)
			a.cancelled.Store(time.Now().UnixNano())
			a.cancel()
		})
	})
}

func (rn *runner) yield(kind, tid int) {
	if kind == rueidis.VerifEvAcqPark {
		if v, ok := rn.acqs.Load(tid); ok {
			a := v.(*acqState)
			if a.spec.Ctx == "yield" {
				fired := false
				a.once.Do(func() {
					fired = true
					rueidis.VerifEmit(hvCtxCancelYield, a.tid, 0)
					a.cancelled.Store(time.Now().UnixNano())
					a.cancel()
				})
				if fired {
					// give the cancellation goroutine time to run before this thread calls cond.Wait
					time.Sleep(300 * time.Microsecond)
					return
				}
			}
		}
	}
	if g := rn.c.Gosched; g > 0 && rn.yieldCtr.Add(1)%int64(g) == 0 {
		time.Sleep(20 * time.Microsecond)
	}
}

func (rn *runner) worker(ti int, ops []Acq, wg *sync.WaitGroup) {
	defer wg.Done()
	for k, op := range ops {
		tid := (ti+1)*100 + k + 1
		a := &acqState{tid: tid, spec: op}
		var ctx context.Context
		if op.Ctx == "bg" {
			ctx = rueidis.VerifWithTid(context.Background(), tid)
			a.cancel = func() {}
		} else {
			c, cancel := context.WithCancel(context.Background())
			a.cancel = cancel
			ctx = rueidis.VerifWithTid(c, tid)
		}
		rn.acqs.Store(tid, a)
		var tm *time.Timer
		var fired chan struct{}
		sleepUs(op.PreUs)
		switch op.Ctx {
		case "done":
			rn.cancelLocked(a)
		case "cancel":
			d := time.Duration(op.DelayUs) * time.Microsecond
			fired = make(chan struct{})
			tm = time.AfterFunc(d, func() { rn.cancelLocked(a); close(fired) })
		}
		afterClose := rn.closed.Load()
		a.inAcquire.Store(true)
		h := rn.vp.Acquire(ctx)
		a.returned.Store(time.Now().UnixNano())
		a.inAcquire.Store(false)
		id := h.ID()
		if afterClose && h.Err() == nil {
			rn.problem("after-close: Acquire started after Close returned handed out wire %d without an error", id)
		}
		if id == rueidis.VerifCtxDeadID {
			if !errors.Is(h.Err(), context.Canceled) {
				rn.problem("ctx-error: dead pipe for a done context carries %v", h.Err())
			}
			if a.cancelled.Load() == 0 {
				rn.problem("ctx-error: context error handed out although the context of %d was never cancelled", tid)
			}
		}
		if id > 0 {
			if prev, loaded := rn.holder.LoadOrStore(id, tid); loaded {
				rn.problem("two-holders: wire %d handed to %d while %v holds it", id, tid, prev)
			}
		}
		sleepUs(op.HoldUs)
		if op.Break && id > 0 {
			rueidis.VerifEmit(hvWBreakHeld, id, 0)
			h.Close()
		}
		if id > 0 {
			rn.holder.Delete(id)
		}
		rn.vp.Store(h)
		if tm != nil && !tm.Stop() {
			<-fired // the cancellation is running or has run: its event belongs to this case
		}
		a.cancel()
	}
}

func (rn *runner) controller(start time.Time, wg *sync.WaitGroup) {
	defer wg.Done()
	for _, op := range rn.c.Ctl {
		if d := time.Until(start.Add(time.Duration(op.AtUs) * time.Microsecond)); d > 0 {
			time.Sleep(d)
		}
		switch op.Op {
		case "close":
			rn.vp.Close()
			rn.closed.Store(true)
		case "break", "expire":
			rn.vp.LockedIdle(func(idle []*rueidis.VerifWire) {
				if len(idle) == 0 {
					return
				}
				w := idle[len(idle)-1]
				if op.Op == "break" {
					rueidis.VerifEmit(hvWBreak, w.ID(), 0)
					w.Break()
				} else {
					rueidis.VerifEmit(hvWExpire, w.ID(), 0)
					w.Expire()
				}
			})
		}
	}
}

const cancelBound = 1500 * time.Millisecond
const stuckBound = 4 * time.Second

// runProgram executes the case and returns the trace, the final snapshot and the oracle verdict.
func runProgram(c Case) (evs []rueidis.VerifEvent, rn *runner, stuck []int) {
	rn = &runner{c: c, wires: map[int]*rueidis.VerifWire{}, bornBad: map[int]bool{}, counted: map[int]bool{}}
	rn.vp = rueidis.NewVerifPool(c.Cap, time.Duration(c.CleanupUs)*time.Microsecond, c.Min, rn.makeFn)
	defer rn.vp.Forget()
	rueidis.VerifSetYield(rn.yield)
	defer rueidis.VerifSetYield(nil)
	rueidis.VerifTraceStart()
	var wg, cwg sync.WaitGroup
	start := time.Now()
	for ti, ops := range c.Threads {
		wg.Add(1)
		go rn.worker(ti, ops, &wg)
	}
	cwg.Add(1)
	go rn.controller(start, &cwg)
	done := make(chan struct{})
	go func() { wg.Wait(); close(done) }()
	select {
	case <-done:
	case <-time.After(stuckBound):
		rn.acqs.Range(func(k, v any) bool {
			if a := v.(*acqState); a.inAcquire.Load() {
				stuck = append(stuck, a.tid)
			}
			return true
		})
		sort.Ints(stuck)
		// free the goroutines so that the process can go on
		rn.vp.Close()
		select {
		case <-done:
		case <-time.After(time.Second):
		}
	}
	cwg.Wait()
	// let a pending clean-up timer fire so that its event is inside the trace
	if c.CleanupUs > 0 {
		for dl := time.Now().Add(2 * time.Second); rn.vp.TimerOn() && time.Now().Before(dl); {
			time.Sleep(100 * time.Microsecond)
		}
	}
	// cancellation goroutines of calls that returned with a cancelled context may still broadcast
	time.Sleep(200 * time.Microsecond)
	evs = rueidis.VerifTraceStop()
	return evs, rn, stuck
}

func (rn *runner) oracle(stuck []int) (msg, class string) {
	var ps []string
	cls := ""
	add := func(c, m string) {
		ps = append(ps, m)
		if cls == "" {
			cls = c
		}
	}
	if len(stuck) > 0 {
		cancelled := false
		for _, t := range stuck {
			if v, ok := rn.acqs.Load(t); ok && v.(*acqState).cancelled.Load() != 0 {
				cancelled = true
			}
		}
		if cancelled {
			add("cancelled-waiter-not-woken", fmt.Sprintf("calls %v still blocked in Acquire %v after the program ended; a blocked call has a cancelled context", stuck, stuckBound))
		} else {
			add("waiter-not-woken", fmt.Sprintf("calls %v still blocked in Acquire %v after every holder stored its wire", stuck, stuckBound))
		}
	}
	rn.acqs.Range(func(k, v any) bool {
		a := v.(*acqState)
		cn, rt := a.cancelled.Load(), a.returned.Load()
		if cn != 0 && rt != 0 && rt > cn && time.Duration(rt-cn) > cancelBound {
			add("cancelled-waiter-late", fmt.Sprintf("call %d returned %v after its context was cancelled", a.tid, time.Duration(rt-cn)))
		}
		return true
	})
	rn.mu.Lock()
	for _, p := range rn.problems {
		add(strings.SplitN(p, ":", 2)[0], p)
	}
	if rn.maxLive > rn.c.Cap {
		add("cap-exceeded", fmt.Sprintf("%d live connections with capacity %d", rn.maxLive, rn.c.Cap))
	}
	rn.mu.Unlock()
	size, idle, down := rn.vp.Snapshot()
	if len(stuck) == 0 && !down {
		if size != len(idle) {
			add("size-accounting", fmt.Sprintf("at quiescence size=%d but %d idle wires and nothing handed out", size, len(idle)))
		}
		if size < 0 || size > rn.c.Cap {
			add("size-accounting", fmt.Sprintf("size=%d outside [0,%d]", size, rn.c.Cap))
		}
	}
	seen := map[int]bool{}
	for _, id := range idle {
		if seen[id] {
			add("two-holders", fmt.Sprintf("wire %d is twice in the idle list", id))
		}
		seen[id] = true
	}
	return strings.Join(ps, " | "), cls
}

// ---- trace -> Gallina ----

func wireTerm(id int, dead string) string {
	switch {
	case id > 0:
		return fmt.Sprintf("(Real %d)", id)
	case id == rueidis.VerifSharedDeadID:
		return dead
	}
	return "CtxDead"
}

type translator struct {
	digits   []uint64
	out      []string
	kinds    map[string]int
	parked   map[int]bool
	woken    map[int]bool
	credits  int
	pending  int // tid whose AcqPark label is still to be emitted, 0 = none
	curLabel string
	curK     [3]int
	curFlag  bool
	curGot   string
	awaitSt  bool
	cntDead  int
	uncDead  int
	bornBad  map[int]bool
	err      string
	parks    int
	cancels  int
}

// wireCode: 0 none, 1 DeadMade, 2 DeadDown, 3 CtxDead, 4 + id Real id
func wireCode(term string) uint64 {
	switch {
	case term == "":
		return 0
	case term == "DeadMade":
		return 1
	case term == "DeadDown":
		return 2
	case term == "CtxDead":
		return 3
	}
	var id int
	fmt.Sscanf(term, "(Real %d)", &id)
	return uint64(4 + id)
}

// emit records one step: readable Gallina text and the packed number
// kind (4 bits), a (12), b (10), flag (1), size + 33 or 0 (7), returned wire (10)
func (t *translator) emit(kind, a, b int, flag bool, label string, size *int, got string) {
	k := strings.Fields(strings.Trim(label, "()"))[0]
	t.kinds[k]++
	d := uint64(kind) | uint64(a)<<4 | uint64(b)<<16
	if flag {
		d |= 1 << 26
	}
	switch {
	case size == nil:
		t.out = append(t.out, fmt.Sprintf("mk %s", label))
	case got == "":
		t.out = append(t.out, fmt.Sprintf("mks %s %s", label, obs.Z(int64(*size))))
	default:
		t.out = append(t.out, fmt.Sprintf("mkg %s %s %s", label, obs.Z(int64(*size)), got))
	}
	if size != nil {
		if *size < -32 || *size > 90 {
			t.err = fmt.Sprintf("size %d cannot be encoded", *size)
		}
		d |= uint64(*size+33) << 27
	}
	d |= wireCode(got) << 34
	t.digits = append(t.digits, d)
}

func (t *translator) flush() {
	if t.pending != 0 {
		t.emit(1, t.pending, 0, false, fmt.Sprintf("(AcqPark %d)", t.pending), nil, "")
		t.parked[t.pending] = true
		t.pending = 0
	}
}

func (t *translator) wakeAll() {
	for k := range t.parked {
		t.woken[k] = true
		delete(t.parked, k)
	}
}

func translate(evs []rueidis.VerifEvent, bornBad map[int]bool) *translator {
	t := &translator{kinds: map[string]int{}, parked: map[int]bool{}, woken: map[int]bool{}, bornBad: bornBad}
	for _, e := range evs {
		lockfree := e.Kind == evMakeOk || e.Kind == evAcqReturn || e.Kind == evSigPre || e.Kind == evStoreSkip ||
			e.Kind == hvCtxCancelYield || e.Kind == hvWBreakHeld || e.Kind == evAcqArm
		if !lockfree && !(t.pending != 0 && e.Kind == evAcqPark) {
			t.flush()
		}
		a, b := e.A, e.B
		switch e.Kind {
		case evAcqEnter:
			t.curLabel = fmt.Sprintf("(AcqEnter %d %s)", a, obs.Bool(b == 1))
			t.curK, t.curFlag = [3]int{0, a, 0}, b == 1
		case evAcqArm, evPopBad:
		case evAcqWake:
			if t.parked[a] {
				t.emit(9, a, 0, false, fmt.Sprintf("(Signal (Some %d%%nat))", a), nil, "")
				t.credits--
				delete(t.parked, a)
			}
			delete(t.woken, a)
			t.curLabel = fmt.Sprintf("(AcqWake %d)", a)
			t.curK, t.curFlag = [3]int{2, a, 0}, false
		case evMakeBad:
			t.curLabel = fmt.Sprintf("(MakeBad %d %d)", a, b)
			t.curK, t.curFlag = [3]int{4, a, b + 1}, false
		case evAcqPark:
			t.emit(t.curK[0], t.curK[1], t.curK[2], t.curFlag, t.curLabel, &b, "")
			t.pending = a
			t.parks++
		case evAcqCtxDead:
			t.emit(t.curK[0], t.curK[1], t.curK[2], t.curFlag, t.curLabel, &b, "CtxDead")
		case evAcqDown:
			t.emit(t.curK[0], t.curK[1], t.curK[2], t.curFlag, t.curLabel, &b, "DeadDown")
			t.uncDead++
		case evAcqMake:
			t.emit(t.curK[0], t.curK[1], t.curK[2], t.curFlag, t.curLabel, &b, "")
		case evPopOk:
			t.curGot = fmt.Sprintf("(Real %d)", b)
			t.awaitSt = true
		case evPoolState:
			if !t.awaitSt {
				t.err = "PoolState without a preceding PopOk / Store event"
				return t
			}
			t.awaitSt = false
			t.emit(t.curK[0], t.curK[1], t.curK[2], t.curFlag, t.curLabel, &a, t.curGot)
			t.curGot = ""
		case evMakeOk:
			if b == rueidis.VerifSharedDeadID {
				t.emit(3, a, 0, false, fmt.Sprintf("(MakeOk %d None false)", a), nil, "")
				t.cntDead++
			} else {
				t.emit(3, a, b+1, t.bornBad[b], fmt.Sprintf("(MakeOk %d (Some %d%%nat) %s)", a, b, obs.Bool(t.bornBad[b])), nil, "")
			}
		case evAcqReturn:
			t.emit(5, a, 0, false, fmt.Sprintf("(AcqReturn %d)", a), nil, "")
		case evStoreIdle, evStoreDrop:
			dead := "DeadDown"
			if a == rueidis.VerifSharedDeadID {
				if t.cntDead > 0 {
					dead = "DeadMade"
					t.cntDead--
				} else {
					t.uncDead--
				}
			}
			t.curLabel = fmt.Sprintf("(Store %s)", wireTerm(a, dead))
			t.curK, t.curFlag = [3]int{8, 0, int(wireCode(wireTerm(a, dead)))}, false
			t.curGot = ""
			t.awaitSt = true
		case evStoreSkip:
			t.emit(8, 0, 3, false, "(Store CtxDead)", nil, "")
		case evSigPre:
			t.credits++
		case evCloseCS:
			t.emit(10, 0, 0, false, "(CloseCS false)", &a, "")
			t.emit(11, 0, 0, false, "CloseBcast", nil, "")
			t.wakeAll()
		case evIdleCleanup:
			t.emit(12, 0, 0, false, "IdleCleanup", &a, "")
		case evCtxBcast:
			t.emit(7, a, 0, false, fmt.Sprintf("(Bcast %d)", a), nil, "")
			t.wakeAll()
		case hvCtxCancel, hvCtxCancelYield:
			t.emit(6, a, 0, false, fmt.Sprintf("(CtxCancel %d)", a), nil, "")
			t.cancels++
		case hvWBreak, hvWBreakHeld:
			t.emit(13, 0, a+1, false, fmt.Sprintf("(WBreak %d)", a), nil, "")
		case hvWExpire:
			t.emit(14, 0, a+1, false, fmt.Sprintf("(WExpire %d)", a), nil, "")
		default:
			t.err = fmt.Sprintf("unknown event kind %d", e.Kind)
			return t
		}
	}
	t.flush()
	for ; t.credits > 0; t.credits-- {
		t.emit(9, 0, 0, false, "(Signal None)", nil, "")
	}
	return t
}

// ---- scripted scenarios (the defects predicted in DESIGN.md section 8, and D14 found by the model) ----

func scripted(c Case) Case {
	switch c.Kind {
	case "d6":
		// three acquisitions with an already cancelled context, each stored back; then four holders at once
		return Case{Kind: c.Kind, Cap: 1, Makes: []Make{{Res: "ok"}},
			Threads: [][]Acq{
				{{Ctx: "done"}, {Ctx: "done"}, {Ctx: "done"}},
				{{Ctx: "bg", PreUs: 3000, HoldUs: 3000}},
				{{Ctx: "bg", PreUs: 3000, HoldUs: 3000}},
				{{Ctx: "bg", PreUs: 3000, HoldUs: 3000}},
				{{Ctx: "bg", PreUs: 3000, HoldUs: 3000}},
			}}
	case "d8":
		// a holder keeps the only wire; a second caller finds the pool full and its context is cancelled
		// between the wait-condition check and cond.Wait.  The holder stores only after a long time.
		return Case{Kind: c.Kind, Cap: 1, Makes: []Make{{Res: "ok"}},
			Threads: [][]Acq{
				{{Ctx: "bg", HoldUs: int((cancelBound + 500*time.Millisecond) / time.Microsecond)}},
				{{Ctx: "yield", PreUs: 3000}},
			}}
	case "d14":
		// caller A is dialling (its slot is reserved), caller B waits with a background context; A's context is
		// cancelled and its new wire cannot stop its timer: A gives the slot back and leaves with the context
		// error.  B must then get a connection.
		return Case{Kind: c.Kind, Cap: 1, Makes: []Make{{Res: "nostop", DelayUs: 6000}, {Res: "ok"}},
			Threads: [][]Acq{
				{{Ctx: "cancel", DelayUs: 3000}},
				{{Ctx: "bg", PreUs: 1500}},
			}}
	}
	return c
}

// runStream drives mux.DoStream / DoMultiStream with a dial that outlives the context (D7).
func runStream(multi bool) (res obs.Result) {
	res.Kind = "d7"
	res.Site, res.Class = "pipe.go:DoStream/DoMultiStream", "stream-slot-leak"
	sizes, blocked, errs := rueidis.VerifStreamLeakScenario(multi, 3)
	res.Obs = map[string]any{"spool_size_after_each_call": sizes, "later_call_blocked": blocked, "errors": errs}
	res.Nontrivial = true
	res.Sig = fmt.Sprint("d7", multi)
	for _, s := range sizes {
		if s != 0 {
			res.Oracle = fmt.Sprintf("after DoStream calls whose dial outlived the context the pool counts %v connections, none is held or idle", sizes)
		}
	}
	if blocked {
		res.Oracle += " | a later DoStream with a live context blocked: the slot was never given back"
	}
	return res
}

// after a few stuck executions the remaining cases are skipped (each costs its time-out)
var stuckRuns int

func run(ci any) (res obs.Result) {
	c := ci.(Case)
	switch c.Kind {
	case "d7":
		return runStream(false)
	case "d7multi":
		return runStream(true)
	}
	c = scripted(c)
	if stuckRuns >= 3 {
		return obs.Result{Kind: "skipped-after-stuck", Sig: "skipped"}
	}
	evs, rn, stuck := runProgram(c)
	if len(stuck) > 0 {
		stuckRuns++
	}
	res.Kind = c.Kind
	res.Oracle, res.Class = rn.oracle(stuck)
	res.Site = "pool.go:Acquire/Store"
	size, idle, down := rn.vp.Snapshot()
	tr := translate(evs, rn.bornBad)
	ks := make([]string, 0, len(tr.kinds))
	for k, n := range tr.kinds {
		ks = append(ks, fmt.Sprintf("%s=%d", k, n))
	}
	sort.Strings(ks)
	res.Obs = map[string]any{"events": len(evs), "labels": strings.Join(ks, " "), "size": size, "idle": idle, "down": down, "max_live": rn.maxLive, "stuck": stuck}
	res.Nontrivial = tr.parks > 0 || tr.cancels > 0 || down
	res.Sig = fmt.Sprintf("%x", sha1.Sum([]byte(strings.Join(tr.out, ";"))))
	if tr.err != "" {
		res.Oracle += " | trace: " + tr.err
		return res
	}
	if len(stuck) > 0 {
		return res // the forced Close is not part of the program; the oracle has already failed
	}
	ridle := make([]string, len(idle))
	for i, id := range idle {
		ridle[len(idle)-1-i] = fmt.Sprint(id)
	}
	ds := make([]string, len(tr.digits))
	for i, d := range tr.digits {
		ds[i] = fmt.Sprint(d)
	}
	body := strings.Join(tr.out, "; ")
	if len(body) > 6000 {
		body = body[:6000] + " ..."
	}
	res.Obs.(map[string]any)["trace"] = body // readable Pool.tstep terms; the model gets the packed numbers
	res.Coq = fmt.Sprintf("(PoolEnc %s %d%%nat %s [%s]%%N %s [%s]%%nat %s)", obs.Z(int64(c.Cap)), c.Min, obs.Bool(c.CleanupUs > 0),
		strings.Join(ds, ";"), obs.Z(int64(size)), strings.Join(ridle, "; "), obs.Bool(down))
	return res
}

func main() {
	obs.Main(obs.Runner{Name: "obs_pool", Salt: 0x24, Gen: genCase, Decode: decode, Run: run})
}
