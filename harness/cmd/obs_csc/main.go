// obs_csc: end-to-end observer of client-side caching on a REAL client against the in-process server.
// Direct oracles (no model side yet) for
//
//	C06  no stale cached reply after invalidation   (-oracle c06)
//	C07  cache expiry = earlier of client and server TTL (-oracle c07)
//	C09  concurrent misses share one request          (-oracle c09)
//
// Scenarios: concurrent cached readers (DoCache, DoMultiCache, MGetCache) on one client, a writer on
// another client, per-key and flush invalidations, disconnects (Conn.Kill), injected errors / EXEC aborts,
// server PTTLs from {-2, -1, 0, 1, small, large} against small / large client TTLs.
// Ordering is decided with a logical clock (one atomic counter), never with wall-clock comparisons,
// except for C07 where the expiry instant is bracketed by two harness timestamps.
package main

import (
	"context"
	"encoding/json"
	"flag"
	"fmt"
	"os"
	"strconv"
	"strings"
	"sync"
	"sync/atomic"
	"time"

	"github.com/redis/rueidis"

	"verifharness/csc"
	"verifharness/fakeredis"
	"verifharness/gen"
	"verifharness/obs"
)

var oracleFlag = flag.String("oracle", "all", "which oracle family to run: c06 | c07 | c09 | all")

type KeyTTL struct {
	Name string `json:"n"`
	PTTL int64  `json:"pttl"`         // server PTTL answered for the key (-2: key missing, -1: no expiry)
	PX   bool   `json:"px,omitempty"` // the PTTL comes from SET ... PX on the virtual clock instead of a canned reply
}

type Case struct {
	Kind    string   `json:"kind"` // c06-inval c06-disc c07 c09-share c09-kill c09-abort
	Mux     int      `json:"mux"`
	Adapter bool     `json:"adapter,omitempty"`
	BCast   bool     `json:"bcast,omitempty"`
	Static  bool     `json:"static,omitempty"`
	NKeys   int      `json:"nkeys,omitempty"`
	Readers int      `json:"readers,omitempty"`
	Writes  int      `json:"writes,omitempty"`
	Flush   bool     `json:"flush,omitempty"`
	Seed    uint64   `json:"seed,omitempty"`
	Mode    string   `json:"mode,omitempty"` // c07: docache | multi | mget ; c09: docache | mixed
	TTLms   int64    `json:"ttlms,omitempty"`
	Keys    []KeyTTL `json:"keys,omitempty"`
	Callers int      `json:"callers,omitempty"`
	Arr     []string `json:"arr,omitempty"`  // c09-mget: per key of the MGET: hit | pend | miss
	Fail    string   `json:"fail,omitempty"` // c09-mget: abortcmd | abortpttl | experr | kill | ctx
}

func genCase(r *gen.Rand, i int) any {
	kinds := []string{}
	o := strings.ToLower(*oracleFlag)
	if o == "all" || o == "c06" {
		kinds = append(kinds, "c06-inval", "c06-inval", "c06-inval", "c06-disc")
	}
	if o == "all" || o == "c07" {
		kinds = append(kinds, "c07", "c07", "c07")
	}
	if o == "all" || o == "c09" {
		kinds = append(kinds, "c09-share", "c09-share", "c09-kill", "c09-abort", "c09-mget", "c09-mget", "c09-mget")
	}
	c := Case{Kind: gen.Pick(r, kinds), Seed: r.U64()}
	c.Adapter = r.Chance(1, 4)
	switch c.Kind {
	case "c06-inval":
		c.Mux = gen.Pick(r, []int{-1, -1, -1, 2})
		c.NKeys = r.Range(1, 5)
		c.Readers = r.Range(2, 5)
		c.Writes = r.Range(10, 60)
		c.Static = r.Chance(1, 4)
		if c.Mux < 0 {
			c.BCast = r.Chance(1, 4)
			c.Flush = r.Chance(1, 3)
		}
	case "c06-disc":
		c.Mux = -1
		c.NKeys = r.Range(1, 3)
	case "c07":
		c.Mux = -1
		c.Mode = gen.Pick(r, []string{"docache", "docache", "multi", "mget"})
		c.Static = c.Mode != "mget" && r.Chance(1, 4)
		c.TTLms = gen.Pick(r, []int64{120, 200, 350, 3600_000, 3600_000})
		n := 1
		if c.Mode != "docache" {
			n = r.Range(2, 4)
		}
		for j := 0; j < n; j++ {
			k := KeyTTL{Name: fmt.Sprintf("t%d", j)}
			k.PTTL = gen.Pick(r, []int64{-2, -1, 0, 1, int64(r.Range(40, 300)), int64(r.Range(40, 300)), 3600_000})
			if k.PTTL > 1 && r.Chance(1, 3) {
				k.PX = true
			}
			c.Keys = append(c.Keys, k)
		}
	case "c09-mget":
		// a partial MGET (every arrangement of hit / pending flight of another caller / miss over 2-3 keys, at
		// least one miss) whose rewritten request is made to fail in one of five ways
		c.Mux = -1
		for {
			n := r.Range(2, 3)
			c.Arr = c.Arr[:0]
			miss := false
			for j := 0; j < n; j++ {
				st := gen.Pick(r, []string{"hit", "pend", "miss", "miss"})
				c.Arr = append(c.Arr, st)
				miss = miss || st == "miss"
			}
			if miss {
				break
			}
		}
		c.Fail = gen.Pick(r, []string{"abortcmd", "abortpttl", "experr", "kill", "ctx", "ctx"})
	default: // c09
		c.Mux = gen.Pick(r, []int{-1, -1, 2})
		c.Callers = r.Range(2, 8)
		c.Mode = gen.Pick(r, []string{"docache", "mixed"})
		c.Static = c.Kind != "c09-abort" && r.Chance(1, 4)
		if c.Static {
			c.Mode = "docache"
		}
	}
	return c
}

var clk atomic.Int64

func tick() int64 { return clk.Add(1) }

func parseEpoch(v string) int64 {
	i := strings.LastIndexByte(v, '#')
	if i < 0 {
		return -1
	}
	n, err := strconv.ParseInt(v[i+1:], 10, 64)
	if err != nil {
		return -1
	}
	return n
}

func cacheable(cl rueidis.Client, key string, static bool) rueidis.Cacheable {
	cmd := cl.B().Get().Key(key).Cache()
	if static {
		cmd = cmd.ToStaticTTL()
	}
	return cmd
}

// ---------------------------------------------------------------- C06

type cbEvent struct {
	tick int64
	key  string          // "" = flush
	req  int64           // per-key: epoch written by the write that caused the push
	snap map[string]int64 // flush: epoch of every key after the flush
}

type readRec struct {
	start int64
	key   string
	epoch int64
	hit   bool
	isNil bool
	err   string
	op    string
}

type c06state struct {
	mu      sync.Mutex
	fifo    map[string][]int64
	flushes []map[string]int64
	cbCount map[string]int
	flushCb int
	events  []cbEvent
	problem string
}

func installWriteRecorder(s *fakeredis.Server, st *c06state, epochs func() map[string]int64) {
	set := s.CscHandler("SET")
	s.Handle("SET", func(c *fakeredis.Conn, a []string) fakeredis.V {
		// record before executing: the push may be processed by the client before the handler returns
		if len(a) == 3 {
			rec := s.CscRecipients(c, a[1])
			e := parseEpoch(a[2])
			st.mu.Lock()
			for range rec {
				st.fifo[a[1]] = append(st.fifo[a[1]], e)
			}
			st.mu.Unlock()
		}
		return set(c, a)
	})
	fl := s.CscHandler("FLUSHALL")
	s.Handle("FLUSHALL", func(c *fakeredis.Conn, a []string) fakeredis.V {
		rec := s.CscTrackingConns()
		snap := epochs()
		st.mu.Lock()
		for range rec {
			st.flushes = append(st.flushes, snap)
		}
		st.mu.Unlock()
		return fl(c, a)
	})
}

func (st *c06state) onInvalidations(msgs []rueidis.RedisMessage) {
	st.mu.Lock()
	defer st.mu.Unlock()
	t := tick()
	if msgs == nil {
		if st.flushCb >= len(st.flushes) {
			st.problem = "harness: flush callback without a recorded flush"
			return
		}
		st.events = append(st.events, cbEvent{tick: t, snap: st.flushes[st.flushCb]})
		st.flushCb++
		return
	}
	for _, m := range msgs {
		k, _ := m.ToString()
		i := st.cbCount[k]
		st.cbCount[k]++
		if i >= len(st.fifo[k]) {
			st.problem = "harness: invalidation callback for " + k + " without a recorded push"
			return
		}
		st.events = append(st.events, cbEvent{tick: t, key: k, req: st.fifo[k][i]})
	}
}

func recOf(start int64, key, op string, m rueidis.RedisMessage, err error) readRec {
	r := readRec{start: start, key: key, op: op}
	if err != nil && !rueidis.IsRedisNil(err) {
		r.err = err.Error()
		return r
	}
	if m.IsNil() {
		r.isNil = true
		r.hit = m.IsCacheHit()
		return r
	}
	s, e := m.ToString()
	if e != nil {
		r.err = "not a string: " + e.Error()
		return r
	}
	r.epoch = parseEpoch(s)
	if !strings.HasPrefix(s, key+"#") {
		r.err = "value of another key: " + s
	}
	r.hit = m.IsCacheHit()
	return r
}

func runC06Inval(c Case) (res obs.Result) {
	res.Site, res.Class = "pipe.go:handlePush", "stale-hit"
	s := fakeredis.New()
	keys := make([]string, c.NKeys)
	for i := range keys {
		keys[i] = fmt.Sprintf("k%d", i)
	}
	var emu sync.Mutex
	epoch := map[string]int64{}
	st := &c06state{fifo: map[string][]int64{}, cbCount: map[string]int{}}
	installWriteRecorder(s, st, func() map[string]int64 {
		emu.Lock()
		defer emu.Unlock()
		snap := map[string]int64{}
		for k, v := range epoch {
			snap[k] = v
		}
		return snap
	})
	A, err := csc.SingleClient(s, c.Mux, c.Adapter, c.BCast, func(o *rueidis.ClientOption) { o.OnInvalidations = st.onInvalidations })
	if err != nil {
		res.Oracle = "harness: " + err.Error()
		return
	}
	defer A.Close()
	W, err := csc.SingleClient(s, -1, false, false, func(o *rueidis.ClientOption) { o.DisableCache = true })
	if err != nil {
		res.Oracle = "harness: " + err.Error()
		return
	}
	defer W.Close()
	ctx, cancel := context.WithTimeout(context.Background(), 30*time.Second)
	defer cancel()
	write := func(k string) {
		emu.Lock()
		epoch[k]++
		e := epoch[k]
		emu.Unlock()
		W.Do(ctx, W.B().Set().Key(k).Value(fmt.Sprintf("%s#%d", k, e)).Build())
	}
	for _, k := range keys {
		write(k)
	}
	var rmu sync.Mutex
	var reads []readRec
	stop := make(chan struct{})
	var wg sync.WaitGroup
	for r := 0; r < c.Readers; r++ {
		wg.Add(1)
		rr := gen.New(c.Seed + uint64(r)*7919)
		go func() {
			defer wg.Done()
			var local []readRec
			for {
				select {
				case <-stop:
					rmu.Lock()
					reads = append(reads, local...)
					rmu.Unlock()
					return
				default:
				}
				op := rr.Intn(5)
				if op == 4 && c.Mux >= 0 {
					// a multiplexed client routes MGET by its last key: the same key may then be cached on two
					// connections, each with its own invalidation stream; the per-connection statement of C06
					// is only observable per key on a single connection
					op = 0
				}
				switch op {
				case 4:
					// DoCache on MGET: per-key entries shared with GET, partial hits refilled positionally
					n := rr.Range(1, 4)
					var ks []string
					for j := 0; j < n; j++ {
						ks = append(ks, gen.Pick(rr, keys))
					}
					t := tick()
					arr, e := A.DoCache(ctx, A.B().Mget().Key(ks...).Cache(), time.Hour).ToArray()
					if e != nil || len(arr) != len(ks) {
						local = append(local, readRec{start: t, key: ks[0], op: "mget", err: fmt.Sprintf("MGET: %v, %d elements for %d keys", e, len(arr), len(ks))})
						break
					}
					for j, m := range arr {
						local = append(local, recOf(t, ks[j], "mget", m, nil))
					}
				case 0, 1:
					k := gen.Pick(rr, keys)
					t := tick()
					m, e := A.DoCache(ctx, cacheable(A, k, c.Static), time.Hour).ToMessage()
					local = append(local, recOf(t, k, "docache", m, e))
				case 2:
					n := rr.Range(1, 4)
					var cts []rueidis.CacheableTTL
					var ks []string
					for j := 0; j < n; j++ {
						k := gen.Pick(rr, keys)
						ks = append(ks, k)
						cts = append(cts, rueidis.CT(cacheable(A, k, c.Static), time.Hour))
					}
					t := tick()
					for j, r := range A.DoMultiCache(ctx, cts...) {
						m, e := r.ToMessage()
						local = append(local, recOf(t, ks[j], "multi", m, e))
					}
				default:
					n := rr.Range(1, 4)
					var ks []string
					for j := 0; j < n; j++ {
						ks = append(ks, gen.Pick(rr, keys))
					}
					t := tick()
					mp, e := rueidis.MGetCache(A, ctx, time.Hour, ks)
					if e != nil {
						local = append(local, readRec{start: t, key: ks[0], op: "mgetcache", err: e.Error()})
					}
					for k, m := range mp {
						local = append(local, recOf(t, k, "mgetcache", m, nil))
					}
				}
				if rr.Chance(1, 8) {
					time.Sleep(time.Duration(rr.Intn(200)) * time.Microsecond)
				}
			}
		}()
	}
	wr := gen.New(c.Seed ^ 0xabcdef)
	for i := 0; i < c.Writes; i++ {
		if c.Flush && wr.Chance(1, 12) {
			emu.Lock()
			for _, k := range keys {
				epoch[k]++ // the flushed (nil) state is an epoch of its own
			}
			emu.Unlock()
			W.Do(ctx, W.B().Flushall().Build())
		} else {
			write(gen.Pick(wr, keys))
		}
		time.Sleep(time.Duration(wr.Intn(400)) * time.Microsecond)
	}
	time.Sleep(3 * time.Millisecond) // let the last pushes arrive and be followed by reads
	close(stop)
	wg.Wait()

	st.mu.Lock()
	events := append([]cbEvent(nil), st.events...)
	problem := st.problem
	st.mu.Unlock()
	if problem != "" {
		res.Oracle, res.Class = problem, "harness"
		return
	}
	checked, hitsAfter := 0, 0
	for _, r := range reads {
		if r.err != "" {
			res.Oracle = fmt.Sprintf("read of %s (%s) failed: %s", r.key, r.op, r.err)
			res.Class = "read-error"
			return
		}
		if r.isNil {
			continue
		}
		for _, ev := range events {
			if ev.tick >= r.start {
				continue
			}
			need := int64(-1)
			if ev.key == r.key {
				need = ev.req
			} else if ev.key == "" {
				need = ev.snap[r.key] + 1
			} else {
				continue
			}
			checked++
			if r.hit {
				hitsAfter++
			}
			if r.epoch < need {
				what := "hit"
				if !r.hit {
					what = "fetched reply"
					res.Class = "stale-fetch"
				}
				res.Oracle = fmt.Sprintf("%s of %s by %s started at tick %d carries version %d, but the invalidation for version %d was processed at tick %d",
					what, r.key, r.op, r.start, r.epoch, need, ev.tick)
				return
			}
		}
	}
	res.Obs = map[string]any{"reads": len(reads), "callbacks": len(events), "checked": checked, "hits_after_invalidation": hitsAfter}
	res.Nontrivial = hitsAfter > 0
	return
}

func runC06Disc(c Case) (res obs.Result) {
	res.Site, res.Class = "pipe.go:_background", "stale-hit-after-disconnect"
	s := fakeredis.New()
	A, err := csc.SingleClient(s, -1, c.Adapter, false, nil)
	if err != nil {
		res.Oracle = "harness: " + err.Error()
		return
	}
	defer A.Close()
	W, _ := csc.SingleClient(s, -1, false, false, func(o *rueidis.ClientOption) { o.DisableCache = true })
	defer W.Close()
	ctx, cancel := context.WithTimeout(context.Background(), 30*time.Second)
	defer cancel()
	keys := make([]string, c.NKeys)
	for i := range keys {
		keys[i] = fmt.Sprintf("k%d", i)
		W.Do(ctx, W.B().Set().Key(keys[i]).Value(keys[i]+"#1").Build())
	}
	for _, k := range keys {
		A.DoCache(ctx, cacheable(A, k, false), time.Hour)
		if !A.DoCache(ctx, cacheable(A, k, false), time.Hour).IsCacheHit() {
			res.Oracle, res.Class = "harness: warm-up did not produce a hit", "harness"
			return
		}
	}
	for _, cn := range s.Conns() {
		if cn.Tracking {
			cn.Kill()
		}
	}
	for _, k := range keys {
		W.Do(ctx, W.B().Set().Key(k).Value(k+"#2").Build()) // no connection to push the invalidation to
	}
	// the client has processed the disconnect once a command succeeds again
	ok := false
	for i := 0; i < 2000; i++ {
		if A.Do(ctx, A.B().Ping().Build()).Error() == nil {
			ok = true
			break
		}
		time.Sleep(time.Millisecond)
	}
	if !ok {
		res.Oracle, res.Class = "client did not reconnect", "reconnect"
		return
	}
	for _, k := range keys {
		r := A.DoCache(ctx, cacheable(A, k, false), time.Hour)
		v, e := r.ToString()
		if e != nil {
			res.Oracle, res.Class = "read after reconnect failed: "+e.Error(), "read-error"
			return
		}
		if parseEpoch(v) < 2 {
			res.Oracle = fmt.Sprintf("after the disconnect was processed, %s is answered %q (hit=%v); the server holds version 2", k, v, r.IsCacheHit())
			return
		}
	}
	res.Nontrivial = true
	return
}

// ---------------------------------------------------------------- C07

func nowMs() int64 { return time.Now().UnixMilli() }

func expireFn(c Case, k KeyTTL) func(t int64) int64 {
	return func(t int64) int64 {
		if c.Static || k.PTTL < 0 {
			return t + c.TTLms
		}
		return min(t+c.TTLms, t+k.PTTL)
	}
}

func countGets(s *fakeredis.Server, key string) int {
	n := 0
	for _, e := range s.LogCopy() {
		if len(e.Argv) >= 2 && (e.Argv[0] == "GET" || e.Argv[0] == "MGET") && (e.InTx || e.Reply.S != "QUEUED") {
			for _, k := range e.Argv[1:] {
				if k == key {
					n++
				}
			}
		}
	}
	return n
}

func runC07(c Case) (res obs.Result) {
	res.Site, res.Class = "pipe.go:_backgroundRead/lru.go:Update", "expiry"
	s := fakeredis.New()
	canned := map[string]int64{}
	pt := s.CscHandler("PTTL")
	s.Handle("PTTL", func(cn *fakeredis.Conn, a []string) fakeredis.V {
		if len(a) == 2 {
			if p, ok := canned[a[1]]; ok {
				s.Track(cn, a[1])
				return fakeredis.Int(p)
			}
		}
		return pt(cn, a)
	})
	A, err := csc.SingleClient(s, -1, c.Adapter, false, nil)
	if err != nil {
		res.Oracle = "harness: " + err.Error()
		return
	}
	defer A.Close()
	W, _ := csc.SingleClient(s, -1, false, false, func(o *rueidis.ClientOption) { o.DisableCache = true })
	defer W.Close()
	ctx, cancel := context.WithTimeout(context.Background(), 30*time.Second)
	defer cancel()
	for _, k := range c.Keys {
		switch {
		case k.PTTL == -2:
			// key absent
		case k.PX:
			W.Do(ctx, W.B().Set().Key(k.Name).Value("v:"+k.Name).Px(time.Duration(k.PTTL)*time.Millisecond).Build())
		default:
			W.Do(ctx, W.B().Set().Key(k.Name).Value("v:"+k.Name).Build())
			s.Lock()
			canned[k.Name] = k.PTTL
			s.Unlock()
		}
	}
	ttl := time.Duration(c.TTLms) * time.Millisecond
	type got struct {
		pxat int64
		hit  bool
		val  string
	}
	read := func() ([]got, int64, int64, string) {
		t0 := nowMs()
		var out []got
		switch c.Mode {
		case "docache":
			r := A.DoCache(ctx, cacheable(A, c.Keys[0].Name, c.Static), ttl)
			if e := r.Error(); e != nil && !rueidis.IsRedisNil(e) {
				return nil, 0, 0, e.Error()
			}
			v, _ := r.ToString()
			out = append(out, got{pxat: r.CachePXAT(), hit: r.IsCacheHit(), val: v})
			// the three reports agree
			t2 := nowMs()
			p := r.CachePTTL()
			sec := r.CacheTTL()
			t3 := nowMs()
			px := r.CachePXAT()
			lo, hi := max(0, px-t3), max(0, px-t2)
			if p < lo || p > hi {
				return nil, 0, 0, fmt.Sprintf("CachePTTL=%d outside [%d,%d] for CachePXAT=%d", p, lo, hi, px)
			}
			ceil := func(ms int64) int64 {
				if ms <= 0 {
					return ms
				}
				return (ms + 999) / 1000
			}
			if sec < ceil(lo) || sec > ceil(hi) {
				return nil, 0, 0, fmt.Sprintf("CacheTTL=%d outside [%d,%d] for CachePXAT=%d", sec, ceil(lo), ceil(hi), px)
			}
		case "multi":
			var cts []rueidis.CacheableTTL
			for _, k := range c.Keys {
				cts = append(cts, rueidis.CT(cacheable(A, k.Name, c.Static), ttl))
			}
			for _, r := range A.DoMultiCache(ctx, cts...) {
				if e := r.Error(); e != nil && !rueidis.IsRedisNil(e) {
					return nil, 0, 0, e.Error()
				}
				v, _ := r.ToString()
				out = append(out, got{pxat: r.CachePXAT(), hit: r.IsCacheHit(), val: v})
			}
		default:
			var names []string
			for _, k := range c.Keys {
				names = append(names, k.Name)
			}
			r := A.DoCache(ctx, A.B().Mget().Key(names...).Cache(), ttl)
			arr, e := r.ToArray()
			if e != nil {
				return nil, 0, 0, e.Error()
			}
			for _, m := range arr {
				v, _ := m.ToString()
				out = append(out, got{pxat: m.CachePXAT(), hit: m.IsCacheHit(), val: v})
			}
		}
		return out, t0, nowMs(), ""
	}
	g1, t0, t1, e := read()
	if e != "" {
		res.Oracle, res.Class = "first read failed: "+e, "read-error"
		return
	}
	if len(g1) != len(c.Keys) {
		res.Oracle = fmt.Sprintf("%d results for %d keys", len(g1), len(c.Keys))
		return
	}
	minPx := int64(1) << 62
	for i, k := range c.Keys {
		f := expireFn(c, k)
		lo, hi := f(t0), f(t1)
		if g1[i].pxat < lo || g1[i].pxat > hi {
			res.Oracle = fmt.Sprintf("key %s (server PTTL %d, client TTL %dms, static=%v): CachePXAT=%d outside [%d,%d] (request started at %d, returned at %d)",
				k.Name, k.PTTL, c.TTLms, c.Static, g1[i].pxat, lo, hi, t0, t1)
			return
		}
		if g1[i].hit {
			res.Oracle, res.Class = "the first read is a cache hit", "harness"
			return
		}
		minPx = min(minPx, g1[i].pxat)
	}
	// before the expiry: a hit with the same expiry
	if minPx-nowMs() > 60 {
		g2, _, ta, e := read()
		if e != "" {
			res.Oracle, res.Class = "second read failed: "+e, "read-error"
			return
		}
		if ta < minPx {
			for i, k := range c.Keys {
				if !g2[i].hit || g2[i].pxat != g1[i].pxat {
					res.Oracle = fmt.Sprintf("key %s: read completed at %d, before the expiry %d, but hit=%v CachePXAT=%d", k.Name, ta, g1[i].pxat, g2[i].hit, g2[i].pxat)
					res.Class = "early-expiry"
					return
				}
			}
		}
	}
	// at or after the expiry: never a hit, the server is asked again
	checkedExpiry := false
	for i, k := range c.Keys {
		if g1[i].pxat-nowMs() > 700 {
			continue
		}
		for nowMs() < g1[i].pxat {
			time.Sleep(time.Millisecond)
		}
		before := countGets(s, k.Name)
		ts := nowMs()
		r := A.DoCache(ctx, cacheable(A, k.Name, c.Static), ttl)
		if r.IsCacheHit() {
			res.Oracle = fmt.Sprintf("key %s: a read started at %d, at or after the expiry %d, is a cache hit", k.Name, ts, g1[i].pxat)
			res.Class = "hit-after-expiry"
			return
		}
		if e := r.Error(); e != nil && !rueidis.IsRedisNil(e) {
			res.Oracle, res.Class = "read after expiry failed: "+e.Error(), "read-error"
			return
		}
		if countGets(s, k.Name) <= before {
			res.Oracle = fmt.Sprintf("key %s: a read after the expiry did not reach the server", k.Name)
			res.Class = "hit-after-expiry"
			return
		}
		checkedExpiry = true
	}
	res.Obs = map[string]any{"pxat_minus_t0": g1[0].pxat - t0, "bracket_ms": t1 - t0, "expiry_checked": checkedExpiry}
	res.Nontrivial = true
	return
}

// ---------------------------------------------------------------- C09

func runC09(c Case) (res obs.Result) {
	res.Site, res.Class = "lru.go:Flight/pipe.go:DoCache", "single-flight"
	s := fakeredis.New()
	const key = "shared"
	W0 := s
	W0.Lock()
	W0.DB[key] = &fakeredis.Item{Kind: "string", Str: "v:" + key}
	W0.DB["other"] = &fakeredis.Item{Kind: "string", Str: "v:other"}
	W0.Unlock()
	hold := csc.NewHold([]string{key})
	var aborted atomic.Bool
	s.Fault = func(cn *fakeredis.Conn, cseq int, argv []string) fakeredis.Action {
		act := hold.Fault(cn, cseq, argv)
		if c.Kind == "c09-abort" && len(argv) == 2 && argv[0] == "GET" && argv[1] == key && cn.CscInMulti() && aborted.CompareAndSwap(false, true) {
			cn.CscPoison()
			v := fakeredis.Error("ERR injected")
			return fakeredis.Action{Override: &v}
		}
		return act
	}
	A, err := csc.SingleClient(s, c.Mux, c.Adapter, false, nil)
	if err != nil {
		res.Oracle = "harness: " + err.Error()
		return
	}
	defer A.Close()
	defer hold.Release()
	ctx, cancel := context.WithTimeout(context.Background(), 30*time.Second)
	defer cancel()
	type outc struct {
		val string
		err error
		hit bool
	}
	outs := make([]outc, c.Callers)
	var wg sync.WaitGroup
	call := func(i int) {
		defer wg.Done()
		mode := 0
		if c.Mode == "mixed" {
			mode = i % 4
			if mode == 3 && c.Mux >= 0 {
				mode = 0 // MGET may travel on another connection (routed by its last key): not "one connection"
			}
		}
		switch mode {
		case 3:
			arr, e := A.DoCache(ctx, A.B().Mget().Key("other", key).Cache(), time.Hour).ToArray()
			if e != nil || len(arr) != 2 {
				if e == nil {
					e = fmt.Errorf("MGET returned %d elements", len(arr))
				}
				outs[i] = outc{"", e, false}
			} else {
				v, e2 := arr[1].ToString()
				outs[i] = outc{v, e2, arr[1].IsCacheHit()}
			}
		case 0:
			r := A.DoCache(ctx, cacheable(A, key, c.Static), time.Hour)
			v, e := r.ToString()
			outs[i] = outc{v, e, r.IsCacheHit()}
		case 1:
			rs := A.DoMultiCache(ctx, rueidis.CT(cacheable(A, "other", false), time.Hour), rueidis.CT(cacheable(A, key, false), time.Hour))
			v, e := rs[1].ToString()
			outs[i] = outc{v, e, rs[1].IsCacheHit()}
		default:
			mp, e := rueidis.MGetCache(A, ctx, time.Hour, []string{key, "other"})
			if e != nil {
				outs[i] = outc{"", e, false}
			} else {
				m := mp[key]
				v, e2 := m.ToString()
				outs[i] = outc{v, e2, m.IsCacheHit()}
			}
		}
	}
	wg.Add(c.Callers)
	go call(0)
	if !hold.WaitSignals(1, 20*time.Second) {
		res.Oracle, res.Class = "harness: the first request did not reach the server", "harness"
		return
	}
	for i := 1; i < c.Callers; i++ {
		go call(i)
	}
	time.Sleep(8 * time.Millisecond)
	if c.Kind == "c09-kill" {
		for _, cn := range hold.BlockedConns() {
			cn.Kill()
		}
	}
	hold.Release()
	done := make(chan struct{})
	go func() { wg.Wait(); close(done) }()
	select {
	case <-done:
	case <-time.After(25 * time.Second):
		res.Oracle, res.Class = "a caller was never woken", "lost-wakeup"
		return
	}
	gets := countGets(s, key)
	switch c.Kind {
	case "c09-share":
		if gets != 1 {
			res.Oracle = fmt.Sprintf("%d concurrent cached reads of one command sent %d requests to the server", c.Callers, gets)
			return
		}
		for i, o := range outs {
			if o.err != nil || o.val != "v:"+key {
				res.Oracle = fmt.Sprintf("caller %d got %q, %v", i, o.val, o.err)
				res.Class = "wrong-reply"
				return
			}
		}
		// and the reply is cached: the next read is a hit and sends nothing
		r := A.DoCache(ctx, cacheable(A, key, c.Static), time.Hour)
		if !r.IsCacheHit() || countGets(s, key) != 1 {
			res.Oracle = "the shared reply was not cached"
			res.Class = "not-cached"
			return
		}
	default: // the request failed: every caller that waited on it gets an error, nothing is cached
		// A caller whose goroutine only got to run after the failure had been delivered legitimately starts a
		// new request; its value then comes with a further server request (the failed one produced none).
		late := 0
		for i, o := range outs {
			if o.err == nil {
				late++
				if o.val != "v:"+key {
					res.Oracle = fmt.Sprintf("caller %d got %q", i, o.val)
					res.Class = "wrong-reply"
					return
				}
			}
		}
		if outs[0].err == nil {
			res.Oracle = fmt.Sprintf("the request failed (%s) but its own caller got the value %q", c.Kind, outs[0].val)
			res.Class = "value-from-failed-request"
			return
		}
		if late > 0 {
			if c.Kind == "c09-abort" && gets < 2 {
				res.Oracle = fmt.Sprintf("%d callers got a value although the only request was aborted", late)
				res.Class = "value-from-failed-request"
				return
			}
			res.Obs = map[string]any{"callers": c.Callers, "server_requests": gets, "late_callers": late}
			res.Nontrivial = false
			return
		}
		var r rueidis.RedisResult
		ok := false
		for i := 0; i < 2000; i++ {
			r = A.DoCache(ctx, cacheable(A, key, c.Static), time.Hour)
			if r.Error() == nil {
				ok = true
				break
			}
			time.Sleep(time.Millisecond)
		}
		v, _ := r.ToString()
		if !ok || v != "v:"+key {
			res.Oracle = fmt.Sprintf("read after the failed request: %q, %v", v, r.Error())
			res.Class = "wrong-reply"
			return
		}
		if r.IsCacheHit() || countGets(s, key) <= gets {
			res.Oracle = fmt.Sprintf("after a failed request the next read did not go to the server (hit=%v)", r.IsCacheHit())
			res.Class = "cached-failure"
			return
		}
	}
	res.Obs = map[string]any{"callers": c.Callers, "server_requests": gets}
	res.Nontrivial = c.Callers >= 2
	return
}


// ---------------------------------------------------------------- C09: partial MGET whose rewritten request fails

func runC09MGet(c Case) (res obs.Result) {
	res.Site, res.Class = "pipe.go:doCacheMGet", "mget-failure-cancel"
	s := fakeredis.New()
	n := len(c.Arr)
	keys := make([]string, n)
	var hits, pends, misses []string
	for i := range keys {
		keys[i] = fmt.Sprintf("m%d", i)
		s.Lock()
		s.DB[keys[i]] = &fakeredis.Item{Kind: "string", Str: "v:" + keys[i]}
		s.Unlock()
		switch c.Arr[i] {
		case "hit":
			hits = append(hits, keys[i])
		case "pend":
			pends = append(pends, keys[i])
		default:
			misses = append(misses, keys[i])
		}
	}
	holdF := csc.NewHold(pends)  // keeps the other caller's request in flight
	holdM := csc.NewHold(misses) // keeps the MGET's own request in flight
	var injected atomic.Bool
	s.Fault = func(cn *fakeredis.Conn, cseq int, argv []string) fakeredis.Action {
		holdF.Fault(cn, cseq, argv)
		holdM.Fault(cn, cseq, argv)
		reject := false
		switch c.Fail {
		case "abortcmd":
			reject = argv[0] == "MGET" && cn.CscInMulti()
		case "abortpttl":
			reject = argv[0] == "PTTL" && len(argv) == 2 && argv[1] == misses[0] && cn.CscInMulti()
		}
		if reject && injected.CompareAndSwap(false, true) {
			cn.CscPoison()
			v := fakeredis.Error("ERR injected")
			return fakeredis.Action{Override: &v}
		}
		return fakeredis.Action{}
	}
	if c.Fail == "experr" {
		mg := s.CscHandler("MGET")
		s.Handle("MGET", func(cn *fakeredis.Conn, a []string) fakeredis.V {
			if injected.CompareAndSwap(false, true) {
				return fakeredis.Error("ERR failure at execution time")
			}
			return mg(cn, a)
		})
	}
	rec := csc.NewRecorder(tick)
	A, err := csc.SingleClient(s, -1, false, false, func(o *rueidis.ClientOption) { o.NewCacheStoreFn = rec.Store })
	if err != nil {
		res.Oracle = "harness: " + err.Error()
		return
	}
	defer A.Close()
	defer holdF.Release()
	defer holdM.Release()
	bg, cancelAll := context.WithTimeout(context.Background(), 40*time.Second)
	defer cancelAll()
	harness := func(msg string) obs.Result {
		res.Oracle, res.Class = "harness: "+msg, "harness"
		return res
	}
	// 1. hits
	for _, k := range hits {
		if e := A.DoCache(bg, cacheable(A, k, false), time.Hour).Error(); e != nil {
			return harness("warm-up: " + e.Error())
		}
	}
	// 2. the other caller's request, held in flight
	type multiOut struct {
		vals []string
		errs []error
	}
	foreignCh := make(chan multiOut, 1)
	if len(pends) > 0 {
		var cts []rueidis.CacheableTTL
		for _, k := range pends {
			cts = append(cts, rueidis.CT(cacheable(A, k, false), time.Hour))
		}
		go func() {
			var o multiOut
			for _, r := range A.DoMultiCache(bg, cts...) {
				v, e := r.ToString()
				o.vals, o.errs = append(o.vals, v), append(o.errs, e)
			}
			foreignCh <- o
		}()
		if !holdF.WaitSignals(1, 20*time.Second) {
			return harness("the other caller's request did not reach the server")
		}
	}
	// 3. the MGET
	mark := rec.Len()
	ctxM, cancelM := context.WithCancel(bg) // "ctx": the caller gives up (cancelM) once the waiters are in place
	defer cancelM()
	type oneOut struct {
		val string
		err error
		arr []rueidis.RedisMessage
	}
	mgetCh := make(chan oneOut, 1)
	go func() {
		r := A.DoCache(ctxM, A.B().Mget().Key(keys...).Cache(), time.Hour)
		arr, e := r.ToArray()
		mgetCh <- oneOut{err: e, arr: arr}
	}()
	flightsOf := func(evs []csc.StoreEvent) (out []csc.StoreEvent) {
		for _, e := range evs {
			if e.Op == "flight" {
				out = append(out, e)
			}
		}
		return
	}
	if !rec.WaitFor(mark, 20*time.Second, func(evs []csc.StoreEvent) bool { return len(flightsOf(evs)) >= n }) {
		return harness("the MGET did not look its keys up")
	}
	for i, e := range flightsOf(rec.Since(mark))[:n] {
		want := map[string]string{"hit": "hit", "pend": "wait", "miss": "miss"}[c.Arr[i]]
		if e.Key != keys[i] || e.Kind != want {
			return harness(fmt.Sprintf("lookup %d of the MGET: key %s answered %s, expected %s %s", i, e.Key, e.Kind, keys[i], want))
		}
	}
	// 4. a waiter on the MGET's own flight, and one on the other caller's flight
	getAsync := func(k string, ctx context.Context) chan oneOut {
		ch := make(chan oneOut, 1)
		go func() {
			v, e := A.DoCache(ctx, cacheable(A, k, false), time.Hour).ToString()
			ch <- oneOut{val: v, err: e}
		}()
		return ch
	}
	waitKind := func(mk int, k, kind string) bool {
		return rec.WaitFor(mk, 20*time.Second, func(evs []csc.StoreEvent) bool {
			for _, e := range flightsOf(evs) {
				if e.Key == k {
					return true
				}
			}
			return false
		}) && func() bool {
			for _, e := range flightsOf(rec.Since(mk)) {
				if e.Key == k {
					return e.Kind == kind
				}
			}
			return false
		}()
	}
	mk2 := rec.Len()
	ownWaiter := getAsync(misses[0], bg)
	if !waitKind(mk2, misses[0], "wait") {
		return harness("the reader of " + misses[0] + " did not wait on the MGET's flight")
	}
	var foreignWaiter chan oneOut
	if len(pends) > 0 {
		mk3 := rec.Len()
		foreignWaiter = getAsync(pends[0], bg)
		if !waitKind(mk3, pends[0], "wait") {
			return harness("the reader of " + pends[0] + " did not wait on the other caller's flight")
		}
	}
	// 5. make the MGET's request fail
	switch c.Fail {
	case "kill":
		for _, cn := range append(holdF.BlockedConns(), holdM.BlockedConns()...) {
			cn.Kill()
		}
		for _, cn := range s.Conns() {
			if cn.Tracking {
				cn.Kill()
			}
		}
		holdF.Release()
		holdM.Release()
	case "ctx":
		// the caller gives up while the replies are held back (a deadline would race with the set-up of the
		// waiters on a loaded machine; cancelling at this point is the same event for the client)
		cancelM()
	default:
		holdF.Release()
		holdM.Release()
	}
	var mo oneOut
	select {
	case mo = <-mgetCh:
	case <-time.After(15 * time.Second):
		res.Oracle, res.Class = "the MGET call did not return", "lost-wakeup"
		return
	}
	if mo.err == nil {
		res.Oracle = fmt.Sprintf("the rewritten request failed (%s) but DoCache(MGET) returned a value of %d elements", c.Fail, len(mo.arr))
		res.Class = "value-from-failed-request"
		return
	}
	// which flights did the failing call cancel?
	cancelled := map[string]string{}
	for _, e := range rec.Since(mark) {
		if e.Op == "cancel" {
			cancelled[e.Key] = e.Err
		}
	}
	if c.Fail != "kill" && os.Getenv("CSC_NO_RECORDER_ORACLE") == "" { // (the switch exists to exercise the behavioural oracles alone)
		for _, k := range misses {
			if _, ok := cancelled[k]; !ok {
				res.Oracle = fmt.Sprintf("arrangement %v, failure %s: the flight of %s, started by the failing MGET, was not cancelled (cancelled: %v)", c.Arr, c.Fail, k, cancelled)
				return
			}
		}
		for k := range cancelled {
			own := false
			for _, m := range misses {
				own = own || m == k
			}
			if !own {
				res.Oracle = fmt.Sprintf("arrangement %v, failure %s: the failing MGET cancelled the flight of %s, which it did not start (cancelled: %v)", c.Arr, c.Fail, k, cancelled)
				res.Class = "foreign-flight-cancelled"
				return
			}
		}
	}
	// waiters of the MGET's own flight get its error, promptly
	select {
	case wo := <-ownWaiter:
		if wo.err == nil {
			res.Oracle = fmt.Sprintf("the reader that waited on the failed flight of %s got the value %q", misses[0], wo.val)
			res.Class = "value-from-failed-request"
			return
		}
	case <-time.After(5 * time.Second):
		res.Oracle = fmt.Sprintf("arrangement %v, failure %s: the reader waiting on the failed flight of %s was not woken", c.Arr, c.Fail, misses[0])
		res.Class = "lost-wakeup"
		return
	}
	// ctx: the other caller's request is still in flight and must stay the only one
	if c.Fail == "ctx" && len(pends) > 0 {
		mk4 := rec.Len()
		late := getAsync(pends[0], bg)
		if !rec.WaitFor(mk4, 20*time.Second, func(evs []csc.StoreEvent) bool { return len(flightsOf(evs)) >= 1 }) {
			return harness("late reader did not look up")
		}
		if k := flightsOf(rec.Since(mk4))[0].Kind; k != "wait" {
			res.Oracle = fmt.Sprintf("arrangement %v: after the MGET was abandoned, a reader of %s (still being fetched by another caller) was answered %q instead of waiting on that flight", c.Arr, pends[0], k)
			res.Class = "foreign-flight-cancelled"
			return
		}
		holdF.Release()
		holdM.Release()
		select {
		case lo := <-late:
			if lo.err != nil || lo.val != "v:"+pends[0] {
				res.Oracle = fmt.Sprintf("late reader of %s: %q, %v", pends[0], lo.val, lo.err)
				res.Class = "foreign-flight-cancelled"
				return
			}
		case <-time.After(10 * time.Second):
			res.Oracle, res.Class = "late reader never woken", "lost-wakeup"
			return
		}
	}
	holdF.Release()
	holdM.Release()
	if len(pends) > 0 && c.Fail != "kill" {
		select {
		case fo := <-foreignCh:
			for i, e := range fo.errs {
				if e != nil || fo.vals[i] != "v:"+pends[i] {
					res.Oracle = fmt.Sprintf("the other caller's request for %s, which did not fail, ended with %q, %v", pends[i], fo.vals[i], e)
					res.Class = "foreign-flight-cancelled"
					return
				}
			}
		case <-time.After(10 * time.Second):
			res.Oracle, res.Class = "the other caller never returned", "lost-wakeup"
			return
		}
		select {
		case wo := <-foreignWaiter:
			if wo.err != nil || wo.val != "v:"+pends[0] {
				res.Oracle = fmt.Sprintf("a reader waiting on the other caller's flight of %s got %q, %v", pends[0], wo.val, wo.err)
				res.Class = "foreign-flight-cancelled"
				return
			}
		case <-time.After(10 * time.Second):
			res.Oracle, res.Class = "reader of the other caller's flight never woken", "lost-wakeup"
			return
		}
		for _, k := range pends {
			if g := countGets(s, k); g != 1 {
				res.Oracle = fmt.Sprintf("key %s, fetched by another caller throughout, was requested %d times", k, g)
				res.Class = "foreign-flight-cancelled"
				return
			}
		}
	}
	// nothing of the failed request stays pending or cached: a later read of every missed key fetches again
	for _, k := range misses {
		before := countGets(s, k)
		var v string
		var e error
		for i := 0; i < 300; i++ {
			ctx, cancel := context.WithTimeout(bg, 3*time.Second)
			v, e = A.DoCache(ctx, cacheable(A, k, false), time.Hour).ToString()
			cancel()
			if e == nil || c.Fail != "kill" {
				break
			}
			time.Sleep(2 * time.Millisecond)
		}
		if e != nil || v != "v:"+k {
			res.Oracle = fmt.Sprintf("arrangement %v, failure %s: a later read of %s ended with %q, %v (the failed flight was neither woken nor removed)", c.Arr, c.Fail, k, v, e)
			res.Class = "dead-flight"
			return
		}
		if c.Fail != "ctx" && countGets(s, k) <= before {
			res.Oracle = fmt.Sprintf("a later read of %s after the failed request did not reach the server", k)
			res.Class = "cached-failure"
			return
		}
	}
	res.Obs = map[string]any{"arrangement": c.Arr, "fail": c.Fail, "error": mo.err.Error(), "cancelled": cancelled}
	res.Nontrivial = true
	return
}

func run(ci any) (res obs.Result) {
	c := ci.(Case)
	defer func() {
		if p := recover(); p != nil {
			res.Oracle = fmt.Sprintf("panic: %v", p)
			res.Class = "panic"
		}
		res.Kind = c.Kind
		raw, _ := json.Marshal(c)
		res.Sig = string(raw)
	}()
	switch c.Kind {
	case "c09-mget":
		return runC09MGet(c)
	case "c06-inval":
		return runC06Inval(c)
	case "c06-disc":
		return runC06Disc(c)
	case "c07":
		return runC07(c)
	default:
		return runC09(c)
	}
}

func main() {
	obs.Main(obs.Runner{
		Name: "obs_csc", Salt: 6079,
		Gen: genCase,
		Decode: func(raw json.RawMessage) (any, error) {
			var c Case
			err := json.Unmarshal(raw, &c)
			return c, err
		},
		Run: run,
	})
}
