// obs_ctx: C05 — calls honour context deadlines and cancellation (everything except the blocking
// pool's wake-up, which obs_pool covers).
//
// A REAL client runs against fakeredis while the server stalls (executes but never answers), another
// caller's client-side-cache flight stays pending, or the retry handler asks for a long back-off.  The
// call under test has a context with a deadline (sweep 20..400 ms), is cancelled manually, or has a
// context that is already done.
//
// Direct oracle: the call returns no later than deadline (or cancellation time) + 250 ms, its error is
// the context's error, and a call with an already-done context sends nothing (server log).  A scenario
// that exceeds the slack is repeated twice before it is reported (scheduler noise).
//
// Correspondence: the observed execution is replayed as a schedule of Model/PipeLts.v (or as an
// instance of Model/PipeWait.v); the model must accept it and hand the same result to the call.
package main

import (
	"context"
	"encoding/json"
	"errors"
	"fmt"
	"strings"
	"sync"
	"time"

	"github.com/redis/rueidis"

	"verifharness/fakeredis"
	"verifharness/gen"
	"verifharness/obs"
	"verifharness/pipe"
)

type Case struct {
	Kind   string `json:"kind"` // pipe-deadline | pipe-cancel | multi-deadline | sync-deadline | done-ctx | flow-put | cache-wait | retry-cancel | retry-skip | retry-wait
	Queue  string `json:"queue"`
	Ms     int    `json:"ms"` // deadline / cancellation time
	N      int    `json:"n,omitempty"`
	Adapt  bool   `json:"adapter,omitempty"` // cache-wait: custom CacheStore through the adapter (cache.go) instead of the lru
	Multi  bool   `json:"multi,omitempty"`
	DoneBy string `json:"done_by,omitempty"` // done-ctx: cancel | deadline
	// two-callers: caller A (context deadline) is waiting for a stalled reply on an idle connection when caller B
	// arrives with another kind of call: cancel (cancel-only context) | bg (context.Background) | noreply (SUBSCRIBE) |
	// pipelining (the connection is pipelining already).  A must return at its deadline with the context's error:
	// nobody but A may touch the connection (and its deadline) while A uses it synchronously.
	B string `json:"b,omitempty"`
	// retry-dl-cancel: the context that has the deadline is cancelled through its parent
	Parent bool `json:"parent,omitempty"`
}

const slack = 250 * time.Millisecond

const hangBound = 12 * time.Second

var sweep = []int{20, 50, 100, 200, 400}

func genCase(r *gen.Rand, i int) any {
	kinds := []string{"pipe-deadline", "pipe-cancel", "multi-deadline", "sync-deadline", "done-ctx", "flow-put", "cache-wait", "retry-cancel", "retry-skip", "retry-wait", "two-callers", "retry-dl-cancel"}
	c := Case{Kind: kinds[i%len(kinds)], Queue: gen.Pick(r, []string{"ring", "flowbuffer"}), Ms: gen.Pick(r, sweep), N: r.Range(2, 4)}
	if c.Kind == "flow-put" {
		c.Queue = "flowbuffer"
	}
	if c.Kind == "done-ctx" {
		v := i / len(kinds) // every variant in turn: a quick run covers single/batch x cancel/deadline
		c.Multi = v%2 == 1
		c.DoneBy = []string{"cancel", "deadline"}[(v/2)%2]
	}
	if c.Kind == "cache-wait" {
		c.Adapt = r.Bool()
	}
	if c.Kind == "retry-dl-cancel" {
		// a context WITH a (far) deadline, cancelled by hand during the back-off: by its own cancel function or through its parent
		v := i / len(kinds)
		c.Multi = v%2 == 1
		c.Parent = (v/2)%2 == 1
	}
	if c.Kind == "two-callers" {
		c.B = []string{"cancel", "bg", "noreply", "pipelining"}[(i/len(kinds))%4]
	}
	return c
}

func decode(raw json.RawMessage) (any, error) {
	var c Case
	err := json.Unmarshal(raw, &c)
	return c, err
}

type attempt struct {
	took    time.Duration
	err     error
	ctxErr  error
	sent    bool // the command under test reached the server
	extra   string
	coq     string
	started time.Time
}

func prelude() string {
	return "LCall 9 [KI 900 1 0] false CtxCancel; LIncr 9; LLoad 9; LBg 9; LPut 9; LWNext; LWFlush; LSrv; LRStep; LRecv 9; LFin 9"
}

const pongTable = `[(900, Mb 43 "504f4e47")]`

func sched(flow bool, cap int, steps string, expect string, sent string) string {
	return fmt.Sprintf("(CSched %s %d %s [%s] %s %s)", obs.Bool(flow), cap, pongTable, steps, expect, sent)
}

// newClient: a client whose pipe is in background mode from the start (AlwaysPipelining) unless sync is asked for.
func newClient(c Case, s *fakeredis.Server, rec *pipe.Recorder, sync bool, mod func(o *rueidis.ClientOption)) (rueidis.Client, error) {
	rueidis.VerifPipeSetQueueType(c.Queue)
	opt := rueidis.ClientOption{InitAddress: []string{"127.0.0.1:6379"}, DialCtxFn: rec.Dial, ForceSingleClient: true,
		DisableRetry: true, DisableCache: true, PipelineMultiplex: -1, AlwaysPipelining: !sync}
	opt.Dialer.KeepAlive = -1
	if mod != nil {
		mod(&opt)
	}
	return rueidis.NewClient(opt)
}

func stall(s *fakeredis.Server, match string) {
	s.Fault = func(fc *fakeredis.Conn, cseq int, argv []string) fakeredis.Action {
		for _, a := range argv {
			if strings.Contains(a, match) {
				return fakeredis.Action{Drop: true}
			}
		}
		return fakeredis.Action{}
	}
}

func reached(s *fakeredis.Server, tag string) bool {
	for _, e := range s.LogCopy() {
		for _, a := range e.Argv {
			if strings.Contains(a, tag) {
				return true
			}
		}
	}
	return false
}

func killAll(s *fakeredis.Server) {
	for _, fc := range s.Conns() {
		fc.Kill()
	}
}

func once(c Case) (at attempt) {
	s := fakeredis.New()
	rec := pipe.NewRecorder(s)
	d := time.Duration(c.Ms) * time.Millisecond
	bg := context.Background()
	tag := pipe.Tag(2, 0)
	flow := c.Queue == "flowbuffer"
	mkctx := func() (context.Context, context.CancelFunc, bool) {
		if strings.HasSuffix(c.Kind, "cancel") {
			ctx, cancel := context.WithCancel(bg)
			time.AfterFunc(d, cancel)
			return ctx, cancel, false
		}
		ctx, cancel := context.WithTimeout(bg, d)
		return ctx, cancel, true
	}
	ctxk := func(deadline bool) string {
		if deadline {
			return "CtxDeadline"
		}
		return "CtxCancel"
	}
	cls := func(err error, ctxErr error) string {
		switch {
		case err == nil:
			return "(RcMsg (Mb 36 \"" + fmt.Sprintf("%x", tag) + "\"))"
		case ctxErr != nil && errors.Is(err, ctxErr):
			return "RcCtx"
		default:
			return "RcErr"
		}
	}
	switch c.Kind {
	case "pipe-deadline", "pipe-cancel", "multi-deadline":
		stall(s, tag)
		cl, err := newClient(c, s, rec, false, nil)
		if err != nil {
			at.extra = "setup: " + err.Error()
			return
		}
		defer func() { killAll(s); cl.Close() }()
		cl.Do(bg, cl.B().Ping().Build()) // the model's prelude: one answered command in background mode
		ctx, cancel, dl := mkctx()
		defer cancel()
		n := 1
		at.started = time.Now()
		if c.Kind == "multi-deadline" {
			n = c.N
			var cmds []rueidis.Completed
			for j := 0; j < n; j++ {
				cmds = append(cmds, cl.B().Echo().Message(pipe.Tag(2, j)).Build())
			}
			for _, r := range cl.DoMulti(ctx, cmds...) {
				if e := r.NonRedisError(); e != nil && at.err == nil {
					at.err = e
				}
			}
		} else {
			at.err = cl.Do(ctx, cl.B().Echo().Message(tag).Build()).NonRedisError()
		}
		at.took = time.Since(at.started)
		at.ctxErr = ctxErrOf(ctx)
		at.sent = reached(s, tag)
		cmdl, exp := "", ""
		for j := 0; j < n; j++ {
			if j > 0 {
				cmdl += "; "
				exp += "; "
			}
			cmdl += fmt.Sprintf("KI %d 2 0", 2+10*j)
			exp += cls(at.err, at.ctxErr)
		}
		multi := obs.Bool(c.Kind == "multi-deadline")
		steps := prelude() + fmt.Sprintf("; LCall 2 [%s] %s %s; LIncr 2; LLoad 2; LPut 2; LWNext; LWFlush; LCtxDone 2; LAbort 2", cmdl, multi, ctxk(dl))
		sent := "[9; 2]"
		if !at.sent {
			sent = "[9]"
		}
		at.coq = sched(flow, 1024, steps, "[(2, ["+exp+"])]", sent)
	case "two-callers":
		tagB := pipe.Tag(3, 0)
		s.Fault = func(fc *fakeredis.Conn, cseq int, argv []string) fakeredis.Action {
			for _, a := range argv {
				if strings.Contains(a, tag) || strings.Contains(a, tagB) {
					return fakeredis.Action{Drop: true}
				}
			}
			return fakeredis.Action{}
		}
		pipelining := c.B == "pipelining"
		cl, err := newClient(c, s, rec, !pipelining, nil)
		if err != nil {
			at.extra = "setup: " + err.Error()
			return
		}
		defer func() { killAll(s); cl.Close() }()
		if pipelining {
			cl.Do(bg, cl.B().Ping().Build())
		} else if st, w, b := rueidis.VerifPipeCounters(cl); st != 0 || w != 0 || b != 0 {
			at.extra = fmt.Sprintf("setup: the connection is not idle in its synchronous phase (state=%d waits=%d bgState=%d)", st, w, b)
			return
		}
		ctxA, cancelA := context.WithTimeout(bg, d)
		defer cancelA()
		doneA := make(chan struct{})
		at.started = time.Now()
		go func() {
			at.err = cl.Do(ctxA, cl.B().Echo().Message(tag).Build()).NonRedisError()
			at.took = time.Since(at.started)
			close(doneA)
		}()
		for i := 0; !reached(s, tag) && i < 2000; i++ {
			time.Sleep(500 * time.Microsecond)
		}
		ctxB, cancelB := bg, context.CancelFunc(func() {})
		ctxkB, cmdB := "CtxBg", "KI 3 2 0"
		cmd := cl.B().Echo().Message(tagB).Build()
		switch c.B {
		case "cancel":
			ctxB, cancelB = context.WithCancel(bg)
			ctxkB = "CtxCancel"
		case "noreply":
			cmd = cl.B().Subscribe().Channel(tagB).Build()
			cmdB = "KI 3 2 1"
		}
		defer cancelB()
		doneB := make(chan struct{})
		go func() { cl.Do(ctxB, cmd); close(doneB) }()
		// B has had time to reach its queue; is A still the only user of the connection?
		bgDuringSync := false
		if pipelining {
			for i := 0; !reached(s, tagB) && i < 2000; i++ {
				time.Sleep(500 * time.Microsecond)
			}
		} else {
			time.Sleep(5 * time.Millisecond)
			_, _, bgst := rueidis.VerifPipeCounters(cl)
			select {
			case <-doneA:
			default:
				bgDuringSync = bgst == 1 && time.Now().Before(at.started.Add(d))
			}
		}
		select {
		case <-doneA:
		case <-time.After(d + 3*time.Second):
			killAll(s) // A ignored its deadline: free it, its lateness is reported by the caller of once
			<-doneA
		}
		at.ctxErr = ctxErrOf(ctxA)
		at.sent = reached(s, tag)
		sentB := reached(s, tagB)
		killAll(s)
		select {
		case <-doneB:
		case <-time.After(3 * time.Second):
			at.extra = "caller B did not return after the connection was closed"
		}
		if bgDuringSync {
			at.extra = appendS(at.extra, "the background workers were started (bgState = 1) while caller A was using the connection synchronously: they clear the connection deadline A derived from its context")
		}
		sent := "[2]"
		if sentB {
			sent = "[2; 3]"
		}
		var steps string
		if pipelining {
			sent = "[9; 2; 3]"
			if !sentB {
				sent = "[9; 2]"
			}
			steps = prelude() + "; LCall 2 [KI 2 2 0] false CtxDeadline; LIncr 2; LLoad 2; LPut 2; LWNext; LWFlush; " +
				fmt.Sprintf("LCall 3 [%s] false %s; LIncr 3; LLoad 3; LPut 3; LWNext; LWFlush; LCtxDone 2; LAbort 2", cmdB, ctxkB)
		} else {
			// what was observed, step by step; a background start during A's synchronous section is the step LBg of
			// caller B, which the model does not allow there (the schedule is rejected)
			obsBg := ""
			if bgDuringSync {
				obsBg = "LBg 3; "
			}
			steps = "LCall 2 [KI 2 2 0] false CtxDeadline; LIncr 2; LLoad 2; LSyncW 2; " +
				fmt.Sprintf("LCall 3 [%s] false %s; LIncr 3; LLoad 3; %sLPut 3; ", cmdB, ctxkB, obsBg) +
				"LCtxDone 2; LSyncFail 2 true; LDecr 2; LBgAfter 2; LDecr 2"
		}
		at.coq = sched(flow, 1024, steps, "[(2, ["+cls(at.err, at.ctxErr)+"])]", sent)
	case "sync-deadline":
		stall(s, tag)
		cl, err := newClient(c, s, rec, true, nil)
		if err != nil {
			at.extra = "setup: " + err.Error()
			return
		}
		defer func() { killAll(s); cl.Close() }()
		ctx, cancel := context.WithTimeout(bg, d)
		defer cancel()
		at.started = time.Now()
		at.err = cl.Do(ctx, cl.B().Echo().Message(tag).Build()).NonRedisError()
		at.took = time.Since(at.started)
		at.ctxErr = ctxErrOf(ctx)
		at.sent = reached(s, tag)
		steps := "LCall 2 [KI 2 2 0] false CtxDeadline; LIncr 2; LLoad 2; LSyncW 2; LCtxDone 2; LSyncFail 2 true; LDecr 2"
		at.coq = sched(flow, 1024, steps, "[(2, ["+cls(at.err, at.ctxErr)+"])]", "[2]")
	case "done-ctx":
		cl, err := newClient(c, s, rec, false, nil)
		if err != nil {
			at.extra = "setup: " + err.Error()
			return
		}
		defer func() { killAll(s); cl.Close() }()
		var ctx context.Context
		var cancel context.CancelFunc
		if c.DoneBy == "deadline" {
			ctx, cancel = context.WithDeadline(bg, time.Now().Add(-time.Second))
		} else {
			ctx, cancel = context.WithCancel(bg)
			cancel()
		}
		defer cancel()
		at.started = time.Now()
		// three calls in a row (the flow buffer's put chooses at random between a free position and the done context):
		// the first one is the call of the model term, every one must fail with the context's error and send nothing
		for rep := 0; rep < 3; rep++ {
			var e1 error
			if c.Multi {
				for _, r := range cl.DoMulti(ctx, cl.B().Echo().Message(tag).Build(), cl.B().Echo().Message(pipe.Tag(2, 1)).Build()) {
					if e := r.NonRedisError(); e != nil && e1 == nil {
						e1 = e
					}
				}
			} else {
				e1 = cl.Do(ctx, cl.B().Echo().Message(tag).Build()).NonRedisError()
			}
			if rep == 0 || e1 == nil || !errors.Is(e1, ctx.Err()) {
				at.err = e1
			}
		}
		at.took = time.Since(at.started)
		at.ctxErr = ctxErrOf(ctx)
		time.Sleep(5 * time.Millisecond)
		at.sent = reached(s, tag)
		cmdl, exp := "KI 2 2 0", cls(at.err, at.ctxErr)
		if c.Multi {
			cmdl, exp = "KI 2 2 0; KI 12 2 0", exp+"; "+exp
		}
		steps := fmt.Sprintf("LCall 2 [%s] %s %s; LCtxDone 2; LIncr 2", cmdl, obs.Bool(c.Multi), ctxk(c.DoneBy == "deadline"))
		sent := "[]"
		if at.sent {
			sent = "[2]"
		}
		at.coq = sched(flow, 1024, steps, "[(2, ["+exp+"])]", sent)
	case "flow-put":
		// a 2-position flow buffer filled by two stalled calls: the third caller waits inside PutOne
		s.Fault = func(fc *fakeredis.Conn, cseq int, argv []string) fakeredis.Action {
			if strings.EqualFold(argv[0], "ECHO") {
				return fakeredis.Action{Drop: true}
			}
			return fakeredis.Action{}
		}
		cl, err := newClient(c, s, rec, false, func(o *rueidis.ClientOption) { o.RingScaleEachConn = 1 })
		if err != nil {
			at.extra = "setup: " + err.Error()
			return
		}
		defer func() { killAll(s); cl.Close() }()
		cl.Do(bg, cl.B().Ping().Build())
		var wg sync.WaitGroup
		for j := 3; j <= 4; j++ {
			wg.Add(1)
			go func(j int) { defer wg.Done(); cl.Do(bg, cl.B().Echo().Message(pipe.Tag(j, 0)).Build()) }(j)
		}
		for i := 0; i < 200 && !(reached(s, pipe.Tag(3, 0)) && reached(s, pipe.Tag(4, 0))); i++ {
			time.Sleep(time.Millisecond)
		}
		ctx, cancel := context.WithTimeout(bg, d)
		defer cancel()
		at.started = time.Now()
		at.err = cl.Do(ctx, cl.B().Echo().Message(tag).Build()).NonRedisError()
		at.took = time.Since(at.started)
		at.ctxErr = ctxErrOf(ctx)
		at.sent = reached(s, tag)
		steps := prelude() + "; LCall 3 [KI 3 2 0] false CtxBg; LIncr 3; LLoad 3; LPut 3; LCall 4 [KI 4 2 0] false CtxBg; LIncr 4; LLoad 4; LPut 4; LWNext; LWNext; LWFlush" +
			"; LCall 2 [KI 2 2 0] false CtxDeadline; LIncr 2; LLoad 2; LCtxDone 2; LPutFail 2"
		sent := "[9; 3; 4]"
		if at.sent {
			sent = "[9; 3; 4; 2]"
		}
		at.coq = sched(true, 2, steps, "[(2, ["+cls(at.err, at.ctxErr)+"])]", sent)
		killAll(s)
		wg.Wait()
	case "cache-wait":
		// caller A's flight for the key never completes (its EXEC reply is dropped); caller B waits on it
		s.Fault = func(fc *fakeredis.Conn, cseq int, argv []string) fakeredis.Action {
			if strings.EqualFold(argv[0], "EXEC") {
				return fakeredis.Action{Drop: true}
			}
			return fakeredis.Action{}
		}
		cl, err := newClient(c, s, rec, false, func(o *rueidis.ClientOption) {
			o.DisableCache = false
			if c.Adapt {
				o.NewCacheStoreFn = func(opt rueidis.CacheStoreOption) rueidis.CacheStore {
					return rueidis.NewSimpleCacheAdapter(newMapCache())
				}
			}
		})
		if err != nil {
			at.extra = "setup: " + err.Error()
			return
		}
		defer func() { killAll(s); cl.Close() }()
		key := "k:" + tag
		var wg sync.WaitGroup
		wg.Add(1)
		go func() { defer wg.Done(); cl.DoCache(bg, cl.B().Get().Key(key).Cache(), time.Minute) }()
		for i := 0; i < 300 && !reached(s, key); i++ {
			time.Sleep(time.Millisecond)
		}
		time.Sleep(5 * time.Millisecond)
		nbefore := len(s.LogCopy())
		ctx, cancel := context.WithTimeout(bg, d)
		defer cancel()
		at.started = time.Now()
		at.err = cl.DoCache(ctx, cl.B().Get().Key(key).Cache(), time.Minute).NonRedisError()
		at.took = time.Since(at.started)
		at.ctxErr = ctxErrOf(ctx)
		if len(s.LogCopy()) != nbefore {
			at.extra = "the waiting caller sent commands of its own instead of waiting on the pending flight"
		}
		at.coq = fmt.Sprintf("(CSelect true true false %s)", obs.Bool(at.ctxErr != nil && errors.Is(at.err, at.ctxErr)))
		killAll(s)
		wg.Wait()
	case "retry-cancel", "retry-skip", "retry-wait", "retry-dl-cancel":
		// the server answers LOADING: the command is retryable, the retry handler asks for `delay`
		delay := 3 * time.Second
		if c.Kind == "retry-wait" {
			delay = 30 * time.Millisecond
		}
		nload := 0
		var mu sync.Mutex
		loading := fakeredis.Error("LOADING Redis is loading the dataset in memory")
		s.Fault = func(fc *fakeredis.Conn, cseq int, argv []string) fakeredis.Action {
			if strings.EqualFold(argv[0], "GET") {
				mu.Lock()
				nload++
				first := nload == 1
				mu.Unlock()
				if first || c.Kind != "retry-wait" {
					return fakeredis.Action{Override: &loading}
				}
			}
			return fakeredis.Action{}
		}
		cl, err := newClient(c, s, rec, false, func(o *rueidis.ClientOption) {
			o.DisableRetry = false
			o.RetryDelay = func(attempts int, cmd rueidis.Completed, err error) time.Duration { return delay }
		})
		if err != nil {
			at.extra = "setup: " + err.Error()
			return
		}
		defer func() { killAll(s); cl.Close() }()
		var ctx context.Context
		var cancel context.CancelFunc
		hasDl := c.Kind != "retry-cancel"
		if hasDl {
			ctx, cancel = context.WithTimeout(bg, d)
		} else {
			ctx, cancel = context.WithCancel(bg)
			time.AfterFunc(d, cancel)
		}
		if c.Kind == "retry-wait" {
			ctx, cancel = context.WithTimeout(bg, 5*time.Second)
		}
		if c.Kind == "retry-dl-cancel" {
			// one minute of deadline, far beyond the back-off: WaitOrSkipRetry decides to wait; the cancellation arrives meanwhile
			cancel()
			parent, cancelParent := context.WithCancel(bg)
			defer cancelParent()
			ctx, cancel = context.WithTimeout(parent, time.Minute)
			if c.Parent {
				time.AfterFunc(d, cancelParent)
			} else {
				time.AfterFunc(d, cancel)
			}
		}
		defer cancel()
		at.started = time.Now()
		var r rueidis.RedisResult
		if c.Multi && c.Kind == "retry-dl-cancel" {
			r = cl.DoMulti(ctx, cl.B().Get().Key("k:"+tag).Build(), cl.B().Get().Key("k2:"+tag).Build())[0]
		} else {
			r = cl.Do(ctx, cl.B().Get().Key("k:"+tag).Build())
		}
		at.err = r.NonRedisError()
		at.took = time.Since(at.started)
		at.ctxErr = ctxErrOf(ctx)
		mu.Lock()
		tries := nload
		mu.Unlock()
		retried := tries > 1 || (at.ctxErr != nil && errors.Is(at.err, at.ctxErr))
		switch c.Kind {
		case "retry-skip":
			// deadline sooner than the delay: no wait, the LOADING error is returned at once
			if at.took > slack {
				at.extra = fmt.Sprintf("WaitOrSkipRetry waited %v although the deadline (%v) is sooner than the retry delay (%v)", at.took, d, delay)
			}
			if _, ok := r.Error().(*rueidis.RedisError); !ok {
				at.extra = appendS(at.extra, fmt.Sprintf("expected the LOADING reply, got %v", r.Error()))
			}
			at.err, at.ctxErr = nil, nil // not a context outcome
			at.coq = fmt.Sprintf("(CRetry %d%%Z %d%%Z true true false false %s false false)", delay.Milliseconds(), int64(c.Ms), obs.Bool(tries > 1))
		case "retry-dl-cancel":
			// the wait's own outcome: it ended on the context iff the call came back before the timer could fire
			onCtx := at.ctxErr != nil && errors.Is(at.err, at.ctxErr) && at.took < delay
			at.coq = fmt.Sprintf("(CRetry %d%%Z 60000%%Z true true true false %s true %s)", delay.Milliseconds(), obs.Bool(retried), obs.Bool(onCtx))
		case "retry-cancel":
			at.coq = fmt.Sprintf("(CRetry %d%%Z 0%%Z false true true false %s true %s)", delay.Milliseconds(), obs.Bool(retried),
				obs.Bool(at.ctxErr != nil && errors.Is(at.err, at.ctxErr)))
		default: // retry-wait: the timer fires, the retry succeeds
			if r.Error() != nil && !rueidis.IsRedisNil(r.Error()) {
				at.extra = fmt.Sprintf("the retry after the back-off failed: %v", r.Error())
			}
			at.err, at.ctxErr = nil, nil
			at.coq = fmt.Sprintf("(CRetry %d%%Z 5000%%Z true true false true %s true false)", delay.Milliseconds(), obs.Bool(tries > 1))
		}
	}
	return
}

// ctxErrOf: the context's error; a deadline that has passed counts even if the context's own timer
// goroutine has not run yet (the connection deadline derived from it may fire a moment earlier).
func ctxErrOf(ctx context.Context) error {
	if e := ctx.Err(); e != nil {
		return e
	}
	if dl, ok := ctx.Deadline(); ok && !time.Now().Before(dl) {
		return context.DeadlineExceeded
	}
	return nil
}

func appendS(a, b string) string {
	if a == "" {
		return b
	}
	return a + "; " + b
}

func run(ci any) (res obs.Result) {
	c := ci.(Case)
	res.Kind = c.Kind
	res.Site, res.Class = "pipe.go:Do", "late-return"
	if strings.HasPrefix(c.Kind, "retry") {
		res.Site = "retry.go:WaitOrSkipRetry"
	}
	d := time.Duration(c.Ms) * time.Millisecond
	var at attempt
	verdict := ""
	for try := 0; try < 3; try++ {
		// a watchdog around the scenario: a call that ignores its context must be reported, not left to the
		// runtime's deadlock detector
		ch := make(chan attempt, 1)
		go func() { ch <- once(c) }()
		select {
		case at = <-ch:
		case <-time.After(hangBound):
			res.Oracle = fmt.Sprintf("the call did not return within %v although its context was done at %v", hangBound, d)
			res.Class = "hang"
			res.Nontrivial = true
			res.Sig = fmt.Sprint(c.Kind, c.Queue, c.Ms, c.N, c.Adapt, c.Multi, c.DoneBy, c.B, c.Parent)
			return
		}
		verdict = ""
		if at.extra != "" {
			verdict = at.extra
			if strings.HasPrefix(at.extra, "setup") {
				res.Class = "setup"
			}
			if strings.Contains(at.extra, "background workers were started") {
				res.Class = "sync-and-background"
			}
			break
		}
		timed := c.Kind != "retry-skip" && c.Kind != "retry-wait"
		limit := d + slack
		if c.Kind == "done-ctx" {
			limit = slack
		}
		if timed && at.took > limit {
			verdict = fmt.Sprintf("returned after %v, context done at %v (+%v slack)", at.took.Round(time.Millisecond), limit-slack, slack)
			continue // scheduler noise? repeat before reporting
		}
		if timed && (at.err == nil || at.ctxErr == nil || !errors.Is(at.err, at.ctxErr)) {
			verdict = fmt.Sprintf("returned %v, the context's error is %v", at.err, at.ctxErr)
			res.Class = "wrong-error"
		}
		if c.Kind == "done-ctx" && at.sent {
			verdict = appendS(verdict, "a call with an already-done context reached the server")
			res.Class = "done-ctx-sent"
		}
		break
	}
	res.Oracle = verdict
	res.Coq = at.coq
	res.Nontrivial = true
	res.Sig = fmt.Sprint(c.Kind, c.Queue, c.Ms, c.N, c.Adapt, c.Multi, c.DoneBy, c.B, c.Parent)
	res.Obs = map[string]any{"took_ms": at.took.Milliseconds(), "err": fmt.Sprint(at.err), "ctx": fmt.Sprint(at.ctxErr), "sent": at.sent}
	return
}

// a trivial CacheStore backend for the adapter path (cache.go adapterEntry.Wait)
type mapCache struct {
	mu sync.Mutex
	m  map[string]rueidis.RedisMessage
}

func newMapCache() *mapCache { return &mapCache{m: map[string]rueidis.RedisMessage{}} }
func (c *mapCache) Get(key string) rueidis.RedisMessage {
	c.mu.Lock()
	defer c.mu.Unlock()
	return c.m[key]
}
func (c *mapCache) Set(key string, val rueidis.RedisMessage) {
	c.mu.Lock()
	c.m[key] = val
	c.mu.Unlock()
}
func (c *mapCache) Del(key string) { c.mu.Lock(); delete(c.m, key); c.mu.Unlock() }
func (c *mapCache) Flush()         { c.mu.Lock(); c.m = map[string]rueidis.RedisMessage{}; c.mu.Unlock() }

func main() {
	obs.Main(obs.Runner{Name: "obs_ctx", Salt: 0xC05, Gen: genCase, Decode: decode, Run: run})
}
