// obs_stream: the connection-recycling half of C29 — DoStream / DoMultiStream store the pooled connection exactly
// once after the last reply and close it first when a reply was not consumed cleanly.
//
// Cases: 1-5 commands per call (bulk payloads with sizes around the read-buffer size, missing keys = nil replies,
// WRONGTYPE = error replies, integers, simple strings); the reply of one command cut after k bytes followed by a
// close of the connection, for every offset k and every reply index (final and non-final); an io.Writer that fails
// after m bytes (with a partial write); a context that is done before the call; a context that becomes done while the
// pooled connection is being set up (between spool.Acquire and the check in DoStream: one call, or two calls in a row,
// the second forced onto a fresh connection by holding the first one's wire with an open stream); a context that ends
// in the dial of the pooled connection (before / after the connection is made); a dial that fails.  The stream pool has
// capacity 1 or 2.  After every call the pool's books (size, idle) are read through the verif export, and a follow-up
// DoStream of a known key checks that the pool still hands out a connection and that a recycled one is in sync.
//
// Direct oracle: payloads written = the stored values; nil / error replies reported as errors, the next reply still
// delivered; a failing writer gets exactly the prefix it accepted and the stream goes on with the next reply; one
// WriteTo per command; afterwards the pool accounts for exactly the connections that are idle and usable (a leaked or
// doubly stored wire shows as size != idle; with capacity 1 the follow-up call then gets no connection); a recycled
// connection answers the next call correctly.
package main

import (
	"bytes"
	"context"
	"crypto/tls"
	"encoding/json"
	"errors"
	"fmt"
	"io"
	"net"
	"os"
	"strconv"
	"strings"
	"sync/atomic"
	"time"

	"github.com/redis/rueidis"

	"verifharness/fakeredis"
	"verifharness/gen"
	"verifharness/obs"
	"verifharness/psx"
)

type Cmd struct {
	K    string `json:"k"`              // bulk | nil | err | int | simple
	Size int    `json:"size,omitempty"` // bulk payload size
}

type Case struct {
	Buf    int    `json:"buf"` // ReadBufferEachConn
	Cmds   []Cmd  `json:"cmds"`
	CutCmd int    `json:"cut_cmd,omitempty"` // 1-based index of the command whose reply is cut (0 = none)
	CutAt  int    `json:"cut_at,omitempty"`  // bytes of that reply that are sent
	WrFail int    `json:"wr_fail,omitempty"` // >0: the io.Writer of command WrCmd fails after WrFail-1 bytes
	WrCmd  int    `json:"wr_cmd,omitempty"`
	Ctx    string `json:"ctx,omitempty"`    // "" | before | during | dial | dialed | dialfail
	Repeat int    `json:"repeat,omitempty"` // ctx=during: number of calls, each on a fresh connection (pool size is 2)
	Pool   int    `json:"pool,omitempty"`   // BlockingPoolSize (0 = 2)
	Warm   bool   `json:"warm,omitempty"`   // a successful call first (the wire comes from the idle list)
}

func genCase(r *gen.Rand, i int) any {
	c := Case{Buf: gen.Pick(r, []int{32, 64, 256, 4096})}
	n := 1 + r.Intn(5)
	if r.Chance(1, 3) {
		n = 1
	}
	for j := 0; j < n; j++ {
		k := gen.Pick(r, []string{"bulk", "bulk", "bulk", "nil", "err", "int", "simple"})
		cm := Cmd{K: k}
		if k == "bulk" {
			cm.Size = r.Size(3*c.Buf, c.Buf, 2*c.Buf, c.Buf-8, 16)
		}
		c.Cmds = append(c.Cmds, cm)
	}
	c.Warm = r.Chance(1, 2)
	if r.Chance(1, 2) {
		c.Pool = 1 // a single slot: a wire that is not given back leaves the next call without a connection
	}
	switch x := r.Intn(40); {
	case x < 16:
		// cut the reply of one command at some offset: thorough coverage of the offsets comes from many cases
		c.CutCmd = 1 + r.Intn(n)
		// at least one byte: a cut at 0 could only be done by killing the connection, which also drops the replies
		// still queued for the earlier commands (a different, timing dependent scenario)
		c.CutAt = 1 + r.Intn(40)
		if r.Chance(1, 3) {
			c.CutAt = 1 + r.Intn(3*c.Buf+20)
		}
	case x < 20:
		c.WrCmd = 1 + r.Intn(n)
		c.WrFail = 1 + r.Intn(2*c.Buf+10)
	case x < 23:
		c.Ctx = "before"
	case x < 26:
		c.Ctx = "during"
		c.Repeat = 1 + r.Intn(2)
		c.Warm = false
		c.Pool = 0
	case x < 28:
		c.Ctx = gen.Pick(r, []string{"dial", "dialed", "dialfail"})
		c.Warm = false // the call has to dial
	}
	return c
}

type failWriter struct {
	buf   bytes.Buffer
	limit int // fail once more than limit bytes would have been written (-1: never)
}

var errWriter = errors.New("verif: writer failed")
var errDial = errors.New("verif: dial failed")

func (w *failWriter) Write(p []byte) (int, error) {
	if w.limit < 0 || w.buf.Len()+len(p) <= w.limit {
		return w.buf.Write(p)
	}
	room := w.limit - w.buf.Len()
	if room < 0 {
		room = 0
	}
	w.buf.Write(p[:room])
	return room, errWriter
}

func serrCoq(err error) string {
	switch {
	case err == nil:
		return obs.None
	case rueidis.IsRedisNil(err):
		return "(Some ENil)"
	case err == io.EOF:
		return "(Some EEOF)"
	case err == errWriter:
		return "(Some EWriter)"
	case err == context.Canceled || err == context.DeadlineExceeded:
		return "(Some ECtxDone)"
	case errors.Is(err, errDial):
		return "(Some EPipe)" // p.Error() of the dead wire a failed dial leaves
	}
	if _, ok := rueidis.IsRedisErr(err); ok {
		return "(Some ERedis)"
	}
	return "(Some EIO)"
}

func payload(j, size int) string {
	var b strings.Builder
	for b.Len() < size {
		b.WriteString("p" + strconv.Itoa(j) + ":" + strconv.Itoa(b.Len()) + ";")
	}
	return b.String()[:size]
}

func run(ci any) (res obs.Result) {
	c := ci.(Case)
	if len(c.Cmds) == 0 || c.Buf <= 0 {
		// not a case of this observer (e.g. a corpus entry of the byte-level half)
		res.Kind = "foreign"
		res.Sig = "foreign"
		return
	}
	res.Kind = "clean"
	switch {
	case c.CutCmd > 0:
		res.Kind = "cut"
	case c.WrFail > 0:
		res.Kind = "writer"
	case c.Ctx != "":
		res.Kind = "ctx-" + c.Ctx
	}
	s := fakeredis.New()
	var cancelDuring atomic.Value // context.CancelFunc to fire when a pool connection finishes its setup
	var target atomic.Int64       // ordinal (among the GET/INCR/… commands on pool connections) of the reply to cut
	target.Store(-1)
	s.Fault = func(fc *fakeredis.Conn, cseq int, argv []string) fakeredis.Action {
		if fc.ID > 1 && len(argv) == 4 && argv[0] == "CLIENT" && argv[1] == "SETINFO" && argv[2] == "LIB-VER" {
			if f, ok := cancelDuring.Load().(context.CancelFunc); ok && f != nil {
				f() // the context ends while the connection handed out by the pool is being set up
			}
		}
		if fc.ID > 1 && len(argv) >= 2 && strings.HasPrefix(argv[1], "s:") {
			if n, ok := fc.Ext["n"].(int); ok {
				fc.Ext["n"] = n + 1
			} else {
				fc.Ext["n"] = 1
			}
			if int64(fc.Ext["n"].(int)) == target.Load() {
				if c.CutAt < 1 {
					return fakeredis.Action{CloseMidReply: 1}
				}
				return fakeredis.Action{CloseMidReply: c.CutAt}
			}
		}
		return fakeredis.Action{}
	}
	var dialMode atomic.Value // "" | dial | dialed | dialfail: what the next dial does (once)
	var dialCancel atomic.Value
	dialMode.Store("")
	dial := func(ctx context.Context, dst string, d *net.Dialer, t *tls.Config) (net.Conn, error) {
		mode := dialMode.Swap("").(string)
		cancel, _ := dialCancel.Load().(context.CancelFunc)
		switch mode {
		case "dial": // the context ends before the connection is made: the dial itself fails with ctx.Err()
			cancel()
		case "dialfail":
			return nil, errDial
		}
		conn, err := s.Dial(ctx, dst, d, t)
		if mode == "dialed" && cancel != nil { // … after it is made: the set-up commands fail with ctx.Err()
			cancel()
		}
		return conn, err
	}
	poolSize := c.Pool
	if poolSize == 0 {
		poolSize = 2
	}
	cl, err := rueidis.NewClient(rueidis.ClientOption{InitAddress: []string{"127.0.0.1:6379"}, DialCtxFn: dial, ForceSingleClient: true,
		DisableRetry: true, DisableCache: true, PipelineMultiplex: -1, ReadBufferEachConn: c.Buf, WriteBufferEachConn: 4096, RingScaleEachConn: 6,
		BlockingPoolSize: poolSize, ConnWriteTimeout: psx.Patience()})
	if err != nil {
		res.Oracle = "harness: " + err.Error()
		return
	}
	defer cl.Close()
	ctx := context.Background()
	// data
	vals := make([]string, len(c.Cmds))
	for j, cm := range c.Cmds {
		key := "s:" + strconv.Itoa(j)
		switch cm.K {
		case "bulk":
			vals[j] = payload(j, cm.Size)
			cl.Do(ctx, cl.B().Set().Key(key).Value(vals[j]).Build())
		case "err":
			cl.Do(ctx, cl.B().Hset().Key(key).FieldValue().FieldValue("f", "v").Build())
		case "int":
			cl.Do(ctx, cl.B().Set().Key(key).Value("41").Build())
			vals[j] = "42"
		case "simple":
			vals[j] = "OK"
		}
	}
	cl.Do(ctx, cl.B().Set().Key("s:probe").Value("probe-value").Build())
	build := func(j int) rueidis.Completed {
		key := "s:" + strconv.Itoa(j)
		switch c.Cmds[j].K {
		case "int":
			return cl.B().Incr().Key(key).Build()
		case "simple":
			return cl.B().Set().Key(key).Value("x").Build()
		}
		return cl.B().Get().Key(key).Build()
	}
	stats := func() (int, int) {
		sz, idle, _ := rueidis.VerifSpoolStats(cl)
		return sz, idle
	}
	probe := func() string {
		// a follow-up call on (possibly) the recycled connection
		// (the bounds only matter when something is broken — a pool without a free slot, a reply that never comes —: they
		// are generous and adaptive, see psx.Patience)
		pctx, cancel := context.WithTimeout(ctx, psx.Patience())
		defer cancel()
		st := cl.DoStream(pctx, cl.B().Get().Key("s:probe").Build())
		var b bytes.Buffer
		for st.HasNext() {
			if _, err := st.WriteTo(&b); err != nil {
				if pctx.Err() != nil || os.IsTimeout(err) {
					psx.Expired()
				}
				return "error: " + err.Error()
			}
		}
		if b.Len() == 0 && pctx.Err() != nil {
			psx.Expired()
			return "error: " + pctx.Err().Error()
		}
		return b.String()
	}
	problems := []string{}
	class := ""
	fail := func(cls, f string, a ...any) {
		problems = append(problems, fmt.Sprintf(f, a...))
		if class == "" {
			class = cls
		}
	}
	nwarm := 0
	if c.Warm {
		if got := probe(); got != "probe-value" {
			fail("harness", "warm-up stream returned %q", got)
		}
		nwarm = 1
	}
	sz0, idle0 := stats()
	if sz0 != nwarm || idle0 != nwarm {
		fail("pool-books", "before the call the stream pool has size %d, idle %d (expected %d, %d)", sz0, idle0, nwarm, nwarm)
	}
	res.Site = "pipe.go:DoStream"
	// ---- the context scenarios ----
	if c.Ctx == "during" {
		// every call gets a fresh pool connection whose set-up ends the context: DoStream returns ctx.Err() and must have
		// given the wire back.  The wires the earlier calls put back are held by open streams meanwhile, so that each call
		// really has to set up a connection.
		drainProbe := func(st rueidis.RedisResultStream) string {
			var b bytes.Buffer
			for st.HasNext() {
				if _, err := st.WriteTo(&b); err != nil {
					return "error: " + err.Error()
				}
			}
			if b.Len() == 0 && st.Error() != nil && st.Error() != io.EOF {
				if st.Error() == context.DeadlineExceeded {
					psx.Expired()
				}
				return "error: " + st.Error().Error()
			}
			return b.String()
		}
		for k := 0; k < c.Repeat; k++ {
			var holders []rueidis.RedisResultStream
			var hcancels []context.CancelFunc
			for h := 0; h < k; h++ {
				hctx, hcancel := context.WithTimeout(ctx, psx.Patience())
				hcancels = append(hcancels, hcancel)
				holders = append(holders, cl.DoStream(hctx, cl.B().Get().Key("s:probe").Build()))
			}
			tctx, tcancel := context.WithTimeout(ctx, psx.Patience()) // a pool without a free slot must not hang the observer
			cctx, cancel := context.WithCancel(tctx)
			cancelDuring.Store(cancel)
			st := cl.DoStream(cctx, build(0))
			cancelDuring.Store(context.CancelFunc(nil))
			switch err := st.Error(); {
			case err == nil:
				// the call was served by a connection that was already set up
				got := drainProbe(st)
				fail("ctx-done-wire-leak", "call %d did not have to set up a connection although the %d idle wires were held (it returned %q): the pool's books are off", k+1, k, got)
			case err != context.Canceled:
				if err == context.DeadlineExceeded {
					psx.Expired()
				}
				fail("ctx-done-wire-leak", "call %d: the context was cancelled while the pooled connection was being set up, the stream reports %v", k+1, err)
			case st.HasNext():
				fail("ctx-done-wire-leak", "call %d: an error stream has a next reply", k+1)
			}
			cancel()
			tcancel()
			if sz, idle := stats(); sz != k+1 || idle != 1 {
				fail("ctx-done-wire-leak", "after call %d (context ended during the set-up of its connection; %d other wires held by open streams) the pool accounts for %d wires with %d idle, expected %d and 1: the acquired wire was not stored exactly once", k+1, k, sz, idle, k+1)
			}
			for i, h := range holders {
				if got := drainProbe(h); got != "probe-value" {
					fail("recycled-out-of-sync", "the stream holding the wire of call %d returned %q", i+1, got)
				}
				hcancels[i]()
			}
		}
		sz, idle := stats()
		if sz != c.Repeat || idle != c.Repeat {
			fail("ctx-done-wire-leak", "after %d such calls the pool (BlockingPoolSize 2) accounts for %d wires with %d idle, expected %d and %d", c.Repeat, sz, idle, c.Repeat, c.Repeat)
		}
		// … and the pool must still be able to serve
		got := probe()
		if got != "probe-value" {
			fail("ctx-done-wire-leak", "the next call returned %q", got)
		}
		res.Obs = map[string]any{"size": sz, "idle": idle, "next_call": got}
		res.Sig = fmt.Sprintf("%+v", c)
		res.Nontrivial = true
		if len(problems) > 0 {
			res.Oracle = strings.Join(problems, "; ")
			res.Class = class
		}
		// model: one such call on a counted wire
		if c.Repeat == 1 {
			res.Coq = obs.App("CStream", obs.App("mkCall", obs.Nat(1), "true", "true", "0", "true"), "[]", "[]", obs.Nat(sz), obs.Nat(idle), "(Some ECtxDone)")
		}
		return
	}
	var cctx = ctx
	switch c.Ctx {
	case "before":
		cc, cancel := context.WithCancel(ctx)
		cancel()
		cctx = cc
	case "dial", "dialed", "dialfail":
		// the pool is empty: spool.Acquire counts a slot and dials; the dial ends the context (or fails)
		cc, cancel := context.WithCancel(ctx)
		defer cancel()
		cctx = cc
		dialCancel.Store(cancel)
		dialMode.Store(c.Ctx)
	}
	noCall := c.Ctx != "" // the call cannot send anything: an error stream, no WriteTo
	if c.CutCmd > 0 {
		// ordinal of the reply to cut among the s:-commands seen on the pool connection (the warm-up counts)
		target.Store(int64(nwarm + c.CutCmd))
	}
	// ---- the call ----
	var st rueidis.MultiRedisResultStream
	if len(c.Cmds) == 1 {
		st = cl.DoStream(cctx, build(0))
	} else {
		multi := make(rueidis.Commands, len(c.Cmds))
		for j := range c.Cmds {
			multi[j] = build(j)
		}
		st = cl.DoMultiStream(cctx, multi...)
	}
	type out struct {
		n   int64
		err error
		got string
	}
	var outs []out
	for j := 0; st.HasNext(); j++ {
		w := &failWriter{limit: -1}
		if c.WrFail > 0 && j+1 == c.WrCmd {
			w.limit = c.WrFail - 1
		}
		n, err := st.WriteTo(w)
		outs = append(outs, out{n, err, w.buf.String()})
		if j > len(c.Cmds)+2 {
			fail("too-many-writes", "HasNext is still true after %d WriteTo calls for %d commands", j+1, len(c.Cmds))
			break
		}
	}
	finalErr := st.Error()
	target.Store(-1)
	if leftover := dialMode.Swap("").(string); leftover != "" {
		fail("pool-books", "the call on an empty stream pool did not dial (scenario %s)", leftover)
	}
	// extra WriteTo after the end must not touch anything
	if n, _ := st.WriteTo(io.Discard); n != 0 {
		fail("write-after-end", "WriteTo after the end wrote %d bytes", n)
	}
	time.Sleep(time.Millisecond)
	sz, idle := stats()
	// ---- oracle ----
	// the encoded length of each reply decides whether a cut at CutAt bytes leaves it complete
	replyLen := func(j int) int {
		switch c.Cmds[j].K {
		case "bulk":
			return len("$"+strconv.Itoa(len(vals[j]))+"\r\n") + len(vals[j]) + 2
		case "nil":
			return 3
		case "err":
			return len("-WRONGTYPE Operation against a key holding the wrong kind of value\r\n")
		case "int":
			return len(":42\r\n")
		}
		return len("+OK\r\n")
	}
	cutIdx := c.CutCmd - 1 // -1: none
	cutComplete := cutIdx >= 0 && c.CutAt >= replyLen(cutIdx)
	wrTag := func(cls string) string { return cls }
	replies := []string{}
	wantWrites := 0
	broken := false // the reply stream ended (cut) before this command
	for j, cm := range c.Cmds {
		if noCall || broken {
			break
		}
		wantWrites++
		if j >= len(outs) {
			break
		}
		o := outs[j]
		wr := c.WrFail > 0 && c.WrCmd == j+1
		switch {
		case cutIdx >= 0 && j > cutIdx:
			// the connection was closed after the cut reply: this read fails and ends the stream
			replies = append(replies, obs.App("mkSres", obs.N(uint64(o.n)), serrCoq(o.err), "false"))
			if o.err == nil || rueidis.IsRedisNil(o.err) {
				fail("payload", "command %d: the connection was closed before its reply, WriteTo returned (%d, %v)", j, o.n, o.err)
			}
			broken = true
		case j == cutIdx && !cutComplete:
			replies = append(replies, obs.App("mkSres", obs.N(uint64(o.n)), serrCoq(o.err), "false"))
			if o.err == nil || rueidis.IsRedisNil(o.err) {
				fail("payload", "command %d: its reply was cut after %d of %d bytes, WriteTo returned (%d, %v)", j, c.CutAt, replyLen(j), o.n, o.err)
			} else if _, isRedis := rueidis.IsRedisErr(o.err); isRedis {
				fail("payload", "command %d: its reply was cut short, WriteTo reported a redis error %v", j, o.err)
			}
			if cm.K == "bulk" && !strings.HasPrefix(vals[j], o.got) {
				fail("payload", "command %d: the bytes written before the failure are not a prefix of the value", j)
			}
			broken = true
		case cm.K == "nil":
			replies = append(replies, "(mkSres 0 (Some ENil) true)")
			if !rueidis.IsRedisNil(o.err) || o.n != 0 {
				fail(wrTag("nil-err"), "command %d: a nil reply was reported as (%d, %v)", j, o.n, o.err)
			}
		case cm.K == "err":
			replies = append(replies, "(mkSres 0 (Some ERedis) true)")
			if _, ok := rueidis.IsRedisErr(o.err); !ok || o.n != 0 || rueidis.IsRedisNil(o.err) {
				fail(wrTag("nil-err"), "command %d: an error reply was reported as (%d, %v)", j, o.n, o.err)
			}
		case wr && c.WrFail-1 < len(vals[j]):
			// the writer accepts WrFail-1 bytes and fails: it got exactly that prefix, WriteTo returns its error, the rest
			// of the reply is taken off the connection (clean) and the stream goes on with the next reply
			lim := c.WrFail - 1
			replies = append(replies, obs.App("mkSres", obs.N(uint64(o.n)), "(Some EWriter)", "true"))
			if o.err != errWriter || o.got != vals[j][:lim] || o.n != int64(lim) {
				fail("writer-error", "command %d (%s, %d bytes): the writer failed after %d bytes; WriteTo returned (%d, %v) and the writer holds %d bytes, a prefix of the value: %v", j, cm.K, len(vals[j]), lim, o.n, o.err, len(o.got), strings.HasPrefix(vals[j], o.got))
			}
		default:
			replies = append(replies, obs.App("mkSres", obs.N(uint64(o.n)), obs.None, "true"))
			if o.err != nil || o.got != vals[j] {
				fail(wrTag("payload"), "command %d (%s, %d bytes): WriteTo returned (%d, %v), %d bytes written, equal to the value: %v", j, cm.K, len(vals[j]), o.n, o.err, len(o.got), o.got == vals[j])
			}
		}
	}
	if len(outs) != wantWrites {
		fail(wrTag("one-per-cmd"), "%d WriteTo calls while HasNext, %d expected for %d commands", len(outs), wantWrites, len(c.Cmds))
	}
	if sz != idle {
		cls := "pool-books"
		if noCall {
			cls = "ctx-done-wire-leak"
		}
		fail(wrTag(cls), "after the call the stream pool accounts for %d wires but %d are idle (a wire was not stored, or stored twice)", sz, idle)
	}
	if c.Ctx == "" && !broken && (sz != 1 || idle != 1) {
		fail("pool-books", "a cleanly consumed stream left the pool with size %d, idle %d", sz, idle)
	}
	if noCall {
		// nothing was sent: the pool is as before the call (the dead wire of a failed dial gave its slot back, the dead
		// pipe made up for a done context never had one)
		if sz != nwarm || idle != nwarm {
			fail("ctx-done-wire-leak", "the call could not send anything (scenario %s) and left the pool with size %d, idle %d; before the call it had %d, %d", c.Ctx, sz, idle, nwarm, nwarm)
		}
		wantErr := context.Canceled
		if c.Ctx == "dialfail" {
			wantErr = errDial
		}
		if !errors.Is(finalErr, wantErr) {
			fail("ctx-error", "scenario %s: the stream reports %v, expected %v", c.Ctx, finalErr, wantErr)
		}
	}
	if broken && idle != 0 {
		fail("unclean-recycled", "a reply was not consumed completely but the connection went back to the idle list")
	}
	// the recycled connection must still be in sync (after a cut the idle connection may be one the server has closed
	// behind the client's back: that costs one failed call, not more)
	got := probe()
	if got != "probe-value" && cutIdx >= 0 {
		got = probe()
	}
	if got != "probe-value" {
		fail(wrTag("recycled-out-of-sync"), "the call after this one returned %q instead of the stored value (stream pool of %d): the pool has no connection left for it, or the connection was recycled out of sync with the reply stream", got, poolSize)
	}
	// ---- the model case ----
	// ctx done at the check in DoStream; a counted wire (not the dead pipe Acquire makes up for a done context); p.state
	// (3 for both kinds of dead pipe)
	wireState := "0"
	if noCall {
		wireState = "3"
	}
	callT := obs.App("mkCall", obs.Nat(len(c.Cmds)), obs.Bool(noCall && c.Ctx != "dialfail"), obs.Bool(c.Ctx != "before"), wireState, "true")
	outsT := obs.ListOf(outs, func(o out) string { return "(" + obs.N(uint64(o.n)) + ", " + serrCoq(o.err) + ")" })
	// the books of this call alone (the warm-up wire is the one reused)
	res.Coq = obs.App("CStream", callT, obs.List(replies), outsT, obs.Nat(sz), obs.Nat(idle), serrCoq(finalErr))
	if c.Ctx == "before" && nwarm == 1 {
		res.Coq = "" // the idle warm-up wire stays in the books; the model's call starts from an empty pool
	}
	res.Sig = fmt.Sprintf("%+v", c)
	res.Nontrivial = len(outs) > 0 || c.Ctx != ""
	res.Obs = map[string]any{"writes": len(outs), "size": sz, "idle": idle, "final": fmt.Sprint(finalErr)}
	if len(problems) > 0 {
		res.Oracle = strings.Join(problems, "; ")
		res.Class = class
	}
	return
}

func main() {
	obs.Main(obs.Runner{
		Name: "obs_stream", Salt: 29,
		Gen: genCase,
		Decode: func(raw json.RawMessage) (any, error) {
			var c Case
			err := json.Unmarshal(raw, &c)
			return c, err
		},
		Run: run,
	})
}
