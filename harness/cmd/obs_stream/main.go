// obs_stream: the connection-recycling half of C29 — DoStream / DoMultiStream store the pooled connection exactly
// once after the last reply and close it first when a reply was not consumed cleanly.
//
// Cases: 1-5 commands per call (bulk payloads with sizes around the read-buffer size, missing keys = nil replies,
// WRONGTYPE = error replies, integers, simple strings); the reply of one command cut after k bytes followed by a
// close of the connection, for every offset k; an io.Writer that fails after m bytes (with a partial write); a context
// that is done before the call; a context that becomes done while the pooled connection is being set up (between
// spool.Acquire and the check in DoStream).  After every call the pool's books (size, idle) are read through the verif
// export, and a follow-up DoStream of a known key checks that a recycled connection is still in sync.
//
// Direct oracle: payloads written = the stored values; nil / error replies reported as errors, the next reply still
// delivered; one WriteTo per command; afterwards the pool accounts for exactly the connections that are idle and
// usable (a leaked or doubly stored wire shows as size != idle); a recycled connection answers the next call correctly.
// Labels: site pipe.go:DoStream class ctx-done-wire-leak (DESIGN D7); site resp.go:streamTo class writer-failure-misaligned.
package main

import (
	"bytes"
	"context"
	"encoding/json"
	"errors"
	"fmt"
	"io"
	"strconv"
	"strings"
	"sync/atomic"
	"time"

	"github.com/redis/rueidis"

	"verifharness/fakeredis"
	"verifharness/gen"
	"verifharness/obs"
	"verifharness/psx"
)

type Cmd struct {
	K    string `json:"k"`              // bulk | nil | err | int | simple
	Size int    `json:"size,omitempty"` // bulk payload size
}

type Case struct {
	Buf     int    `json:"buf"` // ReadBufferEachConn
	Cmds    []Cmd  `json:"cmds"`
	CutCmd  int    `json:"cut_cmd,omitempty"`  // 1-based index of the command whose reply is cut (0 = none)
	CutAt   int    `json:"cut_at,omitempty"`   // bytes of that reply that are sent
	WrFail  int    `json:"wr_fail,omitempty"`  // >0: the io.Writer of command WrCmd fails after WrFail-1 bytes
	WrCmd   int    `json:"wr_cmd,omitempty"`
	Ctx     string `json:"ctx,omitempty"`      // "" | before | during
	Repeat  int    `json:"repeat,omitempty"`   // ctx=during: number of calls (pool size is 2)
	Warm    bool   `json:"warm,omitempty"`     // a successful call first (the wire comes from the idle list)
}

func genCase(r *gen.Rand, i int) any {
	c := Case{Buf: gen.Pick(r, []int{32, 64, 256, 4096})}
	n := 1 + r.Intn(5)
	if r.Chance(1, 3) {
		n = 1
	}
	for j := 0; j < n; j++ {
		k := gen.Pick(r, []string{"bulk", "bulk", "bulk", "nil", "err", "int", "simple"})
		cm := Cmd{K: k}
		if k == "bulk" {
			cm.Size = r.Size(3*c.Buf, c.Buf, 2*c.Buf, c.Buf-8, 16)
		}
		c.Cmds = append(c.Cmds, cm)
	}
	c.Warm = r.Chance(1, 2)
	switch x := r.Intn(40); {
	case x < 16:
		// cut the reply of one command at some offset: thorough coverage of the offsets comes from many cases
		c.CutCmd = 1 + r.Intn(n)
		// at least one byte: a cut at 0 could only be done by killing the connection, which also drops the replies
		// still queued for the earlier commands (a different, timing dependent scenario)
		c.CutAt = 1 + r.Intn(40)
		if r.Chance(1, 3) {
			c.CutAt = 1 + r.Intn(3*c.Buf+20)
		}
	case x < 20:
		c.WrCmd = 1 + r.Intn(n)
		c.WrFail = 1 + r.Intn(2*c.Buf+10)
	case x < 23:
		c.Ctx = "before"
	case x < 24:
		c.Ctx = "during"
		c.Repeat = 2
		c.Warm = false
	}
	return c
}

type failWriter struct {
	buf   bytes.Buffer
	limit int // fail once more than limit bytes would have been written (-1: never)
}

var errWriter = errors.New("verif: writer failed")

func (w *failWriter) Write(p []byte) (int, error) {
	if w.limit < 0 || w.buf.Len()+len(p) <= w.limit {
		return w.buf.Write(p)
	}
	room := w.limit - w.buf.Len()
	if room < 0 {
		room = 0
	}
	w.buf.Write(p[:room])
	return room, errWriter
}

func serrCoq(err error) string {
	switch {
	case err == nil:
		return obs.None
	case rueidis.IsRedisNil(err):
		return "(Some ENil)"
	case err == io.EOF:
		return "(Some EEOF)"
	case err == errWriter:
		return "(Some EWriter)"
	case err == context.Canceled || err == context.DeadlineExceeded:
		return "(Some ECtxDone)"
	}
	if _, ok := rueidis.IsRedisErr(err); ok {
		return "(Some ERedis)"
	}
	return "(Some EIO)"
}

func payload(j, size int) string {
	var b strings.Builder
	for b.Len() < size {
		b.WriteString("p" + strconv.Itoa(j) + ":" + strconv.Itoa(b.Len()) + ";")
	}
	return b.String()[:size]
}

func run(ci any) (res obs.Result) {
	c := ci.(Case)
	res.Kind = "clean"
	switch {
	case c.CutCmd > 0:
		res.Kind = "cut"
	case c.WrFail > 0:
		res.Kind = "writer"
	case c.Ctx != "":
		res.Kind = "ctx-" + c.Ctx
	}
	s := fakeredis.New()
	var cancelDuring atomic.Value // context.CancelFunc to fire when a pool connection finishes its setup
	var target atomic.Int64       // ordinal (among the GET/INCR/… commands on pool connections) of the reply to cut
	target.Store(-1)
	s.Fault = func(fc *fakeredis.Conn, cseq int, argv []string) fakeredis.Action {
		if fc.ID > 1 && len(argv) == 4 && argv[0] == "CLIENT" && argv[1] == "SETINFO" && argv[2] == "LIB-VER" {
			if f, ok := cancelDuring.Load().(context.CancelFunc); ok && f != nil {
				f() // the context ends while the connection handed out by the pool is being set up
			}
		}
		if fc.ID > 1 && len(argv) >= 2 && strings.HasPrefix(argv[1], "s:") {
			if n, ok := fc.Ext["n"].(int); ok {
				fc.Ext["n"] = n + 1
			} else {
				fc.Ext["n"] = 1
			}
			if int64(fc.Ext["n"].(int)) == target.Load() {
				if c.CutAt < 1 {
					return fakeredis.Action{CloseMidReply: 1}
				}
				return fakeredis.Action{CloseMidReply: c.CutAt}
			}
		}
		return fakeredis.Action{}
	}
	cl, err := rueidis.NewClient(rueidis.ClientOption{InitAddress: []string{"127.0.0.1:6379"}, DialCtxFn: s.Dial, ForceSingleClient: true,
		DisableRetry: true, DisableCache: true, PipelineMultiplex: -1, ReadBufferEachConn: c.Buf, WriteBufferEachConn: 4096, RingScaleEachConn: 6,
		BlockingPoolSize: 2, ConnWriteTimeout: 1200 * time.Millisecond})
	if err != nil {
		res.Oracle = "harness: " + err.Error()
		return
	}
	defer cl.Close()
	ctx := context.Background()
	// data
	vals := make([]string, len(c.Cmds))
	for j, cm := range c.Cmds {
		key := "s:" + strconv.Itoa(j)
		switch cm.K {
		case "bulk":
			vals[j] = payload(j, cm.Size)
			cl.Do(ctx, cl.B().Set().Key(key).Value(vals[j]).Build())
		case "err":
			cl.Do(ctx, cl.B().Hset().Key(key).FieldValue().FieldValue("f", "v").Build())
		case "int":
			cl.Do(ctx, cl.B().Set().Key(key).Value("41").Build())
			vals[j] = "42"
		case "simple":
			vals[j] = "OK"
		}
	}
	cl.Do(ctx, cl.B().Set().Key("s:probe").Value("probe-value").Build())
	build := func(j int) rueidis.Completed {
		key := "s:" + strconv.Itoa(j)
		switch c.Cmds[j].K {
		case "int":
			return cl.B().Incr().Key(key).Build()
		case "simple":
			return cl.B().Set().Key(key).Value("x").Build()
		}
		return cl.B().Get().Key(key).Build()
	}
	stats := func() (int, int) {
		sz, idle, _ := rueidis.VerifSpoolStats(cl)
		return sz, idle
	}
	probe := func() string {
		// a follow-up call on (possibly) the recycled connection
		pctx, cancel := context.WithTimeout(ctx, 2500*time.Millisecond)
		defer cancel()
		st := cl.DoStream(pctx, cl.B().Get().Key("s:probe").Build())
		var b bytes.Buffer
		for st.HasNext() {
			if _, err := st.WriteTo(&b); err != nil {
				return "error: " + err.Error()
			}
		}
		return b.String()
	}
	problems := []string{}
	class := ""
	fail := func(cls, f string, a ...any) {
		problems = append(problems, fmt.Sprintf(f, a...))
		if class == "" {
			class = cls
		}
	}
	nwarm := 0
	if c.Warm {
		if got := probe(); got != "probe-value" {
			fail("harness", "warm-up stream returned %q", got)
		}
		nwarm = 1
	}
	sz0, idle0 := stats()
	if sz0 != nwarm || idle0 != nwarm {
		fail("pool-books", "before the call the stream pool has size %d, idle %d (expected %d, %d)", sz0, idle0, nwarm, nwarm)
	}
	res.Site = "pipe.go:DoStream"
	// ---- the context scenarios ----
	if c.Ctx == "during" {
		// every call gets a fresh pool connection whose setup ends the context: DoStream returns ctx.Err() …
		for k := 0; k < c.Repeat; k++ {
			cctx, cancel := context.WithCancel(ctx)
			cancelDuring.Store(cancel)
			st := cl.DoStream(cctx, build(0))
			cancelDuring.Store(context.CancelFunc(nil))
			if st.Error() == nil {
				fail("harness", "the context was not done at the check (call %d)", k)
			}
			cancel()
		}
		sz, idle := stats()
		// … and the pool must still be able to serve: with BlockingPoolSize 2 a third call must not hang
		got := probe()
		res.Obs = map[string]any{"size": sz, "idle": idle, "next_call": got}
		res.Sig = fmt.Sprintf("%+v", c)
		res.Nontrivial = true
		if got != "probe-value" || sz != idle {
			res.Oracle = fmt.Sprintf("after %d DoStream calls whose context ended while the pooled connection was being set up, the pool (BlockingPoolSize 2) accounts for %d wires with %d idle; the next call returned %q — the acquired wire is never stored (early return on ctx.Err())", c.Repeat, sz, idle, got)
			res.Class = "ctx-done-wire-leak"
		}
		// model: one such call on a counted wire
		res.Coq = obs.App("CStream", obs.App("mkCall", obs.Nat(1), "true", "true", "0", "true"), "[]", "[]", obs.Nat(1), obs.Nat(0), "(Some ECtxDone)")
		if c.Repeat != 1 {
			res.Coq = "" // the books above are those of several calls
		}
		return
	}
	var cctx = ctx
	if c.Ctx == "before" {
		cc, cancel := context.WithCancel(ctx)
		cancel()
		cctx = cc
	}
	if c.CutCmd > 0 {
		// ordinal of the reply to cut among the s:-commands seen on the pool connection (the warm-up counts)
		target.Store(int64(nwarm + c.CutCmd))
	}
	// ---- the call ----
	var st rueidis.MultiRedisResultStream
	if len(c.Cmds) == 1 {
		st = cl.DoStream(cctx, build(0))
	} else {
		multi := make(rueidis.Commands, len(c.Cmds))
		for j := range c.Cmds {
			multi[j] = build(j)
		}
		st = cl.DoMultiStream(cctx, multi...)
	}
	type out struct {
		n   int64
		err error
		got string
	}
	var outs []out
	for j := 0; st.HasNext(); j++ {
		w := &failWriter{limit: -1}
		if c.WrFail > 0 && j+1 == c.WrCmd {
			w.limit = c.WrFail - 1
		}
		n, err := st.WriteTo(w)
		outs = append(outs, out{n, err, w.buf.String()})
		if j > len(c.Cmds)+2 {
			fail("too-many-writes", "HasNext is still true after %d WriteTo calls for %d commands", j+1, len(c.Cmds))
			break
		}
	}
	finalErr := st.Error()
	target.Store(-1)
	// extra WriteTo after the end must not touch anything
	if n, _ := st.WriteTo(io.Discard); n != 0 {
		fail("write-after-end", "WriteTo after the end wrote %d bytes", n)
	}
	time.Sleep(time.Millisecond)
	sz, idle := stats()
	// ---- oracle ----
	// the encoded length of each reply decides whether a cut at CutAt bytes leaves it complete
	replyLen := func(j int) int {
		switch c.Cmds[j].K {
		case "bulk":
			return len("$"+strconv.Itoa(len(vals[j]))+"\r\n") + len(vals[j]) + 2
		case "nil":
			return 3
		case "err":
			return len("-WRONGTYPE Operation against a key holding the wrong kind of value\r\n")
		case "int":
			return len(":42\r\n")
		}
		return len("+OK\r\n")
	}
	cutIdx := c.CutCmd - 1 // -1: none
	cutComplete := cutIdx >= 0 && c.CutAt >= replyLen(cutIdx)
	wrTag := func(cls string) string {
		if c.WrFail > 0 {
			return "writer-failure-misaligned" // everything that goes wrong after a failed Write is streamTo's over-discard
		}
		return cls
	}
	if c.WrFail > 0 {
		res.Site = "resp.go:streamTo"
	}
	replies := []string{}
	wantWrites := 0
	broken := false // the reply stream ended (cut) before this command
	for j, cm := range c.Cmds {
		if c.Ctx == "before" || broken {
			break
		}
		wantWrites++
		if j >= len(outs) {
			break
		}
		o := outs[j]
		wr := c.WrFail > 0 && c.WrCmd == j+1
		switch {
		case cutIdx >= 0 && j > cutIdx:
			// the connection was closed after the cut reply: this read fails and ends the stream
			replies = append(replies, obs.App("mkSres", obs.N(uint64(o.n)), serrCoq(o.err), "false"))
			if o.err == nil || rueidis.IsRedisNil(o.err) {
				fail("payload", "command %d: the connection was closed before its reply, WriteTo returned (%d, %v)", j, o.n, o.err)
			}
			broken = true
		case j == cutIdx && !cutComplete:
			replies = append(replies, obs.App("mkSres", obs.N(uint64(o.n)), serrCoq(o.err), "false"))
			if o.err == nil || rueidis.IsRedisNil(o.err) {
				fail("payload", "command %d: its reply was cut after %d of %d bytes, WriteTo returned (%d, %v)", j, c.CutAt, replyLen(j), o.n, o.err)
			} else if _, isRedis := rueidis.IsRedisErr(o.err); isRedis {
				fail("payload", "command %d: its reply was cut short, WriteTo reported a redis error %v", j, o.err)
			}
			if cm.K == "bulk" && !strings.HasPrefix(vals[j], o.got) {
				fail("payload", "command %d: the bytes written before the failure are not a prefix of the value", j)
			}
			broken = true
		case cm.K == "nil":
			replies = append(replies, "(mkSres 0 (Some ENil) true)")
			if !rueidis.IsRedisNil(o.err) || o.n != 0 {
				fail(wrTag("nil-err"), "command %d: a nil reply was reported as (%d, %v)", j, o.n, o.err)
			}
		case cm.K == "err":
			replies = append(replies, "(mkSres 0 (Some ERedis) true)")
			if _, ok := rueidis.IsRedisErr(o.err); !ok || o.n != 0 || rueidis.IsRedisNil(o.err) {
				fail(wrTag("nil-err"), "command %d: an error reply was reported as (%d, %v)", j, o.n, o.err)
			}
		case wr && o.err != nil:
			// streamTo declares the reply consumed unless its over-long Discard ran into the end of the data (then the
			// stream ends here with the writer's error)
			replies = append(replies, obs.App("mkSres", obs.N(uint64(o.n)), "(Some EWriter)", obs.Bool(finalErr != errWriter)))
			if o.err != errWriter {
				fail("writer-error", "command %d: the writer failed but WriteTo returned %v", j, o.err)
			}
		default:
			replies = append(replies, obs.App("mkSres", obs.N(uint64(o.n)), obs.None, "true"))
			if o.err != nil || o.got != vals[j] {
				fail(wrTag("payload"), "command %d (%s, %d bytes): WriteTo returned (%d, %v), %d bytes written, equal to the value: %v", j, cm.K, len(vals[j]), o.n, o.err, len(o.got), o.got == vals[j])
			}
		}
	}
	if len(outs) != wantWrites {
		fail(wrTag("one-per-cmd"), "%d WriteTo calls while HasNext, %d expected for %d commands", len(outs), wantWrites, len(c.Cmds))
	}
	if sz != idle {
		cls := "pool-books"
		if c.Ctx == "before" {
			cls = "ctx-done-wire-leak"
		}
		fail(wrTag(cls), "after the call the stream pool accounts for %d wires but %d are idle (a wire was not stored, or stored twice)", sz, idle)
	}
	if c.Ctx == "" && !broken && c.WrFail == 0 && (sz != 1 || idle != 1) {
		fail("pool-books", "a cleanly consumed stream left the pool with size %d, idle %d", sz, idle)
	}
	if broken && idle != 0 {
		fail("unclean-recycled", "a reply was not consumed completely but the connection went back to the idle list")
	}
	// the recycled connection must still be in sync (after a cut the idle connection may be one the server has closed
	// behind the client's back: that costs one failed call, not more)
	got := probe()
	if got != "probe-value" && cutIdx >= 0 {
		got = probe()
	}
	if got != "probe-value" {
		fail(wrTag("recycled-out-of-sync"), "the call after this one returned %q instead of the stored value: the connection was recycled out of sync with the reply stream", got)
	}
	// ---- the model case ----
	callT := obs.App("mkCall", obs.Nat(len(c.Cmds)), obs.Bool(c.Ctx == "before"), obs.Bool(c.Ctx != "before"), "0", "true")
	outsT := obs.ListOf(outs, func(o out) string { return "(" + obs.N(uint64(o.n)) + ", " + serrCoq(o.err) + ")" })
	// the books of this call alone (the warm-up wire is the one reused)
	res.Coq = obs.App("CStream", callT, obs.List(replies), outsT, obs.Nat(sz), obs.Nat(idle), serrCoq(finalErr))
	if c.Ctx == "before" && nwarm == 1 {
		res.Coq = "" // the idle warm-up wire stays in the books; the model's call starts from an empty pool
	}
	res.Sig = fmt.Sprintf("%+v", c)
	res.Nontrivial = len(outs) > 0 || c.Ctx != ""
	res.Obs = map[string]any{"writes": len(outs), "size": sz, "idle": idle, "final": fmt.Sprint(finalErr)}
	if len(problems) > 0 {
		res.Oracle = strings.Join(problems, "; ")
		res.Class = class
		if class == "writer-failure-misaligned" {
			res.Coq = "" // the replies after the over-discard are garbage: nothing for the model to predict
		}
	}
	_ = psx.Itoa
	return
}

func main() {
	obs.Main(obs.Runner{
		Name: "obs_stream", Salt: 29,
		Gen: genCase,
		Decode: func(raw json.RawMessage) (any, error) {
			var c Case
			err := json.Unmarshal(raw, &c)
			return c, err
		},
		Run: run,
	})
}
