// obs_setup: C47 — connection setup applies the configured session settings.
//
// Cases 0 … Space-1 enumerate the whole finite option space (every auth mode × every boolean / enum
// option × {RESP3 server, server without HELLO}) with a well-behaved server; later cases draw a
// configuration at random and make one setup step fail (error reply, "unknown command HELLO" text,
// null, wrong shape, connection closed).  Each case runs the real NewClient (or, for configurations
// NewClient refuses for a single node — ReplicaOnly, Sentinel.MasterSet — the real newPipe through the
// verif export) against the fake server and reports what the server logged before the first user command.
package main

import (
	"context"
	"encoding/json"
	"errors"
	"fmt"
	"net"
	"os"
	"runtime"
	"strconv"
	"strings"
	"sync"
	"time"

	"github.com/redis/rueidis"

	"verifharness/fakeredis"
	"verifharness/gen"
	"verifharness/obs"
	"verifharness/psx"
)

type Case struct {
	Auth     int  `json:"auth"`  // 0 none, 1 password only, 2 user+password, 3 user only, 4 fn supplies user+password, 5 fn supplies password only, 6 fn fails
	Name     bool `json:"name"`  // ClientName set
	AZ       bool `json:"az"`    // EnableReplicaAZInfo && AZFromInfo
	Cache    int  `json:"cache"` // 0 DisableCache, 1 default tracking, 2 custom tracking options
	DB       int  `json:"db"`    // SelectDB
	Replica  bool `json:"replica"`
	Sentinel bool `json:"sentinel"` // Sentinel.MasterSet set
	NoTouch  bool `json:"notouch"`
	NoEvict  bool `json:"noevict"`
	Redirect bool `json:"redirect"`
	SetInfo  int  `json:"setinfo"` // 0 nil (library defaults), 1 custom pair, 2 DisableClientSetInfo, 3 malformed (one element)
	Resp2    bool `json:"resp2"`   // AlwaysRESP2
	NoHello  bool `json:"nohello"` // server does not know HELLO
	FailAt   int  `json:"fail_at"` // 0 = none; k = the k-th command received on the connection
	FailKind string `json:"fail_kind,omitempty"`
	SentinelOpt bool `json:"sentinel_opt,omitempty"` // case about newSentinelOpt
	Multi    bool `json:"multi,omitempty"` // default multiplexing + pooled + streaming connections: every connection the client makes is examined
	Idx      int  `json:"idx,omitempty"`   // 1 + index in the exhaustive enumeration (0 = drawn at random)
}

// radices of the exhaustive part, in the order of decode(); the authentication mode is the slowest digit
// so that the quick tier (auth modes "none" and "user+password") is a prefix of the full enumeration.
var radix = []int{2, 2, 3, 2, 2, 2, 2, 2, 2, 3, 2, 2, 6}
var authOrder = []int{0, 2, 1, 3, 4, 5}

func fullSpace() int {
	n := 1
	for _, r := range radix {
		n *= r
	}
	return n
}

// space is the size of the exhaustive part of this run: everything in the thorough tier, the first
// two authentication modes in the quick tier.
func space() int {
	if os.Getenv("VERIF_TIER") == "thorough" {
		return fullSpace()
	}
	return fullSpace() / 3
}

func decode(i int) Case {
	d := make([]int, len(radix))
	for k, r := range radix {
		d[k] = i % r
		i /= r
	}
	b := func(x int) bool { return x == 1 }
	c := Case{Name: b(d[0]), AZ: b(d[1]), Cache: d[2], Replica: b(d[4]), Sentinel: b(d[5]),
		NoTouch: b(d[6]), NoEvict: b(d[7]), Redirect: b(d[8]), SetInfo: d[9], Resp2: b(d[10]), NoHello: b(d[11]), Auth: authOrder[d[12]]}
	if d[3] == 1 {
		c.DB = 3
	}
	return c
}

var failKinds = []string{"err", "err", "err", "noperm", "nohello", "nil", "int", "close", "proto2"}

// The exhaustive part is computed by a pool of workers one batch ahead of obs.Main's sequential loop.
const batch = 512

var (
	cacheMu sync.Mutex
	cache   = map[int]chan obs.Result{}
)

func prefetch(from int) {
	sp := space()
	sem := make(chan struct{}, runtime.GOMAXPROCS(0))
	cacheMu.Lock()
	defer cacheMu.Unlock()
	for j := from; j < from+batch && j < sp; j++ {
		ch := make(chan obs.Result, 1)
		cache[j+1] = ch
		go func(j int) {
			sem <- struct{}{}
			c := decode(j)
			c.Idx = j + 1
			ch <- run1(c)
			<-sem
		}(j)
	}
}

func run(ci any) obs.Result {
	c := ci.(Case)
	if c.Idx > 0 {
		cacheMu.Lock()
		ch := cache[c.Idx]
		delete(cache, c.Idx)
		cacheMu.Unlock()
		if ch != nil {
			return <-ch
		}
	}
	return run1(c)
}

func genCase(r *gen.Rand, i int) any {
	sp := space()
	if i < sp {
		if i%batch == 0 {
			prefetch(i)
		}
		c := decode(i)
		c.Idx = i + 1
		return c
	}
	full := fullSpace()
	if (i-sp)%4 == 3 { // the same configuration space, every connection of a full client
		c := decode(r.Intn(full))
		c.Multi = true
		return c
	}
	if r.Chance(1, 40) {
		c := decode(r.Intn(full))
		c.SentinelOpt = true
		c.Resp2, c.NoHello = false, false
		return c
	}
	c := decode(r.Intn(full))
	if r.Chance(1, 30) {
		c.Auth = 6 // the credentials provider fails: nothing may be sent
	}
	if r.Chance(1, 8) {
		c.DB = gen.Pick(r, []int{1, 15, 16, -1, 9, 12345})
	}
	if r.Chance(1, 10) {
		c.SetInfo = 3
	}
	c.Multi = r.Chance(1, 3)
	c.FailAt = 1 + r.Intn(13)
	c.FailKind = gen.Pick(r, failKinds)
	if c.FailKind == "proto2" {
		c.FailAt = 1
	}
	return c
}

const (
	cUser, cPass     = "alice", "s3cret"
	cFnUser, cFnPass = "dyn", "rotated"
	cName            = "verif-conn"
	cSUser, cSPass   = "sent", "sentpw"
	cSName           = "sent-name"
	marker           = "verif-marker"
)

var setupWords = []string{"HELLO", "AUTH", "SETNAME", "INFO", "SERVER", "CLIENT", "TRACKING", "ON", "OPTIN", "OPTOUT", "BCAST", "NOLOOP", "PREFIX", "SELECT", "READONLY", "NO-TOUCH", "NO-EVICT", "CAPA", "redirect", "SETINFO", "LIB-NAME", "LIB-VER", "default", "2", "3", "0", "1", "15", "16", "-1", "9", "12345", "alice", "s3cret", "dyn", "rotated", "verif-conn", "sent", "sentpw", "sent-name", "p:", "mylib", "9.9", "only-one", "rueidis", "1.0.76", ""}
var voc = psx.NewVocab(setupWords)

var zname = map[int]string{0: "z_0", 1: "z_1", 3: "z_3", 9: "z_9", 15: "z_15", 16: "z_16", -1: "z_m1", 12345: "z_12345"}

func zlit(i int) string {
	if n, ok := zname[i]; ok {
		return n
	}
	return obs.Z(int64(i))
}

var errCred = errors.New("verif: credentials provider failed")
var customTracking = []string{"BCAST", "PREFIX", "p:", "NOLOOP"}

// effective credentials the client should end up using (what the server is configured to require)
func effective(c Case) (user, pass string) {
	switch c.Auth {
	case 1:
		return "", cPass
	case 2:
		return cUser, cPass
	case 3:
		return cUser, ""
	case 4:
		return cFnUser, cFnPass
	case 5:
		return "", cFnPass
	}
	return "", ""
}

func buildOption(c Case, s *fakeredis.Server) rueidis.ClientOption {
	o := rueidis.ClientOption{
		InitAddress: []string{"127.0.0.1:6379"}, DialCtxFn: s.Dial,
		ReadBufferEachConn: 4096, WriteBufferEachConn: 4096, RingScaleEachConn: 4,
		DisableRetry: true,
	}
	o.Dialer.Timeout = 10 * time.Second // never reached unless the machine stalls: a setup step that gets no reply is injected as a closed connection, not as silence
	switch c.Auth {
	case 1:
		o.Password = cPass
	case 2:
		o.Username, o.Password = cUser, cPass
	case 3:
		o.Username = cUser
	case 4:
		o.Password = cPass // overridden by the provider
		o.AuthCredentialsFn = func(rueidis.AuthCredentialsContext) (rueidis.AuthCredentials, error) {
			return rueidis.AuthCredentials{Username: cFnUser, Password: cFnPass}, nil
		}
	case 5:
		o.Username, o.Password = cUser, cPass
		o.AuthCredentialsFn = func(rueidis.AuthCredentialsContext) (rueidis.AuthCredentials, error) {
			return rueidis.AuthCredentials{Password: cFnPass}, nil
		}
	case 6:
		o.AuthCredentialsFn = func(rueidis.AuthCredentialsContext) (rueidis.AuthCredentials, error) {
			return rueidis.AuthCredentials{}, errCred
		}
	}
	if c.Name {
		o.ClientName = cName
	}
	o.EnableReplicaAZInfo, o.AZFromInfo = c.AZ, c.AZ
	switch c.Cache {
	case 0:
		o.DisableCache = true
	case 2:
		o.ClientTrackingOptions = append([]string(nil), customTracking...)
	}
	o.SelectDB = c.DB
	o.ReplicaOnly = c.Replica
	if c.Sentinel {
		o.Sentinel.MasterSet = "mymaster"
	}
	o.Sentinel.Username, o.Sentinel.Password, o.Sentinel.ClientName = cSUser, cSPass, cSName
	o.ClientNoTouch, o.ClientNoEvict = c.NoTouch, c.NoEvict
	o.Standalone.EnableRedirect = c.Redirect
	switch c.SetInfo {
	case 1:
		o.ClientSetInfo = []string{"mylib", "9.9"}
	case 2:
		o.ClientSetInfo = rueidis.DisableClientSetInfo
	case 3:
		o.ClientSetInfo = []string{"only-one"}
	}
	o.AlwaysRESP2 = c.Resp2
	return o
}

func coqOpts(c Case) string {
	o := buildOption(c, fakeredis.New())
	credfn := obs.None
	switch c.Auth {
	case 4:
		credfn = obs.Some(obs.Some("(" + voc.B(cFnUser) + ", " + voc.B(cFnPass) + ")"))
	case 5:
		credfn = obs.Some(obs.Some("(" + voc.B("") + ", " + voc.B(cFnPass) + ")"))
	case 6:
		credfn = obs.Some(obs.None)
	}
	track := obs.None
	if o.ClientTrackingOptions != nil {
		track = obs.Some(obs.ListOf(o.ClientTrackingOptions, voc.B))
	}
	setinfo := obs.None
	if o.ClientSetInfo != nil {
		setinfo = obs.Some(obs.ListOf(o.ClientSetInfo, voc.B))
	}
	return obs.App("mkOpts", voc.B(o.Username), voc.B(o.Password), credfn, voc.B(o.ClientName),
		obs.Bool(o.EnableReplicaAZInfo && o.AZFromInfo), obs.Bool(o.DisableCache), track, zlit(o.SelectDB),
		obs.Bool(o.ReplicaOnly), obs.Bool(o.Sentinel.MasterSet != ""), obs.Bool(o.ClientNoTouch), obs.Bool(o.ClientNoEvict),
		obs.Bool(o.Standalone.EnableRedirect), setinfo, obs.Bool(o.AlwaysRESP2), voc.B(rueidis.LibName), voc.B(rueidis.LibVer),
		voc.B(o.Sentinel.Username), voc.B(o.Sentinel.Password), voc.B(o.Sentinel.ClientName))
}

// classify the reply the server sent into the model's reply class
func replyClass(v fakeredis.V) string {
	switch v.T {
	case '%', '*', '~':
		if (v.T == '%' || v.T == '*' || v.T == '~') && len(v.A)%2 == 0 {
			proto := int64(0)
			for i := 0; i+1 < len(v.A); i += 2 {
				if v.A[i].S == "proto" {
					proto = v.A[i+1].I
				}
			}
			switch proto {
			case 3:
				return "rmap3"
			case 2:
				return "rmap2"
			case 0:
				return "rmap0"
			}
			return "(RMapP " + obs.Z(proto) + ")"
		}
		return "RArr"
	case '+', '$', '=':
		return "RStr"
	case ':':
		return "RInt"
	case '_':
		return "RNil"
	case '-':
		return "(RErr " + obs.Bool(rueidis.VerifNoHello(strings.TrimPrefix(v.S, "ERR "))) + ")"
	case '#', ',', '(':
		return "RScalar"
	}
	return "RArr"
}

func outcomeOf(err error, resp3 bool) string {
	switch {
	case err == nil:
		return "(SetupOk " + obs.Bool(resp3) + ")"
	case errors.Is(err, errCred):
		return "(SetupFail FCred)"
	case errors.Is(err, rueidis.ErrNoCache):
		return "(SetupFail FNoCache)"
	}
	if _, ok := rueidis.IsRedisErr(err); ok || rueidis.IsRedisNil(err) {
		return "(SetupFail FRedis)"
	}
	return "(SetupFail FOther)"
}

func isSetupCmd(argv []string) bool {
	switch argv[0] {
	case "HELLO", "AUTH", "INFO", "CLIENT", "SELECT", "READONLY":
		return true
	}
	return false
}

func isUserCmd(argv []string) bool { return argv[0] == "HGETALL" || argv[0] == "GET" }

// what the server saw on one connection: the commands before the first non-setup command, their reply
// classes split into the two pipelines, and the session state.
func seenOf(c Case, fc *fakeredis.Conn, out string, cmpSession bool) (seen string, r3, r2 []string, cmdsSeen [][]string, served bool) {
	v := struct {
		proto                                int
		name, db                             string
		track                                string
		readonly, notouch, noevict, redirect bool
		libname, libver                      string
	}{proto: 2, db: "0", track: obs.None, libname: obs.None, libver: obs.None}
	if fc != nil {
		s := fc.S
		s.Lock()
		stage2 := c.Resp2
		inSetup := true
		for _, e := range fc.Log {
			if isUserCmd(e.Argv) {
				served = true
			}
			if !isSetupCmd(e.Argv) {
				inSetup = false
			}
			if !inSetup {
				continue
			}
			if e.Argv[0] == "AUTH" || (e.Argv[0] == "HELLO" && len(e.Argv) > 1 && e.Argv[1] == "2") {
				stage2 = true
			}
			cmdsSeen = append(cmdsSeen, e.Argv)
			if stage2 {
				r2 = append(r2, replyClass(e.Reply))
			} else {
				r3 = append(r3, replyClass(e.Reply))
			}
		}
		v.proto = fc.Proto
		v.name = fc.Name
		v.db = strconv.Itoa(fc.DB)
		if fc.Tracking {
			v.track = obs.Some("(" + strings.Join([]string{obs.Bool(fc.OptIn), obs.Bool(fc.OptOut), obs.Bool(fc.BCast), obs.Bool(fc.NoLoop), obs.ListOf(fc.Prefixes, voc.B)}, ", ") + ")")
		}
		v.readonly = fc.ReadOnly
		v.notouch, v.noevict, v.redirect = psx.ExtBool(fc, "notouch"), psx.ExtBool(fc, "noevict"), psx.ExtBool(fc, "redirect")
		if x, ok := psx.ExtStr(fc, "libname"); ok {
			v.libname = obs.Some(voc.B(x))
		}
		if x, ok := psx.ExtStr(fc, "libver"); ok {
			v.libver = obs.Some(voc.B(x))
		}
		s.Unlock()
	}
	// a connection that starts with the RESP2 pipeline although RESP3 was not ruled out by the options is the
	// Pub/Sub secondary connection of a RESP2 pipe (_newPipe with r2ps = true)
	r2ps := !c.Resp2 && len(cmdsSeen) > 0 && (cmdsSeen[0][0] == "AUTH" || (cmdsSeen[0][0] == "HELLO" && len(cmdsSeen[0]) > 1 && cmdsSeen[0][1] == "2"))
	seen = obs.App("mkSeen", voc.Argvs(cmdsSeen), out, obs.Bool(served), obs.Bool(cmpSession), obs.Bool(r2ps),
		"n_"+strconv.Itoa(v.proto), voc.B(v.name), voc.B(v.db), v.track,
		obs.Bool(v.readonly), obs.Bool(v.notouch), obs.Bool(v.noevict), obs.Bool(v.redirect), v.libname, v.libver)
	return
}

func run1(c Case) (res obs.Result) {
	if c.SentinelOpt {
		return runSentinelOpt(c)
	}
	res.Kind = "list"
	if c.Multi {
		res.Kind = "multi"
	}
	if c.FailAt > 0 {
		res.Kind += "-fail-" + c.FailKind
	}
	s := fakeredis.New()
	psx.InstallSessionFlags(s)
	_, pass := effective(c)
	s.Password = pass
	s.NoHello = c.NoHello
	var tr psx.ConnTracker
	cmpSession := true
	s.Fault = func(fc *fakeredis.Conn, cseq int, argv []string) fakeredis.Action {
		if cseq == 1 {
			tr.See(fc)
		}
		if fc.ID != 1 || c.FailAt == 0 || cseq != c.FailAt || !isSetupCmd(argv) {
			return fakeredis.Action{} // only setup steps fail; a fail position beyond the setup is a fault-free run
		}
		var v fakeredis.V
		switch c.FailKind {
		case "err":
			v = fakeredis.Error("ERR injected failure")
		case "noperm":
			v = fakeredis.Error("NOPERM this user has no permissions to run the command")
		case "nohello":
			v = fakeredis.Error("ERR unknown command `HELLO`, with args beginning with:")
		case "nil":
			v = fakeredis.Nil()
			cmpSession = false
		case "int":
			v = fakeredis.Int(1)
			cmpSession = false
		case "proto2":
			v = fakeredis.Map(fakeredis.Bulk("server"), fakeredis.Bulk("redis"), fakeredis.Bulk("proto"), fakeredis.Int(2))
			cmpSession = false
		case "close":
			return fakeredis.Action{CloseBefore: true}
		}
		return fakeredis.Action{Override: &v}
	}
	opt := buildOption(c, s)
	viaClient := !c.Sentinel && (!c.Replica || c.Redirect)
	ctx := context.Background()
	var err error
	var resp3 bool
	if viaClient {
		opt.ForceSingleClient = !c.Redirect
		if !c.Multi {
			opt.PipelineMultiplex = -1
		}
		var cl rueidis.Client
		cl, err = rueidis.NewClient(opt)
		if err != nil && c.Redirect {
			cl = nil // a typed nil *standalone
		}
		if cl != nil {
			// wire 0 (the connection made by NewClient when it is healthy)
			r := cl.Do(ctx, cl.B().Arbitrary("HGETALL").Args(marker).Build())
			if m, e := r.ToMessage(); e == nil && err == nil {
				resp3 = m.IsMap()
			}
			if c.Multi {
				// the other pipelining wires (chosen at random per key), a pooled wire, a streaming wire
				for i := 0; i < 5; i++ {
					cl.Do(ctx, cl.B().Hgetall().Key(marker+strconv.Itoa(i)).Build())
				}
				_ = cl.Dedicated(func(d rueidis.DedicatedClient) error {
					return d.Do(ctx, d.B().Hgetall().Key(marker+"d").Build()).Error()
				})
				st := cl.DoStream(ctx, cl.B().Get().Key(marker+"s").Build())
				for st.HasNext() {
					_, _ = st.WriteTo(discard{})
				}
			}
			cl.Close()
		}
	} else {
		res.Kind += "/pipe"
		var p *rueidis.VerifPipe
		p, err = rueidis.VerifNewPipe(ctx, func(ctx context.Context) (net.Conn, error) { return s.Dial(ctx, "127.0.0.1:6379", nil, nil) }, &opt, false)
		if p != nil {
			r := p.Do(ctx, rueidis.VerifBuilder().Hgetall().Key(marker).Build())
			if m, e := r.ToMessage(); e == nil {
				resp3 = m.IsMap()
			}
			p.Close()
		}
	}
	// connection goroutines may still be executing the tail of a pipeline whose head failed
	psx.WaitFor(100*time.Millisecond, func() bool { return s.ConnCount() == 0 })
	first := tr.Get(1)
	seen1, r3, r2, cmdsSeen, served := seenOf(c, first, obs.Some(outcomeOf(err, resp3)), cmpSession)
	others := []string{}
	nconn := 1
	for id := 2; ; id++ {
		fc := tr.Get(id)
		if fc == nil {
			break
		}
		nconn++
		sn, o3, o2, ocmds, oserved := seenOf(c, fc, obs.None, true)
		others = append(others, "("+obs.List(o3)+", "+obs.List(o2)+", "+sn+")")
		if res.Oracle == "" {
			_ = ocmds
			res.Oracle, res.Class = oracle(c, opt, nil, oserved, true, fc)
		}
	}
	res.Coq = obs.App("CSetup", coqOpts(c), obs.List(r3), obs.List(r2), seen1, obs.List(others))
	res.Sig = fmt.Sprintf("%+v", c)
	res.Nontrivial = true
	res.Obs = map[string]any{"cmds": cmdsSeen, "err": fmt.Sprint(err), "served": served, "conns": nconn}
	res.Site = "pipe.go:_newPipe"
	if res.Oracle == "" {
		res.Oracle, res.Class = oracle(c, opt, err, served, cmpSession, first)
	}
	return
}

type discard struct{}

func (discard) Write(p []byte) (int, error) { return len(p), nil }

// The direct oracle: the property statement evaluated on what the server saw, without the Coq model.
//   - the setup succeeded: every configured setting was applied at the server before the user command
//     (authenticated, name, db, tracking mode, READONLY / NO-TOUCH / NO-EVICT / library info unless their
//     reply was a tolerated error), and RESP2 is spoken only when HELLO 3 was rejected or RESP2 was asked for;
//   - a setup step got a non-tolerated error reply: the connection was not used for the user command.
func oracle(c Case, opt rueidis.ClientOption, err error, served bool, cmpSession bool, first *fakeredis.Conn) (string, string) {
	if first == nil {
		if err == nil {
			return "client reported success without any connection", "no-conn"
		}
		return "", ""
	}
	first.S.Lock()
	defer first.S.Unlock()
	n := 0
	for _, e := range first.Log {
		if !isSetupCmd(e.Argv) {
			break
		}
		n++
	}
	setup := first.Log[:n]
	sawFatal := false
	// the last answer to each distinct setup command decides (the RESP2 pipeline repeats the first one's commands)
	last := map[string]fakeredis.Entry{}
	for _, e := range setup {
		last[strings.Join(e.Argv, "\x00")] = e
	}
	for _, e := range setup {
		if le := last[strings.Join(e.Argv, "\x00")]; le.Seq != e.Seq || e.Reply.T != '-' {
			continue
		}
		if rueidis.VerifNoHello(strings.TrimPrefix(e.Reply.S, "ERR ")) {
			if e.Argv[0] != "HELLO" {
				// An error naming HELLO as unknown in answer to another command: _newPipe goes by the text, not
				// by the step.  No server answers like that; the model (reply flag [nohello]) covers it, the
				// oracle has no opinion on such a run.
				return "", ""
			}
			continue // HELLO rejected: the tolerated fallback
		}
		if e.Argv[0] == "READONLY" || (len(e.Argv) > 1 && e.Argv[0] == "CLIENT" && e.Argv[1] == "SETINFO") {
			continue
		}
		sawFatal = true
		if served {
			return "setup step [" + strings.Join(e.Argv, " ") + "] was answered with an error but the connection served a user command", "served-after-failed-step"
		}
	}
	// only tolerated errors occurred (READONLY, CLIENT SETINFO, HELLO rejected with the cache disabled), nothing else
	// was injected: the setup must not fail
	resp2 := c.NoHello || opt.AlwaysRESP2
	if err != nil && !errors.Is(err, errCred) && !sawFatal && first.ID == 1 && (c.FailAt == 0 || c.FailKind == "err" || c.FailKind == "noperm") && (!resp2 || opt.DisableCache) {
		return "setup failed (" + err.Error() + ") although only tolerated errors (READONLY / CLIENT SETINFO / HELLO unknown) were answered", "tolerated-error-failed"
	}
	if !served || !cmpSession {
		return "", "" // (a reply replaced by a non-error without executing the command: the fake server's state says nothing)
	}
	// served: the configured settings must be in place at the server
	bad := []string{}
	_, pass := effective(c)
	if pass != "" && !first.Authed {
		bad = append(bad, "not authenticated")
	}
	if user, _ := effective(c); user != "" || pass != "" {
		if user == "" {
			user = "default"
		}
		got := "<none>"
		for _, e := range setup {
			if e.Reply.T == '-' {
				continue
			}
			switch {
			case e.Argv[0] == "AUTH" && len(e.Argv) == 2:
				got = "default"
			case e.Argv[0] == "AUTH" && len(e.Argv) == 3:
				got = e.Argv[1]
			case e.Argv[0] == "HELLO":
				for i := 2; i+2 < len(e.Argv); i++ {
					if e.Argv[i] == "AUTH" {
						got = e.Argv[i+1]
					}
				}
			}
		}
		if got != user {
			bad = append(bad, fmt.Sprintf("authenticated as %q, configured %q", got, user))
		}
	}
	if opt.ClientName != first.Name {
		bad = append(bad, fmt.Sprintf("name %q, configured %q", first.Name, opt.ClientName))
	}
	if opt.SelectDB != first.DB {
		bad = append(bad, fmt.Sprintf("db %d, configured %d", first.DB, opt.SelectDB))
	}
	if !opt.DisableCache {
		if !first.Tracking {
			bad = append(bad, "tracking is off with the cache enabled")
		} else if opt.ClientTrackingOptions == nil && !first.OptIn {
			bad = append(bad, "default tracking mode is not OPTIN")
		} else if opt.ClientTrackingOptions != nil && (!first.BCast || !first.NoLoop || len(first.Prefixes) != 1) {
			bad = append(bad, "custom tracking options not applied")
		}
	} else if first.Tracking {
		bad = append(bad, "tracking on with the cache disabled")
	}
	answeredOK := func(name ...string) bool { // the command was sent and its last answer is not an error
		for _, e := range setup {
			if len(e.Argv) >= len(name) && strings.Join(e.Argv[:len(name)], " ") == strings.Join(name, " ") && last[strings.Join(e.Argv, "\x00")].Reply.T != '-' {
				return true
			}
		}
		return false
	}
	sent := func(name ...string) bool {
		for _, e := range setup {
			if len(e.Argv) >= len(name) && strings.Join(e.Argv[:len(name)], " ") == strings.Join(name, " ") {
				return true
			}
		}
		return false
	}
	wantRO := opt.ReplicaOnly && opt.Sentinel.MasterSet == ""
	if wantRO != sent("READONLY") {
		bad = append(bad, fmt.Sprintf("READONLY sent=%v, wanted=%v", sent("READONLY"), wantRO))
	}
	if opt.ClientNoTouch != answeredOK("CLIENT", "NO-TOUCH", "ON") {
		bad = append(bad, "NO-TOUCH mismatch")
	}
	if opt.ClientNoEvict != answeredOK("CLIENT", "NO-EVICT", "ON") {
		bad = append(bad, "NO-EVICT mismatch")
	}
	if opt.Standalone.EnableRedirect != answeredOK("CLIENT", "CAPA", "redirect") {
		bad = append(bad, "CAPA redirect mismatch")
	}
	wantInfo := opt.ClientSetInfo == nil || len(opt.ClientSetInfo) == 2
	if wantInfo != sent("CLIENT", "SETINFO", "LIB-NAME") || wantInfo != sent("CLIENT", "SETINFO", "LIB-VER") {
		bad = append(bad, "library info mismatch")
	}
	if first.Proto == 2 && !c.NoHello && !opt.AlwaysRESP2 && c.FailAt == 0 {
		bad = append(bad, "RESP2 although the server accepts HELLO 3")
	}
	if len(bad) > 0 {
		return "user command served on a session with: " + strings.Join(bad, "; "), "misconfigured-session"
	}
	return "", ""
}

func runSentinelOpt(c Case) (res obs.Result) {
	res.Kind = "sentinel-opt"
	s := fakeredis.New()
	s.Password = cSPass
	var first *fakeredis.Conn
	s.Fault = func(fc *fakeredis.Conn, cseq int, argv []string) fakeredis.Action {
		if fc.ID == 1 {
			first = fc
		}
		return fakeredis.Action{}
	}
	c.Auth = c.Auth % 4 // static credentials: the provider would override the sentinel ones as well
	opt := buildOption(c, s)
	so := rueidis.VerifSentinelOpt(&opt)
	p, err := rueidis.VerifNewPipe(context.Background(), func(ctx context.Context) (net.Conn, error) { return s.Dial(ctx, "127.0.0.1:26379", nil, nil) }, so, false)
	if p != nil {
		p.Close()
	}
	var hello []string
	hasSelect := false
	if first != nil {
		s.Lock()
		for i, e := range first.Log {
			if i == 0 {
				hello = e.Argv
			}
			if e.Argv[0] == "SELECT" {
				hasSelect = true
			}
		}
		s.Unlock()
	}
	res.Coq = obs.App("CSentinelOpt", coqOpts(c), voc.Argv(hello), obs.Bool(hasSelect))
	res.Sig = fmt.Sprintf("%+v", c)
	res.Nontrivial = true
	res.Obs = map[string]any{"hello": hello, "select": hasSelect, "err": fmt.Sprint(err)}
	res.Site, res.Class = "sentinel.go:newSentinelOpt", "sentinel-opt"
	if hasSelect {
		res.Oracle = "a sentinel connection issued SELECT"
	}
	if !opt.AlwaysRESP2 && len(hello) > 0 && hello[0] == "HELLO" {
		joined := strings.Join(hello, " ")
		if !strings.Contains(joined, "AUTH "+cSUser+" "+cSPass) || !strings.Contains(joined, "SETNAME "+cSName) {
			res.Oracle = "sentinel connection does not use the sentinel credentials / name: " + joined
		}
	}
	return
}

func main() {
	obs.Main(obs.Runner{
		Name: "obs_setup", Salt: 47,
		Gen: genCase,
		Decode: func(raw json.RawMessage) (any, error) {
			var c Case
			err := json.Unmarshal(raw, &c)
			return c, err
		},
		Run: run,
	})
}
