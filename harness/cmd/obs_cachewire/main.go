// obs_cachewire: ties Model/CacheWire.v (the reader-side commit of pipe.go _backgroundRead) to the real pipe.
//
// A real client (ForceSingleClient) talks over net.Pipe to a scripted RESP3 server that answers the
// handshake and the frames of one DoCache call (standard MULTI/PTTL/EXEC form, static-TTL form, MGET form).
// The connection's CacheStore is a recorder around the real lru (ClientOption.NewCacheStoreFn): every
// Update / Cancel the reader makes is recorded with the value it was given.  The reader's time.Now() is
// bracketed by the instant the server wrote the reply and the instant the store was called; the model
// must produce the same calls with an expiry inside the interval computed from the bracket.
package main

import (
	"bufio"
	"context"
	"crypto/tls"
	"encoding/json"
	"fmt"
	"io"
	"net"
	"strconv"
	"strings"
	"sync"
	"time"

	"github.com/redis/rueidis"

	"verifharness/gen"
	lruh "verifharness/lru"
	"verifharness/obs"
)

type Case struct {
	Form  string   `json:"form"` // standard | static | mget
	Cmd   []string `json:"cmd"`  // tokens of the cacheable command
	Scr   bool     `json:"scr,omitempty"`
	TTL   int64    `json:"ttl"`  // ms
	PTTL  []int64  `json:"pttl"` // one per key
	Reply []lruh.M `json:"reply"`
}

// ---- scripted server ----

type server struct {
	mu      sync.Mutex
	c       *Case
	tSend   int64 // instant the decisive reply was written
	sentMsg lruh.M
}

func readCmd(r *bufio.Reader) ([]string, error) {
	line, err := r.ReadString('\n')
	if err != nil {
		return nil, err
	}
	if len(line) < 3 || line[0] != '*' {
		return nil, fmt.Errorf("bad request line %q", line)
	}
	n, _ := strconv.Atoi(strings.TrimSpace(line[1:]))
	out := make([]string, n)
	for i := 0; i < n; i++ {
		l, err := r.ReadString('\n')
		if err != nil {
			return nil, err
		}
		sz, _ := strconv.Atoi(strings.TrimSpace(l[1:]))
		buf := make([]byte, sz+2)
		if _, err := io.ReadFull(r, buf); err != nil {
			return nil, err
		}
		out[i] = string(buf[:sz])
	}
	return out, nil
}

func enc(m lruh.M) string {
	s := m.Str + strings.Repeat("x", m.Pad)
	switch m.Typ {
	case '$':
		return fmt.Sprintf("$%d\r\n%s\r\n", len(s), s)
	case '+':
		return "+" + s + "\r\n"
	case '-':
		return "-" + s + "\r\n"
	case ':':
		return fmt.Sprintf(":%d\r\n", m.Int)
	case '_':
		return "_\r\n"
	case '*':
		var sb strings.Builder
		fmt.Fprintf(&sb, "*%d\r\n", len(m.Vals))
		for _, v := range m.Vals {
			sb.WriteString(enc(v))
		}
		return sb.String()
	}
	panic("enc: unsupported type")
}

func sameTokens(a, b []string) bool {
	if len(a) != len(b) {
		return false
	}
	for i := range a {
		if a[i] != b[i] {
			return false
		}
	}
	return true
}

func (s *server) serve(conn net.Conn) {
	r := bufio.NewReader(conn)
	inMulti := false
	var queued []lruh.M
	pttlIdx := 0
	for {
		cmd, err := readCmd(r)
		if err != nil {
			return
		}
		s.mu.Lock()
		c := s.c
		s.mu.Unlock()
		reply := func(m lruh.M, decisive bool) {
			if decisive {
				s.mu.Lock()
				s.sentMsg = m
				s.tSend = time.Now().UnixNano()
				s.mu.Unlock()
			}
			_, _ = conn.Write([]byte(enc(m)))
		}
		ok := lruh.M{Typ: '+', Str: "OK"}
		switch up := strings.ToUpper(cmd[0]); {
		case up == "HELLO":
			_, _ = conn.Write([]byte("%3\r\n$6\r\nserver\r\n$5\r\nredis\r\n$7\r\nversion\r\n$5\r\n7.2.0\r\n$5\r\nproto\r\n:3\r\n"))
		case up == "CLIENT" || up == "PING":
			reply(ok, false)
		case up == "MULTI":
			inMulti, queued, pttlIdx = true, nil, 0
			reply(ok, false)
		case up == "EXEC":
			inMulti = false
			reply(lruh.M{Typ: '*', Vals: queued}, true)
		case inMulti:
			switch {
			case up == "PTTL":
				p := int64(-2)
				if c != nil && pttlIdx < len(c.PTTL) {
					p = c.PTTL[pttlIdx]
				}
				pttlIdx++
				queued = append(queued, lruh.M{Typ: ':', Int: p})
			case c != nil && c.Form == "mget":
				queued = append(queued, lruh.M{Typ: '*', Vals: c.Reply})
			case c != nil:
				queued = append(queued, c.Reply[0])
			}
			reply(lruh.M{Typ: '+', Str: "QUEUED"}, false)
		case c != nil && sameTokens(cmd, c.Cmd):
			reply(c.Reply[0], true) // static-TTL form: the reply is committed as read
		default:
			reply(lruh.M{Typ: '-', Str: "ERR unexpected " + cmd[0]}, false)
		}
	}
}

// ---- recording store ----

type call struct {
	upd      bool
	key, cmd string
	val      rueidis.RedisMessage
	t        int64
}

type recorder struct {
	inner rueidis.CacheStore
	mu    sync.Mutex
	calls []call
}

func (r *recorder) Flight(key, cmd string, ttl time.Duration, now time.Time) (rueidis.RedisMessage, rueidis.CacheEntry) {
	return r.inner.Flight(key, cmd, ttl, now)
}
func (r *recorder) Update(key, cmd string, val rueidis.RedisMessage) int64 {
	t := time.Now().UnixNano()
	r.mu.Lock()
	r.calls = append(r.calls, call{upd: true, key: key, cmd: cmd, val: val, t: t})
	r.mu.Unlock()
	return r.inner.Update(key, cmd, val)
}
func (r *recorder) Cancel(key, cmd string, err error) {
	t := time.Now().UnixNano()
	r.mu.Lock()
	r.calls = append(r.calls, call{key: key, cmd: cmd, t: t})
	r.mu.Unlock()
	r.inner.Cancel(key, cmd, err)
}
func (r *recorder) Delete(keys []rueidis.RedisMessage) { r.inner.Delete(keys) }
func (r *recorder) Close(err error)                   { r.inner.Close(err) }

// ---- generator ----

func genReply(r *gen.Rand, tag string) lruh.M {
	switch r.Intn(6) {
	case 0:
		return lruh.M{Typ: '_'}
	case 1:
		return lruh.M{Typ: ':', Int: int64(r.Intn(100))}
	case 2:
		return lruh.M{Typ: '*', Vals: []lruh.M{{Typ: '$', Str: tag + "a"}, {Typ: ':', Int: 7}}}
	case 3:
		return lruh.M{Typ: '+', Str: tag}
	default:
		return lruh.M{Typ: '$', Str: tag, Pad: r.Intn(20)}
	}
}

func genPTTL(r *gen.Rand) int64 {
	return gen.Pick(r, []int64{-2, -1, 0, 1, 5, 40, 100, 3600000, 1 << 40})
}

func genCase(r *gen.Rand, i int) any {
	r = lruh.Reseed(r)
	c := &Case{TTL: gen.Pick(r, []int64{1, 20, 50, 200, 60000})}
	key := gen.Pick(r, []string{"k", "key1", "a"})
	switch r.Intn(10) {
	case 0, 1, 2:
		c.Form = "static"
		c.Cmd = gen.Pick(r, [][]string{{"GET", key}, {"HGET", key, "f"}, {"GETRANGE", key, "0", "3"}})
		c.Reply = []lruh.M{genReply(r, "s")}
		if r.Chance(1, 4) {
			c.Reply = []lruh.M{{Typ: '-', Str: "ERR static failure"}}
		}
	case 3, 4:
		c.Form = "mget"
		n := r.Range(1, 4)
		c.Cmd = []string{"MGET"}
		for j := 0; j < n; j++ {
			c.Cmd = append(c.Cmd, fmt.Sprintf("%s%d", key, j))
			c.PTTL = append(c.PTTL, genPTTL(r))
			c.Reply = append(c.Reply, genReply(r, fmt.Sprintf("m%d", j)))
		}
	default:
		c.Form = "standard"
		if r.Chance(1, 6) {
			c.Scr = true
			c.Cmd = []string{"EVALSHA_RO", "abc", "1", key, "arg"}
		} else {
			c.Cmd = gen.Pick(r, [][]string{{"GET", key}, {"HGET", key, "f"}, {"GETRANGE", key, "0", "3"}, {"HMGET", key, "a", "b"}})
		}
		c.PTTL = []int64{genPTTL(r)}
		c.Reply = []lruh.M{genReply(r, "v")}
	}
	return c
}

// ---- run ----

func wc(tokens []string, scr, static, mget, optin bool) string {
	return fmt.Sprintf("(WC %s %s %s %s %s)", obs.ListOf(tokens, obs.HS), obs.Bool(scr), obs.Bool(static), obs.Bool(mget), obs.Bool(optin))
}

// run wraps the Gallina term in parentheses (./check --replay applies check_case to it textually)
func run(ci any) obs.Result {
	res := runCase(ci)
	if res.Coq != "" {
		res.Coq = "(" + res.Coq + ")"
	}
	return res
}

func runCase(ci any) (res obs.Result) {
	c := ci.(*Case)
	res.Kind = c.Form
	res.Sig = fmt.Sprint(c.Form, c.Cmd, c.PTTL, c.TTL, len(c.Reply))
	srv := &server{c: c}
	rec := &recorder{}
	client, err := rueidis.NewClient(rueidis.ClientOption{
		InitAddress:       []string{"fake:6379"},
		ForceSingleClient: true,
		DisableRetry:      true,
		NewCacheStoreFn: func(o rueidis.CacheStoreOption) rueidis.CacheStore {
			rec.inner = rueidis.VerifLruNew(o.CacheSizeEachConn)
			return rec
		},
		DialCtxFn: func(ctx context.Context, addr string, d *net.Dialer, _ *tls.Config) (net.Conn, error) {
			a, b := net.Pipe()
			go srv.serve(b)
			return a, nil
		},
	})
	if err != nil {
		res.Oracle, res.Site, res.Class = "client setup failed: "+err.Error(), "obs_cachewire", "harness"
		return
	}
	defer client.Close()
	cmd := rueidis.VerifLruCacheable(append([]string{}, c.Cmd...), c.Scr, c.Form == "static", c.Form == "mget") // the pipe recycles the slice
	key0, _, _ := rueidis.VerifLruCacheKey(cmd)
	ctx, cancel := context.WithTimeout(context.Background(), 5*time.Second)
	defer cancel()
	result := client.DoCache(ctx, cmd, time.Duration(c.TTL)*time.Millisecond)
	_ = result
	rec.mu.Lock()
	calls := append([]call{}, rec.calls...)
	rec.mu.Unlock()
	srv.mu.Lock()
	t0, sent := srv.tSend, srv.sentMsg
	srv.mu.Unlock()
	if t0 == 0 {
		res.Oracle, res.Site, res.Class = "the scripted server never sent the decisive reply", "obs_cachewire", "harness"
		return
	}
	t1 := t0
	for _, cl := range calls {
		if cl.t > t1 {
			t1 = cl.t
		}
	}
	// the batch as DoCache / doCacheMGet builds it
	var multi []string
	ff := 0
	optin := wc([]string{"CLIENT", "CACHING", "YES"}, false, false, false, true)
	plain := func(t ...string) string { return wc(t, false, false, false, false) }
	switch c.Form {
	case "static":
		multi = []string{optin, wc(c.Cmd, c.Scr, true, false, false)}
		ff = 1
	case "standard":
		multi = []string{optin, plain("MULTI"), plain("PTTL", key0), wc(c.Cmd, c.Scr, false, false, false), plain("EXEC")}
		ff = 4
	case "mget":
		multi = []string{optin, plain("MULTI")}
		for _, k := range c.Cmd[1:] {
			multi = append(multi, plain("PTTL", k))
		}
		multi = append(multi, wc(c.Cmd, false, false, true, false), plain("EXEC"))
		ff = len(multi) - 1
	}
	ocs := make([]string, len(calls))
	for i, cl := range calls {
		if cl.upd {
			ocs[i] = fmt.Sprintf("OUpd %s %s %s", obs.HS(cl.key), obs.HS(cl.cmd), lruh.MsgCoq(cl.val))
		} else {
			ocs[i] = fmt.Sprintf("OCan %s %s", obs.HS(cl.key), obs.HS(cl.cmd))
		}
	}
	res.Coq = fmt.Sprintf("CWire %s %s %s %d %d %s", obs.List(multi), obs.Nat(ff), lruh.MsgCoq(sent.Build()), t0, t1, obs.List(parens(ocs)))
	res.Nontrivial = len(calls) > 0
	res.Obs = map[string]any{"calls": len(calls), "bracket_ns": t1 - t0}

	// direct oracle (C07): the expiry handed to the store is arrival + PTTL for PTTL >= 0, none otherwise
	ui := 0
	for _, cl := range calls {
		if !cl.upd {
			continue
		}
		x := lruh.Xat(cl.val)
		p := int64(-1)
		if c.Form != "static" && ui < len(c.PTTL) {
			p = c.PTTL[ui]
		}
		ui++
		if p < 0 {
			if x != 0 {
				res.Oracle = fmt.Sprintf("PTTL %d (no server expiry) but the reply handed to Update carries expiry %d", p, x)
			}
		} else {
			lo, hi := t0/1000000+p, t1/1000000+p
			if x < lo || x > hi {
				res.Oracle = fmt.Sprintf("PTTL %d: the reply handed to Update carries expiry %d, want within [%d, %d]", p, x, lo, hi)
			}
		}
		if !cl.val.IsCacheHit() {
			res.Oracle = "reply handed to Update is not marked as a cache value"
		}
	}
	if res.Oracle != "" {
		res.Site, res.Class = "pipe.go:_backgroundRead", "server-expiry"
	}
	return
}

func parens(xs []string) []string {
	r := make([]string, len(xs))
	for i, x := range xs {
		r[i] = "(" + x + ")"
	}
	return r
}

func decode(raw json.RawMessage) (any, error) {
	c := &Case{}
	if err := json.Unmarshal(raw, c); err != nil {
		return nil, err
	}
	return c, nil
}

func main() {
	obs.Main(obs.Runner{Name: "obs_cachewire", Salt: 0x13, Gen: genCase, Decode: decode, Run: run})
}
