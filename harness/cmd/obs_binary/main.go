// obs_binary: C45 — VectorString32/64, ToVector32/64, BinaryString, JSON.
package main

import (
	"bytes"
	"encoding/json"
	"fmt"
	"math"

	"github.com/redis/rueidis"

	"verifharness/gen"
	"verifharness/obs"
)

type Case struct {
	Op    string   `json:"op"` // vec32 | vec64 | tovec32 | tovec64 | bin | json
	Words []uint64 `json:"words,omitempty"`
	Bytes []byte   `json:"bytes,omitempty"`
	JSON  string   `json:"json,omitempty"`
}

var special32 = []uint64{0, 0x80000000, 0x7fc00000, 0x7fc00001, 0x7f800001, 0xffc12345, 0x7f800000, 0xff800000, 1, 0x007fffff, 0x00800000, 0x3f800000, 0xffffffff}
var special64 = []uint64{0, 0x8000000000000000, 0x7ff8000000000000, 0x7ff8000000000001, 0x7ff0000000000001, 0xfff8123456789abc, 0x7ff0000000000000, 0xfff0000000000000, 1, 0x000fffffffffffff, 0x0010000000000000, 0x3ff0000000000000, 0xffffffffffffffff}

func genCase(r *gen.Rand, i int) any {
	c := Case{}
	switch r.Intn(12) {
	case 0, 1, 2:
		c.Op = "vec32"
	case 3, 4, 5:
		c.Op = "vec64"
	case 6, 7:
		c.Op = "tovec32"
	case 8, 9:
		c.Op = "tovec64"
	case 10:
		c.Op = "bin"
	default:
		c.Op = "json"
	}
	switch c.Op {
	case "vec32", "vec64":
		n := r.Size(64, 16)
		c.Words = make([]uint64, n)
		for j := range c.Words {
			if c.Op == "vec32" {
				if r.Chance(1, 2) {
					c.Words[j] = gen.Pick(r, special32)
				} else {
					c.Words[j] = r.U64() & 0xffffffff
				}
			} else {
				if r.Chance(1, 2) {
					c.Words[j] = gen.Pick(r, special64)
				} else {
					c.Words[j] = r.U64()
				}
			}
		}
	case "tovec32", "tovec64":
		k := 4
		if c.Op == "tovec64" {
			k = 8
		}
		n := r.Size(20) * k
		if r.Chance(1, 3) {
			n += r.Range(1, k-1) // ragged: the implementation slices out of range
		}
		c.Bytes = r.Bytes(n)
		if r.Chance(1, 2) {
			for j := range c.Bytes {
				c.Bytes[j] = byte(r.Intn(256))
			}
		}
	case "bin":
		c.Bytes = r.Bytes(r.Size(300, 64, 256))
	case "json":
		c.JSON = gen.Pick(r, []string{`{"a":1,"b":[true,null,"x\u0000<>&"]}`, `"plain"`, `[1.5,2,-0,1e300]`, `null`, `{"é":"😀"}`, `12345678901234567890`, `{"nested":{"k":[[],{}]}}`})
	}
	return c
}

func run(ci any) (res obs.Result) {
	c := ci.(Case)
	res.Kind = c.Op
	switch c.Op {
	case "vec32":
		fs := make([]float32, len(c.Words))
		for i, w := range c.Words {
			fs[i] = math.Float32frombits(uint32(w))
		}
		s := rueidis.VectorString32(fs)
		back := rueidis.ToVector32(s)
		res.Coq = obs.App("CVecStr", "4%nat", obs.ListOf(c.Words, obs.N), obs.HS(s))
		res.Sig = fmt.Sprint(c.Op, c.Words)
		res.Nontrivial = len(c.Words) > 0
		if len(back) != len(fs) {
			res.Oracle = fmt.Sprintf("ToVector32(VectorString32(v)) has %d elements, v has %d", len(back), len(fs))
		} else {
			for i := range back {
				if math.Float32bits(back[i]) != uint32(c.Words[i]) {
					res.Oracle = fmt.Sprintf("element %d: bits %08x became %08x", i, uint32(c.Words[i]), math.Float32bits(back[i]))
					break
				}
			}
		}
		res.Site, res.Class = "binary.go:VectorString32/ToVector32", "roundtrip"
	case "vec64":
		fs := make([]float64, len(c.Words))
		for i, w := range c.Words {
			fs[i] = math.Float64frombits(w)
		}
		s := rueidis.VectorString64(fs)
		back := rueidis.ToVector64(s)
		res.Coq = obs.App("CVecStr", "8%nat", obs.ListOf(c.Words, obs.N), obs.HS(s))
		res.Sig = fmt.Sprint(c.Op, c.Words)
		res.Nontrivial = len(c.Words) > 0
		if len(back) != len(fs) {
			res.Oracle = fmt.Sprintf("ToVector64(VectorString64(v)) has %d elements, v has %d", len(back), len(fs))
		} else {
			for i := range back {
				if math.Float64bits(back[i]) != c.Words[i] {
					res.Oracle = fmt.Sprintf("element %d: bits %016x became %016x", i, c.Words[i], math.Float64bits(back[i]))
					break
				}
			}
		}
		res.Site, res.Class = "binary.go:VectorString64/ToVector64", "roundtrip"
	case "tovec32", "tovec64":
		k := "4%nat"
		if c.Op == "tovec64" {
			k = "8%nat"
		}
		out := obs.Panic
		func() {
			defer func() { _ = recover() }()
			if c.Op == "tovec32" {
				v := rueidis.ToVector32(string(c.Bytes))
				ws := make([]uint64, len(v))
				for i := range v {
					ws[i] = uint64(math.Float32bits(v[i]))
				}
				out = obs.Ok(obs.ListOf(ws, obs.N))
				// oracle: re-encoding gives back the bytes
				if rueidis.VectorString32(v) != string(c.Bytes) {
					res.Oracle = "VectorString32(ToVector32(s)) != s"
				}
			} else {
				v := rueidis.ToVector64(string(c.Bytes))
				ws := make([]uint64, len(v))
				for i := range v {
					ws[i] = math.Float64bits(v[i])
				}
				out = obs.Ok(obs.ListOf(ws, obs.N))
				if rueidis.VectorString64(v) != string(c.Bytes) {
					res.Oracle = "VectorString64(ToVector64(s)) != s"
				}
			}
		}()
		res.Coq = obs.App("CToVec", k, obs.H(c.Bytes), out)
		res.Sig = fmt.Sprint(c.Op, c.Bytes)
		res.Nontrivial = len(c.Bytes) > 0
		res.Obs = out
		res.Site, res.Class = "binary.go:ToVector", "reencode"
	case "bin":
		s := rueidis.BinaryString(c.Bytes)
		res.Coq = obs.App("CBinStr", obs.H(c.Bytes), obs.HS(s))
		res.Sig = fmt.Sprint(c.Op, c.Bytes)
		res.Nontrivial = len(c.Bytes) > 0
		if !bytes.Equal([]byte(s), c.Bytes) {
			res.Oracle = "BinaryString(b) differs from b"
		}
		res.Site, res.Class = "binary.go:BinaryString", "bytes"
	case "json":
		var v any
		dec := json.NewDecoder(bytes.NewReader([]byte(c.JSON)))
		dec.UseNumber()
		if err := dec.Decode(&v); err != nil {
			res.Oracle = "harness: bad JSON sample: " + err.Error()
			return
		}
		want, _ := json.Marshal(v)
		got := rueidis.JSON(v)
		res.Sig = c.Op + c.JSON
		res.Nontrivial = true
		if got != string(want) {
			res.Oracle = fmt.Sprintf("JSON(x)=%q, encoding/json gives %q", got, want)
		}
		res.Site, res.Class = "binary.go:JSON", "json"
	}
	return
}

func main() {
	obs.Main(obs.Runner{
		Name: "obs_binary", Salt: 45,
		Gen: genCase,
		Decode: func(raw json.RawMessage) (any, error) {
			var c Case
			err := json.Unmarshal(raw, &c)
			return c, err
		},
		Run: run,
	})
}
