package main

import (
	"context"
	"fmt"
	"strings"
	"time"

	"github.com/redis/rueidis"

	fs "verifharness/fakesentinel"
	"verifharness/gen"
	"verifharness/obs"
	ro "verifharness/routeobs"
)

func genBatch(r *gen.Rand) []cmdSpec {
	n := r.Range(1, 4)
	var cs []cmdSpec
	tx := r.Chance(1, 3)
	allRetry := r.Chance(1, 2)
	for i := 0; i < n; i++ {
		c := genCmd(r, len(cs))
		if allRetry && !c.retryable {
			c = cmdSpec{argv: []string{"GET", fmt.Sprintf("k%d", len(cs))}, retryable: true, kind: "plain"}
		}
		cs = append(cs, c)
	}
	if tx {
		at := r.Intn(len(cs) + 1)
		out := append([]cmdSpec{}, cs[:at]...)
		out = append(out, cmdSpec{argv: []string{"MULTI"}, kind: "multi"})
		out = append(out, cmdSpec{argv: []string{"INCR", "ktx"}, kind: "plain"})
		out = append(out, cmdSpec{argv: []string{"EXEC"}, kind: "exec"})
		out = append(out, cs[at:]...)
		cs = out
	}
	return cs
}

// attempts splits the arrivals of one call into exchanges: an exchange starts at the command the
// client (re)starts from; the index is recovered from the command's position in the batch.
type exch struct {
	from  int
	seq   int64 // sequence number of the first arrival of the exchange
	ticks []tick
}

func splitExchanges(cs []cmdSpec, arr []fs.Arrival, left *int64) []exch {
	idx := map[string]int{}
	for i, c := range cs {
		idx[strings.Join(c.argv, " ")] = i
	}
	var out []exch
	next := -1
	conn := -1
	for _, a := range arr {
		i, ok := idx[strings.Join(a.Argv, " ")]
		if !ok {
			continue
		}
		if len(out) == 0 || i != next || a.Conn != conn {
			out = append(out, exch{from: i, seq: a.Seq})
		}
		e := &out[len(out)-1]
		e.ticks = append(e.ticks, tick{R: replyOfArrival(a), Exec: a.Executed, Left: left})
		next, conn = i+1, a.Conn
	}
	// commands of an exchange that never arrived (the connection was killed before) failed in transit
	for k := range out {
		e := &out[k]
		for len(e.ticks) < len(cs)-e.from {
			e.ticks = append(e.ticks, tick{R: ro.Reply{Kind: "transport"}, Left: left})
		}
		// after a killed connection every later reply of the same exchange is lost as well
		dead := false
		for j := range e.ticks {
			if dead {
				e.ticks[j].R = ro.Reply{Kind: "transport"}
			}
			if e.ticks[j].R.Kind == "transport" {
				dead = true
			}
		}
	}
	return out
}

func exchCoq(e exch) string {
	t := make([]string, len(e.ticks))
	for i := range e.ticks {
		t[i] = e.ticks[i].coq()
	}
	return obs.List(t)
}

func runBatch(c Case) (res obs.Result) {
	r := gen.New(c.Seed)
	res.Kind = "batch"
	d := fs.New("mymaster")
	d.AddNode(nodeA, "master")
	cs := genBatch(r)
	scripts := map[int]string{}
	for i, b := range cs {
		if r.Chance(1, 3) && b.kind == "plain" {
			st := genSteps(r, r.Range(1, 2), true)
			if i > 0 {
				// an abrupt kill would race with the replies of the earlier members still queued in the fake
				// server; a close after a truncated reply flushes them first
				for j := range st {
					if strings.HasPrefix(st[j].Kind, "CLOSE") {
						st[j].Kind = "MIDREPLY"
					}
				}
			}
			d.SetScript(b.argv, st...)
			scripts[i] = stepsDesc(st)
		}
	}
	disableRetry := r.Chance(1, 4)
	delays := genDelays(r)
	for i := range delays {
		if delays[i] >= int64(time.Hour) {
			delays[i] = -1
		}
	}
	l := &ro.ConsultLog{}
	pipelining := r.Chance(1, 2)
	cli, err := newClient(r, "single", d, rueidis.ClientOption{DisableRetry: disableRetry, RetryDelay: delayFn(delays, l, d), AlwaysPipelining: pipelining})
	if err != nil {
		res.Oracle, res.Site, res.Class = "harness: NewClient failed: "+err.Error(), "harness", "setup"
		return
	}
	defer cli.Close()
	multi := make([]rueidis.Completed, len(cs))
	for i, b := range cs {
		multi[i] = build(cli, b)
	}
	results := cli.DoMulti(context.Background(), multi...)
	ex := splitExchanges(cs, d.Arrivals(), nil)
	if !pipelining {
		// the synchronous path (pipe.syncDoMulti) reports the failure for every member of the exchange,
		// also for those already answered
		for k := range ex {
			failed := false
			for _, t := range ex[k].ticks {
				if t.R.Kind == "transport" {
					failed = true
				}
			}
			if failed {
				for j := range ex[k].ticks {
					ex[k].ticks[j].R = ro.Reply{Kind: "transport"}
				}
			}
		}
	}
	finals := make([]ro.Reply, len(results))
	for i, rr := range results {
		finals[i] = ro.ClassifyResult(rr)
	}
	cq := make([]string, len(cs))
	desc := make([]string, len(cs))
	for i, b := range cs {
		cq[i] = b.coq(i + 1)
		desc[i] = strings.Join(b.argv, " ")
		if s, ok := scripts[i]; ok {
			desc[i] += " [" + s + "]"
		}
	}
	env := make([]string, len(ex))
	from := make([]string, len(ex))
	for i, e := range ex {
		env[i] = exchCoq(e)
		from[i] = obs.Nat(e.from)
	}
	res.Coq = obs.App("CBatch", obs.Bool(!disableRetry), "false", zlist(delays), obs.List(cq), obs.List(env), obs.List(from), obs.ListOf(finals, ro.Reply.Coq))
	res.Sig = fmt.Sprint("batch", desc, disableRetry, delays, pipelining)
	res.Nontrivial = len(ex) > 1
	fin := make([]string, len(finals))
	for i := range finals {
		fin[i] = finals[i].String()
	}
	res.Obs = map[string]any{"cmds": desc, "exchanges": len(ex), "final": fin, "retry": !disableRetry, "delays": delays, "delaycalls": l.Calls()}
	res.Site = "client.go:singleClient.DoMulti"
	allRetryable := true
	for _, b := range cs {
		if !b.retryable {
			allRetryable = false
		}
	}
	if *propFlag == "C28" && len(ex) > 1 {
		// every exchange after the first is a retry of the whole batch: all members must be retryable, retries
		// enabled, and the last RetryDelay consultation since the previous exchange started must be >= 0
		cons := l.Calls()
		for k := 1; k < len(ex); k++ {
			why := ""
			switch {
			case !allRetryable:
				why = "a member is neither read-only nor retryable"
			case disableRetry:
				why = "DisableRetry is set"
			default:
				why = ro.RetryJustified(cons, ex[k-1].seq, ex[k].seq, "")
			}
			if why != "" && res.Oracle == "" {
				res.Oracle, res.Class = fmt.Sprintf("the batch was sent again (exchange %d): %s", k, why), "retry-policy"
			}
		}
	}
	if *propFlag == "C03" {
		execOracle(&res, cs, d.Arrivals())
	}
	return
}

// execOracle: a member that is neither read-only nor retryable is executed at most once per call.
func execOracle(res *obs.Result, cs []cmdSpec, arr []fs.Arrival) {
	for _, b := range cs {
		if b.retryable || b.kind != "plain" {
			continue
		}
		n := 0
		for _, a := range arr {
			if strings.Join(a.Argv, " ") == strings.Join(b.argv, " ") && a.Executed {
				n++
			}
		}
		if n > 1 && res.Oracle == "" {
			res.Oracle, res.Class = fmt.Sprintf("non-retryable %q executed %d times in one call", strings.Join(b.argv, " "), n), "executed-twice"
		}
	}
}

// ---------------------------------------------------------------------------------------------
// standalone with EnableRedirect: node A answers -REDIRECT B for some arrivals

func runStandalone(c Case) (res obs.Result) {
	r := gen.New(c.Seed)
	res.Kind = "standalone"
	d := fs.New("x")
	d.AddNode(nodeA, "master")
	d.AddNode(nodeB, "master")
	cs := genCmd(r, 0)
	var steps []fs.Step
	for k := gen.Pick(r, []int{0, 1, 1, 2, 3}); k > 0; k-- {
		kind := gen.Pick(r, []string{"REDIRECT", "REDIRECT", "LOADING", "ERR", "CLOSEAFTER", ""})
		steps = append(steps, fs.Step{Kind: kind, Addr: gen.Pick(r, []string{nodeB, nodeB, nodeA, "127.0.0.1:1"})})
	}
	disableRetry := r.Chance(1, 4)
	delays := genDelays(r)
	for i := range delays {
		if delays[i] >= int64(time.Hour) {
			delays[i] = 0
		}
	}
	l := &ro.ConsultLog{}
	cli, err := newClient(r, "standalone", d, rueidis.ClientOption{DisableRetry: disableRetry, RetryDelay: delayFn(delays, l, d)})
	if err != nil {
		res.Oracle, res.Site, res.Class = "harness: NewClient failed: "+err.Error(), "harness", "setup"
		return
	}
	defer cli.Close()
	d.SetScript(cs.argv, steps...)
	resp := cli.Do(context.Background(), build(cli, cs))
	final := ro.ClassifyResult(resp)
	var arr []fs.Arrival
	for _, a := range d.Arrivals() {
		if strings.Join(a.Argv, " ") == strings.Join(cs.argv, " ") {
			arr = append(arr, a)
		}
	}
	// outer attempts: a new one starts after every REDIRECT reply that was followed
	var outer [][]tick
	cur := []tick{}
	execs := 0
	rs := []ro.Reply{}
	nodes := []string{}
	for _, a := range arr {
		t := tick{R: replyOfArrival(a), Exec: a.Executed}
		rs = append(rs, t.R)
		nodes = append(nodes, a.Node)
		if a.Executed {
			execs++
		}
		cur = append(cur, t)
		if t.R.Kind == "redirect" {
			outer = append(outer, cur)
			cur = []tick{}
		}
	}
	if len(cur) > 0 || len(outer) == 0 {
		outer = append(outer, cur)
	}
	env := make([]string, len(outer))
	for i, o := range outer {
		tq := make([]string, len(o))
		for j := range o {
			tq[j] = o[j].coq()
		}
		// the switch to the named address worked iff a later attempt exists and went to a reachable node
		ok := true
		if len(o) > 0 && o[len(o)-1].R.Kind == "redirect" && o[len(o)-1].R.Addr == "127.0.0.1:1" {
			ok = false
		}
		env[i] = fmt.Sprintf("(mkOtick %s %s None)", obs.List(tq), obs.Bool(ok))
	}
	res.Coq = obs.App("CStandalone", obs.Bool(!disableRetry), zlist(delays), obs.Bool(cs.retryable), obs.List(env), obs.Nat(len(arr)), obs.Nat(execs), final.Coq())
	res.Sig = fmt.Sprint("standalone", cs.argv[0], cs.retryable, stepsDesc(steps), disableRetry, delays)
	res.Nontrivial = len(arr) > 1
	ts := make([]string, len(rs))
	for i := range rs {
		ts[i] = nodes[i][len(nodes[i])-4:] + "=" + rs[i].String()
	}
	res.Obs = map[string]any{"cmd": cs.argv, "retryable": cs.retryable, "steps": stepsDesc(steps), "ticks": ts, "final": final.String(), "retry": !disableRetry, "delays": delays, "delaycalls": l.Calls(), "execs": execs}
	res.Site = "standalone.go:Do"
	if *propFlag == "C28" {
		// a re-send after REDIRECT is not a retry; everything else follows the single-client policy
		seqs := make([]int64, len(arr))
		for i, a := range arr {
			seqs[i] = a.Seq
		}
		retryOracle(&res, "standalone.go:Do", cs.retryable, !disableRetry, l.Calls(), rs, seqs, 0)
		for i := 0; i+1 < len(rs); i++ {
			if rs[i].Kind == "redirect" && rs[i].Addr != "127.0.0.1:1" && nodes[i+1] != rs[i].Addr {
				res.Oracle, res.Class = fmt.Sprintf("after REDIRECT %s the next send went to %s", rs[i].Addr, nodes[i+1]), "redirect-target"
			}
		}
	}
	if *propFlag == "C03" && !cs.retryable && execs > 1 {
		res.Oracle, res.Class = fmt.Sprintf("non-retryable %s executed %d times in one call", cs.argv[0], execs), "executed-twice"
	}
	return
}

func runStandaloneBatch(c Case) (res obs.Result) {
	r := gen.New(c.Seed)
	res.Kind = "standalone-batch"
	d := fs.New("x")
	na := d.AddNode(nodeA, "master")
	d.AddNode(nodeB, "master")
	n := r.Range(2, 4)
	var cs []cmdSpec
	for i := 0; i < n; i++ {
		cs = append(cs, genCmd(r, i))
	}
	// node A is demoted while the batch is being processed: from member `at` on it answers -REDIRECT B
	at := r.Intn(n + 1)
	flip := r.Chance(3, 4)
	delays := []int64{0, 0}
	l := &ro.ConsultLog{}
	cli, err := newClient(r, "standalone", d, rueidis.ClientOption{RetryDelay: delayFn(delays, l, d)})
	if err != nil {
		res.Oracle, res.Site, res.Class = "harness: NewClient failed: "+err.Error(), "harness", "setup"
		return
	}
	defer cli.Close()
	if flip && at < n {
		d.SetScript(cs[at].argv, fs.Step{Then: func() {
			d.SetRole(nodeA, "slave")
			d.SetRole(nodeB, "master")
			na.Redirect = nodeB
		}})
	}
	multi := make([]rueidis.Completed, len(cs))
	for i, b := range cs {
		multi[i] = build(cli, b)
	}
	results := cli.DoMulti(context.Background(), multi...)
	finals := make([]ro.Reply, len(results))
	for i, rr := range results {
		finals[i] = ro.ClassifyResult(rr)
	}
	ex := splitExchanges(cs, d.Arrivals(), nil)
	// outer attempts: one inner exchange each here (no expiry, no retryable failures)
	env := make([]string, len(ex))
	from := make([]string, len(ex))
	for i, e := range ex {
		env[i] = fmt.Sprintf("(mkObtick [%s] true None)", exchCoq(e))
		from[i] = obs.Nat(e.from)
	}
	cq := make([]string, len(cs))
	desc := make([]string, len(cs))
	for i, b := range cs {
		cq[i] = b.coq(i + 1)
		desc[i] = strings.Join(b.argv, " ")
	}
	res.Coq = obs.App("CStandaloneBatch", "true", zlist(delays), obs.List(cq), obs.List(env), obs.List(from), obs.ListOf(finals, ro.Reply.Coq))
	res.Sig = fmt.Sprint("standalone-batch", desc, at, flip)
	res.Nontrivial = len(ex) > 1
	fin := make([]string, len(finals))
	for i := range finals {
		fin[i] = finals[i].String()
	}
	per := []string{}
	for _, a := range d.Arrivals() {
		per = append(per, a.Node[len(a.Node)-4:]+":"+a.Argv[0]+"="+replyOfArrival(a).String())
	}
	res.Obs = map[string]any{"cmds": desc, "flip_at": at, "flip": flip, "arrivals": per, "final": fin}
	res.Site = "standalone.go:DoMulti"
	if *propFlag == "C03" {
		execOracle(&res, cs, d.Arrivals())
		if res.Class == "executed-twice" {
			res.Class = "redirect-resends-executed-batch-members"
		}
	}
	return
}

// ---------------------------------------------------------------------------------------------
// ConnLifetime expiry while a written command is unanswered (C03)

func runExpiry(c Case) (res obs.Result) {
	r := gen.New(c.Seed)
	res.Kind = "expiry"
	d := fs.New("x")
	d.AddNode(nodeA, "master")
	key := fmt.Sprintf("cnt%d", r.Intn(1000))
	argv := []string{"INCR", key}
	variant := r.Intn(2)
	if *slowFlag {
		variant = r.Intn(3)
	}
	lifetime := 60 * time.Millisecond
	var steps []fs.Step
	switch variant {
	case 0:
		// the server is slow, executes, and the connection breaks before the reply: the reader fails while
		// the pipe is already marked expired
		steps = []fs.Step{{Kind: "CLOSEAFTER", Delay: 500 * time.Millisecond}}
	case 1:
		// control: same latency, but the lifetime is far away
		lifetime = time.Hour
		steps = []fs.Step{{Kind: "CLOSEAFTER", Delay: 100 * time.Millisecond}}
	case 2:
		// the full scenario: the reply takes longer than the lifetime plus the 1 s grace of Close
		steps = []fs.Step{{Kind: "", Delay: 1600 * time.Millisecond}}
	}
	l := &ro.ConsultLog{}
	cli, err := newClient(r, "single", d, rueidis.ClientOption{RetryDelay: delayFn([]int64{0, 0, 0}, l, d), AlwaysPipelining: true, ConnLifetime: lifetime})
	if err != nil {
		res.Oracle, res.Site, res.Class = "harness: NewClient failed: "+err.Error(), "harness", "setup"
		return
	}
	defer cli.Close()
	d.SetScript(argv, steps...)
	ctx, cancel := context.WithTimeout(context.Background(), 20*time.Second)
	defer cancel()
	resp := cli.Do(ctx, cli.B().Incr().Key(key).Build())
	final := ro.ClassifyResult(resp)
	// a slow first attempt may still be sleeping in the fake server when the call returns: wait until every
	// arrival has been processed before counting executions
	var arr []fs.Arrival
	for wait := 0; wait < 1000; wait++ {
		arr = arr[:0]
		pending := false
		for _, a := range d.Arrivals() {
			if strings.Join(a.Argv, " ") == strings.Join(argv, " ") {
				arr = append(arr, a)
				if !a.Done {
					pending = true
				}
			}
		}
		if !pending {
			break
		}
		time.Sleep(10 * time.Millisecond)
	}
	execs := 0
	ticks := make([]tick, len(arr))
	for i, a := range arr {
		t := tick{R: replyOfArrival(a), Exec: a.Executed}
		if a.Executed {
			execs++
		}
		// what the client saw for an attempt that was followed by another send of a non-retryable command
		// can only have been the expired-connection marker
		if i+1 < len(arr) {
			t.R = ro.Reply{Kind: "expired"}
		}
		ticks[i] = t
	}
	tq := make([]string, len(ticks))
	ts := make([]string, len(ticks))
	for i, t := range ticks {
		tq[i] = t.coq()
		ts[i] = t.R.String()
	}
	res.Coq = obs.App("CSingle", "true", zlist([]int64{0, 0, 0}), "false", obs.List(tq), obs.Nat(len(arr)), obs.Nat(execs), final.Coq())
	res.Sig = fmt.Sprint("expiry", variant, len(arr))
	res.Nontrivial = true
	res.Obs = map[string]any{"variant": variant, "sends": len(arr), "execs": execs, "ticks": ts, "final": final.String(), "value": resp.String()}
	res.Site = "pipe.go:connLifetime"
	if execs > 1 {
		res.Oracle = fmt.Sprintf("one Do(INCR) was executed %d times: the connection lifetime expired while the written command was unanswered, the client got the expired-connection marker and re-sent it", execs)
		res.Class = "resend-after-expiry-of-written-command"
	}
	return
}
