// obs_retry: C28 / C03 — failure sequences x delay functions x client kinds against scripted fake
// nodes (harness/fakesentinel data nodes), through the real clients built from the working tree.
//
// kinds: wait (retry.go WaitOrSkipRetry) | single (singleClient.Do) | batch (singleClient.DoMulti) |
// standalone / standalone-batch (EnableRedirect) | sentinel (sentinelClient.Do) | expiry (ConnLifetime
// expiry while a written command is unanswered: the C03 scenario).
package main

import (
	"context"
	"encoding/json"
	"flag"
	"fmt"
	"os"
	"strconv"
	"strings"
	"time"

	"github.com/redis/rueidis"

	fr "verifharness/fakeredis"
	fs "verifharness/fakesentinel"
	"verifharness/gen"
	"verifharness/obs"
	ro "verifharness/routeobs"
)

type Case struct {
	K    string `json:"k"`
	Seed uint64 `json:"seed"`
}

var kindsFlag = flag.String("kinds", "wait,single,single,batch,standalone,standalone-batch,sentinel", "case kinds to generate")
var propFlag = flag.String("prop", "C28", "which property's direct oracle is evaluated: C28 | C03")
var slowFlag = flag.Bool("slow", false, "also run the multi-second expiry scenarios (thorough tier)")

func genCase(r *gen.Rand, i int) any {
	if os.Getenv("VERIF_TIER") == "thorough" {
		*slowFlag = true
	}
	ks := strings.Split(*kindsFlag, ",")
	return Case{K: gen.Pick(r, ks), Seed: r.U64() ^ ro.SeedMix()}
}

const nodeA = "127.0.0.1:6379"
const nodeB = "127.0.0.1:6380"

func zlist(xs []int64) string { return obs.ListOf(xs, obs.Z) }

func genDelays(r *gen.Rand) []int64 {
	n := r.Range(0, 4)
	d := make([]int64, n)
	for i := range d {
		d[i] = gen.Pick(r, []int64{0, 0, 0, 1000, -1, int64(time.Hour)})
	}
	return d
}

// delayFn answers from the table and records every consultation with its position in the arrival order.
func delayFn(tab []int64, l *ro.ConsultLog, d *fs.Deploy) rueidis.RetryDelayFn {
	return ro.DelayFn(tab, l, d.Seq)
}

var stepKinds = []string{"LOADING", "LOADING", "ERR", "CLOSEBEFORE", "CLOSEAFTER", "MIDREPLY", ""}

func genSteps(r *gen.Rand, n int, transport bool) []fs.Step {
	var st []fs.Step
	for i := 0; i < n; i++ {
		k := gen.Pick(r, stepKinds)
		if !transport && (strings.HasPrefix(k, "CLOSE") || k == "MIDREPLY") {
			k = "LOADING"
		}
		st = append(st, fs.Step{Kind: k})
	}
	return st
}

func stepsDesc(st []fs.Step) string {
	s := make([]string, len(st))
	for i, x := range st {
		s[i] = x.Kind
		if x.Addr != "" {
			s[i] += ">" + x.Addr
		}
	}
	return strings.Join(s, ",")
}

func replyOfV(v fr.V) ro.Reply {
	switch v.T {
	case '-':
		return ro.ClassifyText(v.S)
	case '_':
		return ro.Reply{Kind: "nil"}
	case '+', '$':
		switch v.S {
		case "OK":
			return ro.Reply{Kind: "val", Val: 1}
		case "QUEUED":
			return ro.Reply{Kind: "val", Val: 2}
		}
		return ro.Reply{Kind: "val", Val: ro.Hash("s:" + v.S)}
	case ':':
		return ro.Reply{Kind: "val", Val: ro.Hash("i:" + strconv.FormatInt(v.I, 10))}
	case '*', '~':
		parts := make([]string, len(v.A))
		for i, e := range v.A {
			switch e.T {
			case '_':
				parts[i] = "e:redis nil message"
			case '-':
				parts[i] = "e:" + strings.TrimPrefix(e.S, "ERR ")
			default:
				parts[i] = strconv.FormatUint(replyOfV(e).Val, 10)
			}
		}
		return ro.Reply{Kind: "val", Val: ro.Hash("a:" + strings.Join(parts, ","))}
	}
	return ro.Reply{Kind: "val", Val: ro.Hash("other")}
}

func replyOfArrival(a fs.Arrival) ro.Reply {
	switch a.Step {
	case "CLOSEBEFORE", "CLOSEAFTER", "MIDREPLY", "DROP":
		return ro.Reply{Kind: "transport"}
	}
	if !a.Done {
		return ro.Reply{Kind: "transport"}
	}
	return replyOfV(a.Reply)
}

type tick struct {
	R       ro.Reply
	Exec    bool
	CtxCall bool
	CtxCls  bool
	Left    *int64
}

func (t tick) coq() string {
	left := obs.None
	if t.Left != nil {
		left = obs.Some(obs.Z(*t.Left))
	}
	return fmt.Sprintf("(mkTick %s %s %s %s false %s)", t.R.Coq(), obs.Bool(t.Exec), obs.Bool(t.CtxCall), obs.Bool(t.CtxCls), left)
}

// ctx modes: 0 none, 1 far deadline, 2 cancelled before the call, 3 cancelled inside the delay function of the first retry decision
func mkCtx(mode int) (context.Context, context.CancelFunc, *int64) {
	switch mode {
	case 1:
		ctx, c := context.WithTimeout(context.Background(), 30*time.Second)
		l := int64(29 * time.Second) // any value between the delays used (<= 1ms) and an hour gives the same decisions
		return ctx, c, &l
	case 2:
		ctx, c := context.WithCancel(context.Background())
		c()
		return ctx, c, nil
	case 3:
		ctx, c := context.WithCancel(context.Background())
		return ctx, c, nil
	}
	// a cancellable context without deadline forces the pipelined path; plain Background keeps the synchronous one
	return context.Background(), func() {}, nil
}

type cmdSpec struct {
	argv      []string
	retryable bool
	kind      string
}

func build(cli rueidis.Client, c cmdSpec) rueidis.Completed {
	switch c.kind {
	case "multi":
		return cli.B().Multi().Build()
	case "exec":
		return cli.B().Exec().Build()
	}
	switch c.argv[0] {
	case "GET":
		return cli.B().Get().Key(c.argv[1]).Build()
	case "INCR":
		if c.retryable {
			return cli.B().Incr().Key(c.argv[1]).Build().ToRetryable()
		}
		return cli.B().Incr().Key(c.argv[1]).Build()
	}
	if c.retryable {
		return cli.B().Set().Key(c.argv[1]).Value(c.argv[2]).Build().ToRetryable()
	}
	return cli.B().Set().Key(c.argv[1]).Value(c.argv[2]).Build()
}

func genCmd(r *gen.Rand, i int) cmdSpec {
	switch r.Intn(4) {
	case 0:
		return cmdSpec{argv: []string{"GET", fmt.Sprintf("k%d", i)}, retryable: true, kind: "plain"}
	case 1:
		return cmdSpec{argv: []string{"SET", fmt.Sprintf("k%d", i), "v"}, retryable: true, kind: "plain"} // marked ToRetryable
	case 2:
		return cmdSpec{argv: []string{"INCR", fmt.Sprintf("k%d", i)}, retryable: false, kind: "plain"}
	}
	return cmdSpec{argv: []string{"SET", fmt.Sprintf("k%d", i), "v"}, retryable: false, kind: "plain"}
}

func (c cmdSpec) coq(id int) string {
	k := "KPlain"
	switch c.kind {
	case "multi":
		k = "KMulti"
	case "exec":
		k = "KExec"
	}
	return fmt.Sprintf("(mkCmd None %s %s false %d)", k, obs.Bool(c.retryable), id)
}

// ---------------------------------------------------------------------------------------------

func runWait(c Case) (res obs.Result) {
	r := gen.New(c.Seed)
	res.Kind = "wait"
	d := gen.Pick(r, []int64{0, -1, -5, 1, 1000, 50000, int64(time.Hour), int64(2 * time.Hour)})
	mode := r.Intn(3) // 0 no deadline, 1 deadline 30 s, 2 deadline 30 s with cancellable parent
	var ctx context.Context = context.Background()
	cancel := func() {}
	left := obs.None
	if mode > 0 {
		ctx, cancel = context.WithTimeout(context.Background(), 30*time.Second)
		left = obs.Some(obs.Z(int64(29 * time.Second)))
	}
	defer cancel()
	if d >= int64(time.Hour) && mode == 0 {
		d = 1000 // would really sleep
	}
	calls := 0
	fn := func(attempts int, cmd rueidis.Completed, err error) time.Duration { calls++; return time.Duration(d) }
	got := rueidis.VerifRouteWaitOrSkipRetry(fn, ctx, 1, rueidis.Completed{}, nil)
	res.Coq = obs.App("CWait", obs.Z(d), left, obs.Bool(got))
	res.Sig = fmt.Sprint("wait", d, mode)
	res.Nontrivial = true
	res.Obs = got
	res.Site, res.Class = "retry.go:WaitOrSkipRetry", "delay-policy"
	if d < 0 && got {
		res.Oracle = fmt.Sprintf("WaitOrSkipRetry returned true for the negative delay %d", d)
	}
	if calls != 1 {
		res.Oracle = fmt.Sprintf("RetryDelay consulted %d times", calls)
	}
	return
}

// newSingle creates a deployment with one (or two) data nodes and a client of the given kind.
func newClient(r *gen.Rand, kind string, d *fs.Deploy, opt rueidis.ClientOption) (rueidis.Client, error) {
	opt.DialCtxFn = d.Dial
	opt.DisableCache = true
	opt.PipelineMultiplex = -1
	switch kind {
	case "single":
		opt.InitAddress = []string{nodeA}
		opt.ForceSingleClient = true
	case "standalone":
		opt.InitAddress = []string{nodeA}
		opt.Standalone.EnableRedirect = true
	case "sentinel":
		opt.InitAddress = []string{"127.0.0.1:26379"}
		opt.Sentinel.MasterSet = d.Name
	}
	return rueidis.NewClient(opt)
}

func runSingle(c Case, kind string) (res obs.Result) {
	r := gen.New(c.Seed)
	res.Kind = kind
	d := fs.New("mymaster")
	d.AddNode(nodeA, "master")
	if kind == "sentinel" {
		d.AddSentinel("127.0.0.1:26379")
	}
	cs := genCmd(r, 0)
	steps := genSteps(r, gen.Pick(r, []int{0, 1, 1, 2, 3, 5}), true)
	disableRetry := r.Chance(1, 4)
	delays := genDelays(r)
	ctxMode := gen.Pick(r, []int{0, 0, 1, 1, 2, 3})
	if ctxMode != 1 { // an hour-long delay is only ever compared with a deadline, never slept
		for i := range delays {
			if delays[i] >= int64(time.Hour) {
				delays[i] = 1000
			}
		}
	}
	pipelining := r.Chance(1, 2)
	l := &ro.ConsultLog{}
	cli, err := newClient(r, kind, d, rueidis.ClientOption{DisableRetry: disableRetry, RetryDelay: delayFn(delays, l, d), AlwaysPipelining: pipelining})
	if err != nil {
		res.Oracle, res.Site, res.Class = "harness: NewClient failed: "+err.Error(), "harness", "setup"
		return
	}
	defer cli.Close()
	d.SetScript(cs.argv, steps...)
	ctx, cancel, left := mkCtx(ctxMode)
	defer cancel()
	cancelledAt := -1
	if ctxMode == 3 {
		l.Hook = func(attempts int) {
			if attempts == 1 {
				cancel()
			}
		}
	}
	resp := cli.Do(ctx, build(cli, cs))
	final := ro.ClassifyResult(resp)
	var arr []fs.Arrival
	for _, a := range d.Arrivals() {
		if strings.Join(a.Argv, " ") == strings.Join(cs.argv, " ") {
			arr = append(arr, a)
		}
	}
	calls := l.Calls()
	if ctxMode == 3 && len(calls) > 0 {
		cancelledAt = 0 // the context was cancelled while the first retry decision was being taken
	}
	ticks := make([]tick, 0, len(arr)+1)
	execs := 0
	for _, a := range arr {
		t := tick{R: replyOfArrival(a), Exec: a.Executed, Left: left}
		if a.Executed {
			execs++
		}
		ticks = append(ticks, t)
	}
	// attempts that were not written: the context was already done
	if ctxMode == 2 || (cancelledAt >= 0 && final.Kind == "ctx") {
		ticks = append(ticks, tick{R: ro.Reply{Kind: "ctx"}, CtxCall: true, CtxCls: true, Left: left})
	}
	tq := make([]string, len(ticks))
	ts := make([]string, len(ticks))
	for i, t := range ticks {
		tq[i] = t.coq()
		ts[i] = t.R.String()
	}
	ctor := "CSingle"
	res.Coq = obs.App(ctor, obs.Bool(!disableRetry), zlist(delays), obs.Bool(cs.retryable), obs.List(tq), obs.Nat(len(arr)), obs.Nat(execs), final.Coq())
	res.Sig = fmt.Sprint(kind, cs.argv[0], cs.retryable, stepsDesc(steps), disableRetry, delays, ctxMode, pipelining)
	res.Nontrivial = len(arr) > 1 || ctxMode >= 2
	res.Obs = map[string]any{"cmd": cs.argv, "retryable": cs.retryable, "steps": stepsDesc(steps), "ticks": ts, "final": final.String(), "retry": !disableRetry,
		"delays": delays, "delaycalls": calls, "ctx": ctxMode, "execs": execs, "pipelining": pipelining}
	site := map[string]string{"single": "client.go:singleClient.Do", "sentinel": "sentinel.go:Do"}[kind]
	res.Site = site
	rs := make([]ro.Reply, len(ticks))
	for i := range ticks {
		rs[i] = ticks[i].R
	}
	if *propFlag == "C28" {
		seqs := make([]int64, len(arr))
		for i, a := range arr {
			seqs[i] = a.Seq
		}
		retryOracle(&res, site, cs.retryable, !disableRetry, calls, rs[:len(arr)], seqs, ctxMode)
		if len(arr) > 0 && ctxMode != 2 && ctxMode != 3 {
			last := rs[len(arr)-1]
			if last.Kind != final.Kind || last.Val != final.Val {
				res.Oracle, res.Class = fmt.Sprintf("call returned %s, the last reply on the wire was %s", final, last), "passthrough"
			}
		}
		if ctxMode == 2 && len(arr) > 0 {
			res.Oracle, res.Class = "a command was written although the context was done before the call", "ctx-done"
		}
	}
	if *propFlag == "C03" && !cs.retryable && execs > 1 {
		res.Oracle, res.Class = fmt.Sprintf("non-retryable %s executed %d times in one call", cs.argv[0], execs), "executed-twice"
	}
	return
}

// retryOracle: every further send after a reply that is not a redirect / expiry must be justified by the
// policy, judged by what the client actually asked RetryDelay between the two sends (the numbering of
// attempts is the client's business: standalone.Do restarts it after following a REDIRECT).
func retryOracle(res *obs.Result, site string, retryable, retryOn bool, cons []ro.Consult, ticks []ro.Reply, seqs []int64, ctxMode int) {
	for i := 0; i+1 < len(ticks); i++ {
		k := ticks[i].Kind
		if k == "moved" || k == "ask" || k == "redirect" || k == "expired" {
			continue
		}
		allowed := k == "transport" || k == "loading"
		why := ""
		switch {
		case !retryable:
			why = "the command is neither read-only nor retryable"
		case !retryOn:
			why = "DisableRetry is set"
		case !allowed:
			why = "the reply " + ticks[i].String() + " is not a retryable failure"
		default:
			why = ro.RetryJustified(cons, seqs[i], seqs[i+1], "")
			if c, ok := ro.LastConsult(cons, seqs[i], seqs[i+1], ""); why == "" && ok {
				switch {
				case c.Delay >= int64(time.Hour) && ctxMode == 1:
					why = fmt.Sprintf("the delay RetryDelay(%d) = %d exceeds the time left before the deadline", c.Attempts, c.Delay)
				case ctxMode == 3:
					why = "the context was cancelled before the retry was sent"
				}
			}
		}
		if why != "" && res.Oracle == "" {
			res.Oracle, res.Site, res.Class = fmt.Sprintf("re-send after reply %d (%s): %s", i, ticks[i], why), site, "retry-policy"
		}
	}
}

func main() {
	obs.Main(obs.Runner{
		Name: "obs_retry", Salt: 28,
		Gen: genCase,
		Decode: func(raw json.RawMessage) (any, error) {
			var c Case
			err := json.Unmarshal(raw, &c)
			return c, err
		},
		Run: func(ci any) obs.Result {
			c := ci.(Case)
			switch c.K {
			case "wait":
				return runWait(c)
			case "single", "sentinel":
				return runSingle(c, c.K)
			case "batch":
				return runBatch(c)
			case "standalone":
				return runStandalone(c)
			case "standalone-batch":
				return runStandaloneBatch(c)
			case "expiry":
				return runExpiry(c)
			}
			return obs.Result{Kind: "other"}
		},
	})
}
