// obs_resp: C12 / C13 — the real readNextMessage of resp.go on generated well-formed value trees and on a
// malformed stream, through bufio.Readers of several sizes over readers that split the stream arbitrarily.
//
// Direct oracles (independent of the Coq model):
//
//	wf     decoded tree = the generator's tree (harness' own encoder and expected-tree function), exactly the
//	       encoding is consumed, and every chunking / the same buffer size gives the same outcome;
//	mal    no panic, no fatal out-of-memory, bytes allocated <= 64 x input + 1 MiB, same outcome for every chunking;
//	trunc  every strict prefix of a well-formed encoding is an error (never a panic, never a value).
//
// Inputs that declare a length far beyond their own size are decoded in a child process whose address
// space is limited (resp.DecodeSandboxed), so that a decoder trusting such a length cannot take the machine down.
package main

import (
	"encoding/json"
	"fmt"
	"os"
	"strconv"

	"verifharness/gen"
	"verifharness/obs"
	"verifharness/resp"
)

type Case struct {
	Op    string  `json:"op"` // wf | mal | trunc | big
	V     *resp.V `json:"v,omitempty"`
	Rest  []byte  `json:"rest,omitempty"`
	Input []byte  `json:"input,omitempty"`
	Buf   int     `json:"buf"`
	Sizes [][]int `json:"sizes,omitempty"` // chunkings to try
	Mut   string  `json:"mut,omitempty"`
	// big: Input is the header, followed by Count copies of Pat
	Pat   []byte `json:"pat,omitempty"`
	Count int    `json:"count,omitempty"`
	NoCoq bool   `json:"nocoq,omitempty"`
}

var bufSizes = []int{32, 32, 64, 4096}

func marksFor(b int) []int { return []int{b - 1, b, b + 1, b - 3, 2 * b, 15, 16, 17} }

func genChunkings(r *gen.Rand) [][]int {
	out := [][]int{nil, {1}} // whatever bufio asks for; one byte at a time
	n := r.Range(1, 6)
	s := make([]int, n)
	for i := range s {
		switch r.Intn(4) {
		case 0:
			s[i] = r.Range(1, 3)
		case 1:
			s[i] = r.Range(1, 40)
		default:
			s[i] = r.Range(1, 4096)
		}
	}
	return append(out, s)
}

func genWF(r *gen.Rand, buf int) resp.V {
	budget := gen.Pick(r, []int{1, 3, 8, 20, 40})
	depth := r.Range(0, 6)
	if os.Getenv("VERIF_TIER") == "thorough" {
		depth = r.Range(0, 10)
	}
	return resp.GenValue(r, depth, &budget, marksFor(buf))
}

var lenMut = []string{"-2", "-1", "-9223372036854775808", "9223372036854775807", "1000000000000000000", "99999999999",
	"4611686018427387904", "4611686018427387905", "-0", "00", "0", "1", "17", "65537", "2147483648", "?", "", "18446744073709551615", "9223372036854775808"}

func isLenType(b byte) bool {
	switch b {
	case '$', '!', '=', '*', '%', '~', '>', '|', ';', ':':
		return true
	}
	return false
}

// positions of length fields: a type byte at the start of a line followed by digits
func lenFields(b []byte) [][2]int {
	var out [][2]int
	for i := 0; i < len(b); i++ {
		if (i == 0 || b[i-1] == '\n') && isLenType(b[i]) {
			j := i + 1
			if j < len(b) && b[j] == '-' {
				j++
			}
			k := j
			for k < len(b) && b[k] >= '0' && b[k] <= '9' {
				k++
			}
			if k > j {
				out = append(out, [2]int{i + 1, k})
			}
		}
	}
	return out
}

var typeBytes = []byte{'$', '+', '-', ':', '_', '.', ',', '#', '!', '=', '(', '*', '%', '~', '|', '>', ';', '?', 'x', 0, 255}

func mutate(r *gen.Rand, enc []byte) ([]byte, string) {
	b := append([]byte(nil), enc...)
	k := r.Intn(10)
	if len(b) == 0 {
		k = 9
	}
	switch k {
	case 0, 1, 2, 3:
		fs := lenFields(b)
		if len(fs) == 0 {
			return append([]byte("$"+gen.Pick(r, lenMut)+"\r\n"), b...), "len-prepend"
		}
		f := gen.Pick(r, fs)
		m := gen.Pick(r, lenMut)
		if r.Chance(1, 5) { // just above what follows
			m = strconv.Itoa(len(b) - f[1] + r.Range(-3, 3))
		}
		nb := append([]byte(nil), b[:f[0]]...)
		nb = append(nb, m...)
		return append(nb, b[f[1]:]...), "len:" + m
	case 4, 5:
		// swap a type byte
		var pos []int
		for i := range b {
			if i == 0 || b[i-1] == '\n' {
				pos = append(pos, i)
			}
		}
		p := gen.Pick(r, pos)
		b[p] = gen.Pick(r, typeBytes)
		return b, "type"
	case 6:
		if len(b) > 0 {
			p := r.Intn(len(b))
			return append(b[:p], b[p+1:]...), "delete"
		}
		return b, "delete"
	case 7:
		p := r.Intn(len(b) + 1)
		g := r.Bytes(r.Range(1, 4))
		nb := append([]byte(nil), b[:p]...)
		nb = append(nb, g...)
		return append(nb, b[p:]...), "insert"
	case 8:
		return b[:r.Intn(len(b)+1)], "truncate"
	default:
		n := r.Size(200, 31, 32, 33)
		raw := make([]byte, n)
		alphabet := []byte("$*%~>|;:+-_#,!=(.?\r\n0123456789tfOK\x00\xff")
		for i := range raw {
			if r.Chance(1, 8) {
				raw[i] = byte(r.Intn(256))
			} else {
				raw[i] = gen.Pick(r, alphabet)
			}
		}
		return raw, "raw"
	}
}

var deterministic = detCases()

// detCases: the seed-independent part of every run: the length-boundary sweep and, interleaved so that the
// expensive model evaluations spread over the shards, the "long real prefix under a lying length" family.
func detCases() []Case {
	thorough := os.Getenv("VERIF_TIER") == "thorough"
	var withCoq, rest []Case
	bigs := resp.Bigs(thorough)
	if os.Getenv("VERIF_RESP_MIX") != "malformed" {
		bigs = nil // the long lying-length family belongs to C13's run; C12 shares only the boundary sweep
	}
	for k, b := range bigs {
		c := Case{Op: "big", Input: b.Prefix, Pat: b.Pat, Count: b.Count, Mut: "big:" + b.Name, Buf: []int{4096, 64, 32}[k%3]}
		c.NoCoq = !thorough && !b.Model // every case gets the direct oracle; the model is evaluated on a subset in the quick tier
		if c.NoCoq {
			rest = append(rest, c)
		} else {
			withCoq = append(withCoq, c)
		}
	}
	var out []Case
	bs := resp.Boundaries()
	step := len(bs)/(len(withCoq)+1) + 1
	for i, b := range bs {
		out = append(out, Case{Op: "mal", Input: b.Input, Mut: "boundary:" + b.Name, Buf: []int{32, 64, 4096}[i%3], Sizes: [][]int{nil, {1}, {3, 7}}})
		if (i+1)%step == 0 && len(withCoq) > 0 {
			out = append(out, withCoq[0])
			withCoq = withCoq[1:]
		}
	}
	out = append(out, withCoq...)
	return append(out, rest...)
}

func genCase(r *gen.Rand, i int) any {
	if i < len(deterministic) { // the same on every run and for every seed
		return deterministic[i]
	}
	buf := gen.Pick(r, bufSizes)
	c := Case{Buf: buf, Sizes: genChunkings(r)}
	k := r.Intn(20)
	if os.Getenv("VERIF_RESP_MIX") == "malformed" && k < 10 && r.Chance(3, 4) {
		k = 15 // C13 runs: mostly the malformed stream
	}
	switch {
	case k < 10:
		v := genWF(r, buf)
		c.Op, c.V = "wf", &v
		if r.Chance(1, 3) {
			c.Rest = r.Bytes(r.Range(1, 8))
		}
	case k < 12:
		v := genWF(r, buf)
		c.Op, c.V = "trunc", &v
	default:
		v := genWF(r, buf)
		c.Op = "mal"
		c.Input, c.Mut = mutate(r, v.Enc(nil))
		if r.Chance(1, 6) { // a second mutation
			var m2 string
			c.Input, m2 = mutate(r, c.Input)
			c.Mut += "+" + m2
		}
	}
	return c
}

func sizesCoq(s []int) string { return obs.ListOf(s, obs.Nat) }

func outcomeCoq(o resp.Outcome) string {
	switch o.Status {
	case "ok":
		return obs.Ok(o.Tree.Coq())
	case "err":
		return obs.Err(o.Err)
	default:
		return obs.Panic
	}
}

// const of the direct allocation oracle
func allocLimit(n int) uint64 { return 64*uint64(n) + 1<<20 }

func run(ci any) (res obs.Result) {
	c := ci.(Case)
	res.Kind = c.Op
	res.Site = "resp.go:readNextMessage"
	switch c.Op {
	case "wf":
		res.Class = "roundtrip"
		enc := c.V.Enc(nil)
		input := append(append([]byte(nil), enc...), c.Rest...)
		want := c.V.Abs()
		var first resp.Outcome
		minAlloc := ^uint64(0)
		for k, sizes := range c.Sizes {
			o := resp.Decode(input, c.Buf, sizes)
			if k == 0 {
				first = o
			}
			if o.Alloc < minAlloc { // TotalAlloc also sees what the runtime allocates meanwhile: take the quietest run
				minAlloc = o.Alloc
			}
			switch {
			case o.Status == "panic":
				res.Oracle = "panic while decoding a well-formed reply: " + o.ErrText
				res.Class = "panic"
			case o.Status != "ok":
				res.Oracle = fmt.Sprintf("well-formed reply rejected (chunking %v, buffer %d): %s", sizes, c.Buf, o.ErrText)
			case !o.Tree.Equal(want):
				res.Oracle = fmt.Sprintf("decoded tree differs from the encoded value (chunking %v, buffer %d)", sizes, c.Buf)
			case o.Consumed != len(enc):
				res.Oracle = fmt.Sprintf("consumed %d bytes of a %d-byte encoding", o.Consumed, len(enc))
			case o.Alloc > allocLimit(len(input)):
				res.Oracle = fmt.Sprintf("allocated %d bytes for a %d-byte input", o.Alloc, len(input))
				res.Class = "alloc"
			}
			if res.Oracle != "" {
				break
			}
		}
		if c.V.Bytes()+3*len(input) <= resp.MaxCoqBytes {
			res.Coq = obs.App("CDec", obs.N(uint64(c.Buf)), obs.Some("("+c.V.Coq()+", "+hbytes(c.Rest)+")"), resp.HB(input),
				obs.ListOf(c.Sizes[1:], sizesCoq), outcomeCoq(first), obs.N(uint64(first.Consumed)), obs.N(minAlloc))
		}
		res.Sig = fmt.Sprint("wf", c.Buf, hash(input))
		res.Nontrivial = true
		res.Obs = fmt.Sprintf("%d bytes depth %d buf %d: %s", len(input), c.V.Depth(), c.Buf, first.Status)
	case "trunc":
		res.Class = "truncation"
		enc := c.V.Enc(nil)
		var samples []string
		step := len(enc)/24 + 1
		for k := 0; k < len(enc); k++ {
			o := resp.Decode(enc[:k], c.Buf, c.Sizes[k%len(c.Sizes)])
			if o.Status != "err" && res.Oracle == "" {
				res.Oracle = fmt.Sprintf("prefix of length %d of a %d-byte reply: %s %s", k, len(enc), o.Status, o.ErrText)
				if o.Status == "panic" {
					res.Class = "panic"
				}
			}
			if k%step == 0 || k >= len(enc)-3 {
				samples = append(samples, "("+obs.Nat(k)+", "+outcomeCoq(o)+", "+obs.N(uint64(o.Consumed))+")")
			}
		}
		if 2*len(enc) <= resp.MaxCoqBytes {
			res.Coq = obs.App("CTrunc", obs.N(uint64(c.Buf)), resp.HB(enc), obs.List(samples))
		}
		res.Sig = fmt.Sprint("trunc", c.Buf, hash(enc))
		res.Nontrivial = len(enc) > 3
		res.Obs = fmt.Sprintf("%d prefixes", len(enc))
	case "big":
		res.Class = "malformed"
		res.Kind = "big-sandboxed"
		total := len(c.Input) + len(c.Pat)*c.Count
		o := resp.DecodeSandboxedBig(c.Input, c.Pat, c.Count, c.Buf, nil)
		switch {
		case o.Status == "panic":
			res.Oracle = fmt.Sprintf("panic on %q followed by %d x %q: %s", trunc(c.Input), c.Count, c.Pat, o.ErrText)
			res.Class = "panic"
		case o.Status == "fatal":
			res.Oracle = fmt.Sprintf("the decoder process died (out of memory) on %q followed by %d x %q: %s", trunc(c.Input), c.Count, c.Pat, o.ErrText)
			res.Class = "alloc"
		case o.Alloc > allocLimit(total):
			res.Oracle = fmt.Sprintf("allocated %d bytes for the %d-byte input %q followed by %d x %q", o.Alloc, total, trunc(c.Input), c.Count, c.Pat)
			res.Class = "alloc"
		}
		if o.Status != "fatal" && !c.NoCoq {
			res.Coq = obs.App("CBig", obs.N(uint64(c.Buf)), resp.HB(c.Input), resp.HB(c.Pat), obs.N(uint64(c.Count)), outcomeCoq(o),
				obs.N(uint64(o.Consumed)), obs.N(o.Alloc))
		}
		res.Sig = fmt.Sprint("big", c.Buf, c.Mut)
		res.Nontrivial = true
		res.Obs = fmt.Sprintf("%s: %s err=%d consumed=%d alloc=%d (input %d bytes)", c.Mut, o.Status, o.Err, o.Consumed, o.Alloc, total)
	case "mal":
		res.Class = "malformed"
		var first resp.Outcome
		if resp.Risky(c.Input) {
			first = resp.DecodeSandboxed(c.Input, c.Buf, c.Sizes[len(c.Sizes)-1])
			res.Kind = "mal-sandboxed"
		} else {
			minAlloc := ^uint64(0)
			for k, sizes := range c.Sizes {
				o := resp.Decode(c.Input, c.Buf, sizes)
				if o.Alloc < minAlloc {
					minAlloc = o.Alloc
				}
				if k == 0 {
					first = o
				} else if o.Key() != first.Key() && res.Oracle == "" {
					res.Oracle = fmt.Sprintf("outcome depends on how the stream is split: %v gives %s/%d consumed %d, default gives %s/%d consumed %d",
						sizes, o.Status, o.Err, o.Consumed, first.Status, first.Err, first.Consumed)
					res.Class = "split"
				}
				if o.Status == "panic" {
					first = o
				}
			}
			if first.Status != "panic" && first.Alloc <= allocLimit(len(c.Input)) {
				first.Alloc = minAlloc // for the model's envelope: the quietest of the runs
			}
		}
		switch {
		case first.Status == "panic":
			res.Oracle = fmt.Sprintf("panic on %q: %s", trunc(c.Input), first.ErrText)
			res.Class = "panic"
		case first.Status == "fatal":
			res.Oracle = fmt.Sprintf("the decoder process died (out of memory) on %q: %s", trunc(c.Input), first.ErrText)
			res.Class = "alloc"
		case first.Alloc > allocLimit(len(c.Input)):
			res.Oracle = fmt.Sprintf("allocated %d bytes for the %d-byte input %q", first.Alloc, len(c.Input), trunc(c.Input))
			res.Class = "alloc"
		}
		if first.Status != "fatal" && 3*len(c.Input) <= resp.MaxCoqBytes {
			res.Coq = obs.App("CDec", obs.N(uint64(c.Buf)), obs.None, resp.HB(c.Input),
				obs.ListOf(c.Sizes[1:], sizesCoq), outcomeCoq(first), obs.N(uint64(first.Consumed)), obs.N(first.Alloc))
		}
		res.Sig = fmt.Sprint("mal", c.Buf, hash(c.Input))
		res.Nontrivial = true
		res.Obs = fmt.Sprintf("%s: %s err=%d consumed=%d alloc=%d", c.Mut, first.Status, first.Err, first.Consumed, first.Alloc)
	}
	return
}

func hbytes(b []byte) string {
	if len(b) == 0 {
		return "[]"
	}
	return resp.HB(b)
}

func trunc(b []byte) []byte {
	if len(b) > 80 {
		return b[:80]
	}
	return b
}

func hash(b []byte) uint64 {
	h := uint64(1469598103934665603)
	for _, c := range b {
		h = (h ^ uint64(c)) * 1099511628211
	}
	return h
}

func main() {
	if len(os.Args) > 1 && os.Args[1] == "-resp-child" {
		resp.ChildMain()
		return
	}
	obs.Main(obs.Runner{
		Name: "obs_resp", Salt: 12,
		Gen: genCase,
		Decode: func(raw json.RawMessage) (any, error) {
			var c Case
			err := json.Unmarshal(raw, &c)
			return c, err
		},
		Run: run,
	})
}
