// obs_sbloom: C37 — rueidisprob sliding-window Bloom filter (real client, real scripts under mini-Lua,
// virtual server clock).  Direct oracle: an item added at server time t (Add returned nil, no later
// Reset/Delete) is reported by every Exists/ExistsMulti that runs at a time t' with 2*(t'-t) < window;
// one answer per queried key; accepted configurations have hashIterations >= 1.
package main

import (
	"context"
	"encoding/json"
	"fmt"
	"sort"
	"strconv"
	"time"

	"github.com/redis/rueidis"
	"github.com/redis/rueidis/rueidisprob"

	"verifharness/gen"
	"verifharness/luaobs"
	"verifharness/obs"
)

type Op struct {
	K    string   `json:"k"` // add | exists | count | reset | delete | init
	Keys []string `json:"keys,omitempty"`
	Dt   int64    `json:"dt"` // the server clock is advanced by dt ms before the operation
}

type Case struct {
	N      uint    `json:"n"`
	Rate   float64 `json:"rate"`
	Window int64   `json:"window_ms"`
	RO     bool    `json:"ro,omitempty"`
	Ops    []Op    `json:"ops"`
}

func genCase(r *gen.Rand, i int) any {
	c := Case{N: uint(r.Range(1, 30)), Rate: gen.Pick(r, []float64{0.5, 0.1, 0.01, 0.9, 0.99, 0.3}), RO: r.Chance(1, 4)}
	c.Window = gen.Pick(r, []int64{1000, 1001, 1500, 2000, 2001, 60000})
	wh := c.Window / 2
	key := func() string {
		if r.Chance(1, 10) {
			return string(r.Bytes(r.Size(8, 3)))
		}
		return "k" + strconv.Itoa(r.Intn(10))
	}
	n := 3 + r.Size(22, 8)
	for j := 0; j < n; j++ {
		var o Op
		switch x := r.Intn(24); {
		case x < 8:
			o.K = "add"
		case x < 18:
			o.K = "exists"
		case x < 20:
			o.K = "count"
		case x < 21:
			o.K = "reset"
		case x < 22:
			o.K = "delete"
		default:
			o.K = "init"
		}
		o.Dt = gen.Pick(r, []int64{0, 0, 1, wh / 2, wh - 1, wh, wh + 1, 1, 2, 7, wh - 2, 2 * wh, int64(r.Intn(int(wh)))})
		if o.K == "add" || o.K == "exists" {
			m := 1
			if r.Chance(1, 3) {
				m = r.Size(5, 3)
			}
			for q := 0; q < m; q++ {
				o.Keys = append(o.Keys, key())
			}
		}
		c.Ops = append(c.Ops, o)
	}
	return c
}

const site = "rueidisprob/slidingbloomfilter.go"

func setBits(s string) []string {
	var out []string
	for i := 0; i < len(s)*8; i++ {
		if s[i>>3]&(0x80>>uint(i&7)) != 0 {
			out = append(out, strconv.Itoa(i))
		}
	}
	return out
}

func readState(env *luaobs.Env, now int64) string {
	bits := func(k string) string {
		v := env.E.Do("GET", k)
		if v.T != '$' {
			return obs.None
		}
		return obs.Some(obs.List(setBits(v.S)))
	}
	num := func(k string) string {
		v := env.E.Do("GET", k)
		if v.T != '$' {
			return obs.None
		}
		n, _ := strconv.ParseInt(v.S, 10, 64)
		return obs.Some(obs.Z(n))
	}
	lock := obs.None
	if p := env.E.Do("PTTL", "{sb}:lr"); p.T == ':' && p.I > 0 {
		lock = obs.Some(obs.Z(now + p.I))
	}
	return obs.App("YState", bits("{sb}"), bits("{sb}:n"), num("{sb}:c"), num("{sb}:nc"), lock)
}

func run(ci any) (res obs.Result) {
	c := ci.(Case)
	res.Kind = "hist"
	res.Site = site
	res.Sig = fmt.Sprint(c.N, c.Rate, c.Window, c.RO, c.Ops)
	env, err := luaobs.New(false)
	if err != nil {
		res.Oracle, res.Class = "cannot connect: "+err.Error(), "harness"
		return
	}
	defer env.Close()
	ctx, cancel := context.WithTimeout(context.Background(), 20*time.Second)
	defer cancel()
	fail := func(class, msg string) {
		if res.Oracle == "" {
			res.Oracle, res.Class = msg, class
		}
	}
	newFilter := func() (rueidisprob.BloomFilter, error) {
		return rueidisprob.NewSlidingBloomFilter(env.C, "sb", c.N, c.Rate, time.Duration(c.Window)*time.Millisecond, rueidisprob.WithReadOnlyExists(c.RO))
	}
	var steps []string
	now := env.S.Now()
	bf, err := newFilter()
	if err != nil {
		res.Kind = "rejected"
		res.Obs = err.Error()
		return
	}
	steps = append(steps, "("+obs.Z(now)+", "+obs.Some("SInit")+", (YDone []))")
	size, k, _ := rueidisprob.VerifParams(bf)
	if k < 1 || size == 0 || uint64(size) > 1<<32 {
		fail("sizing-k0", fmt.Sprintf("accepted configuration has hashIterations = %d, size = %d", k, size))
		res.Site = site + ":NewSlidingBloomFilter"
	}
	wh := c.Window / 2
	table := map[string][2]uint64{}
	addedAt := map[string]int64{}
	var trace []any
	coqOK := true
	for _, o := range c.Ops {
		if o.Dt > 0 {
			env.S.Advance(o.Dt)
		}
		now = env.S.Now()
		for _, key := range o.Keys {
			h1, h2 := rueidisprob.VerifHash([]byte(key))
			table[key] = [2]uint64{h1, h2}
		}
		before := len(env.E.Runs())
		sent := func() (string, bool) {
			rs := env.RunsSince(before)
			if len(rs) != 1 || len(rs[0].Args) < 2 {
				return "", false
			}
			if rs[0].Args[0] != strconv.FormatUint(uint64(k), 10) || rs[0].Args[1] != strconv.FormatInt(wh, 10) {
				fail("argv", fmt.Sprintf("ARGV[1..2] = %q, expected hashIterations %d and windowHalf %d", rs[0].Args[:2], k, wh))
			}
			return luaobs.NumList(rs[0].Args[2:])
		}
		var opTerm, obsTerm string
		switch o.K {
		case "init":
			opTerm = "SInit"
			_, err := newFilter()
			trace = append(trace, []any{now, "init", fmt.Sprint(err)})
			if err != nil {
				obsTerm = "YErr"
				coqOK = false // NewSlidingBloomFilter failing on an existing filter is outside the model's observation set
				fail("init-error", "NewSlidingBloomFilter on an existing filter: "+err.Error())
			} else {
				obsTerm = "(YDone [])"
			}
		case "add":
			opTerm = obs.App("SAdd", luaobs.Keys(o.Keys))
			err := bf.AddMulti(ctx, o.Keys)
			trace = append(trace, []any{now, "add", o.Keys, fmt.Sprint(err)})
			switch {
			case err != nil:
				if _, isRedis := rueidis.IsRedisErr(err); !isRedis {
					fail("add-error", "AddMulti: "+err.Error())
					coqOK = false
				}
				obsTerm = "YErr" // aborted script (e.g. RENAME of a deleted key): the add did not succeed
			case len(o.Keys) == 0:
				obsTerm = "YNoTrip"
			default:
				for _, key := range o.Keys {
					addedAt[key] = now
				}
				if s, ok := sent(); ok {
					obsTerm = obs.App("YDone", s)
				}
			}
		case "exists":
			opTerm = obs.App("SExists", luaobs.Keys(o.Keys))
			got, err := bf.ExistsMulti(ctx, o.Keys)
			trace = append(trace, []any{now, "exists", o.Keys, got, fmt.Sprint(err)})
			switch {
			case err != nil:
				if _, isRedis := rueidis.IsRedisErr(err); !isRedis {
					fail("exists-error", "ExistsMulti: "+err.Error())
					coqOK = false
				}
				obsTerm = "YErr"
			case len(o.Keys) == 0:
				obsTerm = "YNoTrip"
			default:
				if len(got) != len(o.Keys) {
					fail("positional", fmt.Sprintf("ExistsMulti returned %d answers for %d keys", len(got), len(o.Keys)))
				} else {
					for i, key := range o.Keys {
						if t, ok := addedAt[key]; ok && 2*(now-t) < c.Window && !got[i] {
							fail("expired-early", fmt.Sprintf("%q was added at %d, queried at %d (window %d ms): ExistsMulti[%d] = false", key, t, now, c.Window, i))
						}
					}
				}
				if s, ok := sent(); ok {
					obsTerm = obs.App("YBools", s, luaobs.Bools(got))
				}
			}
		case "count":
			opTerm = "SCount"
			n, err := bf.Count(ctx)
			trace = append(trace, []any{now, "count", n, fmt.Sprint(err)})
			if err != nil {
				fail("count-error", "Count: "+err.Error())
				coqOK = false
				break
			}
			obsTerm = obs.App("YCount", obs.N(n)+"%Z")
		case "reset", "delete":
			var err error
			if o.K == "reset" {
				opTerm = "SReset"
				err = bf.Reset(ctx)
			} else {
				opTerm = "SDelete"
				err = bf.Delete(ctx)
			}
			trace = append(trace, []any{now, o.K, fmt.Sprint(err)})
			addedAt = map[string]int64{}
			switch {
			case err == nil || rueidis.IsRedisNil(err): // the reset script returns nothing: Reset reports redis nil on success
				obsTerm = "(YDone [])"
			default:
				if _, isRedis := rueidis.IsRedisErr(err); !isRedis {
					fail(o.K+"-error", o.K+": "+err.Error())
					coqOK = false
				}
				obsTerm = "YErr"
			}
		}
		if obsTerm == "" {
			coqOK = false
		}
		if !coqOK {
			break
		}
		steps = append(steps, "("+obs.Z(now)+", "+obs.Some(opTerm)+", "+obsTerm+")")
		if o.K != "count" {
			steps = append(steps, "("+obs.Z(now)+", "+obs.None+", "+readState(env, now)+")")
		}
	}
	for _, r := range env.E.Runs() {
		if r.Unsupported != "" {
			fail("mini-lua", "script left the mini-Lua subset: "+r.Unsupported)
		}
	}
	res.Obs = map[string]any{"size": size, "k": k, "wh": wh, "trace": trace}
	res.Nontrivial = len(table) > 0
	if coqOK && k >= 1 {
		keys := make([]string, 0, len(table))
		for key := range table {
			keys = append(keys, key)
		}
		sort.Strings(keys)
		tb := make([]string, len(keys))
		for i, key := range keys {
			tb[i] = luaobs.Pair(obs.HS(key), luaobs.Pair(obs.N(table[key][0]), obs.N(table[key][1])))
		}
		res.Coq = obs.App("CSHist", obs.N(uint64(size)), obs.N(uint64(k)), obs.Z(wh), obs.List(tb), obs.List(steps))
	}
	return
}

func main() {
	obs.Main(obs.Runner{
		Name: "obs_sbloom", Salt: 37,
		Gen: genCase,
		Decode: func(raw json.RawMessage) (any, error) {
			var c Case
			err := json.Unmarshal(raw, &c)
			return c, err
		},
		Run: run,
	})
}
