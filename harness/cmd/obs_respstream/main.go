// obs_respstream: C29 (byte level) and the streaming clause of C12 — the real streamTo of resp.go.
//
// Direct oracles (independent of the Coq model):
//
//	payload   a streamable reply (string / verbatim / simple / double / big number / integer / bool, counted or
//	          streamed, after any number of pushes) with a writer that never fails: the writer received exactly
//	          the payload, which is what readNextMessage decodes from the same bytes; n = its length; clean; the
//	          bytes of the following reply are untouched;
//	nilerr    null replies give rueidis.Nil, error replies give a RedisError carrying the decoded message; clean;
//	writer    with a writer that fails after k bytes (every k is tried on small replies): the writer got exactly
//	          the first k payload bytes, the writer's error is returned, and if the reply is reported clean the
//	          connection is positioned exactly behind the reply;
//	trunc     every strict prefix of a reply is reported unclean with an error -- with a writer that never fails and
//	          (wtrunc) with a writer that fails part-way: both faults on the same reply must still give unclean;
//	          in general: clean => exactly one whole reply was taken off the connection;
//	split     the outcome does not depend on how the stream is split across reads;
//	mal       malformed input never panics.
package main

import (
	"bytes"
	"encoding/json"
	"fmt"
	"os"

	"verifharness/gen"
	"verifharness/obs"
	"verifharness/resp"
)

type Case struct {
	Op     string   `json:"op"` // payload | writer | trunc | mal
	Pushes []resp.V `json:"pushes,omitempty"`
	V      *resp.V  `json:"v,omitempty"`
	Rest   []byte   `json:"rest,omitempty"`
	Input  []byte   `json:"input,omitempty"`
	Buf    int      `json:"buf"`
	Budget int      `json:"budget"` // -1: the writer never fails
	Sizes  [][]int  `json:"sizes,omitempty"`
}

var bufSizes = []int{32, 32, 64, 4096}

func marksFor(b int) []int { return []int{b - 1, b, b + 1, b - 3, 2 * b, 15, 16, 17} }

func genChunkings(r *gen.Rand) [][]int {
	n := r.Range(1, 5)
	s := make([]int, n)
	for i := range s {
		if r.Bool() {
			s[i] = r.Range(1, 40)
		} else {
			s[i] = r.Range(1, 4096)
		}
	}
	return [][]int{nil, {1}, s}
}

func genReply(r *gen.Rand, buf int) resp.V {
	if r.Chance(1, 7) { // not streamable: aggregate / attribute
		budget := 6
		return resp.GenValue(r, 2, &budget, marksFor(buf))
	}
	return resp.GenScalar(r, marksFor(buf))
}

var boundaries = streamBoundaries()

// the deterministic boundary sweep; types that streamTo hands to readNextMessage are not given the lengths a
// decoder trusting them would try to allocate (this observer has no sandbox)
func streamBoundaries() []resp.Boundary {
	var out []resp.Boundary
	for _, b := range resp.Boundaries() {
		streamTyp := b.Typ == '$' || b.Typ == '=' || b.Typ == ';'
		if streamTyp || !b.MidRange() {
			out = append(out, b)
		}
	}
	return out
}

func genCase(r *gen.Rand, i int) any {
	if i < 2*len(boundaries) { // deterministic: the same on every run and for every seed; with and without a failing writer
		b := boundaries[i/2]
		budget := -1
		if i%2 == 1 {
			budget = 2
		}
		return Case{Op: "mal", Input: b.Input, Buf: []int{32, 64, 4096}[(i/2)%3], Budget: budget, Sizes: [][]int{nil, {1}, {3, 7}}}
	}
	if j := i - 2*len(boundaries); j < len(fixedWTrunc) { // deterministic: writer failure x truncation at every offset
		return fixedWTrunc[j]
	}
	buf := gen.Pick(r, bufSizes)
	c := Case{Buf: buf, Sizes: genChunkings(r), Budget: -1}
	v := genReply(r, buf)
	if v.K == "agg" && v.T == '>' { // a push is skipped by streamTo: pushes are generated separately
		v.T = '*'
	}
	if v.K == "attr" && v.X.K == "agg" && v.X.T == '>' {
		v.X.T = '*'
	}
	c.V = &v
	if r.Chance(1, 5) {
		for n := r.Range(1, 2); n > 0; n-- {
			p := resp.V{K: "agg", T: '>', L: []resp.V{{K: "line", T: '+', S: []byte("message")}, resp.GenScalar(r, nil)}}
			c.Pushes = append(c.Pushes, p)
		}
	}
	c.Rest = gen.Pick(r, [][]byte{[]byte("+NEXT\r\n"), []byte(":1\r\n"), []byte("$3\r\nabc\r\n"), nil})
	switch k := r.Intn(10); {
	case k < 5:
		c.Op = "payload"
	case k < 7:
		c.Op = "writer"
		c.Budget = r.Size(300, buf)
	case k < 8:
		c.Op = "trunc"
		if r.Bool() { // both faults: the writer fails part-way and the input ends early
			c.Op = "wtrunc"
			if p, ok := v.Payload(); ok && len(p) > 0 {
				c.Budget = r.Intn(len(p))
			} else {
				c.Budget = r.Intn(4)
			}
		}
	default:
		c.Op = "mal"
		in := v.Enc(nil)
		c.Input = mutate(r, in)
		c.V = nil
	}
	return c
}

func blobV(t byte, n int) *resp.V {
	s := make([]byte, n)
	for i := range s {
		s[i] = byte('a' + i%26)
	}
	return &resp.V{K: "blob", T: t, S: s}
}

var fixedWTrunc = []Case{
	{Op: "wtrunc", V: blobV('$', 10), Buf: 32, Budget: 3, Sizes: [][]int{nil, {1}, {4}}},
	{Op: "wtrunc", V: blobV('$', 10), Buf: 32, Budget: 0, Sizes: [][]int{nil, {1}, {4}}},
	{Op: "wtrunc", V: blobV('=', 40), Buf: 32, Budget: 33, Sizes: [][]int{nil, {1}, {7}}},
	{Op: "wtrunc", V: blobV('$', 100), Buf: 64, Budget: 64, Sizes: [][]int{nil, {1}, {50}}},
	{Op: "wtrunc", V: blobV('$', 5000), Buf: 4096, Budget: 4097, Sizes: [][]int{nil, {1000}, {4096}}},
}

func mutate(r *gen.Rand, enc []byte) []byte {
	b := append([]byte(nil), enc...)
	lens := []string{"-2", "-1", "-3", "0", "1", "99999999999", "9223372036854775807", "-9223372036854775808", "?", ""}
	switch r.Intn(6) {
	case 0, 1:
		// replace the first length field
		j := 1
		for j < len(b) && (b[j] == '-' || (b[j] >= '0' && b[j] <= '9')) {
			j++
		}
		if len(b) > 0 {
			nb := append([]byte{b[0]}, gen.Pick(r, lens)...)
			return append(nb, b[j:]...)
		}
	case 2:
		if len(b) > 0 {
			b[0] = gen.Pick(r, []byte{'$', '=', ';', '+', ':', '_', '!', '-', '>', '*', '%', '|', '#', ',', '(', '.', 'x'})
		}
	case 3:
		if len(b) > 0 {
			return b[:r.Intn(len(b))]
		}
	case 4:
		p := r.Intn(len(b) + 1)
		nb := append([]byte(nil), b[:p]...)
		nb = append(nb, r.Bytes(r.Range(1, 3))...)
		return append(nb, b[p:]...)
	default:
		alphabet := []byte("$=;+:_!->*%|#,(.?\r\n0123456789tf")
		raw := make([]byte, r.Size(60, 31, 32))
		for i := range raw {
			raw[i] = gen.Pick(r, alphabet)
		}
		return raw
	}
	return b
}

func serrCoq(o resp.StreamOutcome) string {
	switch o.Status {
	case "ok":
		return "SNone"
	case "nil":
		return "SNil"
	case "rediserr":
		return "(SRedis " + o.RedisErr.Coq() + ")"
	case "err":
		return fmt.Sprintf("(SErr %d)", o.Err)
	}
	return "SPanic"
}

func budgetCoq(b int) string {
	if b < 0 {
		return "None"
	}
	return fmt.Sprintf("(Some %d)", b)
}

func key(o resp.StreamOutcome, after []byte) string {
	return fmt.Sprint(o.Status, o.Err, o.N, o.Clean, string(o.Written), "|", string(after))
}

func hbytes(b []byte) string {
	if len(b) == 0 {
		return "[]"
	}
	return resp.HB(b)
}

func run(ci any) (res obs.Result) {
	c := ci.(Case)
	res.Kind = c.Op
	res.Site = "resp.go:streamTo"
	var reply []byte
	input := c.Input
	if c.V != nil {
		for _, p := range c.Pushes {
			input = p.Enc(input)
		}
		reply = c.V.Enc(nil)
		input = append(input, reply...)
	}
	replyEnd := len(input)
	if c.Op != "trunc" && c.Op != "wtrunc" && c.Op != "mal" {
		input = append(input, c.Rest...)
	}
	res.Sig = fmt.Sprint(c.Op, c.Buf, c.Budget, hash(input))
	res.Nontrivial = true

	switch c.Op {
	case "payload", "writer", "mal":
		res.Class = c.Op
		var first resp.StreamOutcome
		var after []byte
		for k, sizes := range c.Sizes {
			o, a := resp.Stream(input, c.Buf, sizes, c.Budget)
			if k == 0 {
				first, after = o, a
			} else if key(o, a) != key(first, after) && res.Oracle == "" {
				res.Oracle = fmt.Sprintf("outcome depends on how the stream is split: %v gives %s, default gives %s", sizes, key(o, a), key(first, after))
				res.Class = "split"
			}
			if o.Status == "panic" {
				res.Oracle = "panic: " + o.ErrText
				res.Class = "panic"
				first = o
			}
		}
		if c.V != nil && c.V.K != "attr" && res.Oracle == "" { // (an attribute frame makes streamTo see the decorated type: only the generic oracles apply)
			want, streamable := c.V.Payload()
			abs := c.V.Abs()
			switch {
			case streamable:
				w := want
				failing := c.Budget >= 0 && c.Budget < len(want)
				if failing {
					w = want[:c.Budget]
				}
				// what a normal read returns for the same bytes
				dec := resp.Decode(reply, c.Buf, nil)
				var normal []byte
				if dec.Status == "ok" {
					if dec.Tree.Typ == ':' || dec.Tree.Typ == '#' {
						normal = []byte(fmt.Sprint(dec.Tree.Int))
					} else {
						normal = dec.Tree.Str
					}
				}
				switch {
				case dec.Status != "ok" || !bytes.Equal(normal, want):
					res.Oracle = "harness: the generator's payload is not what readNextMessage decodes"
					res.Class = "harness"
				case !bytes.Equal(first.Written, w):
					res.Oracle = fmt.Sprintf("the writer received %d bytes %q, expected the %d payload bytes %q", len(first.Written), trunc(first.Written), len(w), trunc(w))
				case first.N != int64(len(w)):
					res.Oracle = fmt.Sprintf("n = %d but %d bytes were written", first.N, len(w))
				case failing && (first.Status != "err" || first.Err != resp.EWriter):
					res.Oracle = fmt.Sprintf("the writer failed after %d bytes but streamTo returned %s/%d", c.Budget, first.Status, first.Err)
				case !failing && first.Status != "ok":
					res.Oracle = fmt.Sprintf("streamable reply gave %s/%d %s", first.Status, first.Err, first.ErrText)
				case !first.Clean && !(failing && c.V.K == "sblob"): // a streamed string whose writer failed is abandoned half-way: unclean is right
					res.Oracle = "a completely received reply was reported unclean"
				case first.Clean && !bytes.Equal(after, c.Rest):
					res.Oracle = fmt.Sprintf("reported clean but the connection is not positioned behind the reply: next read sees %q, expected %q", trunc(after), trunc(c.Rest))
					res.Class = "clean-desync"
				}
			case abs.Typ == '_':
				if first.Status != "nil" || !first.Clean || !bytes.Equal(after, c.Rest) || len(first.Written) != 0 {
					res.Oracle = fmt.Sprintf("null reply: %s clean=%v written=%d", first.Status, first.Clean, len(first.Written))
					res.Class = "nilerr"
				}
			case abs.Typ == '-' || abs.Typ == '!':
				if first.Status != "rediserr" || !first.RedisErr.Equal(abs) || !first.Clean || !bytes.Equal(after, c.Rest) || len(first.Written) != 0 {
					res.Oracle = fmt.Sprintf("error reply: %s clean=%v", first.Status, first.Clean)
					res.Class = "nilerr"
				}
			default: // aggregates: unsupported, but consumed completely
				if first.Status != "err" || first.Err != resp.EStreamUnsupported || !first.Clean || !bytes.Equal(after, c.Rest) {
					res.Oracle = fmt.Sprintf("unsupported reply: %s/%d clean=%v", first.Status, first.Err, first.Clean)
					res.Class = "unsupported"
				}
			}
		}
		// clean must mean: exactly one reply was taken off the connection
		if c.V != nil && res.Oracle == "" && first.Clean && first.Consumed != replyEnd {
			res.Oracle = fmt.Sprintf("reported clean after consuming %d bytes of a %d-byte reply", first.Consumed, replyEnd)
			res.Class = "clean-desync"
		}
		if 3*len(input)+len(first.Written) <= resp.MaxCoqBytes && first.Status != "panic" {
			res.Coq = obs.App("CStream", obs.N(uint64(c.Buf)), budgetCoq(c.Budget), hbytes(input), resp.Z(first.N), serrCoq(first),
				obs.Bool(first.Clean), hbytes(first.Written), hbytes(after))
		}
		res.Obs = fmt.Sprintf("%s/%d n=%d clean=%v written=%d after=%d", first.Status, first.Err, first.N, first.Clean, len(first.Written), len(after))
	case "trunc", "wtrunc":
		res.Class = "truncation"
		if c.Op == "wtrunc" {
			res.Class = "writer-failure+truncation"
		}
		var samples []string
		step := len(input)/24 + 1
		// a prefix that ends inside the reply proper (pushes before it may be complete)
		for k := 0; k < len(input); k++ {
			o, _ := resp.Stream(input[:k], c.Buf, c.Sizes[k%len(c.Sizes)], c.Budget)
			// the reply has not been taken off the connection completely: it must not be reported clean
			if (o.Clean || o.Status == "ok" || o.Status == "panic") && res.Oracle == "" {
				res.Oracle = fmt.Sprintf("only %d of the %d bytes of the reply had arrived (writer budget %d), but streamTo returned %s clean=%v: the connection would be recycled with the rest of the reply outstanding", k, len(input), c.Budget, o.Status, o.Clean)
			}
			if k%step == 0 || k >= len(input)-3 {
				samples = append(samples, fmt.Sprintf("(%s, %s, %s, %s)", obs.Nat(k), resp.Z(o.N), serrCoq(o), obs.Bool(o.Clean)))
			}
		}
		if 2*len(input) <= resp.MaxCoqBytes {
			res.Coq = obs.App("CStreamTrunc", obs.N(uint64(c.Buf)), budgetCoq(c.Budget), hbytes(input), obs.List(samples))
		}
		res.Obs = fmt.Sprintf("%d prefixes", len(input))
		res.Nontrivial = len(input) > 3
	}
	return
}

func trunc(b []byte) []byte {
	if len(b) > 60 {
		return b[:60]
	}
	return b
}

func hash(b []byte) uint64 {
	h := uint64(1469598103934665603)
	for _, c := range b {
		h = (h ^ uint64(c)) * 1099511628211
	}
	return h
}

func main() {
	_ = os.Args
	obs.Main(obs.Runner{
		Name: "obs_respstream", Salt: 29,
		Gen: genCase,
		Decode: func(raw json.RawMessage) (any, error) {
			var c Case
			err := json.Unmarshal(raw, &c)
			return c, err
		},
		Run: run,
	})
}
