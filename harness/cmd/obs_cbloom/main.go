// obs_cbloom: C36 — rueidisprob.CountingBloomFilter (real client, real scripts under mini-Lua).
// Direct oracle, evaluated on the implementation's own observations and the server state read
// directly: no counter is ever negative; a Remove changes the counters exactly as "per key, in order:
// subtract the key's index multiplicities if every counter can pay, else nothing"; while only
// present items have been removed: Exists is true for every item with positive net multiplicity,
// ItemMinCount >= net multiplicity, Count = number of items; accepted configurations have k >= 1.
package main

import (
	"context"
	"encoding/json"
	"fmt"
	"sort"
	"strconv"
	"time"

	"github.com/redis/rueidis/rueidisprob"

	"verifharness/gen"
	"verifharness/luaobs"
	"verifharness/obs"
)

type Op struct {
	K    string   `json:"k"` // add | remove | exists | min | count | delete
	Keys []string `json:"keys,omitempty"`
}

type Case struct {
	Kind string  `json:"kind"` // hist | grid
	N    uint    `json:"n"`
	Rate float64 `json:"rate"`
	R2   bool    `json:"resp2,omitempty"`
	Ops  []Op    `json:"ops,omitempty"`
}

var rates = []float64{0.5, 0.3, 0.1, 0.01, 0.99, 0.9, 0.75, 0.6, 0.05, 0.001, 0.7, 0.2}

func genCase(r *gen.Rand, i int) any {
	c := Case{Kind: "hist", R2: r.Chance(1, 5)}
	switch r.Intn(4) {
	case 0:
		c.N = uint(r.Range(1, 3))
	default:
		c.N = uint(r.Range(1, 12))
	}
	c.Rate = gen.Pick(r, rates)
	pool := 3 + r.Intn(8)
	key := func() string {
		if r.Chance(1, 12) {
			return string(r.Bytes(r.Size(8, 3)))
		}
		return "k" + strconv.Itoa(r.Intn(pool))
	}
	// mostly well-formed histories (remove what is present), some removals of absent items
	var present []string
	n := 3 + r.Size(26, 10)
	for j := 0; j < n; j++ {
		var o Op
		switch x := r.Intn(20); {
		case x < 6:
			o.K = "add"
		case x < 11:
			o.K = "remove"
		case x < 14:
			o.K = "exists"
		case x < 17:
			o.K = "min"
		case x < 19:
			o.K = "count"
		default:
			o.K = "delete"
		}
		m := 1
		if r.Chance(1, 3) {
			m = r.Size(5, 3)
		}
		switch o.K {
		case "add", "exists", "min":
			for q := 0; q < m; q++ {
				o.Keys = append(o.Keys, key())
			}
			if o.K == "add" {
				present = append(present, o.Keys...)
			}
		case "remove":
			for q := 0; q < m; q++ {
				if len(present) > 0 && !r.Chance(1, 6) {
					p := r.Intn(len(present))
					o.Keys = append(o.Keys, present[p])
					present = append(present[:p], present[p+1:]...)
				} else {
					o.Keys = append(o.Keys, key()) // possibly absent
				}
			}
		case "delete":
			present = nil
		}
		c.Ops = append(c.Ops, o)
	}
	return c
}

const site = "rueidisprob/countingbloomfilter.go"

type state struct {
	fields map[uint64]int64
	count  int64
}

func readState(env *luaobs.Env) (state, string) {
	st := state{fields: map[uint64]int64{}}
	h := env.E.Do("HGETALL", "{cb}:cbf")
	var parts []string
	for i := 0; i+1 < len(h.A); i += 2 {
		f, e1 := strconv.ParseUint(h.A[i].S, 10, 64)
		v, e2 := strconv.ParseInt(h.A[i+1].S, 10, 64)
		if e1 != nil || e2 != nil {
			return st, ""
		}
		st.fields[f] = v
	}
	ks := make([]uint64, 0, len(st.fields))
	for f := range st.fields {
		ks = append(ks, f)
	}
	sort.Slice(ks, func(i, j int) bool { return ks[i] < ks[j] })
	for _, f := range ks {
		parts = append(parts, luaobs.Pair(obs.N(f), obs.Z(st.fields[f])))
	}
	c := env.E.Do("GET", "{cb}:cbf:c")
	if c.T == '$' {
		st.count, _ = strconv.ParseInt(c.S, 10, 64)
	}
	return st, obs.App("JState", obs.List(parts), obs.Z(st.count))
}

func run(ci any) (res obs.Result) {
	c := ci.(Case)
	res.Kind = c.Kind
	res.Site = site
	if c.Kind == "grid" {
		res.Sig = fmt.Sprint("grid", c.N, c.Rate)
		f, err := rueidisprob.NewCountingBloomFilter(nil, "g", c.N, c.Rate)
		if err != nil {
			res.Obs = "rejected: " + err.Error()
			return
		}
		size, k, _ := rueidisprob.VerifParams(f)
		res.Nontrivial = true
		res.Obs = map[string]any{"size": size, "k": k}
		if k < 1 || size == 0 {
			res.Oracle, res.Class = fmt.Sprintf("accepted configuration has hashIterations = %d, size = %d", k, size), "sizing-k0"
			res.Site = site + ":NewCountingBloomFilter"
		}
		return
	}
	env, err := luaobs.New(c.R2)
	if err != nil {
		res.Oracle, res.Class = "cannot connect: "+err.Error(), "harness"
		return
	}
	defer env.Close()
	ctx, cancel := context.WithTimeout(context.Background(), 20*time.Second)
	defer cancel()
	res.Sig = fmt.Sprint(c.N, c.Rate, c.Ops)
	f, err := rueidisprob.NewCountingBloomFilter(env.C, "cb", c.N, c.Rate)
	if err != nil {
		res.Kind = "rejected"
		res.Obs = err.Error()
		return
	}
	size, k, _ := rueidisprob.VerifParams(f)
	fail := func(class, msg string) {
		if res.Oracle == "" {
			res.Oracle, res.Class = msg, class
		}
	}
	if k < 1 || size == 0 {
		fail("sizing-k0", fmt.Sprintf("accepted configuration has hashIterations = %d, size = %d", k, size))
		res.Site = site + ":NewCountingBloomFilter"
	}
	table := map[string][2]uint64{}
	mult := map[string]int64{}
	items := int64(0)
	wf := true
	var steps []string
	var trace []any
	coqOK := true
	idxOf := func(key string) []uint64 {
		h1, h2 := rueidisprob.VerifHash([]byte(key))
		out := make([]uint64, k)
		for i := uint(0); i < k; i++ {
			out[i] = rueidisprob.VerifIndex(h1, h2, i, uint64(size))
		}
		return out
	}
	for _, o := range c.Ops {
		if res.Oracle != "" && res.Class == "sizing-k0" {
			break // with k = 0 the client itself misbehaves (empty HMGET, index out of range): reported above
		}
		for _, key := range o.Keys {
			h1, h2 := rueidisprob.VerifHash([]byte(key))
			table[key] = [2]uint64{h1, h2}
		}
		before := len(env.E.Runs())
		logBefore := len(env.S.LogCopy())
		sentScript := func(dropLast bool) (string, bool) {
			rs := env.RunsSince(before)
			if len(rs) != 1 || len(rs[0].Args) < 1 {
				return "", false
			}
			a := rs[0].Args
			if dropLast {
				if a[len(a)-1] != strconv.FormatUint(uint64(k), 10) {
					fail("argv", "last ARGV of the remove script is not hashIterations")
				}
				a = a[:len(a)-1]
			} else {
				a = a[1:]
			}
			return luaobs.NumList(a)
		}
		sentHmget := func() (string, bool) {
			for _, e := range env.S.LogCopy()[logBefore:] {
				if len(e.Argv) >= 2 && e.Argv[0] == "HMGET" {
					return luaobs.NumList(e.Argv[2:])
				}
			}
			return "", false
		}
		var opTerm, obsTerm string
		switch o.K {
		case "add":
			opTerm = obs.App("CAdd", luaobs.Keys(o.Keys))
			err := f.AddMulti(ctx, o.Keys)
			trace = append(trace, []any{"add", o.Keys, fmt.Sprint(err)})
			if err != nil {
				fail("add-error", "AddMulti: "+err.Error())
				coqOK = false
				break
			}
			for _, key := range o.Keys {
				mult[key]++
				items++
			}
			if len(o.Keys) == 0 {
				obsTerm = "JNoTrip"
			} else if s, ok := sentScript(false); ok {
				obsTerm = obs.App("JDone", s)
			}
		case "remove":
			opTerm = obs.App("CRemove", luaobs.Keys(o.Keys))
			st0, _ := readState(env)
			err := f.RemoveMulti(ctx, o.Keys)
			trace = append(trace, []any{"remove", o.Keys, fmt.Sprint(err)})
			if err != nil {
				fail("remove-error", "RemoveMulti: "+err.Error())
				coqOK = false
				break
			}
			// expected effect, from the property statement, on the state read before
			exp := map[uint64]int64{}
			for f, v := range st0.fields {
				exp[f] = v
			}
			expCount := st0.count
			for _, key := range o.Keys {
				need := map[uint64]int64{}
				for _, ix := range idxOf(key) {
					need[ix]++
				}
				ok := true
				for ix, n := range need {
					if exp[ix] < n {
						ok = false
					}
				}
				if ok {
					for ix, n := range need {
						exp[ix] -= n
					}
					expCount--
				}
				if mult[key] > 0 {
					mult[key]--
					items--
					if !ok && wf {
						fail("present-item-not-removed", fmt.Sprintf("%q has positive net multiplicity but its counters cannot pay for a removal", key))
					}
				} else if ok {
					wf = false // an absent item was removed (it took units of other items): the multiplicity bounds no longer apply
				}
			}
			st1, _ := readState(env)
			for ix, v := range exp {
				if st1.fields[ix] != v {
					fail("remove-effect", fmt.Sprintf("counter %d is %d after RemoveMulti(%q), expected %d", ix, st1.fields[ix], o.Keys, v))
				}
			}
			for ix, v := range st1.fields {
				if exp[ix] != v {
					fail("remove-effect", fmt.Sprintf("counter %d is %d after RemoveMulti(%q), expected %d", ix, v, o.Keys, exp[ix]))
				}
			}
			if len(o.Keys) > 0 && st1.count != expCount {
				fail("remove-effect", fmt.Sprintf("item counter is %d after RemoveMulti(%q), expected %d", st1.count, o.Keys, expCount))
			}
			if len(o.Keys) == 0 {
				obsTerm = "JNoTrip"
			} else if s, ok := sentScript(true); ok {
				obsTerm = obs.App("JDone", s)
			}
		case "exists":
			opTerm = obs.App("CExists", luaobs.Keys(o.Keys))
			got, err := f.ExistsMulti(ctx, o.Keys)
			trace = append(trace, []any{"exists", o.Keys, got, fmt.Sprint(err)})
			if err != nil {
				fail("exists-error", "ExistsMulti: "+err.Error())
				coqOK = false
				break
			}
			if len(got) != len(o.Keys) {
				fail("positional", fmt.Sprintf("ExistsMulti returned %d answers for %d keys", len(got), len(o.Keys)))
			} else if wf {
				for i, key := range o.Keys {
					if mult[key] > 0 && !got[i] {
						fail("false-negative", fmt.Sprintf("%q has net multiplicity %d, ExistsMulti[%d] = false", key, mult[key], i))
					}
				}
			}
			if len(o.Keys) == 0 {
				obsTerm = "JNoTrip"
			} else if s, ok := sentHmget(); ok {
				obsTerm = obs.App("JBools", s, luaobs.Bools(got))
			}
		case "min":
			opTerm = obs.App("CMinCount", luaobs.Keys(o.Keys))
			got, err := f.ItemMinCountMulti(ctx, o.Keys)
			trace = append(trace, []any{"min", o.Keys, got, fmt.Sprint(err)})
			if err != nil {
				fail("min-error", "ItemMinCountMulti: "+err.Error())
				coqOK = false
				break
			}
			if len(got) != len(o.Keys) {
				fail("positional", fmt.Sprintf("ItemMinCountMulti returned %d answers for %d keys", len(got), len(o.Keys)))
			} else if wf {
				for i, key := range o.Keys {
					if mult[key] > 0 && got[i] < uint64(mult[key]) {
						fail("min-count-low", fmt.Sprintf("%q has net multiplicity %d, ItemMinCountMulti[%d] = %d", key, mult[key], i, got[i]))
					}
				}
			}
			zs := make([]string, len(got))
			for i, g := range got {
				zs[i] = obs.N(g) + "%Z"
			}
			if len(o.Keys) == 0 {
				obsTerm = "JNoTrip"
			} else if s, ok := sentHmget(); ok {
				obsTerm = obs.App("JCounts", s, obs.List(zs))
			}
		case "count":
			opTerm = "CCount"
			n, err := f.Count(ctx)
			trace = append(trace, []any{"count", n, fmt.Sprint(err)})
			if err != nil {
				fail("count-error", "Count: "+err.Error())
				coqOK = false
				break
			}
			if wf && int64(n) != items {
				fail("count", fmt.Sprintf("Count = %d, %d items are in the filter", n, items))
			}
			obsTerm = obs.App("JCount", obs.N(n)+"%Z")
		case "delete":
			opTerm = "CDelete"
			err := f.Delete(ctx)
			trace = append(trace, []any{"delete", fmt.Sprint(err)})
			if err != nil {
				fail("delete-error", "Delete: "+err.Error())
				coqOK = false
				break
			}
			mult, items, wf = map[string]int64{}, 0, true
			obsTerm = "JDeleted"
		}
		if obsTerm == "" {
			coqOK = false
		}
		if !coqOK {
			break
		}
		steps = append(steps, luaobs.Pair(obs.Some(opTerm), obsTerm))
		// the server state, read directly: no negative counter; the model must hold the same numbers
		st, term := readState(env)
		for ix, v := range st.fields {
			if v < 0 {
				fail("negative-counter", fmt.Sprintf("counter %d is %d after %s %q", ix, v, o.K, o.Keys))
			}
		}
		if term != "" && (o.K == "add" || o.K == "remove" || o.K == "delete") {
			steps = append(steps, luaobs.Pair(obs.None, term))
		}
	}
	for _, r := range env.E.Runs() {
		if r.Unsupported != "" {
			fail("mini-lua", "script left the mini-Lua subset: "+r.Unsupported)
		}
	}
	res.Obs = map[string]any{"size": size, "k": k, "trace": trace}
	res.Nontrivial = len(table) > 0
	if coqOK && k >= 1 {
		keys := make([]string, 0, len(table))
		for key := range table {
			keys = append(keys, key)
		}
		sort.Strings(keys)
		tb := make([]string, len(keys))
		for i, key := range keys {
			tb[i] = luaobs.Pair(obs.HS(key), luaobs.Pair(obs.N(table[key][0]), obs.N(table[key][1])))
		}
		res.Coq = obs.App("CCHist", obs.N(uint64(size)), obs.N(uint64(k)), obs.List(tb), obs.List(steps))
	}
	return
}

func gridPoints() []Case {
	var out []Case
	var ns []uint
	for n := uint(1); n <= 64; n++ {
		ns = append(ns, n)
	}
	ns = append(ns, 100, 1000, 65535, 1<<20, 10000000, 1<<31)
	var rs []float64
	for e := 1; e <= 12; e++ {
		rs = append(rs, pow10(-e), 3*pow10(-e))
	}
	for i := 1; i <= 99; i++ {
		rs = append(rs, float64(i)/100)
	}
	rs = append(rs, 0.995, 0.999, 0.9999, 0.999999, 1e-300)
	for _, n := range ns {
		for _, r := range rs {
			out = append(out, Case{Kind: "grid", N: n, Rate: r})
		}
	}
	return out
}

func pow10(e int) float64 {
	f := 1.0
	for i := 0; i < -e; i++ {
		f /= 10
	}
	return f
}

func main() {
	obs.Main(obs.Runner{
		Name: "obs_cbloom", Salt: 36,
		Gen: genCase,
		Decode: func(raw json.RawMessage) (any, error) {
			var c Case
			err := json.Unmarshal(raw, &c)
			return c, err
		},
		Run: run,
		Extra: func(emit func(rec map[string]any)) {
			pts := gridPoints()
			bad, accepted := 0, 0
			for _, p := range pts {
				r := run(p)
				if r.Nontrivial {
					accepted++
				}
				if r.Oracle != "" {
					bad++
					if bad <= 5 {
						emit(map[string]any{"k": "case", "id": 900000 + bad, "desc": p, "oracle": r.Oracle, "site": r.Site, "class": r.Class,
							"nontrivial": true, "sig": r.Sig, "kind": "grid", "obs": r.Obs})
					}
				}
			}
			emit(map[string]any{"k": "grid", "points": len(pts), "accepted": accepted, "violating": bad})
		},
	})
}
