// zz_deps only pins the add-on modules in go.mod (so that `go build -mod=mod` keeps them listed).
package main

import (
	_ "github.com/redis/rueidis"
	_ "github.com/redis/rueidis/mock"
	_ "github.com/redis/rueidis/om"
	_ "github.com/redis/rueidis/rueidisaside"
	_ "github.com/redis/rueidis/rueidiscompat"
	_ "github.com/redis/rueidis/rueidishook"
	_ "github.com/redis/rueidis/rueidislimiter"
	_ "github.com/redis/rueidis/rueidislock"
	_ "github.com/redis/rueidis/rueidisprob"
)

func main() {}
