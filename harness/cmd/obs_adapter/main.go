// obs_adapter: C06 / C07 / C09 (and the store-level face of C08) for NewSimpleCacheAdapter (cache.go).
//
// Drives the real adapter over a map-backed SimpleCache with generated histories; operations of other
// callers are run at the lock-free point inside adapter.Flight (VerifLruGap site 5).  After every
// operation the flights table, the SimpleCache contents, returned values and released waiters are
// compared with Model/Adapter.v; the direct oracles are evaluated on the implementation alone.
package main

import (
	"encoding/json"
	"errors"
	"flag"
	"fmt"
	"sort"
	"strings"
	"time"

	"github.com/redis/rueidis"

	"verifharness/gen"
	lruh "verifharness/lru"
	"verifharness/obs"
)

type Op struct {
	Op   string   `json:"op"` // flight update cancel delete flush close drop
	K    string   `json:"k,omitempty"`
	C    string   `json:"c,omitempty"`
	TTL  int64    `json:"ttl,omitempty"`
	Now  int64    `json:"now,omitempty"`
	Msg  *lruh.M  `json:"msg,omitempty"`
	Keys []string `json:"keys,omitempty"`
	Err  int      `json:"err,omitempty"`
	Gap  []Op     `json:"gap,omitempty"`
}

type Case struct {
	Kind string `json:"kind"`
	Ops  []Op   `json:"ops"`
}

var propFlag = flag.String("prop", "", "only report oracle failures of this property (C06|C07|C08|C09); empty = all")

var classProp = map[string]string{
	"expiry-min-rule": "C07", "hit-after-expiry": "C07",
	"stale-hit": "C06", "retained-after-invalidation": "C06", "pending-lost-on-invalidation": "C06", "wrong-reply": "C06",
	"second-miss": "C09", "waiters": "C09", "cached-after-cancel": "C09", "wait-unknown-flight": "C09",
	"concat-collision": "C08",
	"harness": "",
}

func wantProp(class string) bool {
	return *propFlag == "" || classProp[class] == *propFlag || classProp[class] == ""
}

const two56 = int64(1) << 56

func trunc56(x int64) int64 { return x & (two56 - 1) }
func floorDiv(a, b int64) int64 {
	q := a / b
	if (a%b != 0) && ((a < 0) != (b < 0)) {
		q--
	}
	return q
}
func unixMilli(ns int64) int64 { return floorDiv(ns, 1000000) }
func at(ns int64) time.Time   { return time.Unix(0, ns) }

// ---- the SimpleCache under the adapter ----

type simple struct{ m map[string]rueidis.RedisMessage }

func (s *simple) Get(key string) rueidis.RedisMessage      { return s.m[key] }
func (s *simple) Set(key string, val rueidis.RedisMessage) { s.m[key] = val }
func (s *simple) Del(key string)                           { delete(s.m, key) }
func (s *simple) Flush()                                   { s.m = map[string]rueidis.RedisMessage{} }

// ---- generator ----

var keyPool = []string{"k", "kP", "a", "b1"}
var cmdPool = []string{"PTTL", "TTL", "GET", "1GET"} // ("kP","TTL") / ("k","PTTL") and ("b1","GET") / ("b","1GET") share key+cmd

type hgen struct {
	r    *gen.Rand
	keys []string
	cmds []string
	now  int64
	out  [][2]string
	tag  int
	cx   map[[2]string]int64
	done map[[2]string]int64
}

func (g *hgen) kc() (string, string) { return gen.Pick(g.r, g.keys), gen.Pick(g.r, g.cmds) }

// a lookup exactly at / one unit around the expiry of an entry we believe completed
func (g *hgen) boundary(now int64) (Op, bool) {
	r := g.r
	if len(g.done) == 0 || !r.Chance(1, 9) {
		return Op{}, false
	}
	var kcs [][2]string
	for kc := range g.done {
		kcs = append(kcs, kc)
	}
	sort.Slice(kcs, func(i, j int) bool { return kcs[i][0]+"\x00"+kcs[i][1] < kcs[j][0]+"\x00"+kcs[j][1] })
	kc := gen.Pick(r, kcs)
	x := g.done[kc]
	if d := x - unixMilli(now); d < -20 || d > 1000 {
		return Op{}, false
	}
	at := x*1000000 + gen.Pick(r, []int64{-1, 0, 1, 500000, 999999, 1000000, -1000000})
	if at > g.now {
		g.now = at
	}
	delete(g.done, kc)
	return Op{Op: "flight", K: kc[0], C: kc[1], TTL: g.ttl(), Now: at}, true
}

func (g *hgen) noteFlight(k, c string, ttl, now int64) {
	kc := [2]string{k, c}
	if _, ok := g.cx[kc]; !ok {
		g.cx[kc] = (unixMilli(now+ttl)) & (two56 - 1)
	}
}

func (g *hgen) noteUpdate(k, c string, m *lruh.M) {
	kc := [2]string{k, c}
	if cx, ok := g.cx[kc]; ok {
		x := m.Xat
		if cx < x || x == 0 {
			x = cx
		}
		g.done[kc] = x
		delete(g.cx, kc)
	}
}

func (g *hgen) tick() int64 {
	r := g.r
	switch r.Intn(8) {
	case 0, 1:
		g.now += int64(r.Intn(200)) * 1000000
	case 2:
	default:
		g.now += int64(r.Intn(5000000))
	}
	return g.now
}

func (g *hgen) ttl() int64 {
	r := g.r
	switch r.Intn(10) {
	case 0:
		return 0
	case 1:
		return -int64(r.Intn(5)) * 1000000
	case 2:
		return int64(r.Intn(3000000))
	case 3:
		return int64(r.Range(1, 5)) * 1000000
	case 4:
		return int64(3600) * 1000000000
	default:
		return int64(r.Range(5, 300)) * 1000000
	}
}

func (g *hgen) msg(now int64) *lruh.M {
	r := g.r
	g.tag++
	m := lruh.GenMsg(r, fmt.Sprintf("v%d", g.tag), r.Intn(60))
	nowms := unixMilli(now)
	switch r.Intn(8) {
	case 0, 1, 2:
	case 3:
		m.Xat = nowms + int64(r.Range(-3, 3))
	case 4:
		m.Xat = nowms + int64(r.Range(1, 50))
	case 5:
		m.Xat = nowms + int64(r.Range(50, 400))
	case 6:
		m.Xat = nowms + 7200000
	default:
		m.Xat = int64(r.Range(1, 3))
	}
	m.Mark = true
	return &m
}

func (g *hgen) pickOut(p, q int) (string, string) {
	r := g.r
	if len(g.out) > 0 && r.Chance(p, q) {
		i := r.Intn(len(g.out))
		k, c := g.out[i][0], g.out[i][1]
		g.out = append(g.out[:i], g.out[i+1:]...)
		return k, c
	}
	return g.kc()
}

func (g *hgen) op(gaps bool, depth int) Op {
	r := g.r
	now := g.tick()
	if o, ok := g.boundary(now); ok {
		return o
	}
	x := r.Intn(100)
	switch {
	case x < 45:
		k, c := g.kc()
		o := Op{Op: "flight", K: k, C: c, TTL: g.ttl(), Now: now}
		g.noteFlight(k, c, o.TTL, now)
		g.out = append(g.out, [2]string{k, c})
		if depth == 0 && gaps && r.Chance(1, 2) {
			for j := r.Range(1, 3); j > 0; j-- {
				o.Gap = append(o.Gap, g.gapop(k, c))
			}
		}
		return o
	case x < 70:
		k, c := g.pickOut(5, 6)
		m := g.msg(now)
		g.noteUpdate(k, c, m)
		return Op{Op: "update", K: k, C: c, Msg: m}
	case x < 76:
		k, c := g.pickOut(3, 4)
		return Op{Op: "cancel", K: k, C: c, Err: r.Range(1, 3)}
	case x < 88:
		n := r.Range(0, 1)
		ks := []string{}
		for j := 0; j <= n; j++ {
			if r.Chance(1, 8) {
				ks = append(ks, "nokey")
			} else {
				ks = append(ks, gen.Pick(r, g.keys))
			}
		}
		return Op{Op: "delete", Keys: ks}
	case x < 91:
		return Op{Op: "flush"}
	case x < 92:
		g.out = nil
		return Op{Op: "close", Err: r.Range(1, 3)}
	default:
		k, c := g.kc()
		return Op{Op: "drop", K: k, C: c}
	}
}

func (g *hgen) gapop(k, c string) Op {
	r := g.r
	g.now += int64(r.Intn(2000000))
	now := g.now
	switch r.Intn(8) {
	case 0, 1, 2:
		g.out = append(g.out, [2]string{k, c})
		return Op{Op: "flight", K: k, C: c, TTL: g.ttl(), Now: now}
	case 3, 4, 5:
		return Op{Op: "update", K: k, C: c, Msg: g.msg(now)}
	case 6:
		return Op{Op: "cancel", K: k, C: c, Err: 1}
	default:
		return Op{Op: "delete", Keys: []string{k}}
	}
}

func genCase(r *gen.Rand, i int) any {
	r = lruh.Reseed(r)
	c := &Case{Kind: "hist"}
	nk := r.Range(1, len(keyPool))
	nc := r.Range(1, len(cmdPool))
	g := &hgen{r: r, keys: keyPool[:nk], cmds: cmdPool[:nc], now: lruh.T0ns + int64(r.Intn(1000))*1000000 + int64(r.Intn(1000000)),
		cx: map[[2]string]int64{}, done: map[[2]string]int64{}}
	gaps := r.Chance(1, 3)
	if gaps {
		c.Kind = "hist-gap"
	}
	if r.Chance(1, 12) {
		// the shape of the race between two missing callers followed by an invalidation
		c.Kind = "race"
		k, cm := g.kc()
		t := g.tick()
		c.Ops = append(c.Ops, Op{Op: "flight", K: k, C: cm, TTL: 50000000, Now: t,
			Gap: []Op{{Op: "flight", K: k, C: cm, TTL: 60000000, Now: t + 1000}, {Op: "update", K: k, C: cm, Msg: g.msg(t)}}})
		c.Ops = append(c.Ops, Op{Op: "delete", Keys: []string{k}})
		c.Ops = append(c.Ops, Op{Op: "flight", K: k, C: cm, TTL: 50000000, Now: t + 2000000})
		g.now = t + 2000000
	}
	n := r.Range(6, 40)
	for j := 0; j < n; j++ {
		c.Ops = append(c.Ops, g.op(gaps, 0))
	}
	return c
}

// ---- run ----

type fail struct{ class, site, msg string }

type rec struct {
	k, c  string
	body  string
	xat   int64
	inval bool
	m     int64 // latest lookup instant seen when the invalidation was processed
}

type flightInfo struct {
	ce   rueidis.CacheEntry
	cxat int64
}

type relExp struct {
	body string
	xat  int64
	err  error
}

type H struct {
	cs     rueidis.CacheStore
	sc     *simple
	ids    map[rueidis.CacheEntry]uint64
	rel    map[rueidis.CacheEntry]bool
	nextID uint64
	out    map[[2]string]*flightInfo
	recs   map[string]*rec
	maxNow int64
	closed bool
	fails  []fail
	expRel map[rueidis.CacheEntry]relExp
	nontr  int
}

var errs = []error{nil, errors.New("e1"), errors.New("e2"), errors.New("e3")}

func (h *H) failf(class, site, f string, a ...any) {
	h.fails = append(h.fails, fail{class, site, fmt.Sprintf(f, a...)})
}

func (h *H) snap() string {
	closed, fl := rueidis.VerifAdapterDump(h.cs)
	rows := make([]string, 0, len(fl))
	sort.Slice(fl, func(i, j int) bool { return fl[i].Key+"\x00"+fl[i].Cmd < fl[j].Key+"\x00"+fl[j].Cmd })
	for _, f := range fl {
		if f.Entry == nil {
			rows = append(rows, fmt.Sprintf("ARow %s %s None 0", obs.HS(f.Key), obs.HS(f.Cmd)))
		} else {
			id, ok := h.ids[f.Entry]
			if !ok {
				h.failf("harness", "obs_adapter", "pending entry (%q,%q) without identity", f.Key, f.Cmd)
				id = 1 << 40
			}
			rows = append(rows, fmt.Sprintf("ARow %s %s (Some %d) %s", obs.HS(f.Key), obs.HS(f.Cmd), id, zz(f.Xat)))
		}
	}
	keys := make([]string, 0, len(h.sc.m))
	for k := range h.sc.m {
		keys = append(keys, k)
	}
	sort.Strings(keys)
	st := make([]string, len(keys))
	for i, k := range keys {
		st[i] = fmt.Sprintf("SS %s %d %s", obs.HS(k), lruh.Typ(h.sc.m[k]), lruh.ZM(lruh.Xat(h.sc.m[k])))
	}
	return fmt.Sprintf("(mkASnap %s %s %s)", obs.Bool(closed), obs.List(rows), obs.List(st))
}

func zz(i int64) string {
	if d := i - lruh.T0ms; d > -1e12 && d < 1e12 {
		return lruh.ZM(i)
	}
	if i < 0 {
		return fmt.Sprintf("(%d)", i)
	}
	return fmt.Sprint(i)
}

func zt(i int64) string { return lruh.ZT(i) }

func zi(i int64) string {
	if i < 0 {
		return fmt.Sprintf("(%d)", i)
	}
	return fmt.Sprint(i)
}

// after every operation: releases and in-flight entries
func (h *H) after(site string) string {
	_, fl := rueidis.VerifAdapterDump(h.cs)
	intable := map[rueidis.CacheEntry]bool{}
	for _, f := range fl {
		if f.Entry != nil {
			intable[f.Entry] = true
		}
	}
	for kc, f := range h.out {
		if f.ce != nil && !intable[f.ce] {
			cls := "waiters"
			if strings.Contains(site, "Delete") {
				cls = "pending-lost-on-invalidation"
			}
			h.failf(cls, site, "in-flight entry (%q,%q) is no longer in the flights table", kc[0], kc[1])
			delete(h.out, kc)
		}
	}
	for ce, id := range h.ids {
		if h.rel[ce] {
			continue
		}
		released, val, err := rueidis.VerifLruEntryState(ce)
		exp, want := h.expRel[ce]
		if released && !want {
			h.failf("waiters", site, "entry %d released without Update/Cancel/Close", id)
		}
		if !released && want {
			h.failf("waiters", site, "waiters of entry %d not released", id)
		}
		if released {
			h.rel[ce] = true
			if want {
				if err != exp.err {
					h.failf("waiters", site, "waiters of entry %d receive error %v, want %v", id, err, exp.err)
				}
				if exp.err == nil && (lruh.Body(val) != exp.body || lruh.Xat(val) != exp.xat) {
					h.failf("waiters", site, "waiters of entry %d receive %s xat %d, want %s xat %d", id, lruh.Body(val), lruh.Xat(val), exp.body, exp.xat)
				}
			}
		}
	}
	h.expRel = map[rueidis.CacheEntry]relExp{}
	return h.snap()
}

func (h *H) adopt(k, c string) rueidis.CacheEntry {
	_, fl := rueidis.VerifAdapterDump(h.cs)
	for _, f := range fl {
		if f.Key == k && f.Cmd == c && f.Entry != nil {
			if _, ok := h.ids[f.Entry]; ok {
				h.failf("harness", "obs_adapter", "miss for (%q,%q) but the pending entry is an old one", k, c)
				return f.Entry
			}
			h.ids[f.Entry] = h.nextID
			h.nextID++
			return f.Entry
		}
	}
	h.failf("second-miss", "cache.go:adapter.Flight", "miss for (%q,%q) on an open adapter created no flight", k, c)
	return nil
}

func (h *H) onFlight(k, c string, ttl, now int64, v rueidis.RedisMessage, ce rueidis.CacheEntry) {
	site := "cache.go:adapter.Flight"
	kc := [2]string{k, c}
	switch {
	case lruh.Typ(v) != 0:
		h.nontr++
		r := h.recs[k+c]
		switch {
		case r == nil:
			h.failf("stale-hit", site, "hit for (%q,%q) but nothing was ever committed under %q", k, c, k+c)
		case r.body != lruh.Body(v):
			h.failf("wrong-reply", site, "hit for (%q,%q) returns %s, last committed %s", k, c, lruh.Body(v), r.body)
		case r.k != k || r.c != c:
			h.failf("concat-collision", "cache.go:adapter", "hit for (%q,%q) returns the reply committed for (%q,%q): both are stored under %q", k, c, r.k, r.c, k+c)
		case r.inval && now >= r.m:
			h.failf("stale-hit", site, "hit for (%q,%q) at %d returns a reply committed before the invalidation of %q (processed when the latest lookup instant was %d)", k, c, now, k, r.m)
		case r.xat != lruh.Xat(v):
			h.failf("expiry-min-rule", site, "hit for (%q,%q) carries expiry %d, want %d", k, c, lruh.Xat(v), r.xat)
		}
		if !(unixMilli(now) < lruh.Xat(v)) {
			h.failf("hit-after-expiry", site, "hit for (%q,%q) at %d ms, expiry %d", k, c, unixMilli(now), lruh.Xat(v))
		}
	case ce != nil:
		h.nontr++
		f := h.out[kc]
		if f == nil || f.ce != ce {
			h.failf("wait-unknown-flight", site, "Flight (%q,%q) returns an entry that is not the outstanding flight", k, c)
		}
	default:
		if h.closed {
			return
		}
		if h.out[kc] != nil {
			h.failf("second-miss", site, "second miss for (%q,%q) while a flight is outstanding", k, c)
		}
		h.out[kc] = &flightInfo{ce: h.adopt(k, c), cxat: unixMilli(now + ttl)}
	}
}

func (h *H) exec(o Op, depth int, items *[]string) {
	switch o.Op {
	case "flight":
		if o.Now > h.maxNow {
			h.maxNow = o.Now
		}
		gapSite := 0
		var gapSnap string
		var gapItems []string
		if depth == 0 && len(o.Gap) > 0 {
			rueidis.VerifLruGap = func(site int) {
				rueidis.VerifLruGap = nil
				gapSite = site
				gapSnap = h.after("cache.go:adapter.Flight")
				for _, g := range o.Gap {
					h.exec(g, depth+1, &gapItems)
				}
			}
		}
		v, ce := h.cs.Flight(o.K, o.C, time.Duration(o.TTL), at(o.Now))
		rueidis.VerifLruGap = nil
		h.onFlight(o.K, o.C, o.TTL, o.Now, v, ce)
		sn := h.after("cache.go:adapter.Flight")
		k, c := obs.HS(o.K), obs.HS(o.C)
		ces := "None"
		if ce != nil {
			ces = fmt.Sprintf("(Some %d)", h.ids[ce])
		}
		if gapSite == 5 {
			*items = append(*items, fmt.Sprintf("AIOp (AFlightFast %s %s %s) AOFastNone %s", k, c, zt(o.Now), gapSnap))
			*items = append(*items, gapItems...)
			*items = append(*items, fmt.Sprintf("AIOp (AFlightSlow %s %s %s %s) (AOFlight %s %s) %s", k, c, zi(o.TTL), zt(o.Now), lruh.MsgCoq(v), ces, sn))
		} else {
			*items = append(*items, fmt.Sprintf("AIOp (AFlight %s %s %s %s) (AOFlight %s %s) %s", k, c, zi(o.TTL), zt(o.Now), lruh.MsgCoq(v), ces, sn))
		}
	case "update":
		m := o.Msg.Build()
		kc := [2]string{o.K, o.C}
		f := h.out[kc]
		want := int64(0)
		rel := "None"
		if f != nil && !h.closed {
			sx := lruh.Xat(m)
			want = sx
			stored := sx
			if f.cxat < sx || sx == 0 {
				want = f.cxat
				stored = trunc56(f.cxat)
			}
			h.expRel[f.ce] = relExp{body: lruh.Body(m), xat: stored}
			h.recs[o.K+o.C] = &rec{k: o.K, c: o.C, body: lruh.Body(m), xat: stored}
			delete(h.out, kc)
			h.nontr++
			rm := *o.Msg
			rm.Xat = stored
			rel = fmt.Sprintf("(Some (Rel %d %s))", h.ids[f.ce], lruh.MsgCoq(rm.Build()))
		}
		pxat := h.cs.Update(o.K, o.C, m)
		if pxat != want {
			h.failf("expiry-min-rule", "cache.go:adapter.Update", "Update (%q,%q) returns %d, want %d", o.K, o.C, pxat, want)
		}
		sn := h.after("cache.go:adapter.Update")
		*items = append(*items, fmt.Sprintf("AIOp (AUpdate %s %s %s) (AOUpdate %s %s) %s", obs.HS(o.K), obs.HS(o.C), lruh.MsgCoq(m), zz(pxat), rel, sn))
	case "cancel":
		kc := [2]string{o.K, o.C}
		f := h.out[kc]
		rel := "None"
		if f != nil && !h.closed {
			h.expRel[f.ce] = relExp{err: errs[o.Err]}
			delete(h.out, kc)
			rel = fmt.Sprintf("(Some %d)", h.ids[f.ce])
			h.nontr++
		}
		h.cs.Cancel(o.K, o.C, errs[o.Err])
		sn := h.after("cache.go:adapter.Cancel")
		*items = append(*items, fmt.Sprintf("AIOp (ACancel %s %s %d) (AOCancel %s) %s", obs.HS(o.K), obs.HS(o.C), o.Err, rel, sn))
	case "delete", "flush":
		var keys []rueidis.RedisMessage
		arg := "None"
		if o.Op == "delete" {
			keys = make([]rueidis.RedisMessage, 0, len(o.Keys))
			ks := []string{}
			for _, k := range o.Keys {
				keys = append(keys, rueidis.VerifLruMsg('$', 0, k, nil, 0, false))
				ks = append(ks, obs.HS(k))
			}
			arg = "(Some " + obs.List(ks) + ")"
		}
		for _, r := range h.recs {
			hit := o.Op == "flush"
			for _, k := range o.Keys {
				if r.k == k {
					hit = true
				}
			}
			if hit && !r.inval {
				r.inval, r.m = true, h.maxNow
				h.nontr++
			}
		}
		h.cs.Delete(keys)
		sn := h.after("cache.go:adapter.Delete")
		*items = append(*items, fmt.Sprintf("AIOp (ADelete %s) AONone %s", arg, sn))
	case "close":
		_, fl := rueidis.VerifAdapterDump(h.cs)
		var rel []string
		for _, f := range fl {
			if f.Entry != nil {
				rel = append(rel, fmt.Sprint(h.ids[f.Entry]))
			}
		}
		for _, f := range h.out {
			if f.ce != nil {
				h.expRel[f.ce] = relExp{err: errs[o.Err]}
			}
		}
		for _, r := range h.recs {
			if !r.inval {
				r.inval, r.m = true, h.maxNow
			}
		}
		h.out = map[[2]string]*flightInfo{}
		h.closed = true
		h.cs.Close(errs[o.Err])
		sn := h.after("cache.go:adapter.Close")
		if len(h.sc.m) != 0 {
			h.failf("retained-after-invalidation", "cache.go:adapter.Close", "%d values left in the SimpleCache after Close", len(h.sc.m))
		}
		*items = append(*items, fmt.Sprintf("AIOp (AClose %d) (AOClose %s) %s", o.Err, obs.List(rel), sn))
	case "drop":
		h.sc.Del(o.K + o.C)
		sn := h.after("cache.go:adapter")
		*items = append(*items, fmt.Sprintf("AIOp (AStoreDrop %s) AONone %s", obs.HS(o.K+o.C), sn))
	}
}

func relevant(fs []fail) *fail {
	for i := range fs {
		if wantProp(fs[i].class) {
			return &fs[i]
		}
	}
	return nil
}

func parens(xs []string) []string {
	r := make([]string, len(xs))
	for i, x := range xs {
		r[i] = "(" + x + ")"
	}
	return r
}

// run wraps the Gallina term in parentheses (./check --replay applies check_case to it textually)
func run(ci any) obs.Result {
	res := runCase(ci)
	if res.Coq != "" {
		res.Coq = "(" + res.Coq + ")"
	}
	return res
}

func runCase(ci any) (res obs.Result) {
	c := ci.(*Case)
	res.Kind = c.Kind
	sc := &simple{m: map[string]rueidis.RedisMessage{}}
	h := &H{cs: rueidis.NewSimpleCacheAdapter(sc), sc: sc, ids: map[rueidis.CacheEntry]uint64{}, rel: map[rueidis.CacheEntry]bool{},
		out: map[[2]string]*flightInfo{}, recs: map[string]*rec{}, expRel: map[rueidis.CacheEntry]relExp{}}
	var items []string
	cut := -1
	for i, o := range c.Ops {
		h.exec(o, 0, &items)
		if relevant(h.fails) != nil {
			cut = i
			break
		}
	}
	if cut >= 0 {
		c.Ops = c.Ops[:cut+1]
	}
	res.Coq = "CAHist " + obs.List(parens(items))
	res.Nontrivial = h.nontr >= 3
	ops := make([]string, len(c.Ops))
	for i, o := range c.Ops {
		ops[i] = o.Op
	}
	res.Sig = fmt.Sprint(strings.Join(ops, ","), len(res.Coq))
	if f := relevant(h.fails); f != nil {
		res.Oracle, res.Site, res.Class = f.msg, f.site, f.class
		res.Coq = ""
	}
	res.Obs = map[string]any{"ops": len(c.Ops), "failures": len(h.fails)}
	return
}

func decode(raw json.RawMessage) (any, error) {
	c := &Case{}
	if err := json.Unmarshal(raw, c); err != nil {
		return nil, err
	}
	return c, nil
}

func main() {
	obs.Main(obs.Runner{Name: "obs_adapter", Salt: 0x11, Gen: genCase, Decode: decode, Run: run})
}
