// obs_inval: C27 (invalidation callbacks) and the hook-channel half of C26.
//
// Every kind runs with and without the client-side cache (ClientOption.DisableCache; without it the observer switches
// CLIENT TRACKING ON by hand, as an application that only wants the notifications does).
//
// Kind "option": a RESP3 client with ClientOption.OnInvalidations.  Operations: cached reads, writes from another
// connection (real invalidation pushes of the fake server), FLUSHALL (null push), multi-key pushes injected by the
// server, ordinary commands in between; then Close or a server-side kill.  Ground truth = the invalidate pushes found
// in the bytes the client actually read from the connection (a tee on the client side), in wire order.
// Oracle: the callback log is exactly those key lists, then one nil for the lost connection.
//
// Kind "hooks": a dedicated client with SetPubSubHooks / SetOnInvalidations (each call installs a new hook set and
// returns a new channel), invalidation pushes and messages in between, then release, Close or a kill.
// Oracle: every returned channel is closed exactly once (a second close would panic the client), carries at most one
// error and only when the connection failed; each hook set's invalidation callback saw exactly the pushes that
// arrived while it was installed (+ nil if it was installed when the connection was lost); half of the cases also set
// ClientOption.OnInvalidations ("global"): BOTH callbacks are on the dedicated connection, the client-wide one must see
// every push sent on it whatever hook set is installed (+ nil when it is lost) — checked directly against
// the pushes the observer had the server send, op by op; OnMessage likewise (through the model).
package main

import (
	"context"
	"crypto/tls"
	"encoding/json"
	"fmt"
	"net"
	"strconv"
	"strings"
	"sync"
	"sync/atomic"
	"time"

	"github.com/redis/rueidis"

	"verifharness/fakeredis"
	"verifharness/gen"
	"verifharness/obs"
	"verifharness/psx"
)

type Op struct {
	T    string   `json:"t"` // read | write | flush | inject | cmd | sethooks | setinval | clear | pub
	Key  string   `json:"key,omitempty"`
	Keys []string `json:"keys,omitempty"`
}

type Case struct {
	Kind    string `json:"kind"` // option | hooks
	Ops     []Op   `json:"ops"`
	End     string `json:"end"`               // close | kill | release
	NoCache bool   `json:"nocache,omitempty"` // ClientOption.DisableCache: no client-side cache, the callbacks work all the same
	Global  bool   `json:"global,omitempty"`  // kind hooks: ClientOption.OnInvalidations is set as well: both callbacks on the dedicated connection
}

var keys = []string{"k1", "k2", "k3", "k4"}

func genCase(r *gen.Rand, i int) any {
	c := Case{Kind: gen.Pick(r, []string{"option", "option", "hooks"})}
	n := 2 + r.Intn(14)
	c.NoCache = r.Chance(1, 2)
	if c.Kind == "option" {
		c.End = gen.Pick(r, []string{"close", "kill"})
		for j := 0; j < n; j++ {
			switch x := r.Intn(10); {
			case x < 3:
				c.Ops = append(c.Ops, Op{T: "read", Key: gen.Pick(r, keys)})
			case x < 6:
				c.Ops = append(c.Ops, Op{T: "write", Key: gen.Pick(r, keys)})
			case x < 7:
				c.Ops = append(c.Ops, Op{T: "flush"})
			case x < 9:
				ks := []string{}
				for _, k := range keys {
					if r.Chance(1, 2) {
						ks = append(ks, k)
					}
				}
				c.Ops = append(c.Ops, Op{T: "inject", Keys: ks})
			default:
				c.Ops = append(c.Ops, Op{T: "cmd"})
			}
		}
		return c
	}
	c.End = gen.Pick(r, []string{"release", "close", "kill"})
	c.Global = r.Chance(1, 2)
	for j := 0; j < n; j++ {
		switch x := r.Intn(10); {
		case x < 2:
			c.Ops = append(c.Ops, Op{T: "sethooks"})
		case x < 4:
			c.Ops = append(c.Ops, Op{T: "setinval"})
		case x < 5:
			c.Ops = append(c.Ops, Op{T: "clear"})
		case x < 8:
			ks := []string{}
			for _, k := range keys {
				if r.Chance(1, 2) {
					ks = append(ks, k)
				}
			}
			if r.Chance(1, 6) || len(ks) == 0 {
				ks = nil // flush
			}
			c.Ops = append(c.Ops, Op{T: "inject", Keys: ks})
		default:
			c.Ops = append(c.Ops, Op{T: "pub"})
		}
	}
	return c
}

var voc = psx.NewVocab([]string{"k1", "k2", "k3", "k4", "hc", "", "p1", "p2", "p3", "p4", "p5", "p6", "p7", "p8", "p9", "p10", "p11", "p12", "p13", "p14", "p15", "p16"})

func keysCoq(ks []string, null bool) string {
	if null {
		return obs.None
	}
	return obs.Some(obs.ListOf(ks, voc.B))
}

func msgKeys(ms []rueidis.RedisMessage) ([]string, bool) {
	if ms == nil {
		return nil, true
	}
	out := make([]string, len(ms))
	for i, m := range ms {
		out[i], _ = m.ToString()
	}
	return out, false
}

type invalRec struct {
	keys []string
	null bool
}

func (a invalRec) eq(b invalRec) bool {
	if a.null != b.null || len(a.keys) != len(b.keys) {
		return false
	}
	for i := range a.keys {
		if a.keys[i] != b.keys[i] {
			return false
		}
	}
	return true
}

func invalsOnWire(b []byte) []invalRec {
	var out []invalRec
	for _, f := range psx.ParseFrames(b) {
		if f.T == '>' && len(f.A) >= 2 && f.A[0].S == "invalidate" {
			if f.A[1].Null {
				out = append(out, invalRec{null: true})
			} else {
				ks := make([]string, len(f.A[1].A))
				for i, e := range f.A[1].A {
					ks[i] = e.S
				}
				out = append(out, invalRec{keys: ks})
			}
		}
	}
	return out
}

const waitMax = 6 * time.Second // only quoted in messages: the waits use psx.Await (adaptive)

func runOption(c Case) (res obs.Result) {
	res.Kind = "option-" + c.End
	if c.NoCache {
		res.Kind += "-nocache"
	}
	s := fakeredis.New()
	var mu sync.Mutex
	var cb []invalRec
	var tee *psx.TeeConn
	dials := 0
	cl, err := rueidis.NewClient(rueidis.ClientOption{InitAddress: []string{"127.0.0.1:6379"}, ForceSingleClient: true, DisableRetry: true,
		DisableCache: c.NoCache, PipelineMultiplex: -1, ReadBufferEachConn: 4096, WriteBufferEachConn: 4096, RingScaleEachConn: 6,
		DialCtxFn: func(ctx context.Context, dst string, d *net.Dialer, t *tls.Config) (net.Conn, error) {
			nc, err := s.Dial(ctx, dst, d, t)
			if err != nil {
				return nil, err
			}
			dials++
			if dials == 1 {
				tee = &psx.TeeConn{Conn: nc}
				return tee, nil
			}
			return nc, nil
		},
		OnInvalidations: func(ms []rueidis.RedisMessage) {
			ks, null := msgKeys(ms)
			mu.Lock()
			cb = append(cb, invalRec{keys: ks, null: null})
			mu.Unlock()
		}})
	if err != nil {
		res.Oracle = "harness: " + err.Error()
		return
	}
	other, _ := rueidis.NewClient(rueidis.ClientOption{InitAddress: []string{"127.0.0.1:6379"}, DialCtxFn: s.Dial, ForceSingleClient: true, DisableCache: true})
	defer other.Close()
	ctx := context.Background()
	if c.NoCache {
		// no cache, no tracking by the library: the application asks for the notifications itself
		if err := cl.Do(ctx, cl.B().ClientTracking().On().Build()).Error(); err != nil {
			res.Oracle = "harness: CLIENT TRACKING ON: " + err.Error()
			return
		}
	}
	vno := 0
	for _, op := range c.Ops {
		switch op.T {
		case "read":
			cl.DoCache(ctx, cl.B().Get().Key(op.Key).Cache(), time.Minute)
		case "write":
			vno++
			other.Do(ctx, other.B().Set().Key(op.Key).Value("v"+strconv.Itoa(vno)).Build())
		case "flush":
			other.Do(ctx, other.B().Flushall().Build())
		case "inject":
			for _, fc := range s.Conns() {
				if fc.ID == 1 {
					vs := make([]fakeredis.V, len(op.Keys))
					for i, k := range op.Keys {
						vs[i] = fakeredis.Bulk(k)
					}
					fc.SendPush(fakeredis.Push(fakeredis.Bulk("invalidate"), fakeredis.Arr(vs...)))
				}
			}
		case "cmd":
		}
		// a round trip on the same connection: every push sent before has been handled when the reply is here
		cl.Do(ctx, cl.B().Ping().Build())
	}
	if c.End == "close" {
		cl.Close()
	} else {
		for _, fc := range s.Conns() {
			if fc.ID == 1 {
				fc.Kill()
			}
		}
	}
	want := invalsOnWire(func() []byte {
		// the final nil is delivered by the clean-up of the reader goroutine: wait for it
		psx.Await(func() bool {
			mu.Lock()
			defer mu.Unlock()
			return len(cb) > 0 && cb[len(cb)-1].null && len(cb) >= len(invalsOnWire(tee.Bytes()))+1
		})
		return tee.Bytes()
	}())
	if c.End != "close" {
		cl.Close()
	}
	mu.Lock()
	got := append([]invalRec(nil), cb...)
	mu.Unlock()
	// oracle
	bad := ""
	if len(got) != len(want)+1 {
		bad = fmt.Sprintf("%d callback invocations, %d invalidation pushes on the wire (+1 for the lost connection)", len(got), len(want))
	} else {
		for i := range want {
			if !got[i].eq(want[i]) {
				bad = fmt.Sprintf("callback %d got %v, push %d on the wire is %v", i, got[i], i, want[i])
				break
			}
		}
		if bad == "" && !got[len(got)-1].null {
			bad = "no nil after the connection was lost"
		}
	}
	res.Oracle = bad
	res.Site, res.Class = "pipe.go:handlePush", "invalidation-log"
	ops := make([]string, 0, len(want)+1)
	for _, w := range want {
		ops = append(ops, obs.App("OInval", keysCoq(w.keys, w.null)))
	}
	if c.End == "close" {
		ops = append(ops, "(OClose EClosing)")
	} else {
		ops = append(ops, "(OClose EConn)")
	}
	res.Coq = obs.App("CInval", "true", obs.List(ops), obs.ListOf(got, func(r invalRec) string { return keysCoq(r.keys, r.null) }), "[]")
	res.Sig = fmt.Sprintf("%+v", c)
	res.Nontrivial = len(want) > 0
	res.Obs = map[string]any{"pushes": len(want), "callbacks": len(got)}
	return
}

type hookRec struct {
	id     int
	ch     <-chan error
	inval  []invalRec
	msgs   []string
	errs   []error
	closed bool
	hasInv bool
}

func runHooks(c Case) (res obs.Result) {
	res.Kind = "hooks-" + c.End
	if c.NoCache {
		res.Kind += "-nocache"
	}
	if c.Global {
		res.Kind += "-global"
	}
	s := fakeredis.New()
	// the client-wide callback (every connection of the client calls it; pushes are only ever sent on the dedicated one)
	var gmu sync.Mutex
	var glob []invalRec
	opt := rueidis.ClientOption{InitAddress: []string{"127.0.0.1:6379"}, DialCtxFn: s.Dial, ForceSingleClient: true,
		DisableRetry: true, DisableCache: c.NoCache, PipelineMultiplex: -1, ReadBufferEachConn: 4096, WriteBufferEachConn: 4096, RingScaleEachConn: 6}
	if c.Global {
		opt.OnInvalidations = func(ms []rueidis.RedisMessage) {
			ks, null := msgKeys(ms)
			gmu.Lock()
			glob = append(glob, invalRec{keys: ks, null: null})
			gmu.Unlock()
		}
	}
	cl, err := rueidis.NewClient(opt)
	if err != nil {
		res.Oracle = "harness: " + err.Error()
		return
	}
	other, _ := rueidis.NewClient(rueidis.ClientOption{InitAddress: []string{"127.0.0.1:6379"}, DialCtxFn: s.Dial, ForceSingleClient: true, DisableCache: true})
	defer other.Close()
	ctx := context.Background()
	d, release := cl.Dedicate()
	// find the dedicated connection at the server
	d.Do(ctx, d.B().Echo().Message("dedicated-marker").Build())
	var dconn *fakeredis.Conn
	for _, fc := range s.Conns() {
		s.Lock()
		for _, e := range fc.Log {
			if len(e.Argv) == 2 && e.Argv[1] == "dedicated-marker" {
				dconn = fc
			}
		}
		s.Unlock()
	}
	if dconn == nil {
		res.Oracle = "harness: dedicated connection not found"
		return
	}
	var mu sync.Mutex
	var hooks []*hookRec
	var cur *hookRec
	mops := []string{}
	// the server must push messages: subscribe the dedicated connection to a channel
	subscribed := false
	pno := 0
	install := func(withInval bool) {
		h := &hookRec{id: len(hooks) + 1, hasInv: withInval}
		me := h
		hk := rueidis.PubSubHooks{OnMessage: func(m rueidis.PubSubMessage) {
			mu.Lock()
			me.msgs = append(me.msgs, m.Message)
			mu.Unlock()
		}}
		if withInval {
			// what SetOnInvalidations does: the installed hooks plus the callback, one Swap
			h.ch = d.SetPubSubHooks(rueidis.VerifHooksWithInvalidations(hk, func(ms []rueidis.RedisMessage) {
				ks, null := msgKeys(ms)
				mu.Lock()
				me.inval = append(me.inval, invalRec{keys: ks, null: null})
				mu.Unlock()
			}))
		} else {
			h.ch = d.SetPubSubHooks(hk)
		}
		mu.Lock()
		hooks = append(hooks, h)
		cur = h
		mu.Unlock()
		mops = append(mops, obs.App("OSetHooks", obs.N(uint64(h.id)), obs.Bool(withInval)))
	}
	sync1 := func() { d.Do(ctx, d.B().Ping().Build()) }
	for _, op := range c.Ops {
		switch op.T {
		case "sethooks":
			install(false)
		case "setinval":
			install(true)
		case "clear":
			d.SetPubSubHooks(rueidis.PubSubHooks{})
			mu.Lock()
			cur = nil
			mu.Unlock()
			mops = append(mops, "OClearHooks")
		case "inject":
			var p fakeredis.V
			if op.Keys == nil {
				p = fakeredis.Push(fakeredis.Bulk("invalidate"), fakeredis.Nil())
				mops = append(mops, "(OInval None)")
			} else {
				vs := make([]fakeredis.V, len(op.Keys))
				for i, k := range op.Keys {
					vs[i] = fakeredis.Bulk(k)
				}
				p = fakeredis.Push(fakeredis.Bulk("invalidate"), fakeredis.Arr(vs...))
				mops = append(mops, obs.App("OInval", keysCoq(op.Keys, false)))
			}
			dconn.SendPush(p)
		case "pub":
			if !subscribed {
				// a plain SUBSCRIBE through the dedicated client needs hooks or nobody would see the messages; it is legal anyway
				d.Do(ctx, d.B().Subscribe().Channel("hc").Build())
				subscribed = true
				mops = append(mops, obs.App("OSubCmd", "KN", obs.List([]string{voc.B("hc")})))
			}
			pno++
			body := "p" + strconv.Itoa(pno)
			other.Do(ctx, other.B().Publish().Channel("hc").Message(body).Build())
			mops = append(mops, obs.App("OPublish", "false", voc.B("hc"), voc.B(body)))
		}
		sync1()
	}
	switch c.End {
	case "release":
		release()
		mops = append(mops, "OClearHooks")
	case "close":
		d.Close()
	case "kill":
		dconn.Kill()
		mops = append(mops, "(OClose EConn)")
	}
	// drain every hook channel
	bad := []string{}
	for _, h := range hooks {
		dl := time.After(psx.Patience())
	loop:
		for {
			select {
			case e, ok := <-h.ch:
				if !ok {
					h.closed = true
					break loop
				}
				h.errs = append(h.errs, e)
			case <-dl:
				break loop
			}
		}
		if !h.closed {
			bad = append(bad, fmt.Sprintf("the channel of hook set %d was never closed", h.id))
		}
		if len(h.errs) > 1 {
			bad = append(bad, fmt.Sprintf("the channel of hook set %d carried %d errors", h.id, len(h.errs)))
		}
	}
	// DedicatedClient.Close closes the wire and then stores it: the clean-up of the dying pipe (error on the hook
	// channel, final nil) races with Store's SetPubSubHooks({}) (plain close). Both orders are schedules of the model;
	// which one happened is read off the installed hook set's channel.
	mu.Lock()
	last := cur
	mu.Unlock()
	cleanupWon := last != nil && len(last.errs) == 1
	if c.End == "close" {
		if last == nil || cleanupWon {
			mops = append(mops, "(OClose EClosing)")
		} else {
			mops = append(mops, "OClearHooks", "(OClose EClosing)")
		}
	}
	if (c.End == "kill" || (c.End == "close" && cleanupWon)) && last != nil && last.hasInv {
		// the hook set installed when the connection was lost gets a final nil right after the error
		psx.Await(func() bool {
			mu.Lock()
			defer mu.Unlock()
			return len(last.inval) > 0 && last.inval[len(last.inval)-1].null
		})
	}
	// the client-wide callback: every push sent on the dedicated connection, whatever hook set was installed, then one
	// nil once that connection is lost (read before the client is closed: the other connections are still up)
	var wantGlob []invalRec
	for _, op := range c.Ops {
		if op.T == "inject" {
			wantGlob = append(wantGlob, invalRec{keys: op.Keys, null: op.Keys == nil})
		}
	}
	if c.End == "kill" || c.End == "close" {
		wantGlob = append(wantGlob, invalRec{null: true})
	}
	globBad := ""
	var gotGlob []invalRec
	if c.Global {
		psx.Await(func() bool {
			gmu.Lock()
			defer gmu.Unlock()
			return len(glob) >= len(wantGlob)
		})
		gmu.Lock()
		gotGlob = append([]invalRec(nil), glob...)
		gmu.Unlock()
		same := len(gotGlob) == len(wantGlob)
		for i := 0; same && i < len(wantGlob); i++ {
			same = gotGlob[i].eq(wantGlob[i])
		}
		if !same {
			globBad = fmt.Sprintf("ClientOption.OnInvalidations (set together with the dedicated client's hook sets; end = %s, cache disabled = %v) saw %s, expected %s: every invalidate push the server sent on the dedicated connection%s",
				c.End, c.NoCache, invalLog(gotGlob), invalLog(wantGlob), map[bool]string{true: ", then nil for the lost connection", false: ""}[c.End != "release"])
		}
	}
	defer cl.Close()
	// oracle on errors: only the hook set installed when the connection failed may get one
	mu.Lock()
	for _, h := range hooks {
		isLast := h == last
		switch {
		case c.End == "kill" && isLast && len(h.errs) != 1:
			bad = append(bad, fmt.Sprintf("hook set %d was installed when the connection was lost but its channel carried %d errors", h.id, len(h.errs)))
		case !isLast && len(h.errs) != 0:
			bad = append(bad, fmt.Sprintf("hook set %d was replaced in good order but its channel carried an error", h.id))
		case c.End == "release" && len(h.errs) != 0:
			bad = append(bad, fmt.Sprintf("hook set %d was released in good order but its channel carried an error", h.id))
		}
	}
	// direct oracle on the invalidation logs: every push was sent while exactly one hook set (or none) was installed —
	// each operation is followed by a round trip — so each hook set with a callback saw exactly the pushes sent while it
	// was installed, in order, then nil if it was the one installed when the connection was lost
	wantInv := map[int][]invalRec{}
	curID, curInv, ids := 0, false, 0
	for _, op := range c.Ops {
		switch op.T {
		case "sethooks", "setinval":
			ids++
			curID, curInv = ids, op.T == "setinval"
		case "clear":
			curID = 0
		case "inject":
			if curID != 0 && curInv {
				wantInv[curID] = append(wantInv[curID], invalRec{keys: op.Keys, null: op.Keys == nil})
			}
		}
	}
	lossNil := 0
	if (c.End == "kill" || (c.End == "close" && cleanupWon)) && curID != 0 && curInv {
		wantInv[curID] = append(wantInv[curID], invalRec{null: true})
		lossNil = curID
	}
	invalBad := false
	for _, h := range hooks {
		w := wantInv[h.id]
		same := len(w) == len(h.inval)
		for i := 0; same && i < len(w); i++ {
			same = w[i].eq(h.inval[i])
		}
		if !same && len(bad) == 0 {
			invalBad = true
		}
		if !same {
			tail := ""
			if lossNil == h.id {
				tail = ", the last nil being the one due for the lost connection (this hook set was installed then)"
			}
			bad = append(bad, fmt.Sprintf("the invalidation callback of hook set %d (of %d; end = %s, cache disabled = %v) saw %s, expected %s: the pushes the server sent while it was installed%s",
				h.id, len(hooks), c.End, c.NoCache, invalLog(h.inval), invalLog(w), tail))
		}
	}
	seen := make([]string, 0, len(hooks))
	tot := 0
	for _, h := range hooks {
		errs := obs.ListOf(h.errs, func(e error) string {
			if e == rueidis.ErrClosing {
				return "EClosing"
			}
			return "EConn"
		})
		tot += len(h.inval) + len(h.msgs)
		seen = append(seen, obs.App("mkSeenHook", obs.N(uint64(h.id)), errs, obs.Bool(h.closed),
			obs.ListOf(h.inval, func(r invalRec) string { return keysCoq(r.keys, r.null) }),
			obs.ListOf(h.msgs, func(b string) string { return obs.App("mkMsg", voc.B(""), voc.B("hc"), voc.B(b)) })))
	}
	mu.Unlock()
	if globBad != "" {
		if len(bad) == 0 {
			invalBad = true
		}
		bad = append(bad, globBad)
	}
	res.Coq = obs.App("CInval", obs.Bool(c.Global), obs.List(mops), obs.ListOf(gotGlob, func(r invalRec) string { return keysCoq(r.keys, r.null) }), obs.List(seen))
	res.Sig = fmt.Sprintf("%+v", c)
	res.Nontrivial = len(hooks) > 0
	res.Obs = map[string]any{"hook_sets": len(hooks), "callbacks": tot}
	res.Site, res.Class = "pipe.go:SetPubSubHooks", "hook-channel"
	if invalBad {
		res.Site, res.Class = "pipe.go:handlePush", "invalidation-log"
	}
	res.Oracle = strings.Join(bad, "; ")
	return
}

func invalLog(l []invalRec) string {
	parts := make([]string, len(l))
	for i, r := range l {
		if r.null {
			parts[i] = "nil"
		} else {
			parts[i] = "[" + strings.Join(r.keys, " ") + "]"
		}
	}
	return "<" + strings.Join(parts, ", ") + ">"
}

var panics int64

func run(ci any) (res obs.Result) {
	c := ci.(Case)
	defer func() {
		if r := recover(); r != nil {
			atomic.AddInt64(&panics, 1)
			res.Oracle = fmt.Sprint("panic: ", r)
			res.Site, res.Class = "pipe.go:SetPubSubHooks", "panic"
		}
	}()
	if c.Kind == "option" {
		return runOption(c)
	}
	return runHooks(c)
}

func main() {
	obs.Main(obs.Runner{
		Name: "obs_inval", Salt: 27,
		Gen: genCase,
		Decode: func(raw json.RawMessage) (any, error) {
			var c Case
			err := json.Unmarshal(raw, &c)
			return c, err
		},
		Run: run,
	})
}
