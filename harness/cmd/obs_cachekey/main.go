// obs_cachekey: C08 — cache identities of cacheable commands.
//
// Runs the real cmds.CacheKey / MGetCacheCmd / MGetCacheKey on generated token lists, and on pairs of
// distinct commands (many near-collisions made by re-splitting arguments).  A pair whose identities
// coincide is an oracle failure; it is labelled "concat-collision" only when the key tokens are equal
// and the concatenations of the remaining tokens are equal (decided here from the tokens, and
// re-checked against the proved characterisation by Model/CacheKey.check_case).  For a colliding pair
// the real lru is driven to show the wrong hit.
package main

import (
	"bytes"
	"encoding/json"
	"fmt"
	"time"

	"github.com/redis/rueidis"

	"verifharness/gen"
	lruh "verifharness/lru"
	"verifharness/obs"
)

type Cmd struct {
	S   [][]byte `json:"s"`
	Scr bool     `json:"scr,omitempty"`
}

type Case struct {
	Kind string `json:"kind"` // key | mgetcmd | mgetkey | pair
	A    Cmd    `json:"a"`
	B    *Cmd   `json:"b,omitempty"`
	I    int    `json:"i,omitempty"`
}

func strs(s [][]byte) []string {
	r := make([]string, len(s))
	for i, b := range s {
		r[i] = string(b)
	}
	return r
}

func tok(r *gen.Rand) []byte {
	switch r.Intn(6) {
	case 0:
		return []byte{}
	case 1:
		return r.Bytes(r.Range(1, 3))
	case 2:
		return []byte(gen.Pick(r, []string{"1", "12", "23", "3", "k", "kP", "0", "-1"}))
	default:
		return r.Bytes(r.Range(1, 6))
	}
}

var names = []string{"GET", "GETRANGE", "HGET", "HMGET", "LRANGE", "TTL", "PTTL", "ZRANGE", "JSON.GET", "BITCOUNT", "SMEMBERS", "GETBIT", "EVALSHA_RO", "FCALL_RO", "MGET", "JSON.MGET"}

func genCmd(r *gen.Rand) Cmd {
	c := Cmd{}
	if r.Chance(1, 6) {
		c.Scr = true
		c.S = [][]byte{[]byte(gen.Pick(r, []string{"EVALSHA_RO", "EVAL_RO", "FCALL_RO"})), tok(r), []byte("1"), tok(r)}
		if r.Chance(1, 5) {
			c.S[2] = []byte(gen.Pick(r, []string{"2", "0", "", "11"}))
		}
		for n := r.Intn(3); n > 0; n-- {
			c.S = append(c.S, tok(r))
		}
		if r.Chance(1, 6) {
			c.S = c.S[:r.Intn(4)] // short script commands: index panics; two tokens: answered before the flag
		}
		return c
	}
	n := r.Range(0, 6)
	if r.Chance(3, 4) {
		n = r.Range(2, 5)
	}
	for i := 0; i < n; i++ {
		if i == 0 && r.Chance(3, 4) {
			c.S = append(c.S, []byte(gen.Pick(r, names)))
		} else {
			c.S = append(c.S, tok(r))
		}
	}
	return c
}

// resplit keeps name and key and cuts the concatenation of the other arguments differently
func resplit(r *gen.Rand, a Cmd) Cmd {
	kp := 1
	if a.Scr && len(a.S) != 2 {
		kp = 3
	}
	var rest []byte
	for i, t := range a.S {
		if i > kp {
			rest = append(rest, t...)
		}
	}
	b := Cmd{Scr: a.Scr}
	for i, t := range a.S {
		if i <= kp {
			b.S = append(b.S, t)
		}
	}
	for len(rest) > 0 {
		n := r.Range(1, len(rest))
		b.S = append(b.S, rest[:n])
		rest = rest[n:]
	}
	if r.Chance(1, 5) {
		b.S = append(b.S, []byte{})
	}
	return b
}

// keyRepeat: two distinct commands of the same shape whose arguments repeat the key token (at any
// argument position, possibly several times, also in the tokens in front of a script's key) and that
// differ only in the order or the number of those repetitions.  An identity that skips the key by
// value instead of by position makes them collide; they are outside the concat-collision class
// whenever the concatenations of the non-key tokens differ.
func keyRepeat(r *gen.Rand) (Cmd, Cmd) {
	key := []byte(gen.Pick(r, []string{"1", "k", "kk", "0", "ab", "2"}))
	if r.Chance(1, 4) {
		key = r.Bytes(r.Range(1, 3))
	}
	other := func() []byte {
		for {
			t := []byte(gen.Pick(r, []string{"2", "f", "x", "10", "-1", "g", "1", "k"}))
			if string(t) != string(key) {
				return t
			}
		}
	}
	// arguments after the key: a mix of copies of the key and other tokens
	n := r.Range(2, 5)
	args := make([][]byte, n)
	nk := 0
	for i := range args {
		if r.Chance(1, 2) {
			args[i] = key
			nk++
		} else {
			args[i] = other()
		}
	}
	if nk == 0 {
		args[r.Intn(n)] = key
	}
	if nk == n {
		args[r.Intn(n)] = other()
	}
	var head [][]byte
	scr := r.Chance(1, 4)
	if scr {
		sha := []byte(gen.Pick(r, []string{"sha", "1", "k"}))
		if r.Chance(1, 3) {
			sha = key // the script token itself equals the key
		}
		head = [][]byte{[]byte(gen.Pick(r, []string{"EVALSHA_RO", "EVAL_RO", "FCALL_RO"})), sha, []byte("1"), key}
	} else {
		head = [][]byte{[]byte(gen.Pick(r, []string{"LRANGE", "HMGET", "GETRANGE", "ZRANGE", "BITCOUNT", "JSON.GET", "MGET", "JSON.MGET", "HGET", "SMISMEMBER"})), key}
	}
	build := func(as [][]byte) Cmd {
		c := Cmd{Scr: scr}
		c.S = append(c.S, head...)
		c.S = append(c.S, as...)
		return c
	}
	a := build(args)
	var bargs [][]byte
	switch r.Intn(4) {
	case 0: // rotate: same multiset, different order
		bargs = append(append([][]byte{}, args[1:]...), args[0])
	case 1: // swap a key copy with a neighbouring other token
		bargs = append([][]byte{}, args...)
		for i := 0; i+1 < len(bargs); i++ {
			if (string(bargs[i]) == string(key)) != (string(bargs[i+1]) == string(key)) {
				bargs[i], bargs[i+1] = bargs[i+1], bargs[i]
				break
			}
		}
	case 2: // drop one copy of the key
		dropped := false
		for _, t := range args {
			if !dropped && string(t) == string(key) {
				dropped = true
				continue
			}
			bargs = append(bargs, t)
		}
	default: // one more copy of the key at a random position
		p := r.Intn(len(args) + 1)
		bargs = append(append(append([][]byte{}, args[:p]...), key), args[p:]...)
	}
	return a, build(bargs)
}

func genCase(r *gen.Rand, i int) any {
	r = lruh.Reseed(r)
	switch x := r.Intn(20); {
	case x < 5:
		return &Case{Kind: "key", A: genCmd(r)}
	case x < 6:
		c := genCmd(r)
		if r.Chance(1, 2) && len(c.S) > 0 {
			c.S[0] = []byte(gen.Pick(r, []string{"JSON.MGET", "MGET", "J", ""}))
		}
		return &Case{Kind: "mgetcmd", A: c}
	case x < 7:
		c := genCmd(r)
		return &Case{Kind: "mgetkey", A: c, I: r.Intn(len(c.S) + 2)}
	}
	a := genCmd(r)
	for len(a.S) < 2 {
		a = genCmd(r)
	}
	var b Cmd
	if r.Chance(1, 3) {
		a, b = keyRepeat(r)
		return &Case{Kind: "pair", A: a, B: &b}
	}
	switch r.Intn(8) {
	case 0, 1, 2: // same name and key, arguments split differently
		if len(a.S) < 4 && !a.Scr {
			a.S = append(a.S, r.Bytes(r.Range(1, 3)), r.Bytes(r.Range(1, 3)))
		}
		b = resplit(r, a)
	case 3: // the name absorbs a suffix of the key: TTL kP / PTTL k
		k := r.Bytes(r.Range(1, 4))
		p := r.Bytes(r.Range(1, 2))
		n := []byte(gen.Pick(r, names))
		a = Cmd{S: [][]byte{n, append(append([]byte{}, k...), p...)}}
		b = Cmd{S: [][]byte{append(append([]byte{}, p...), n...), k}}
	case 4: // only the key differs
		b = Cmd{Scr: a.Scr}
		for _, t := range a.S {
			b.S = append(b.S, t)
		}
		kp := 1
		if a.Scr && len(a.S) != 2 {
			kp = 3
		}
		if kp < len(b.S) {
			b.S[kp] = append(append([]byte{}, b.S[kp]...), 'x')
		}
	case 5: // script flag differs, same tokens
		b = Cmd{Scr: !a.Scr, S: a.S}
	case 6: // an argument moves across the key position
		b = Cmd{Scr: a.Scr}
		for _, t := range a.S {
			b.S = append(b.S, t)
		}
		if len(b.S) >= 3 {
			b.S[0], b.S[2] = append(append([]byte{}, b.S[0]...), b.S[2]...), []byte{}
		}
	default:
		b = genCmd(r)
	}
	return &Case{Kind: "pair", A: a, B: &b}
}

func toksCoq(s [][]byte) string { return obs.ListOf(s, obs.H) }

func keyRes(c Cmd) (k, cm string, panicked bool, coq string) {
	k, cm, panicked = rueidis.VerifLruCacheKey(rueidis.VerifLruCacheable(strs(c.S), c.Scr, false, false))
	if panicked {
		return k, cm, true, obs.Panic
	}
	return k, cm, false, obs.Ok("(" + obs.HS(k) + ", " + obs.HS(cm) + ")")
}

// independent decomposition: key token and concatenation of the other tokens
func decomp(c Cmd) (key, rest []byte) {
	kp := 1
	if c.Scr && len(c.S) != 2 {
		kp = 3
	}
	for i, t := range c.S {
		if i == kp {
			key = t
		} else {
			rest = append(rest, t...)
		}
	}
	return
}

func sameCmd(a, b Cmd) bool {
	if a.Scr != b.Scr || len(a.S) != len(b.S) {
		return false
	}
	for i := range a.S {
		if !bytes.Equal(a.S[i], b.S[i]) {
			return false
		}
	}
	return true
}

// drive the real lru: fetch c1's entry, then look up c2's identity
func wrongHit(k1, c1, k2, c2 string) bool {
	cs := rueidis.VerifLruNew(1 << 20)
	now := time.Unix(2208988800, 0)
	if v, e := cs.Flight(k1, c1, time.Hour, now); e != nil || v.IsCacheHit() {
		return false
	}
	cs.Update(k1, c1, rueidis.VerifLruMsg('$', 0, "reply-of-command-1", nil, 0, true))
	v, _ := cs.Flight(k2, c2, time.Hour, now)
	s, _ := v.ToString()
	return s == "reply-of-command-1"
}

// run wraps the Gallina term in parentheses (./check --replay applies check_case to it textually)
func run(ci any) obs.Result {
	res := runCase(ci)
	if res.Coq != "" {
		res.Coq = "(" + res.Coq + ")"
	}
	return res
}

func runCase(ci any) (res obs.Result) {
	c := ci.(*Case)
	res.Kind = c.Kind
	switch c.Kind {
	case "key":
		_, _, p, coq := keyRes(c.A)
		res.Coq = fmt.Sprintf("CKey %s %s %s", obs.Bool(c.A.Scr), toksCoq(c.A.S), coq)
		res.Sig = fmt.Sprint("key", c.A.Scr, strs(c.A.S))
		res.Nontrivial = len(c.A.S) >= 2
		res.Obs = map[string]any{"panic": p}
	case "mgetcmd":
		s, p := rueidis.VerifLruMGetCacheCmd(rueidis.VerifLruCacheable(strs(c.A.S), false, false, true))
		out := obs.Panic
		if !p {
			out = obs.Ok(obs.HS(s))
		}
		res.Coq = fmt.Sprintf("CMGetCmd %s %s", toksCoq(c.A.S), out)
		res.Sig = fmt.Sprint("mgetcmd", strs(c.A.S))
		res.Nontrivial = len(c.A.S) >= 2
	case "mgetkey":
		s, p := rueidis.VerifLruMGetCacheKey(rueidis.VerifLruCacheable(strs(c.A.S), false, false, true), c.I)
		out := obs.Panic
		if !p {
			out = obs.Ok(obs.HS(s))
		}
		res.Coq = fmt.Sprintf("CMGetKey %s %s %s", toksCoq(c.A.S), obs.Nat(c.I), out)
		res.Sig = fmt.Sprint("mgetkey", strs(c.A.S), c.I)
		res.Nontrivial = len(c.A.S) >= 2
	case "pair":
		k1, c1, p1, _ := keyRes(c.A)
		k2, c2, p2, _ := keyRes(*c.B)
		res.Sig = fmt.Sprint("pair", c.A.Scr, strs(c.A.S), c.B.Scr, strs(c.B.S))
		if p1 || p2 || sameCmd(c.A, *c.B) {
			res.Kind = "pair-skipped"
			return
		}
		le := k1 == k2 && c1 == c2
		ae := k1+c1 == k2+c2
		ka, ra := decomp(c.A)
		kb, rb := decomp(*c.B)
		lruClass := bytes.Equal(ka, kb) && bytes.Equal(ra, rb)
		adClass := bytes.Equal(append(append([]byte{}, ka...), ra...), append(append([]byte{}, kb...), rb...))
		res.Coq = fmt.Sprintf("CPair %s %s %s %s %s %s %s %s", obs.Bool(c.A.Scr), toksCoq(c.A.S), obs.Bool(c.B.Scr), toksCoq(c.B.S),
			obs.Bool(le), obs.Bool(ae), obs.Bool(le && lruClass), obs.Bool(ae && adClass))
		res.Nontrivial = true
		switch {
		case le:
			res.Kind = "pair-lru-collision"
			wh := wrongHit(k1, c1, k2, c2)
			res.Oracle = fmt.Sprintf("distinct commands %q and %q have the same cache identity (%q, %q); lru serves the reply of the first to the second: %v", strs(c.A.S), strs(c.B.S), k1, c1, wh)
			res.Site = "internal/cmds/cmds.go:CacheKey"
			res.Class = "identity-collision"
			if lruClass {
				res.Class = "concat-collision"
			}
			res.Obs = map[string]any{"wrong_hit": wh}
		case ae:
			res.Kind = "pair-adapter-collision"
			res.Oracle = fmt.Sprintf("distinct commands %q and %q are stored under the same SimpleCache key %q by NewSimpleCacheAdapter", strs(c.A.S), strs(c.B.S), k1+c1)
			res.Site = "cache.go:adapter"
			res.Class = "identity-collision"
			if adClass {
				res.Class = "concat-collision"
			}
		}
	}
	return
}

func decode(raw json.RawMessage) (any, error) {
	c := &Case{}
	if err := json.Unmarshal(raw, c); err != nil {
		return nil, err
	}
	return c, nil
}

func main() {
	obs.Main(obs.Runner{Name: "obs_cachekey", Salt: 0x12, Gen: genCase, Decode: decode, Run: run})
}
