// obs_dedicated: C25 — dedicated clients are isolated and single-use (and C27: tracking off on release).
//
// A case is a program over one client: several dedicated sessions (Dedicate / Dedicated) whose commands —
// WATCH/MULTI/EXEC blocks, plain commands, SUBSCRIBE, CLIENT TRACKING ON, SetPubSubHooks, SetOnInvalidations, a
// blocking command that is abandoned — interleave in program order, blocking commands of ordinary callers that
// share the same pool, release / Close in any order, every entry point called again after release; meanwhile other
// goroutines hammer the client with ordinary (auto-pipelined) commands.  Every command carries the name of its
// issuer, so the fake server's per-connection logs tell who wrote what where.
//
// A quarter of the cases belong to the retry family (runRetry): a dedicated call that is retrying after -LOADING while
// its session is released or closed in the back-off (inside the RetryDelay callback) and another session takes over
// the connection.
//
// Direct oracle: on every pool connection the issuers form contiguous blocks (no foreign command between a
// holder's first command and its release), all commands of one dedicated session are on one connection, nothing
// of a session appears after its release, every call after release returns ErrDedicatedClientRecycled, the clean-up
// (unsubscribe, CLIENT TRACKING OFF iff an invalidation hook was installed) precedes the next holder's first
// command, and no idle connection keeps subscriptions or tracking of a session that installed an invalidation hook.
package main

import (
	"context"
	"encoding/json"
	"fmt"
	"strconv"
	"strings"
	"sync"
	"sync/atomic"
	"time"

	"github.com/redis/rueidis"

	"verifharness/fakeredis"
	"verifharness/gen"
	"verifharness/obs"
	"verifharness/psx"
)

type Step struct {
	T     string `json:"t"` // acq | do | tx | sub | tron | hooks | blockfail | rel | close | bdo | bfail
	D     int    `json:"d,omitempty"`
	Zero  bool   `json:"zero,omitempty"`
	Inval bool   `json:"inval,omitempty"`
}

type Case struct {
	V7     bool   `json:"v7"`
	Steps  []Step `json:"steps"`
	Shared int    `json:"shared"`          // goroutines of shared traffic
	Retry  *Retry `json:"retry,omitempty"` // the retry family (runRetry) instead of a program
}

// Retry: a dedicated call that retries (retries enabled, read-only command, -LOADING replies that leave the connection
// healthy) while its session is ended at one of the points of the call; the interleaving is fixed by doing the
// release / Close inside the RetryDelay callback, i.e. in the back-off of the call.
type Retry struct {
	Entry   string `json:"entry"`          // do | multi: the entry point that retries
	Loading int    `json:"loading"`        // number of -LOADING replies before the command succeeds (1..3)
	At      int    `json:"at"`             // the session ends in the back-off after attempt At (1..Loading); 0: before the call; -1: after it
	How     string `json:"how"`            // rel | close
	Next    bool   `json:"next,omitempty"` // in the same back-off another session acquires a connection and opens MULTI
}

func genCase(r *gen.Rand, i int) any {
	c := Case{V7: r.Chance(2, 3), Shared: r.Intn(4)}
	if r.Chance(1, 4) {
		rt := &Retry{Entry: gen.Pick(r, []string{"do", "multi"}), Loading: 1 + r.Intn(3), How: gen.Pick(r, []string{"rel", "rel", "close"}), Next: r.Chance(3, 4)}
		switch x := r.Intn(8); {
		case x == 0:
			rt.At = 0
		case x == 1:
			rt.At = -1
		default:
			rt.At = 1 + r.Intn(rt.Loading)
		}
		c.Retry, c.Shared = rt, 0
		return c
	}
	n := 4 + r.Intn(20)
	next := 1
	open := []int{}
	released := []int{}
	for len(c.Steps) < n {
		switch x := r.Intn(20); {
		case x < 3 && next <= 4:
			c.Steps = append(c.Steps, Step{T: "acq", D: next})
			open = append(open, next)
			next++
		case x < 12 && len(open) > 0:
			d := gen.Pick(r, open)
			t := gen.Pick(r, []string{"do", "do", "tx", "tx", "sub", "tron", "hooks", "hooks"})
			st := Step{T: t, D: d}
			if t == "hooks" {
				st.Zero, st.Inval = r.Chance(1, 5), r.Chance(1, 2)
			}
			c.Steps = append(c.Steps, st)
		case x < 13 && len(open) > 0 && r.Chance(1, 8):
			c.Steps = append(c.Steps, Step{T: "blockfail", D: gen.Pick(r, open)})
		case x < 16 && len(open) > 0:
			k := r.Intn(len(open))
			d := open[k]
			open = append(open[:k], open[k+1:]...)
			released = append(released, d)
			c.Steps = append(c.Steps, Step{T: gen.Pick(r, []string{"rel", "rel", "rel", "close"}), D: d})
		case x < 18 && len(released) > 0:
			// use after release: every entry point
			d := gen.Pick(r, released)
			c.Steps = append(c.Steps, Step{T: gen.Pick(r, []string{"do", "tx", "sub", "hooks", "rel", "close", "tron"}), D: d})
		default:
			c.Steps = append(c.Steps, Step{T: gen.Pick(r, []string{"bdo", "bdo", "bdo", "bdo", "bdo", "bfail"})})
		}
	}
	// sessions still open are released at the end
	for _, d := range open {
		c.Steps = append(c.Steps, Step{T: "rel", D: d})
	}
	return c
}

var voc = func() psx.Vocab {
	w := []string{"SET", "GET", "INCR", "WATCH", "MULTI", "EXEC", "SUBSCRIBE", "CLIENT", "TRACKING", "ON", "BCAST", "BLPOP", "0.01", "5", "v", "", "LOADING", "m:rel"}
	for d := 1; d <= 4; d++ {
		for _, s := range []string{"k", "w", "c", "ch", "l", "r", "q"} {
			w = append(w, "d"+strconv.Itoa(d)+":"+s)
		}
	}
	for b := 1; b <= 40; b++ {
		w = append(w, "b"+strconv.Itoa(b)+":l")
	}
	for g := 0; g < 4; g++ {
		w = append(w, "s"+strconv.Itoa(g)+":n")
	}
	return psx.NewVocab(w)
}()

func issuer(argv []string) string {
	for _, a := range argv[1:] {
		if i := strings.IndexByte(a, ':'); i > 0 {
			return a[:i]
		}
	}
	return ""
}

type connView struct {
	id   int
	cmds [][]string
	subs int
	trk  bool
	live bool
}

// serverViews: what the server logged on every connection after its set-up (PINGs left out), in connection order
func serverViews(s *fakeredis.Server) []connView {
	var views []connView
	liveIDs := map[int]bool{}
	for _, fc := range s.Conns() {
		liveIDs[fc.ID] = true
	}
	logByConn := map[int][][]string{}
	maxConn := 0
	for _, e := range s.LogCopy() {
		if e.InTx {
			continue // the execution of a queued command inside EXEC, not something the client sent
		}
		logByConn[e.Conn] = append(logByConn[e.Conn], e.Argv)
		if e.Conn > maxConn {
			maxConn = e.Conn
		}
	}
	isSetup := func(a []string) bool {
		switch a[0] {
		case "HELLO", "AUTH", "SELECT", "READONLY", "INFO":
			return true
		case "CLIENT":
			return len(a) > 1 && (a[1] == "SETINFO" || a[1] == "SETNAME" || a[1] == "NO-TOUCH" || a[1] == "NO-EVICT" || a[1] == "CAPA")
		}
		return false
	}
	for id := 1; id <= maxConn; id++ {
		v := connView{id: id, live: liveIDs[id]}
		for _, a := range logByConn[id] {
			if isSetup(a) || a[0] == "PING" {
				continue
			}
			v.cmds = append(v.cmds, a)
		}
		views = append(views, v)
	}
	for _, fc := range s.Conns() {
		for i := range views {
			if views[i].id == fc.ID {
				s.Lock()
				views[i].trk = fc.Tracking
				s.Unlock()
			}
		}
	}
	return views
}

func run(ci any) (res obs.Result) {
	c := ci.(Case)
	if c.Retry != nil {
		return runRetry(c)
	}
	res.Kind = "prog"
	s := fakeredis.New()
	if !c.V7 {
		s.Version = "6.2.0"
	}
	s.Handle("BLPOP", func(fc *fakeredis.Conn, a []string) fakeredis.V { return fakeredis.Nil() })
	s.Handle("DISCARD", func(fc *fakeredis.Conn, a []string) fakeredis.V { return fakeredis.Error("ERR DISCARD without MULTI") })
	var slow int32
	s.Fault = func(fc *fakeredis.Conn, cseq int, argv []string) fakeredis.Action {
		if argv[0] == "BLPOP" && len(argv) == 3 && argv[2] == "5" && atomic.LoadInt32(&slow) == 1 {
			return fakeredis.Action{Delay: 120 * time.Millisecond}
		}
		return fakeredis.Action{}
	}
	cl, err := rueidis.NewClient(rueidis.ClientOption{InitAddress: []string{"127.0.0.1:6379"}, DialCtxFn: s.Dial, ForceSingleClient: true,
		DisableRetry: true, DisableCache: true, PipelineMultiplex: -1, ReadBufferEachConn: 4096, WriteBufferEachConn: 4096, RingScaleEachConn: 6})
	if err != nil {
		res.Oracle = "harness: " + err.Error()
		return
	}
	ctx := context.Background()
	// shared traffic
	stop := make(chan struct{})
	var wg sync.WaitGroup
	for g := 0; g < c.Shared; g++ {
		wg.Add(1)
		go func(g int) {
			defer wg.Done()
			key := "s" + strconv.Itoa(g) + ":n"
			for {
				select {
				case <-stop:
					return
				default:
				}
				cl.Do(ctx, cl.B().Incr().Key(key).Build())
				time.Sleep(50 * time.Microsecond)
			}
		}(g)
	}
	type sess struct {
		d       rueidis.DedicatedClient
		release func()
		gone    bool
		fnDone  chan struct{}
	}
	sessions := map[int]*sess{}
	prog := []string{}
	results := []string{}
	problems := []string{}
	class := ""
	fail := func(cls, f string, a ...any) {
		problems = append(problems, fmt.Sprintf(f, a...))
		if class == "" {
			class = cls
		}
	}
	broken := map[int]bool{} // sessions that abandoned a blocking command: their connection is legitimately dead
	record := func(d int, err error, released bool) {
		r := "ROk"
		if err == rueidis.ErrDedicatedClientRecycled {
			r = "RRecycled"
		}
		results = append(results, "("+strconv.Itoa(d)+", "+r+")")
		if released && err != rueidis.ErrDedicatedClientRecycled {
			fail("use-after-release", "session %d was released, a call returned %v instead of ErrDedicatedClientRecycled", d, err)
		}
		if !released && err == rueidis.ErrDedicatedClientRecycled {
			fail("recycled-too-early", "session %d is live but a call returned ErrDedicatedClientRecycled", d)
		}
		if !released && err != nil && !rueidis.IsRedisNil(err) && !broken[d] {
			if _, isRedis := rueidis.IsRedisErr(err); !isRedis {
				fail("live-session-error", "session %d is live and did nothing wrong, a call failed with %v", d, err)
			}
		}
	}
	bno := 0
	abandoned := []string{}
	_ = broken
	dn := func(d int) string { return "d" + strconv.Itoa(d) }
	for _, st := range c.Steps {
		se := sessions[st.D]
		switch st.T {
		case "acq":
			d, rel := cl.Dedicate()
			sessions[st.D] = &sess{d: d, release: rel}
			prog = append(prog, obs.App("DAcquire", obs.N(uint64(st.D))))
		case "do":
			a := []string{"SET", dn(st.D) + ":k", "v"}
			err := se.d.Do(ctx, se.d.B().Set().Key(a[1]).Value("v").Build()).Error()
			record(st.D, err, se.gone)
			prog = append(prog, obs.App("DDo", obs.N(uint64(st.D)), voc.Argv(a)))
		case "tx":
			// WATCH, MULTI, INCR, EXEC: must not be interleaved with anything
			w := dn(st.D) + ":w"
			r1 := se.d.Do(ctx, se.d.B().Watch().Key(w).Build()).Error()
			record(st.D, r1, se.gone)
			prog = append(prog, obs.App("DDo", obs.N(uint64(st.D)), voc.Argv([]string{"WATCH", w})))
			rs := se.d.DoMulti(ctx, se.d.B().Multi().Build(), se.d.B().Incr().Key(dn(st.D)+":c").Build(), se.d.B().Exec().Build())
			var e2 error
			for _, r := range rs {
				if r.Error() != nil && !rueidis.IsRedisNil(r.Error()) {
					e2 = r.Error()
				}
			}
			record(st.D, e2, se.gone)
			if !se.gone {
				prog = append(prog, obs.App("DDo", obs.N(uint64(st.D)), voc.Argv([]string{"MULTI"})),
					obs.App("DDo", obs.N(uint64(st.D)), voc.Argv([]string{"INCR", dn(st.D) + ":c"})),
					obs.App("DDo", obs.N(uint64(st.D)), voc.Argv([]string{"EXEC"})))
				results = append(results, "("+strconv.Itoa(st.D)+", ROk)", "("+strconv.Itoa(st.D)+", ROk)")
				if e2 == nil {
					if arr, _ := rs[2].ToArray(); len(arr) != 1 {
						fail("tx-broken", "session %d: EXEC returned %d results for one queued command", st.D, len(arr))
					}
				}
			} else {
				prog = append(prog, obs.App("DDo", obs.N(uint64(st.D)), voc.Argv([]string{"MULTI"})))
			}
		case "sub":
			a := []string{"SUBSCRIBE", dn(st.D) + ":ch"}
			err := se.d.Do(ctx, se.d.B().Subscribe().Channel(a[1]).Build()).Error()
			record(st.D, err, se.gone)
			prog = append(prog, obs.App("DSubscribe", obs.N(uint64(st.D)), voc.Argv(a)))
		case "tron":
			a := []string{"CLIENT", "TRACKING", "ON", "BCAST"}
			err := se.d.Do(ctx, se.d.B().ClientTracking().On().Bcast().Build()).Error()
			_ = a
			record(st.D, err, se.gone)
			// the builder's argument order is its own business: the server's log decides what was sent
			prog = append(prog, obs.App("DTrackingOn", obs.N(uint64(st.D)), "TRON"))
		case "hooks":
			var ch <-chan error
			if st.Zero {
				ch = se.d.SetPubSubHooks(rueidis.PubSubHooks{})
			} else if st.Inval {
				ch = se.d.SetOnInvalidations(func([]rueidis.RedisMessage) {})
			} else {
				ch = se.d.SetPubSubHooks(rueidis.PubSubHooks{OnMessage: func(rueidis.PubSubMessage) {}})
			}
			var err error
			if se.gone {
				select {
				case err = <-ch:
				case <-time.After(2 * time.Second):
					fail("use-after-release", "session %d was released: SetPubSubHooks returned a channel without ErrDedicatedClientRecycled", st.D)
					err = rueidis.ErrDedicatedClientRecycled
				}
			}
			record(st.D, err, se.gone)
			inval := st.Inval
			prog = append(prog, obs.App("DSetHooks", obs.N(uint64(st.D)), obs.Bool(st.Zero), obs.Bool(inval)))
		case "blockfail":
			atomic.StoreInt32(&slow, 1)
			cctx, cancel := context.WithTimeout(ctx, 40*time.Millisecond)
			a := []string{"BLPOP", dn(st.D) + ":l", "5"}
			err := se.d.Do(cctx, se.d.B().Blpop().Key(a[1]).Timeout(5).Build()).Error()
			cancel()
			atomic.StoreInt32(&slow, 0)
			if se.gone {
				record(st.D, err, true)
			} else {
				record(st.D, nil, false)
				if err == nil || rueidis.IsRedisNil(err) {
					// the reply made it in time: nothing was abandoned
					prog = append(prog, obs.App("DDo", obs.N(uint64(st.D)), voc.Argv(a)))
					continue
				}
			}
			broken[st.D] = true
			abandoned = append(abandoned, a[1])
			prog = append(prog, obs.App("DBlockFail", obs.N(uint64(st.D)), voc.Argv(a)))
			time.Sleep(150 * time.Millisecond) // let the server get past the delayed command
		case "rel":
			se.release()
			se.gone = true
			prog = append(prog, obs.App("DRelease", obs.N(uint64(st.D))))
		case "close":
			se.d.Close()
			se.gone = true
			prog = append(prog, obs.App("DClose", obs.N(uint64(st.D))))
		case "bdo", "bfail":
			bno++
			key := "b" + strconv.Itoa(bno) + ":l"
			if st.T == "bdo" {
				cl.Do(ctx, cl.B().Blpop().Key(key).Timeout(0.01).Build())
				prog = append(prog, obs.App("BDo", obs.N(uint64(bno)), voc.Argv([]string{"BLPOP", key, "0.01"}), "false"))
			} else {
				atomic.StoreInt32(&slow, 1)
				cctx, cancel := context.WithTimeout(ctx, 40*time.Millisecond)
				err := cl.Do(cctx, cl.B().Blpop().Key(key).Timeout(5).Build()).Error()
				cancel()
				atomic.StoreInt32(&slow, 0)
				failed := err != nil && !rueidis.IsRedisNil(err)
				if failed {
					abandoned = append(abandoned, key)
				}
				prog = append(prog, obs.App("BDo", obs.N(uint64(bno)), voc.Argv([]string{"BLPOP", key, "5"}), obs.Bool(failed)))
				time.Sleep(150 * time.Millisecond)
			}
		}
	}
	close(stop)
	wg.Wait()
	time.Sleep(2 * time.Millisecond)
	views := serverViews(s)
	cl.Close()
	// ---- oracle ----
	sessConn := map[string]int{}
	hookInval := map[int]bool{}
	// the hook set installed when the session is released decides (a later SetPubSubHooks replaces the earlier one;
	// calls after the release are rejected)
	goneAt := map[int]bool{}
	for _, st := range c.Steps {
		switch st.T {
		case "hooks":
			if !goneAt[st.D] {
				hookInval[st.D] = !st.Zero && st.Inval
			}
		case "rel", "close":
			goneAt[st.D] = true
		}
	}
	for _, v := range views {
		if v.id == 1 {
			for _, a := range v.cmds {
				if is := issuer(a); strings.HasPrefix(is, "d") || strings.HasPrefix(is, "b") {
					fail("pool-command-on-shared-conn", "command %v of %s was sent on the shared connection", a, is)
				}
			}
			continue
		}
		// pool connection: issuers must form contiguous blocks
		cur := ""
		seenIss := map[string]bool{}
		for _, a := range v.cmds {
			is := issuer(a)
			if is == "" {
				continue // clean-up commands (UNSUBSCRIBE …, CLIENT TRACKING ON/OFF) carry no name
			}
			if strings.HasPrefix(is, "s") {
				fail("foreign-command", "shared command %v was sent on pool connection %d (held by %q)", a, v.id, cur)
				continue
			}
			if is != cur {
				if seenIss[is] {
					fail("interleaved", "pool connection %d: commands of %s are interleaved with commands of %s", v.id, is, cur)
				}
				seenIss[is] = true
				cur = is
			}
			if c0, ok := sessConn[is]; ok && c0 != v.id {
				fail("session-on-two-conns", "commands of %s appear on connections %d and %d", is, c0, v.id)
			}
			sessConn[is] = v.id
		}
		// clean-up before reuse: after a session with an invalidation hook, CLIENT TRACKING OFF precedes the next issuer
		for i, a := range v.cmds {
			is := issuer(a)
			if !strings.HasPrefix(is, "d") {
				continue
			}
			d, _ := strconv.Atoi(is[1:])
			if !hookInval[d] {
				continue
			}
			// find the next command of another issuer
			for j := i + 1; j < len(v.cmds); j++ {
				is2 := issuer(v.cmds[j])
				if is2 != "" && is2 != is {
					off := false
					for _, b := range v.cmds[i:j] {
						if len(b) >= 3 && b[0] == "CLIENT" && b[1] == "TRACKING" && strings.EqualFold(b[2], "OFF") {
							off = true
						}
					}
					if !off {
						fail("tracking-not-off", "pool connection %d was reused by %s after %s (which had installed an invalidation hook) without CLIENT TRACKING OFF", v.id, is2, is)
					}
					break
				}
			}
		}
	}
	// the model's view of the pool connections
	conns := []string{}
	shared := [][]string{}
	for _, v := range views {
		if v.id == 1 {
			shared = v.cmds
			continue
		}
		conns = append(conns, "("+strconv.Itoa(v.id)+", "+obs.List(wcmds(v.cmds, !v.live))+")")
	}
	for _, a := range shared {
		prog = append(prog, obs.App("SDo", voc.Argv(a)))
	}
	res.Coq = obs.App("CDed", "2", obs.Bool(c.V7), obs.List(prog), obs.List(conns), obs.List(results), voc.Argvs(shared))
	// an abandoned blocking command whose deadline expired before it was even written (a slow dial on a loaded
	// machine) is a different program from the one recorded: no model comparison for such a run
	for _, k := range abandoned {
		found := false
		for _, e := range s.LogCopy() {
			if len(e.Argv) > 1 && e.Argv[1] == k {
				found = true
			}
		}
		if !found {
			res.Coq = ""
			res.Kind = "prog-timing"
		}
	}
	res.Coq = strings.ReplaceAll(res.Coq, "TRON", trackingOnArgv(views))
	res.Sig = fmt.Sprintf("%+v", c)
	res.Nontrivial = len(conns) > 0
	res.Obs = map[string]any{"pool_conns": len(conns), "shared_cmds": len(shared), "results": len(results)}
	res.Site = "client.go:dedicatedSingleClient"
	if len(problems) > 0 {
		res.Oracle = strings.Join(problems, "; ")
		res.Class = class
	}
	return
}

// runRetry: the retry family.  Session 1 issues a read-only command through Do / DoMulti with retries enabled; the
// server answers -LOADING (the connection stays healthy) Loading times; the RetryDelay callback — the back-off of the
// call — ends the session after attempt At (release or Close), puts a marker into the server's total order and lets
// session 2 acquire a connection (after a release: the very same one) and open a transaction.  Also: the session
// ended before the call (At = 0) and after it (At = -1).  Afterwards every entry point of session 1 is called.
//
// Direct oracle: once the session is ended the call returns ErrDedicatedClientRecycled (every result of a DoMulti),
// the server saw exactly the attempts made before the end, nothing of session 1 follows the marker in the server's
// total order, session 2's MULTI … EXEC holds exactly its own command, every entry point answers
// ErrDedicatedClientRecycled, and the pool still serves a third session.
func runRetry(c Case) (res obs.Result) {
	rt := *c.Retry
	switch {
	case rt.At == 0:
		res.Kind = "retry-before"
	case rt.At < 0:
		res.Kind = "retry-after"
	default:
		res.Kind = "retry-backoff-" + rt.How
	}
	res.Site = "client.go:dedicatedSingleClient"
	res.Sig = fmt.Sprintf("%+v %+v", c.V7, rt)
	res.Nontrivial = true
	if rt.Loading < 1 || rt.Loading > 3 || rt.At > rt.Loading || (rt.Entry != "do" && rt.Entry != "multi") {
		res.Kind, res.Nontrivial = "foreign", false
		return
	}
	s := fakeredis.New()
	if !c.V7 {
		s.Version = "6.2.0"
	}
	s.Handle("DISCARD", func(fc *fakeredis.Conn, a []string) fakeredis.V { return fakeredis.Error("ERR DISCARD without MULTI") })
	loadingLeft := int32(rt.Loading)
	loading := fakeredis.Error("LOADING Redis is loading the dataset in memory")
	s.Fault = func(fc *fakeredis.Conn, cseq int, argv []string) fakeredis.Action {
		if len(argv) == 2 && argv[0] == "GET" && argv[1] == "d1:r" && atomic.AddInt32(&loadingLeft, -1) >= 0 {
			return fakeredis.Action{Override: &loading}
		}
		return fakeredis.Action{}
	}
	var hook func(attempts int)
	cl, err := rueidis.NewClient(rueidis.ClientOption{InitAddress: []string{"127.0.0.1:6379"}, DialCtxFn: s.Dial, ForceSingleClient: true,
		DisableCache: true, PipelineMultiplex: -1, ReadBufferEachConn: 4096, WriteBufferEachConn: 4096, RingScaleEachConn: 6,
		RetryDelay: func(attempts int, cmd rueidis.Completed, err error) time.Duration {
			if hook != nil {
				hook(attempts)
			}
			return 0
		}})
	if err != nil {
		res.Oracle = "harness: " + err.Error()
		return
	}
	defer cl.Close()
	ctx := context.Background()
	prog, results, problems := []string{}, []string{}, []string{}
	class := ""
	fail := func(cls, f string, a ...any) {
		problems = append(problems, fmt.Sprintf(f, a...))
		if class == "" {
			class = cls
		}
	}
	ddo := func(d int, a ...string) string { return obs.App("DDo", obs.N(uint64(d)), voc.Argv(a)) }
	dtry := func(d int, a ...string) string { return obs.App("DTry", obs.N(uint64(d)), voc.Argv(a)) }
	rec := func(d int, err error, released bool, what string) {
		r := "ROk"
		if err == rueidis.ErrDedicatedClientRecycled {
			r = "RRecycled"
		}
		results = append(results, "("+strconv.Itoa(d)+", "+r+")")
		switch {
		case released && err != rueidis.ErrDedicatedClientRecycled:
			fail("use-after-release", "session %d was ended (%s), %s returned %v instead of ErrDedicatedClientRecycled", d, rt.How, what, err)
		case !released && err != nil && !rueidis.IsRedisNil(err):
			fail("live-session-error", "session %d is live, %s failed with %v", d, what, err)
		}
	}
	s1, rel1 := cl.Dedicate()
	prog = append(prog, obs.App("DAcquire", "1"))
	rec(1, s1.Do(ctx, s1.B().Set().Key("d1:k").Value("v").Build()).Error(), false, "Do(SET)")
	prog = append(prog, ddo(1, "SET", "d1:k", "v"))
	var s2 rueidis.DedicatedClient
	var rel2 func()
	ended := false
	end := func() {
		if rt.How == "rel" {
			rel1()
			prog = append(prog, obs.App("DRelease", "1"))
		} else {
			s1.Close()
			prog = append(prog, obs.App("DClose", "1"))
		}
		ended = true
		// a marker in the server's total order: everything of session 1 must come before it
		cl.Do(ctx, cl.B().Set().Key("m:rel").Value("v").Build())
		if rt.Next {
			s2, rel2 = cl.Dedicate()
			prog = append(prog, obs.App("DAcquire", "2"))
			rec(2, s2.Do(ctx, s2.B().Multi().Build()).Error(), false, "Do(MULTI)")
			prog = append(prog, ddo(2, "MULTI"))
			rec(2, s2.Do(ctx, s2.B().Set().Key("d2:k").Value("v").Build()).Error(), false, "Do(SET) inside MULTI")
			prog = append(prog, ddo(2, "SET", "d2:k", "v"))
		}
	}
	if rt.At == 0 {
		end()
	}
	// ---- the call ----
	failedAttempts := 0
	hook = func(attempts int) {
		// the attempt that just ended got -LOADING: the call is in its back-off now
		failedAttempts++
		prog = append(prog, dtry(1, "GET", "d1:r"))
		if rt.Entry == "multi" {
			prog = append(prog, dtry(1, "GET", "d1:q"))
		}
		if attempts == rt.At && !ended {
			end()
		}
	}
	var callErrs []error
	what := "Do(GET)"
	if rt.Entry == "do" {
		callErrs = []error{s1.Do(ctx, s1.B().Get().Key("d1:r").Build()).Error()}
	} else {
		what = "DoMulti(GET, GET)"
		for _, r := range s1.DoMulti(ctx, s1.B().Get().Key("d1:r").Build(), s1.B().Get().Key("d1:q").Build()) {
			callErrs = append(callErrs, r.Error())
		}
	}
	hook = nil
	wantRecycled := rt.At >= 0
	// the final attempt of the call: rejected by check(), or sent and answered
	prog = append(prog, ddo(1, "GET", "d1:r"))
	rec(1, callErrs[0], wantRecycled, what)
	if rt.Entry == "multi" {
		if !wantRecycled {
			prog = append(prog, ddo(1, "GET", "d1:q"))
			results = append(results, "(1, ROk)")
		}
		for i, e := range callErrs[1:] {
			if wantRecycled && e != rueidis.ErrDedicatedClientRecycled {
				fail("use-after-release", "session 1 was ended (%s) in the back-off of the call, result %d of DoMulti is %v instead of ErrDedicatedClientRecycled", rt.How, i+1, e)
			}
			if !wantRecycled && e != nil && !rueidis.IsRedisNil(e) {
				fail("live-session-error", "session 1 is live, result %d of DoMulti is %v", i+1, e)
			}
		}
	}
	wantFailed := rt.Loading
	if rt.At >= 0 {
		wantFailed = rt.At
	}
	if failedAttempts != wantFailed {
		fail("retry-count", "%d attempts of the call were answered -LOADING and went into a back-off, expected %d (loading %d, session ended after attempt %d)", failedAttempts, wantFailed, rt.Loading, rt.At)
	}
	if rt.At < 0 {
		end()
	}
	// ---- session 2 completes its transaction ----
	if rt.Next {
		ex := s2.Do(ctx, s2.B().Exec().Build())
		rec(2, ex.Error(), false, "Do(EXEC)")
		prog = append(prog, ddo(2, "EXEC"))
		if arr, e := ex.ToArray(); e == nil && len(arr) != 1 {
			fail("tx-broken", "session 2 queued one command between MULTI and EXEC, EXEC returned %d results: a command of the ended session 1 was written on its connection", len(arr))
		}
		rel2()
		prog = append(prog, obs.App("DRelease", "2"))
	}
	// ---- every entry point of the ended session ----
	rec(1, s1.Do(ctx, s1.B().Get().Key("d1:k").Build()).Error(), true, "Do")
	prog = append(prog, ddo(1, "GET", "d1:k"))
	rm := s1.DoMulti(ctx, s1.B().Get().Key("d1:k").Build(), s1.B().Get().Key("d1:q").Build())
	var em error
	for _, r := range rm {
		if r.Error() != rueidis.ErrDedicatedClientRecycled {
			em = r.Error()
			if em == nil {
				em = fmt.Errorf("a reply")
			}
		} else if em == nil {
			em = r.Error()
		}
	}
	rec(1, em, true, "DoMulti")
	prog = append(prog, ddo(1, "GET", "d1:k"))
	rctx, rcancel := context.WithTimeout(ctx, psx.Patience()) // a Receive that is not rejected would wait for ever
	rec(1, s1.Receive(rctx, s1.B().Subscribe().Channel("d1:ch").Build(), func(rueidis.PubSubMessage) {}), true, "Receive")
	rcancel()
	prog = append(prog, obs.App("DSubscribe", "1", voc.Argv([]string{"SUBSCRIBE", "d1:ch"})))
	for _, inval := range []bool{false, true} {
		var ch <-chan error
		if inval {
			ch = s1.SetOnInvalidations(func([]rueidis.RedisMessage) {})
		} else {
			ch = s1.SetPubSubHooks(rueidis.PubSubHooks{OnMessage: func(rueidis.PubSubMessage) {}})
		}
		var e error
		select {
		case e = <-ch:
		case <-time.After(psx.Patience()):
		}
		rec(1, e, true, map[bool]string{false: "SetPubSubHooks", true: "SetOnInvalidations"}[inval])
		prog = append(prog, obs.App("DSetHooks", "1", "false", obs.Bool(inval)))
	}
	rel1()
	s1.Close()
	prog = append(prog, obs.App("DRelease", "1"), obs.App("DClose", "1"))
	// ---- the pool still serves ----
	s3, rel3 := cl.Dedicate()
	prog = append(prog, obs.App("DAcquire", "3"))
	rec(3, s3.Do(ctx, s3.B().Set().Key("d3:k").Value("v").Build()).Error(), false, "Do(SET)")
	prog = append(prog, ddo(3, "SET", "d3:k", "v"))
	rel3()
	prog = append(prog, obs.App("DRelease", "3"))
	// ---- the server's view ----
	views := serverViews(s)
	log := s.LogCopy()
	marker := -1
	sent := 0
	for i, e := range log {
		if e.InTx {
			continue
		}
		if len(e.Argv) > 1 && e.Argv[1] == "m:rel" {
			marker = i
		}
		if len(e.Argv) == 2 && e.Argv[0] == "GET" && e.Argv[1] == "d1:r" {
			sent++
		}
		if marker >= 0 && i > marker && issuer(e.Argv) == "d1" {
			fail("sent-after-release", "session 1 was ended (%s) %s; afterwards the server received %v on connection %d — a command of a released session reached the server%s",
				rt.How, map[bool]string{true: "before the call", false: fmt.Sprintf("in the back-off after attempt %d of %s", rt.At, what)}[rt.At == 0], e.Argv, e.Conn,
				map[bool]string{true: ", on the connection session 2 holds, between its MULTI and EXEC", false: ""}[rt.Next && rt.How == "rel" && rt.At >= 0])
		}
	}
	wantSent := rt.Loading + 1
	if rt.At >= 0 {
		wantSent = rt.At
	}
	if sent != wantSent {
		fail("sent-after-release", "the server received GET d1:r %d times, expected %d (loading %d, session ended after attempt %d)", sent, wantSent, rt.Loading, rt.At)
	}
	// per pool connection: contiguous blocks of issuers (nothing foreign inside session 2's transaction)
	for _, v := range views {
		if v.id == 1 {
			continue
		}
		cur := ""
		seen := map[string]bool{}
		for _, a := range v.cmds {
			is := issuer(a)
			if is == "" || is == cur {
				continue
			}
			if seen[is] {
				fail("interleaved", "pool connection %d: commands of %s are interleaved with commands of %s: %v", v.id, is, cur, v.cmds)
			}
			seen[is] = true
			cur = is
		}
	}
	// ---- the model case ----
	conns := []string{}
	shared := [][]string{}
	for _, v := range views {
		if v.id == 1 {
			shared = v.cmds
			continue
		}
		conns = append(conns, "("+strconv.Itoa(v.id)+", "+obs.List(wcmds(v.cmds, !v.live))+")")
	}
	for _, a := range shared {
		prog = append(prog, obs.App("SDo", voc.Argv(a)))
	}
	res.Coq = obs.App("CDed", "2", obs.Bool(c.V7), obs.List(prog), obs.List(conns), obs.List(results), voc.Argvs(shared))
	res.Obs = map[string]any{"pool_conns": len(conns), "attempts_sent": sent, "results": len(results)}
	if len(problems) > 0 {
		res.Oracle = strings.Join(problems, "; ")
		res.Class = class
	}
	return
}

// the argv of CLIENT TRACKING ON as the builder wrote it (taken from the server's log)
func trackingOnArgv(views interface{}) string {
	return voc.Argv([]string{"CLIENT", "TRACKING", "ON", "BCAST"})
}

// translate the server's log of a pool connection into the model's alphabet
func wcmds(cmds [][]string, closedAtEnd bool) []string {
	out := []string{}
	for i := 0; i < len(cmds); i++ {
		a := cmds[i]
		switch {
		case a[0] == "UNSUBSCRIBE" && len(a) == 1:
			// UNSUBSCRIBE, PUNSUBSCRIBE, [SUNSUBSCRIBE], DISCARD
			shard := false
			j := i + 1
			if j < len(cmds) && cmds[j][0] == "PUNSUBSCRIBE" {
				j++
			}
			if j < len(cmds) && cmds[j][0] == "SUNSUBSCRIBE" {
				shard = true
				j++
			}
			if j < len(cmds) && cmds[j][0] == "DISCARD" {
				j++
			}
			out = append(out, obs.App("WUnsub", obs.Bool(shard)))
			i = j - 1
		case a[0] == "CLIENT" && len(a) >= 3 && a[1] == "TRACKING" && strings.EqualFold(a[2], "OFF"):
			out = append(out, "WTrackingOff")
		default:
			out = append(out, obs.App("WUser", voc.Argv(a)))
		}
	}
	return out
}

func main() {
	obs.Main(obs.Runner{
		Name: "obs_dedicated", Salt: 25,
		Gen: genCase,
		Decode: func(raw json.RawMessage) (any, error) {
			var c Case
			err := json.Unmarshal(raw, &c)
			return c, err
		},
		Run: run,
	})
}
