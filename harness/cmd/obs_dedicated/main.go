// obs_dedicated: C25 — dedicated clients are isolated and single-use (and C27: tracking off on release).
//
// A case is a program over one client: several dedicated sessions (Dedicate / Dedicated) whose commands —
// WATCH/MULTI/EXEC blocks, plain commands, SUBSCRIBE, CLIENT TRACKING ON, SetPubSubHooks, SetOnInvalidations, a
// blocking command that is abandoned — interleave in program order, blocking commands of ordinary callers that
// share the same pool, release / Close in any order, every entry point called again after release; meanwhile other
// goroutines hammer the client with ordinary (auto-pipelined) commands.  Every command carries the name of its
// issuer, so the fake server's per-connection logs tell who wrote what where.
//
// Direct oracle: on every pool connection the issuers form contiguous blocks (no foreign command between a
// holder's first command and its release), all commands of one dedicated session are on one connection, nothing
// of a session appears after its release, every call after release returns ErrDedicatedClientRecycled, the clean-up
// (unsubscribe, CLIENT TRACKING OFF iff an invalidation hook was installed) precedes the next holder's first
// command, and no idle connection keeps subscriptions or tracking of a session that installed an invalidation hook.
package main

import (
	"context"
	"encoding/json"
	"fmt"
	"strconv"
	"strings"
	"sync"
	"sync/atomic"
	"time"

	"github.com/redis/rueidis"

	"verifharness/fakeredis"
	"verifharness/gen"
	"verifharness/obs"
	"verifharness/psx"
)

type Step struct {
	T     string `json:"t"` // acq | do | tx | sub | tron | hooks | blockfail | rel | close | bdo | bfail
	D     int    `json:"d,omitempty"`
	Zero  bool   `json:"zero,omitempty"`
	Inval bool   `json:"inval,omitempty"`
}

type Case struct {
	V7     bool   `json:"v7"`
	Steps  []Step `json:"steps"`
	Shared int    `json:"shared"` // goroutines of shared traffic
}

func genCase(r *gen.Rand, i int) any {
	c := Case{V7: r.Chance(2, 3), Shared: r.Intn(4)}
	n := 4 + r.Intn(20)
	next := 1
	open := []int{}
	released := []int{}
	for len(c.Steps) < n {
		switch x := r.Intn(20); {
		case x < 3 && next <= 4:
			c.Steps = append(c.Steps, Step{T: "acq", D: next})
			open = append(open, next)
			next++
		case x < 12 && len(open) > 0:
			d := gen.Pick(r, open)
			t := gen.Pick(r, []string{"do", "do", "tx", "tx", "sub", "tron", "hooks", "hooks"})
			st := Step{T: t, D: d}
			if t == "hooks" {
				st.Zero, st.Inval = r.Chance(1, 5), r.Chance(1, 2)
			}
			c.Steps = append(c.Steps, st)
		case x < 13 && len(open) > 0 && r.Chance(1, 8):
			c.Steps = append(c.Steps, Step{T: "blockfail", D: gen.Pick(r, open)})
		case x < 16 && len(open) > 0:
			k := r.Intn(len(open))
			d := open[k]
			open = append(open[:k], open[k+1:]...)
			released = append(released, d)
			c.Steps = append(c.Steps, Step{T: gen.Pick(r, []string{"rel", "rel", "rel", "close"}), D: d})
		case x < 18 && len(released) > 0:
			// use after release: every entry point
			d := gen.Pick(r, released)
			c.Steps = append(c.Steps, Step{T: gen.Pick(r, []string{"do", "tx", "sub", "hooks", "rel", "close", "tron"}), D: d})
		default:
			c.Steps = append(c.Steps, Step{T: gen.Pick(r, []string{"bdo", "bdo", "bdo", "bdo", "bdo", "bfail"})})
		}
	}
	// sessions still open are released at the end
	for _, d := range open {
		c.Steps = append(c.Steps, Step{T: "rel", D: d})
	}
	return c
}

var voc = func() psx.Vocab {
	w := []string{"SET", "GET", "INCR", "WATCH", "MULTI", "EXEC", "SUBSCRIBE", "CLIENT", "TRACKING", "ON", "BCAST", "BLPOP", "0.01", "5", "v", ""}
	for d := 1; d <= 4; d++ {
		for _, s := range []string{"k", "w", "c", "ch", "l"} {
			w = append(w, "d"+strconv.Itoa(d)+":"+s)
		}
	}
	for b := 1; b <= 40; b++ {
		w = append(w, "b"+strconv.Itoa(b)+":l")
	}
	for g := 0; g < 4; g++ {
		w = append(w, "s"+strconv.Itoa(g)+":n")
	}
	return psx.NewVocab(w)
}()

func issuer(argv []string) string {
	for _, a := range argv[1:] {
		if i := strings.IndexByte(a, ':'); i > 0 {
			return a[:i]
		}
	}
	return ""
}

func run(ci any) (res obs.Result) {
	c := ci.(Case)
	res.Kind = "prog"
	s := fakeredis.New()
	if !c.V7 {
		s.Version = "6.2.0"
	}
	s.Handle("BLPOP", func(fc *fakeredis.Conn, a []string) fakeredis.V { return fakeredis.Nil() })
	s.Handle("DISCARD", func(fc *fakeredis.Conn, a []string) fakeredis.V { return fakeredis.Error("ERR DISCARD without MULTI") })
	var slow int32
	s.Fault = func(fc *fakeredis.Conn, cseq int, argv []string) fakeredis.Action {
		if argv[0] == "BLPOP" && len(argv) == 3 && argv[2] == "5" && atomic.LoadInt32(&slow) == 1 {
			return fakeredis.Action{Delay: 120 * time.Millisecond}
		}
		return fakeredis.Action{}
	}
	cl, err := rueidis.NewClient(rueidis.ClientOption{InitAddress: []string{"127.0.0.1:6379"}, DialCtxFn: s.Dial, ForceSingleClient: true,
		DisableRetry: true, DisableCache: true, PipelineMultiplex: -1, ReadBufferEachConn: 4096, WriteBufferEachConn: 4096, RingScaleEachConn: 6})
	if err != nil {
		res.Oracle = "harness: " + err.Error()
		return
	}
	ctx := context.Background()
	// shared traffic
	stop := make(chan struct{})
	var wg sync.WaitGroup
	for g := 0; g < c.Shared; g++ {
		wg.Add(1)
		go func(g int) {
			defer wg.Done()
			key := "s" + strconv.Itoa(g) + ":n"
			for {
				select {
				case <-stop:
					return
				default:
				}
				cl.Do(ctx, cl.B().Incr().Key(key).Build())
				time.Sleep(50 * time.Microsecond)
			}
		}(g)
	}
	type sess struct {
		d       rueidis.DedicatedClient
		release func()
		gone    bool
		fnDone  chan struct{}
	}
	sessions := map[int]*sess{}
	prog := []string{}
	results := []string{}
	problems := []string{}
	class := ""
	fail := func(cls, f string, a ...any) {
		problems = append(problems, fmt.Sprintf(f, a...))
		if class == "" {
			class = cls
		}
	}
	broken := map[int]bool{} // sessions that abandoned a blocking command: their connection is legitimately dead
	record := func(d int, err error, released bool) {
		r := "ROk"
		if err == rueidis.ErrDedicatedClientRecycled {
			r = "RRecycled"
		}
		results = append(results, "("+strconv.Itoa(d)+", "+r+")")
		if released && err != rueidis.ErrDedicatedClientRecycled {
			fail("use-after-release", "session %d was released, a call returned %v instead of ErrDedicatedClientRecycled", d, err)
		}
		if !released && err == rueidis.ErrDedicatedClientRecycled {
			fail("recycled-too-early", "session %d is live but a call returned ErrDedicatedClientRecycled", d)
		}
		if !released && err != nil && !rueidis.IsRedisNil(err) && !broken[d] {
			if _, isRedis := rueidis.IsRedisErr(err); !isRedis {
				fail("live-session-error", "session %d is live and did nothing wrong, a call failed with %v", d, err)
			}
		}
	}
	bno := 0
	abandoned := []string{}
	_ = broken
	dn := func(d int) string { return "d" + strconv.Itoa(d) }
	for _, st := range c.Steps {
		se := sessions[st.D]
		switch st.T {
		case "acq":
			d, rel := cl.Dedicate()
			sessions[st.D] = &sess{d: d, release: rel}
			prog = append(prog, obs.App("DAcquire", obs.N(uint64(st.D))))
		case "do":
			a := []string{"SET", dn(st.D) + ":k", "v"}
			err := se.d.Do(ctx, se.d.B().Set().Key(a[1]).Value("v").Build()).Error()
			record(st.D, err, se.gone)
			prog = append(prog, obs.App("DDo", obs.N(uint64(st.D)), voc.Argv(a)))
		case "tx":
			// WATCH, MULTI, INCR, EXEC: must not be interleaved with anything
			w := dn(st.D) + ":w"
			r1 := se.d.Do(ctx, se.d.B().Watch().Key(w).Build()).Error()
			record(st.D, r1, se.gone)
			prog = append(prog, obs.App("DDo", obs.N(uint64(st.D)), voc.Argv([]string{"WATCH", w})))
			rs := se.d.DoMulti(ctx, se.d.B().Multi().Build(), se.d.B().Incr().Key(dn(st.D)+":c").Build(), se.d.B().Exec().Build())
			var e2 error
			for _, r := range rs {
				if r.Error() != nil && !rueidis.IsRedisNil(r.Error()) {
					e2 = r.Error()
				}
			}
			record(st.D, e2, se.gone)
			if !se.gone {
				prog = append(prog, obs.App("DDo", obs.N(uint64(st.D)), voc.Argv([]string{"MULTI"})),
					obs.App("DDo", obs.N(uint64(st.D)), voc.Argv([]string{"INCR", dn(st.D) + ":c"})),
					obs.App("DDo", obs.N(uint64(st.D)), voc.Argv([]string{"EXEC"})))
				results = append(results, "("+strconv.Itoa(st.D)+", ROk)", "("+strconv.Itoa(st.D)+", ROk)")
				if e2 == nil {
					if arr, _ := rs[2].ToArray(); len(arr) != 1 {
						fail("tx-broken", "session %d: EXEC returned %d results for one queued command", st.D, len(arr))
					}
				}
			} else {
				prog = append(prog, obs.App("DDo", obs.N(uint64(st.D)), voc.Argv([]string{"MULTI"})))
			}
		case "sub":
			a := []string{"SUBSCRIBE", dn(st.D) + ":ch"}
			err := se.d.Do(ctx, se.d.B().Subscribe().Channel(a[1]).Build()).Error()
			record(st.D, err, se.gone)
			prog = append(prog, obs.App("DSubscribe", obs.N(uint64(st.D)), voc.Argv(a)))
		case "tron":
			a := []string{"CLIENT", "TRACKING", "ON", "BCAST"}
			err := se.d.Do(ctx, se.d.B().ClientTracking().On().Bcast().Build()).Error()
			_ = a
			record(st.D, err, se.gone)
			// the builder's argument order is its own business: the server's log decides what was sent
			prog = append(prog, obs.App("DTrackingOn", obs.N(uint64(st.D)), "TRON"))
		case "hooks":
			var ch <-chan error
			if st.Zero {
				ch = se.d.SetPubSubHooks(rueidis.PubSubHooks{})
			} else if st.Inval {
				ch = se.d.SetOnInvalidations(func([]rueidis.RedisMessage) {})
			} else {
				ch = se.d.SetPubSubHooks(rueidis.PubSubHooks{OnMessage: func(rueidis.PubSubMessage) {}})
			}
			var err error
			if se.gone {
				select {
				case err = <-ch:
				case <-time.After(2 * time.Second):
					fail("use-after-release", "session %d was released: SetPubSubHooks returned a channel without ErrDedicatedClientRecycled", st.D)
					err = rueidis.ErrDedicatedClientRecycled
				}
			}
			record(st.D, err, se.gone)
			inval := st.Inval
			prog = append(prog, obs.App("DSetHooks", obs.N(uint64(st.D)), obs.Bool(st.Zero), obs.Bool(inval)))
		case "blockfail":
			atomic.StoreInt32(&slow, 1)
			cctx, cancel := context.WithTimeout(ctx, 40*time.Millisecond)
			a := []string{"BLPOP", dn(st.D) + ":l", "5"}
			err := se.d.Do(cctx, se.d.B().Blpop().Key(a[1]).Timeout(5).Build()).Error()
			cancel()
			atomic.StoreInt32(&slow, 0)
			if se.gone {
				record(st.D, err, true)
			} else {
				record(st.D, nil, false)
				if err == nil || rueidis.IsRedisNil(err) {
					// the reply made it in time: nothing was abandoned
					prog = append(prog, obs.App("DDo", obs.N(uint64(st.D)), voc.Argv(a)))
					continue
				}
			}
			broken[st.D] = true
			abandoned = append(abandoned, a[1])
			prog = append(prog, obs.App("DBlockFail", obs.N(uint64(st.D)), voc.Argv(a)))
			time.Sleep(150 * time.Millisecond) // let the server get past the delayed command
		case "rel":
			se.release()
			se.gone = true
			prog = append(prog, obs.App("DRelease", obs.N(uint64(st.D))))
		case "close":
			se.d.Close()
			se.gone = true
			prog = append(prog, obs.App("DClose", obs.N(uint64(st.D))))
		case "bdo", "bfail":
			bno++
			key := "b" + strconv.Itoa(bno) + ":l"
			if st.T == "bdo" {
				cl.Do(ctx, cl.B().Blpop().Key(key).Timeout(0.01).Build())
				prog = append(prog, obs.App("BDo", obs.N(uint64(bno)), voc.Argv([]string{"BLPOP", key, "0.01"}), "false"))
			} else {
				atomic.StoreInt32(&slow, 1)
				cctx, cancel := context.WithTimeout(ctx, 40*time.Millisecond)
				err := cl.Do(cctx, cl.B().Blpop().Key(key).Timeout(5).Build()).Error()
				cancel()
				atomic.StoreInt32(&slow, 0)
				failed := err != nil && !rueidis.IsRedisNil(err)
				if failed {
					abandoned = append(abandoned, key)
				}
				prog = append(prog, obs.App("BDo", obs.N(uint64(bno)), voc.Argv([]string{"BLPOP", key, "5"}), obs.Bool(failed)))
				time.Sleep(150 * time.Millisecond)
			}
		}
	}
	close(stop)
	wg.Wait()
	time.Sleep(2 * time.Millisecond)
	// read the server's view before closing the client
	type connView struct {
		id   int
		cmds [][]string
		subs int
		trk  bool
		live bool
	}
	var views []connView
	liveIDs := map[int]bool{}
	for _, fc := range s.Conns() {
		liveIDs[fc.ID] = true
	}
	logByConn := map[int][][]string{}
	maxConn := 0
	for _, e := range s.LogCopy() {
		if e.InTx {
			continue // the execution of a queued command inside EXEC, not something the client sent
		}
		logByConn[e.Conn] = append(logByConn[e.Conn], e.Argv)
		if e.Conn > maxConn {
			maxConn = e.Conn
		}
	}
	isSetup := func(a []string) bool {
		switch a[0] {
		case "HELLO", "AUTH", "SELECT", "READONLY", "INFO":
			return true
		case "CLIENT":
			return len(a) > 1 && (a[1] == "SETINFO" || a[1] == "SETNAME" || a[1] == "NO-TOUCH" || a[1] == "NO-EVICT" || a[1] == "CAPA")
		}
		return false
	}
	for id := 1; id <= maxConn; id++ {
		v := connView{id: id, live: liveIDs[id]}
		for _, a := range logByConn[id] {
			if isSetup(a) || a[0] == "PING" {
				continue
			}
			v.cmds = append(v.cmds, a)
		}
		views = append(views, v)
	}
	for _, fc := range s.Conns() {
		for i := range views {
			if views[i].id == fc.ID {
				s.Lock()
				views[i].trk = fc.Tracking
				s.Unlock()
			}
		}
	}
	cl.Close()
	// ---- oracle ----
	sessConn := map[string]int{}
	hookInval := map[int]bool{}
	// the hook set installed when the session is released decides (a later SetPubSubHooks replaces the earlier one;
	// calls after the release are rejected)
	goneAt := map[int]bool{}
	for _, st := range c.Steps {
		switch st.T {
		case "hooks":
			if !goneAt[st.D] {
				hookInval[st.D] = !st.Zero && st.Inval
			}
		case "rel", "close":
			goneAt[st.D] = true
		}
	}
	for _, v := range views {
		if v.id == 1 {
			for _, a := range v.cmds {
				if is := issuer(a); strings.HasPrefix(is, "d") || strings.HasPrefix(is, "b") {
					fail("pool-command-on-shared-conn", "command %v of %s was sent on the shared connection", a, is)
				}
			}
			continue
		}
		// pool connection: issuers must form contiguous blocks
		cur := ""
		seenIss := map[string]bool{}
		for _, a := range v.cmds {
			is := issuer(a)
			if is == "" {
				continue // clean-up commands (UNSUBSCRIBE …, CLIENT TRACKING ON/OFF) carry no name
			}
			if strings.HasPrefix(is, "s") {
				fail("foreign-command", "shared command %v was sent on pool connection %d (held by %q)", a, v.id, cur)
				continue
			}
			if is != cur {
				if seenIss[is] {
					fail("interleaved", "pool connection %d: commands of %s are interleaved with commands of %s", v.id, is, cur)
				}
				seenIss[is] = true
				cur = is
			}
			if c0, ok := sessConn[is]; ok && c0 != v.id {
				fail("session-on-two-conns", "commands of %s appear on connections %d and %d", is, c0, v.id)
			}
			sessConn[is] = v.id
		}
		// clean-up before reuse: after a session with an invalidation hook, CLIENT TRACKING OFF precedes the next issuer
		for i, a := range v.cmds {
			is := issuer(a)
			if !strings.HasPrefix(is, "d") {
				continue
			}
			d, _ := strconv.Atoi(is[1:])
			if !hookInval[d] {
				continue
			}
			// find the next command of another issuer
			for j := i + 1; j < len(v.cmds); j++ {
				is2 := issuer(v.cmds[j])
				if is2 != "" && is2 != is {
					off := false
					for _, b := range v.cmds[i:j] {
						if len(b) >= 3 && b[0] == "CLIENT" && b[1] == "TRACKING" && strings.EqualFold(b[2], "OFF") {
							off = true
						}
					}
					if !off {
						fail("tracking-not-off", "pool connection %d was reused by %s after %s (which had installed an invalidation hook) without CLIENT TRACKING OFF", v.id, is2, is)
					}
					break
				}
			}
		}
	}
	// the model's view of the pool connections
	conns := []string{}
	shared := [][]string{}
	for _, v := range views {
		if v.id == 1 {
			shared = v.cmds
			continue
		}
		conns = append(conns, "("+strconv.Itoa(v.id)+", "+obs.List(wcmds(v.cmds, !v.live))+")")
	}
	for _, a := range shared {
		prog = append(prog, obs.App("SDo", voc.Argv(a)))
	}
	res.Coq = obs.App("CDed", "2", obs.Bool(c.V7), obs.List(prog), obs.List(conns), obs.List(results), voc.Argvs(shared))
	// an abandoned blocking command whose deadline expired before it was even written (a slow dial on a loaded
	// machine) is a different program from the one recorded: no model comparison for such a run
	for _, k := range abandoned {
		found := false
		for _, e := range s.LogCopy() {
			if len(e.Argv) > 1 && e.Argv[1] == k {
				found = true
			}
		}
		if !found {
			res.Coq = ""
			res.Kind = "prog-timing"
		}
	}
	res.Coq = strings.ReplaceAll(res.Coq, "TRON", trackingOnArgv(views))
	res.Sig = fmt.Sprintf("%+v", c)
	res.Nontrivial = len(conns) > 0
	res.Obs = map[string]any{"pool_conns": len(conns), "shared_cmds": len(shared), "results": len(results)}
	res.Site = "client.go:dedicatedSingleClient"
	if len(problems) > 0 {
		res.Oracle = strings.Join(problems, "; ")
		res.Class = class
	}
	return
}

// the argv of CLIENT TRACKING ON as the builder wrote it (taken from the server's log)
func trackingOnArgv(views interface{}) string {
	return voc.Argv([]string{"CLIENT", "TRACKING", "ON", "BCAST"})
}

// translate the server's log of a pool connection into the model's alphabet
func wcmds(cmds [][]string, closedAtEnd bool) []string {
	out := []string{}
	for i := 0; i < len(cmds); i++ {
		a := cmds[i]
		switch {
		case a[0] == "UNSUBSCRIBE" && len(a) == 1:
			// UNSUBSCRIBE, PUNSUBSCRIBE, [SUNSUBSCRIBE], DISCARD
			shard := false
			j := i + 1
			if j < len(cmds) && cmds[j][0] == "PUNSUBSCRIBE" {
				j++
			}
			if j < len(cmds) && cmds[j][0] == "SUNSUBSCRIBE" {
				shard = true
				j++
			}
			if j < len(cmds) && cmds[j][0] == "DISCARD" {
				j++
			}
			out = append(out, obs.App("WUnsub", obs.Bool(shard)))
			i = j - 1
		case a[0] == "CLIENT" && len(a) >= 3 && a[1] == "TRACKING" && strings.EqualFold(a[2], "OFF"):
			out = append(out, "WTrackingOff")
		default:
			out = append(out, obs.App("WUser", voc.Argv(a)))
		}
	}
	return out
}

func main() {
	obs.Main(obs.Runner{
		Name: "obs_dedicated", Salt: 25,
		Gen: genCase,
		Decode: func(raw json.RawMessage) (any, error) {
			var c Case
			err := json.Unmarshal(raw, &c)
			return c, err
		},
		Run: run,
	})
}
