// Package gen: one splitmix64 stream (seeded from VERIF_SEED) from which every random choice of
// every observer derives, plus small structured generators.
package gen

import (
	"os"
	"strconv"
)

type Rand struct{ s uint64 }

// New scrambles the seed with the splitmix64 finaliser first: the generator advances its state by a
// fixed constant per draw, so neighbouring raw seeds would otherwise give the same stream shifted by one.
func New(seed uint64) *Rand {
	z := seed + 0x632BE59BD9B4E019
	z = (z ^ (z >> 30)) * 0xBF58476D1CE4E5B9
	z = (z ^ (z >> 27)) * 0x94D049BB133111EB
	return &Rand{s: z ^ (z >> 31)}
}

// FromEnv seeds from VERIF_SEED (default 1), mixed with a per-observer salt.
func FromEnv(salt uint64) *Rand {
	seed := uint64(1)
	if v := os.Getenv("VERIF_SEED"); v != "" {
		if n, err := strconv.ParseUint(v, 10, 64); err == nil {
			seed = n
		}
	}
	return New(seed ^ (salt * 0xD1B54A32D192ED03))
}

func Seed() uint64 {
	if v := os.Getenv("VERIF_SEED"); v != "" {
		if n, err := strconv.ParseUint(v, 10, 64); err == nil {
			return n
		}
	}
	return 1
}

func (r *Rand) U64() uint64 {
	r.s += 0x9E3779B97F4A7C15
	z := r.s
	z = (z ^ (z >> 30)) * 0xBF58476D1CE4E5B9
	z = (z ^ (z >> 27)) * 0x94D049BB133111EB
	return z ^ (z >> 31)
}

// Fork returns an independent stream (used to give every case its own replayable stream).
func (r *Rand) Fork() *Rand { return &Rand{s: r.U64()} }

func (r *Rand) Intn(n int) int {
	if n <= 0 {
		return 0
	}
	return int(r.U64() % uint64(n))
}

// Range returns a value in [lo, hi].
func (r *Rand) Range(lo, hi int) int { return lo + r.Intn(hi-lo+1) }

func (r *Rand) Bool() bool { return r.U64()&1 == 1 }

// Chance returns true with probability num/den.
func (r *Rand) Chance(num, den int) bool { return r.Intn(den) < num }

func Pick[T any](r *Rand, xs []T) T { return xs[r.Intn(len(xs))] }

// Size returns a length skewed to boundaries: 0, 1, small, and values around the given marks.
func (r *Rand) Size(max int, marks ...int) int {
	switch r.Intn(10) {
	case 0:
		return 0
	case 1:
		return 1
	case 2, 3:
		if len(marks) > 0 {
			m := Pick(r, marks) + r.Range(-1, 1)
			if m < 0 {
				m = 0
			}
			if m > max {
				m = max
			}
			return m
		}
	case 4:
		return r.Intn(max + 1)
	}
	if max > 12 {
		return r.Intn(12)
	}
	return r.Intn(max + 1)
}

// Bytes returns n bytes drawn from a mix of alphabets (ASCII, CR/LF/NUL/0xFF heavy, uniform).
func (r *Rand) Bytes(n int) []byte {
	b := make([]byte, n)
	mode := r.Intn(4)
	for i := range b {
		switch mode {
		case 0:
			b[i] = byte('a' + r.Intn(26))
		case 1:
			b[i] = Pick(r, []byte{'\r', '\n', 0, 0xff, '{', '}', ' ', '$', '*', ':', '-', '0', '9', 'a'})
		case 2:
			b[i] = byte(r.Intn(256))
		default:
			b[i] = byte('0' + r.Intn(10))
		}
	}
	return b
}
