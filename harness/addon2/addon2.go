// Package addon2 holds what the observers of the script-backed add-ons (C34 rueidislock, C39 rueidisaside,
// C40 om) share: fake server + mini-Lua set-up, client options, small Gallina printers.
package addon2

import (
	"fmt"
	"os"
	"strings"
	"time"

	"github.com/redis/rueidis"

	"verifharness/fakeredis"
	"verifharness/fakeredis/scripting"
	"verifharness/obs"
)

// NewServer is a fresh fake Redis node with the scripting commands installed.
func NewServer() (*fakeredis.Server, *scripting.Engine) {
	s := fakeredis.New()
	eng := scripting.Install(s)
	return s, eng
}

// Option is the client option every observer starts from: one node, reached through the fake server's dialer.
func Option(s *fakeredis.Server) rueidis.ClientOption {
	return rueidis.ClientOption{
		InitAddress:       []string{"127.0.0.1:6379"},
		DialCtxFn:         s.Dial,
		ForceSingleClient: true,
		DisableRetry:      false,
		ConnWriteTimeout:  10 * time.Second,
	}
}

// OrderedOption is Option with every command of the client on ONE pipelined connection, so that a reply is
// processed after all invalidation pushes the server queued before it (used for deterministic cached reads).
func OrderedOption(s *fakeredis.Server) rueidis.ClientOption {
	o := Option(s)
	o.AlwaysPipelining = true
	o.PipelineMultiplex = -1
	return o
}

// ScriptArgs returns KEYS and ARGV of an EVAL / EVALSHA server-log entry (nil, nil when it is neither).
func ScriptArgs(argv []string) (keys, args []string) {
	if len(argv) < 3 {
		return nil, nil
	}
	switch strings.ToUpper(argv[0]) {
	case "EVAL", "EVALSHA", "EVAL_RO", "EVALSHA_RO":
	default:
		return nil, nil
	}
	n := 0
	for _, ch := range argv[2] {
		if ch < '0' || ch > '9' {
			return nil, nil
		}
		n = n*10 + int(ch-'0')
	}
	if 3+n > len(argv) {
		return nil, nil
	}
	return argv[3 : 3+n], argv[3+n:]
}

// Pair prints a Coq pair.
func Pair(a, b string) string { return "(" + a + ", " + b + ")" }

// OptZ prints an option Z.
func OptZ(p *int64) string {
	if p == nil {
		return obs.None
	}
	return obs.Some(obs.Z(*p))
}

// OptBytes prints an option bytes.
func OptBytes(p *string) string {
	if p == nil {
		return obs.None
	}
	return obs.Some(obs.HS(*p))
}

// OptBool prints an option bool.
func OptBool(p *bool) string {
	if p == nil {
		return obs.None
	}
	return obs.Some(obs.Bool(*p))
}

var dumpSeq int

// Dump writes a case's Gallina term and description to $ADDON2_DUMP (debugging aid for rare disagreements;
// nothing is written when the variable is not set).
func Dump(observer string, desc any, coq string) {
	dir := os.Getenv("ADDON2_DUMP")
	if dir == "" || coq == "" {
		return
	}
	dumpSeq++
	_ = os.MkdirAll(dir, 0o755)
	_ = os.WriteFile(fmt.Sprintf("%s/%s-%s-%d-%04d.txt", dir, observer, os.Getenv("VERIF_SEED"), os.Getpid(), dumpSeq), []byte(fmt.Sprintf("%v\n%s\n", desc, coq)), 0o644)
}
