// Package luascripts extracts every Lua script literal from the sources of the repository under test
// (go/ast only).  It is shared by the translator tr_scripts (Gen/Scripts.v) and by the unit tests of
// the mini-Lua interpreter.  It fails closed: a Lua-looking literal in an unexpected place, or a
// NewLuaScript* call whose argument cannot be traced to a collected literal, is an error.
package luascripts

import (
	"fmt"
	"go/ast"
	"go/parser"
	"go/token"
	"os"
	"path/filepath"
	"sort"
	"strconv"
	"strings"
)

type Script struct {
	Name string // constant / variable name the literal is bound to
	Pkg  string // directory relative to the repository root ("." for the root package)
	File string // file relative to the repository root
	Ctor string // NewLuaScript | NewLuaScriptReadOnly | … | "const" (used via Eval().Script(…) or passed to a constructor by name)
	Text string
}

// ID is the stable identifier used in generated files: <pkg>_<Name>.
func (s Script) ID() string {
	p := strings.NewReplacer("/", "_", ".", "root", "-", "_").Replace(s.Pkg)
	return p + "_" + s.Name
}

func looksLua(s string) bool {
	return strings.Contains(s, "redis.call") || strings.Contains(s, "redis.pcall")
}

// Extract walks the repository and returns the scripts sorted by (Pkg, Name).
func Extract(repo string) ([]Script, error) {
	var out []Script
	var files []string
	err := filepath.Walk(repo, func(p string, info os.FileInfo, err error) error {
		if err != nil {
			return err
		}
		if info.IsDir() {
			n := info.Name()
			if p != repo && (strings.HasPrefix(n, ".") || n == "testdata" || n == "vendor" || n == "hack") {
				return filepath.SkipDir
			}
			return nil
		}
		if strings.HasSuffix(p, ".go") && !strings.HasSuffix(p, "_test.go") && !strings.HasPrefix(info.Name(), "zz_verif") {
			files = append(files, p)
		}
		return nil
	})
	if err != nil {
		return nil, err
	}
	sort.Strings(files)
	for _, f := range files {
		raw, err := os.ReadFile(f)
		if err != nil {
			return nil, err
		}
		src := string(raw)
		if !looksLua(src) && !strings.Contains(src, "NewLuaScript") {
			continue
		}
		rel, _ := filepath.Rel(repo, f)
		ss, err := extractFile(rel, src)
		if err != nil {
			return nil, err
		}
		out = append(out, ss...)
	}
	sort.Slice(out, func(i, j int) bool {
		if out[i].Pkg != out[j].Pkg {
			return out[i].Pkg < out[j].Pkg
		}
		return out[i].Name < out[j].Name
	})
	seen := map[string]bool{}
	for _, s := range out {
		if seen[s.ID()] {
			return nil, fmt.Errorf("duplicate script id %s", s.ID())
		}
		seen[s.ID()] = true
	}
	return out, nil
}

func strLit(e ast.Expr) (string, bool) {
	bl, ok := e.(*ast.BasicLit)
	if !ok || bl.Kind != token.STRING {
		return "", false
	}
	s, err := strconv.Unquote(bl.Value)
	if err != nil {
		return "", false
	}
	return s, true
}

func ctorName(call *ast.CallExpr) (string, bool) {
	var name string
	switch f := call.Fun.(type) {
	case *ast.SelectorExpr:
		name = f.Sel.Name
	case *ast.Ident:
		name = f.Name
	default:
		return "", false
	}
	if strings.HasPrefix(name, "NewLuaScript") {
		return name, true
	}
	return "", false
}

func extractFile(rel, src string) ([]Script, error) {
	fset := token.NewFileSet()
	file, err := parser.ParseFile(fset, rel, src, 0)
	if err != nil {
		return nil, err
	}
	pkg := filepath.Dir(rel)
	var out []Script
	claimed := map[*ast.BasicLit]bool{}
	known := map[string]bool{}
	pos := func(n ast.Node) string { return fset.Position(n.Pos()).String() }

	// 1. package-level const / var declarations
	for _, d := range file.Decls {
		gd, ok := d.(*ast.GenDecl)
		if !ok || (gd.Tok != token.CONST && gd.Tok != token.VAR) {
			continue
		}
		for _, sp := range gd.Specs {
			vs := sp.(*ast.ValueSpec)
			for i, v := range vs.Values {
				if i >= len(vs.Names) {
					break
				}
				name := vs.Names[i].Name
				if s, ok := strLit(v); ok && looksLua(s) {
					out = append(out, Script{Name: name, Pkg: pkg, File: rel, Ctor: "const", Text: s})
					claimed[v.(*ast.BasicLit)] = true
					known[name] = true
					continue
				}
				if call, ok := v.(*ast.CallExpr); ok {
					if ctor, ok := ctorName(call); ok {
						if len(call.Args) == 0 {
							return nil, fmt.Errorf("%s: %s without arguments", pos(call), ctor)
						}
						if s, ok := strLit(call.Args[0]); ok {
							out = append(out, Script{Name: name, Pkg: pkg, File: rel, Ctor: ctor, Text: s})
							claimed[call.Args[0].(*ast.BasicLit)] = true
							known[name] = true
						}
					}
				}
			}
		}
	}
	// 2. every NewLuaScript* call: literal (claimed above) or an identifier that resolves to known constants
	var ferr error
	ast.Inspect(file, func(n ast.Node) bool {
		if ferr != nil {
			return false
		}
		fd, ok := n.(*ast.FuncDecl)
		if !ok || fd.Body == nil {
			return true
		}
		// local string variables assigned only from known constants
		locals := map[string][]ast.Expr{}
		ast.Inspect(fd.Body, func(m ast.Node) bool {
			switch x := m.(type) {
			case *ast.AssignStmt:
				if len(x.Lhs) == len(x.Rhs) {
					for i, l := range x.Lhs {
						if id, ok := l.(*ast.Ident); ok {
							locals[id.Name] = append(locals[id.Name], x.Rhs[i])
						}
					}
				}
			case *ast.ValueSpec:
				for i, nm := range x.Names {
					if i < len(x.Values) {
						locals[nm.Name] = append(locals[nm.Name], x.Values[i])
					}
				}
			}
			return true
		})
		ast.Inspect(fd.Body, func(m ast.Node) bool {
			call, ok := m.(*ast.CallExpr)
			if !ok {
				return true
			}
			ctor, ok := ctorName(call)
			if !ok {
				return true
			}
			if fd.Name.Name == "newLuaScript" || strings.HasPrefix(fd.Name.Name, "NewLuaScript") {
				return true // the constructors themselves (lua.go)
			}
			if len(call.Args) == 0 {
				ferr = fmt.Errorf("%s: %s without arguments", pos(call), ctor)
				return false
			}
			switch a := call.Args[0].(type) {
			case *ast.BasicLit:
				if !claimed[a] {
					ferr = fmt.Errorf("%s: %s with a literal that is not bound to a package-level name (unrecognised shape)", pos(call), ctor)
				}
			case *ast.Ident:
				if known[a.Name] {
					return true
				}
				srcs, ok := locals[a.Name]
				if !ok || len(srcs) == 0 {
					ferr = fmt.Errorf("%s: %s(%s): argument is not a known script constant", pos(call), ctor, a.Name)
					return false
				}
				for _, e := range srcs {
					id, ok := e.(*ast.Ident)
					if !ok || !known[id.Name] {
						ferr = fmt.Errorf("%s: %s(%s): local variable is assigned something other than a known script constant", pos(call), ctor, a.Name)
						return false
					}
				}
			default:
				ferr = fmt.Errorf("%s: %s with an argument of unrecognised shape", pos(call), ctor)
			}
			return true
		})
		return false
	})
	if ferr != nil {
		return nil, ferr
	}
	// 3. no Lua-looking literal may be left unclaimed
	ast.Inspect(file, func(n ast.Node) bool {
		if bl, ok := n.(*ast.BasicLit); ok && bl.Kind == token.STRING && !claimed[bl] {
			if s, err := strconv.Unquote(bl.Value); err == nil && looksLua(s) {
				ferr = fmt.Errorf("%s: Lua-looking string literal in an unrecognised position", pos(bl))
			}
		}
		return ferr == nil
	})
	if ferr != nil {
		return nil, ferr
	}
	return out, nil
}

// RepoDir is the repository under test: $VERIF_REPO or /repo.
func RepoDir() string {
	if d := os.Getenv("VERIF_REPO"); d != "" {
		return d
	}
	return "/repo"
}
