// Package luaobs holds what the observers of the scripting family share: a fake server with the
// scripting engine and a real client connected to it, and Gallina printers.
package luaobs

import (
	"strconv"
	"strings"
	"time"

	"github.com/redis/rueidis"

	"verifharness/fakeredis"
	"verifharness/fakeredis/scripting"
	"verifharness/obs"
)

type Env struct {
	S *fakeredis.Server
	E *scripting.Engine
	C rueidis.Client
}

// New starts a one-node fake server with scripting and connects a real single client to it
// (retries disabled: every command is sent at most once; client-side caching off).
func New(resp2 bool) (*Env, error) {
	s := fakeredis.New()
	s.NoHello = resp2
	e := scripting.Install(s)
	c, err := rueidis.NewClient(rueidis.ClientOption{
		InitAddress: []string{"127.0.0.1:6379"}, DialCtxFn: s.Dial, ForceSingleClient: true,
		DisableCache: true, DisableRetry: true, ConnWriteTimeout: 10 * time.Second, PipelineMultiplex: -1,
	})
	if err != nil {
		return nil, err
	}
	return &Env{S: s, E: e, C: c}, nil
}

func (v *Env) Close() { v.C.Close() }

// RunsSince returns the script runs with index >= n.
func (v *Env) RunsSince(n int) []scripting.Run {
	rs := v.E.Runs()
	if n >= len(rs) {
		return nil
	}
	return rs[n:]
}

// NumList prints decimal strings as a Gallina list of N; ok=false when one is not a decimal number.
func NumList(ss []string) (string, bool) {
	out := make([]string, len(ss))
	for i, s := range ss {
		if _, err := strconv.ParseUint(s, 10, 64); err != nil {
			return "", false
		}
		out[i] = s
	}
	return obs.List(out), true
}

func Bools(bs []bool) string {
	out := make([]string, len(bs))
	for i, b := range bs {
		out[i] = obs.Bool(b)
	}
	return obs.List(out)
}

func Keys(ks []string) string {
	out := make([]string, len(ks))
	for i, k := range ks {
		out[i] = obs.HS(k)
	}
	return obs.List(out)
}

func Pair(a, b string) string { return "(" + a + ", " + b + ")" }

func Join(parts ...string) string { return strings.Join(parts, " ") }
