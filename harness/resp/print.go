// Package resp holds the helpers shared by the observers of the RESP wire-format family
// (obs_respwrite, obs_cachecodec, obs_resp): Gallina printers for long byte strings, an independent
// RESP encoder, value-tree generators and chunking readers.
package resp

import (
	"encoding/hex"
	"strings"
)

// MaxCoqBytes is the total number of payload bytes one Gallina case term may embed; larger cases are
// run on the implementation and judged by the direct oracle only (coqc needs ~0.2 ms per literal byte
// and overflows its stack on string literals beyond ~16k characters).
const MaxCoqBytes = 12000

// HB prints a byte string as (h "hex") or, when long, as (hcat [h "…"; h "…"]) with chunks of 1500 bytes
// (RV.Model.RespBase.hcat = List.concat).
func HB(b []byte) string {
	const chunk = 1500
	if len(b) <= chunk {
		return `(h "` + hex.EncodeToString(b) + `")`
	}
	var sb strings.Builder
	sb.WriteString("(hcat [")
	for i := 0; i < len(b); i += chunk {
		j := i + chunk
		if j > len(b) {
			j = len(b)
		}
		if i > 0 {
			sb.WriteString("; ")
		}
		sb.WriteString(`h "` + hex.EncodeToString(b[i:j]) + `"`)
	}
	sb.WriteString("])")
	return sb.String()
}
