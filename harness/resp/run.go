package resp

import (
	"bufio"
	"bytes"
	"encoding/hex"
	"encoding/json"
	"errors"
	"fmt"
	"io"
	"os"
	"os/exec"
	"runtime"
	"strings"
	"syscall"

	"github.com/redis/rueidis"
)

// ChunkReader hands out the data in pieces of the given sizes (cycled); io.EOF at the end.
type ChunkReader struct {
	Data  []byte
	Pos   int
	Sizes []int
	k     int
}

func (c *ChunkReader) Read(p []byte) (int, error) {
	if c.Pos >= len(c.Data) {
		return 0, io.EOF
	}
	n := len(p)
	if len(c.Sizes) > 0 {
		if s := c.Sizes[c.k%len(c.Sizes)]; s > 0 && s < n {
			n = s
		}
		c.k++
	}
	if rest := len(c.Data) - c.Pos; n > rest {
		n = rest
	}
	copy(p, c.Data[c.Pos:c.Pos+n])
	c.Pos += n
	return n, nil
}

// Error codes shared with the Gallina model (Resp.e*).
const (
	EEOF           = 1
	EUnexpectedEOF = 2
	EBufferFull    = 3
	ENoCRLF        = 4
	ENumByte       = 5
	EUnknownType   = 6
	EChunked       = 7
	ENegativeCount = 8
	EBadLength     = 9
	EOther         = 90
)

func ErrCode(err error) int {
	switch {
	case err == io.EOF:
		return EEOF
	case err == io.ErrUnexpectedEOF:
		return EUnexpectedEOF
	case err == bufio.ErrBufferFull:
		return EBufferFull
	case err == bufio.ErrNegativeCount:
		return ENegativeCount
	case rueidis.VerifIsChunked(err):
		return EChunked
	}
	s := err.Error()
	switch {
	case s == "received unexpected simple string message ending without CRLF":
		return ENoCRLF
	case strings.HasPrefix(s, "received unexpected number byte: "):
		return ENumByte
	case strings.HasPrefix(s, "received unknown message type: "):
		return EUnknownType
	case strings.HasPrefix(s, "received unexpected length: "):
		return EBadLength
	}
	return EOther
}

// Outcome of one decode of one input.
type Outcome struct {
	Status   string `json:"status"` // ok | err | panic | fatal
	Err      int    `json:"err,omitempty"`
	ErrText  string `json:"errtext,omitempty"`
	Tree     *Tree  `json:"tree,omitempty"`
	Consumed int    `json:"consumed"`
	Alloc    uint64 `json:"alloc"`
}

func (o Outcome) Key() string {
	t := ""
	if o.Tree != nil {
		t = o.Tree.Coq()
	}
	return fmt.Sprint(o.Status, o.Err, o.Consumed, t)
}

// Decode runs the real readNextMessage once on input through a bufio.Reader of the given size over a
// reader delivering the given chunk sizes, under recover(), measuring the bytes allocated meanwhile.
func Decode(input []byte, bufSize int, sizes []int) (o Outcome) {
	cr := &ChunkReader{Data: input, Sizes: sizes}
	rd := bufio.NewReaderSize(cr, bufSize)
	var ms0, ms1 runtime.MemStats
	runtime.ReadMemStats(&ms0)
	defer func() {
		if p := recover(); p != nil {
			runtime.ReadMemStats(&ms1)
			o = Outcome{Status: "panic", ErrText: fmt.Sprint(p), Alloc: ms1.TotalAlloc - ms0.TotalAlloc, Consumed: cr.Pos - rd.Buffered()}
		}
	}()
	m, err := rueidis.VerifReadNextMessage(rd)
	runtime.ReadMemStats(&ms1)
	o.Alloc = ms1.TotalAlloc - ms0.TotalAlloc
	o.Consumed = cr.Pos - rd.Buffered()
	if err != nil {
		o.Status, o.Err, o.ErrText = "err", ErrCode(err), err.Error()
		return
	}
	t := FromMsg(&m)
	o.Status, o.Tree = "ok", &t
	return
}

// StreamOutcome of one streamTo call.
type StreamOutcome struct {
	Status   string `json:"status"` // ok | nil | rediserr | err | panic
	Err      int    `json:"err,omitempty"`
	ErrText  string `json:"errtext,omitempty"`
	N        int64  `json:"n"`
	Clean    bool   `json:"clean"`
	Written  []byte `json:"written,omitempty"`
	Consumed int    `json:"consumed"`
	RedisErr *Tree  `json:"rediserr,omitempty"`
}

// LimitWriter accepts Budget bytes and then fails with a short write (Budget < 0: never fails).
type LimitWriter struct {
	Buf    bytes.Buffer
	Budget int
}

var ErrWriter = errors.New("verif: writer failed")

func (w *LimitWriter) Write(p []byte) (int, error) {
	if w.Budget < 0 {
		return w.Buf.Write(p)
	}
	if len(p) <= w.Budget {
		w.Budget -= len(p)
		return w.Buf.Write(p)
	}
	n := w.Budget
	w.Buf.Write(p[:n])
	w.Budget = 0
	return n, ErrWriter
}

const (
	EStreamUnsupported = 20
	EWriter            = 21
)

// Stream runs the real streamTo once.
func Stream(input []byte, bufSize int, sizes []int, budget int) (o StreamOutcome, after []byte) {
	cr := &ChunkReader{Data: input, Sizes: sizes}
	rd := bufio.NewReaderSize(cr, bufSize)
	w := &LimitWriter{Budget: budget}
	defer func() {
		if p := recover(); p != nil {
			o = StreamOutcome{Status: "panic", ErrText: fmt.Sprint(p)}
		}
	}()
	n, err, clean := rueidis.VerifStreamTo(rd, w)
	o.N, o.Clean = n, clean
	o.Written = append([]byte(nil), w.Buf.Bytes()...)
	o.Consumed = cr.Pos - rd.Buffered()
	switch {
	case err == nil:
		o.Status = "ok"
	case rueidis.VerifIsNilErr(err):
		o.Status = "nil"
	default:
		if re, ok := err.(*rueidis.RedisError); ok {
			t := FromMsg(rueidis.VerifRedisErrorMsg(re))
			o.Status, o.RedisErr = "rediserr", &t
		} else if err == ErrWriter {
			o.Status, o.Err = "err", EWriter
		} else if strings.HasPrefix(err.Error(), "unsupported redis ") {
			o.Status, o.Err, o.ErrText = "err", EStreamUnsupported, err.Error()
		} else {
			o.Status, o.Err, o.ErrText = "err", ErrCode(err), err.Error()
		}
	}
	// what a following read on the same connection sees (recycling depends on it)
	rest, _ := io.ReadAll(rd)
	return o, rest
}

// ---- sandbox for inputs that declare huge lengths -------------------------------------------------

// Risky reports whether the input contains a decimal numeral far larger than the input itself: on a
// decoder that trusts declared lengths such an input may try to allocate that much.
func Risky(input []byte) bool {
	limit := uint64(len(input)) + 1<<16
	i := 0
	for i < len(input) {
		if input[i] < '0' || input[i] > '9' {
			i++
			continue
		}
		var v uint64
		n := 0
		for i < len(input) && input[i] >= '0' && input[i] <= '9' {
			if n < 19 {
				v = v*10 + uint64(input[i]-'0')
			}
			n++
			i++
		}
		if n >= 19 || v > limit {
			return true
		}
	}
	return false
}

type childReq struct {
	Input string `json:"input"` // hex; followed by Count copies of Pat (hex)
	Pat   string `json:"pat,omitempty"`
	Count int    `json:"count,omitempty"`
	Buf   int    `json:"buf"`
	Sizes []int  `json:"sizes"`
}

// ChildMain is the entry of the sandbox child: address space limited, one decode, JSON outcome on stdout.
func ChildMain() {
	lim := &syscall.Rlimit{Cur: 4 << 30, Max: 4 << 30}
	_ = syscall.Setrlimit(syscall.RLIMIT_AS, lim)
	var rq childReq
	if err := json.NewDecoder(os.Stdin).Decode(&rq); err != nil {
		fmt.Fprintln(os.Stderr, "child: bad request:", err)
		os.Exit(3)
	}
	in, _ := hex.DecodeString(rq.Input)
	if rq.Count > 0 {
		pat, _ := hex.DecodeString(rq.Pat)
		in = append(in, bytes.Repeat(pat, rq.Count)...)
	}
	o := Decode(in, rq.Buf, rq.Sizes)
	_ = json.NewEncoder(os.Stdout).Encode(o)
}

// DecodeSandboxed runs Decode in a child process whose address space is limited to 4 GiB: an attempt
// to allocate a declared length of gigabytes kills the child (Status "fatal") instead of the machine.
func DecodeSandboxed(input []byte, bufSize int, sizes []int) Outcome {
	return DecodeSandboxedBig(input, nil, 0, bufSize, sizes)
}

// DecodeSandboxedBig decodes prefix followed by count copies of pat (built inside the child).
func DecodeSandboxedBig(prefix, pat []byte, count int, bufSize int, sizes []int) Outcome {
	rq, _ := json.Marshal(childReq{Input: hex.EncodeToString(prefix), Pat: hex.EncodeToString(pat), Count: count, Buf: bufSize, Sizes: sizes})
	cmd := exec.Command(os.Args[0], "-resp-child")
	cmd.Stdin = bytes.NewReader(rq)
	var out, errb bytes.Buffer
	cmd.Stdout, cmd.Stderr = &out, &errb
	err := cmd.Run()
	var o Outcome
	if err == nil && json.Unmarshal(out.Bytes(), &o) == nil {
		return o
	}
	msg := errb.String()
	if len(msg) > 300 {
		msg = msg[:300]
	}
	return Outcome{Status: "fatal", ErrText: fmt.Sprint(err, ": ", msg)}
}
