package resp

// Deterministic boundary inputs: every length-carrying type byte with the length values at which int64
// arithmetic, the 32-bit boundaries or the amount of data that follows could matter.  They are run on
// every check (first cases of obs_resp / obs_respstream), so that a model / implementation disagreement
// at such a boundary cannot depend on the seed.

// BoundaryTail follows every header: 5 payload bytes and CRLF (7 bytes remain on the stream).
var BoundaryTail = []byte("abcde\r\n")

var boundaryLens = []string{
	"9223372036854775807", "9223372036854775806", "9223372036854775805", "9223372036854775804",
	"9223372036854775808", "18446744073709551615", "18446744073709551616",
	"4611686018427387903", "4611686018427387904", "4611686018427387905",
	"2147483647", "2147483648", "2147483649", "4294967295", "4294967296", "4294967297",
	"-1", "-2", "-3", "-9223372036854775808", "0",
	"3", "4", "5", "6", "7", "8", "9",
}

// LengthTypes are the type bytes that are followed by a length.
var LengthTypes = []byte{'$', '=', '!', ';', '*', '%', '~', '>', '|'}

type Boundary struct {
	Name  string
	Input []byte
	Typ   byte
	Len   string
	Chunk bool // the length is that of a chunk inside a streamed string
}

func Boundaries() []Boundary {
	var out []Boundary
	for _, t := range LengthTypes {
		for _, l := range boundaryLens {
			in := append([]byte{t}, l...)
			in = append(in, '\r', '\n')
			in = append(in, BoundaryTail...)
			out = append(out, Boundary{Name: string(t) + l, Input: in, Typ: t, Len: l})
		}
	}
	for _, l := range boundaryLens {
		in := append([]byte("$?\r\n;"), l...)
		in = append(in, '\r', '\n')
		in = append(in, BoundaryTail...)
		in = append(in, ";0\r\n"...)
		out = append(out, Boundary{Name: "$?;" + l, Input: in, Typ: '$', Len: l, Chunk: true})
	}
	return out
}

// MidRange reports whether a decoder that trusts the length would try to allocate between 1 MiB and the
// runtime's limit for it (such inputs are only given to a sandboxed decoder).
func (b Boundary) MidRange() bool {
	if len(b.Len) == 0 || b.Len[0] == '-' {
		return false
	}
	return len(b.Len) >= 7 && len(b.Len) <= 18
}

// Big is an input that declares a length far above what follows, with a LONG real prefix: Prefix (the
// header) followed by Count copies of Pat.  The real part sits at and around the steps at which the
// decoder doubles its buffers (64 KiB, 128 KiB, ... for payloads; 16, 32, ... for elements).
type Big struct {
	Name   string
	Prefix []byte
	Pat    []byte
	Count  int
	Heavy  bool // >= 1 MiB: expensive for the model evaluation inside coqc
	Model  bool // quick tier: also evaluate the Coq model on this one (thorough: on all)
}

func (b Big) Len() int { return len(b.Prefix) + len(b.Pat)*b.Count }

// Bigs lists the family; full = every doubling boundary +-1 up to 4 MiB (thorough tier).
func Bigs(full bool) []Big {
	var out []Big
	kib := 1 << 10
	reals := []int{64*kib - 1, 64 * kib, 64*kib + 1, 128 * kib, 128*kib + 1, 1024*kib - 1, 1024 * kib, 1024*kib + 1}
	if full {
		reals = nil
		for b := 64 * kib; b <= 4096*kib; b *= 2 {
			reals = append(reals, b-1, b, b+1)
		}
	}
	decl := func(real int) []string {
		return []string{"9223372036854775807", "100000000000", "134217728", itoa(real + 1)}
	}
	for _, t := range []byte{'$', '=', '!'} {
		for _, real := range reals {
			for di, d := range decl(real) {
				if !full && t != '$' && di != 0 && real != 1024*kib+1 && real != 64*kib+1 {
					continue // quick tier: all declared lengths only at two sizes for = and !
				}
				model := (t == '$' && di == 0 && (real < 1000*kib || real == 1024*kib+1)) || real == 64*kib+1
				out = append(out, Big{Name: string(t) + d + "+" + itoa(real), Prefix: []byte(string(t) + d + "\r\n"), Pat: []byte{'a'}, Count: real, Heavy: real >= 1000*kib, Model: model})
			}
		}
	}
	if !full { // the steps above 1 MiB once each
		for _, real := range []int{2048*kib + 1, 4096*kib + 1} {
			out = append(out, Big{Name: "$max+" + itoa(real), Prefix: []byte("$9223372036854775807\r\n"), Pat: []byte{'a'}, Count: real, Heavy: true})
		}
	}
	// a chunk of a streamed string
	for _, real := range []int{64*kib + 1, 1024*kib + 1} {
		for _, d := range []string{"9223372036854775807", "134217728"} {
			out = append(out, Big{Name: "$?;" + d + "+" + itoa(real), Prefix: []byte("$?\r\n;" + d + "\r\n"), Pat: []byte{'a'}, Count: real, Heavy: real >= 1000*kib, Model: real < 1000*kib})
		}
	}
	// aggregates with many real elements
	for _, t := range []byte{'*', '%', '~', '>', '|'} {
		for _, n := range []int{15, 16, 17, 33, 1025, 4097} {
			for _, d := range []string{"4611686018427387903", "100000000000", itoa(n + 1)} {
				out = append(out, Big{Name: string(t) + d + "x" + itoa(n), Prefix: []byte(string(t) + d + "\r\n"), Pat: []byte("_\r\n"), Count: n, Model: n < 4097 || t == '*'})
			}
		}
	}
	return out
}

func itoa(i int) string {
	if i == 0 {
		return "0"
	}
	neg := i < 0
	if neg {
		i = -i
	}
	var b []byte
	for i > 0 {
		b = append([]byte{byte('0' + i%10)}, b...)
		i /= 10
	}
	if neg {
		b = append([]byte{'-'}, b...)
	}
	return string(b)
}
