package resp

// Deterministic boundary inputs: every length-carrying type byte with the length values at which int64
// arithmetic, the 32-bit boundaries or the amount of data that follows could matter.  They are run on
// every check (first cases of obs_resp / obs_respstream), so that a model / implementation disagreement
// at such a boundary cannot depend on the seed.

// BoundaryTail follows every header: 5 payload bytes and CRLF (7 bytes remain on the stream).
var BoundaryTail = []byte("abcde\r\n")

var boundaryLens = []string{
	"9223372036854775807", "9223372036854775806", "9223372036854775805", "9223372036854775804",
	"9223372036854775808", "18446744073709551615", "18446744073709551616",
	"4611686018427387903", "4611686018427387904", "4611686018427387905",
	"2147483647", "2147483648", "2147483649", "4294967295", "4294967296", "4294967297",
	"-1", "-2", "-3", "-9223372036854775808", "0",
	"3", "4", "5", "6", "7", "8", "9",
}

// LengthTypes are the type bytes that are followed by a length.
var LengthTypes = []byte{'$', '=', '!', ';', '*', '%', '~', '>', '|'}

type Boundary struct {
	Name  string
	Input []byte
	Typ   byte
	Len   string
	Chunk bool // the length is that of a chunk inside a streamed string
}

func Boundaries() []Boundary {
	var out []Boundary
	for _, t := range LengthTypes {
		for _, l := range boundaryLens {
			in := append([]byte{t}, l...)
			in = append(in, '\r', '\n')
			in = append(in, BoundaryTail...)
			out = append(out, Boundary{Name: string(t) + l, Input: in, Typ: t, Len: l})
		}
	}
	for _, l := range boundaryLens {
		in := append([]byte("$?\r\n;"), l...)
		in = append(in, '\r', '\n')
		in = append(in, BoundaryTail...)
		in = append(in, ";0\r\n"...)
		out = append(out, Boundary{Name: "$?;" + l, Input: in, Typ: '$', Len: l, Chunk: true})
	}
	return out
}

// MidRange reports whether a decoder that trusts the length would try to allocate between 1 MiB and the
// runtime's limit for it (such inputs are only given to a sandboxed decoder).
func (b Boundary) MidRange() bool {
	if len(b.Len) == 0 || b.Len[0] == '-' {
		return false
	}
	return len(b.Len) >= 7 && len(b.Len) <= 18
}
