package resp

import (
	"bytes"
	"strconv"
	"strings"

	"github.com/redis/rueidis"
)

// Tree is the harness' own picture of a RedisMessage (the Gallina type RespMsg.msg).
type Tree struct {
	Typ   byte   `json:"t"`
	Str   []byte `json:"s,omitempty"`
	Int   int64  `json:"i,omitempty"`
	Arr   []Tree `json:"a,omitempty"`
	Attrs *Tree  `json:"at,omitempty"`
}

// FromMsg projects a real RedisMessage: typ, string(), intlen, values(), attrs (the cache mark is not an attribute).
func FromMsg(m *rueidis.RedisMessage) Tree {
	t := Tree{Typ: rueidis.VerifMsgTyp(m), Int: rueidis.VerifMsgIntlen(m)}
	if rueidis.VerifMsgHasBytes(m) {
		t.Str = []byte(rueidis.VerifMsgString(m))
	}
	if rueidis.VerifMsgHasArray(m) {
		vs := rueidis.VerifMsgValues(m)
		t.Arr = make([]Tree, len(vs))
		for i := range vs {
			t.Arr[i] = FromMsg(&vs[i])
		}
	}
	if a := rueidis.VerifMsgAttrs(m); a != nil {
		at := FromMsg(a)
		t.Attrs = &at
	}
	return t
}

func IsIntLike(t byte) bool { return t == ':' || t == '_' || t == '#' }
func IsAgg(t byte) bool     { return t == '*' || t == '%' || t == '~' }

// ToMsg builds a real RedisMessage the way the readers do (strmsg / slicemsg / integer literal).
func (t Tree) ToMsg() rueidis.RedisMessage {
	switch {
	case IsIntLike(t.Typ):
		return rueidis.VerifIntMsg(t.Typ, t.Int)
	case IsAgg(t.Typ) || ((t.Typ == '>' || t.Typ == '|') && t.Str == nil):
		vs := make([]rueidis.RedisMessage, len(t.Arr))
		for i := range t.Arr {
			vs[i] = t.Arr[i].ToMsg()
		}
		return rueidis.VerifSliceMsg(t.Typ, vs)
	default:
		return rueidis.VerifStrMsg(t.Typ, string(t.Str))
	}
}

func (t Tree) Equal(o Tree) bool {
	if t.Typ != o.Typ || t.Int != o.Int || !bytes.Equal(t.Str, o.Str) || len(t.Arr) != len(o.Arr) {
		return false
	}
	for i := range t.Arr {
		if !t.Arr[i].Equal(o.Arr[i]) {
			return false
		}
	}
	if (t.Attrs == nil) != (o.Attrs == nil) {
		return false
	}
	return t.Attrs == nil || t.Attrs.Equal(*o.Attrs)
}

// Bytes is the number of payload bytes a Gallina rendering of the tree embeds.
func (t Tree) Bytes() int {
	n := len(t.Str) + 8
	for i := range t.Arr {
		n += t.Arr[i].Bytes()
	}
	if t.Attrs != nil {
		n += t.Attrs.Bytes()
	}
	return n
}

func (t Tree) Nodes() int {
	n := 1
	for i := range t.Arr {
		n += t.Arr[i].Nodes()
	}
	if t.Attrs != nil {
		n += t.Attrs.Nodes()
	}
	return n
}

func (t Tree) Depth() int {
	d := 0
	for i := range t.Arr {
		if x := t.Arr[i].Depth(); x > d {
			d = x
		}
	}
	if t.Attrs != nil {
		if x := t.Attrs.Depth(); x > d {
			d = x
		}
	}
	return d + 1
}

func zlit(i int64) string {
	if i < 0 {
		return "(" + strconv.FormatInt(i, 10) + ")%Z"
	}
	return strconv.FormatInt(i, 10) + "%Z"
}

// Coq prints the tree as a term of type RespMsg.msg.
func (t Tree) Coq() string {
	var sb strings.Builder
	t.coq(&sb)
	return sb.String()
}

func (t Tree) coq(sb *strings.Builder) {
	sb.WriteString("(Msg ")
	sb.WriteString(strconv.Itoa(int(t.Typ)))
	sb.WriteByte(' ')
	if len(t.Str) == 0 {
		sb.WriteString("[]")
	} else {
		sb.WriteString(HB(t.Str))
	}
	sb.WriteByte(' ')
	sb.WriteString(zlit(t.Int))
	sb.WriteString(" [")
	for i := range t.Arr {
		if i > 0 {
			sb.WriteString("; ")
		}
		t.Arr[i].coq(sb)
	}
	sb.WriteString("] ")
	if t.Attrs == nil {
		sb.WriteString("None")
	} else {
		sb.WriteString("(Some ")
		t.Attrs.coq(sb)
		sb.WriteString(")")
	}
	sb.WriteString(")")
}

func Z(i int64) string { return zlit(i) }
