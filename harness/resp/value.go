package resp

import (
	"strconv"
	"strings"

	"verifharness/gen"
)

// V is a RESP value tree together with the encoding choice of every node (the Gallina type RespSpec.rv).
//
//	K = "blob"   T in $ ! =      S payload                      <T><len>\r\n<S>\r\n
//	K = "sblob"  T in $ ! =      Chunks (all non-empty)         <T>?\r\n(;<len>\r\n<chunk>\r\n)*;0\r\n
//	K = "line"   T in + - , (    S without LF                   <T><S>\r\n
//	K = "int"                    I                              :<I>\r\n
//	K = "bool"                   I in 0 1                       #t\r\n | #f\r\n
//	K = "null"   T in _ $ ! = * ~ >                             _\r\n | <T>-1\r\n
//	K = "agg"    T in * ~ > %    L elements, Streamed           <T><n>\r\n…  |  <T>?\r\n….\r\n   (n = len/2 for %)
//	K = "attr"   L key/values, Streamed, X the value            |<n>\r\n…<X>
type V struct {
	K        string   `json:"k"`
	T        byte     `json:"t,omitempty"`
	S        []byte   `json:"s,omitempty"`
	Chunks   [][]byte `json:"c,omitempty"`
	I        int64    `json:"i,omitempty"`
	L        []V      `json:"l,omitempty"`
	Streamed bool     `json:"st,omitempty"`
	X        *V       `json:"x,omitempty"`
}

func crlf(b []byte) []byte { return append(b, '\r', '\n') }

// Enc is the harness' own encoder (independent of resp.go and of the Coq encoder).
func (v V) Enc(b []byte) []byte {
	switch v.K {
	case "blob":
		b = append(b, v.T)
		b = crlf(strconv.AppendInt(b, int64(len(v.S)), 10))
		b = append(b, v.S...)
		return crlf(b)
	case "sblob":
		b = crlf(append(b, v.T, '?'))
		for _, c := range v.Chunks {
			b = append(b, ';')
			b = crlf(strconv.AppendInt(b, int64(len(c)), 10))
			b = crlf(append(b, c...))
		}
		return crlf(append(b, ';', '0'))
	case "line":
		b = append(b, v.T)
		return crlf(append(b, v.S...))
	case "int":
		b = append(b, ':')
		return crlf(strconv.AppendInt(b, v.I, 10))
	case "bool":
		if v.I != 0 {
			return crlf(append(b, '#', 't'))
		}
		return crlf(append(b, '#', 'f'))
	case "null":
		if v.T == '_' {
			return crlf(append(b, '_'))
		}
		return crlf(append(b, v.T, '-', '1'))
	case "agg":
		return encAgg(b, v.T, v.Streamed, v.L)
	case "attr":
		b = encAgg(b, '|', v.Streamed, v.L)
		return v.X.Enc(b)
	}
	panic("bad kind " + v.K)
}

func encAgg(b []byte, t byte, streamed bool, l []V) []byte {
	b = append(b, t)
	if streamed {
		b = crlf(append(b, '?'))
	} else {
		n := len(l)
		if t == '%' || t == '|' {
			n /= 2
		}
		b = crlf(strconv.AppendInt(b, int64(n), 10))
	}
	for _, e := range l {
		b = e.Enc(b)
	}
	if streamed {
		b = crlf(append(b, '.'))
	}
	return b
}

// Abs is the message the decoder is expected to produce (RespSpec.abs).
func (v V) Abs() Tree {
	switch v.K {
	case "blob":
		return Tree{Typ: v.T, Str: v.S, Int: int64(len(v.S))}
	case "sblob":
		var s []byte
		for _, c := range v.Chunks {
			s = append(s, c...)
		}
		return Tree{Typ: v.T, Str: s, Int: int64(len(s))}
	case "line":
		return Tree{Typ: v.T, Str: v.S, Int: int64(len(v.S))}
	case "int":
		return Tree{Typ: ':', Int: v.I}
	case "bool":
		return Tree{Typ: '#', Int: v.I}
	case "null":
		return Tree{Typ: '_'}
	case "agg":
		return absAgg(v.T, v.L)
	case "attr":
		t := v.X.Abs()
		a := absAgg('|', v.L)
		t.Attrs = &a
		return t
	}
	panic("bad kind " + v.K)
}

func absAgg(t byte, l []V) Tree {
	r := Tree{Typ: t, Int: int64(len(l)), Arr: make([]Tree, len(l))}
	for i := range l {
		r.Arr[i] = l[i].Abs()
	}
	return r
}

// Payload is what a streaming read of the value writes (nil, false when the value is not streamable).
func (v V) Payload() ([]byte, bool) {
	switch v.K {
	case "blob", "line":
		if v.T == '-' || v.T == '!' {
			return nil, false
		}
		return v.S, true
	case "sblob":
		if v.T == '!' {
			return nil, false
		}
		return v.Abs().Str, true
	case "int", "bool":
		return []byte(strconv.FormatInt(v.I, 10)), true
	}
	return nil, false
}

func (v V) Bytes() int {
	n := len(v.S) + 4
	for _, c := range v.Chunks {
		n += len(c) + 2
	}
	for i := range v.L {
		n += v.L[i].Bytes()
	}
	if v.X != nil {
		n += v.X.Bytes()
	}
	return n
}

func (v V) Depth() int {
	d := 0
	for i := range v.L {
		if x := v.L[i].Depth(); x > d {
			d = x
		}
	}
	if v.X != nil {
		if x := v.X.Depth(); x > d {
			d = x
		}
	}
	return d + 1
}

// Coq prints the value as a term of type RespSpec.rv.
func (v V) Coq() string {
	var sb strings.Builder
	v.coq(&sb)
	return sb.String()
}

func hb(b []byte) string {
	if len(b) == 0 {
		return "[]"
	}
	return HB(b)
}

func (v V) coq(sb *strings.Builder) {
	list := func(l []V) {
		sb.WriteString("[")
		for i := range l {
			if i > 0 {
				sb.WriteString("; ")
			}
			l[i].coq(sb)
		}
		sb.WriteString("]")
	}
	b := func(x bool) string {
		if x {
			return "true"
		}
		return "false"
	}
	switch v.K {
	case "blob":
		sb.WriteString("(VBlob " + strconv.Itoa(int(v.T)) + " " + hb(v.S) + ")")
	case "sblob":
		sb.WriteString("(VBlobStream " + strconv.Itoa(int(v.T)) + " [")
		for i, c := range v.Chunks {
			if i > 0 {
				sb.WriteString("; ")
			}
			sb.WriteString(hb(c))
		}
		sb.WriteString("])")
	case "line":
		sb.WriteString("(VLine " + strconv.Itoa(int(v.T)) + " " + hb(v.S) + ")")
	case "int":
		sb.WriteString("(VInt " + zlit(v.I) + ")")
	case "bool":
		sb.WriteString("(VBool " + b(v.I != 0) + ")")
	case "null":
		sb.WriteString("(VNull " + strconv.Itoa(int(v.T)) + ")")
	case "agg":
		sb.WriteString("(VAgg " + strconv.Itoa(int(v.T)) + " " + b(v.Streamed) + " ")
		list(v.L)
		sb.WriteString(")")
	case "attr":
		sb.WriteString("(VAttr ")
		list(v.L)
		sb.WriteString(" " + b(v.Streamed) + " ")
		v.X.coq(sb)
		sb.WriteString(")")
	}
}

// ---- generators -----------------------------------------------------------------------------------

// Payload sizes skewed to 0, 1 and the reader's buffer sizes +-1.
func genPayload(r *gen.Rand, marks []int) []byte {
	n := r.Size(300, marks...)
	return r.Bytes(n)
}

func noLF(b []byte) []byte {
	for i := range b {
		if b[i] == '\n' {
			b[i] = '\r' // CR alone is allowed inside a simple string by the reader
		}
	}
	return b
}

var intPool = []int64{0, 1, -1, 9, 10, -10, 99, 100, 1<<31 - 1, -(1 << 31), 1<<63 - 1, -(1 << 63), -(1<<63 - 1), 1 << 62}

// GenScalar generates a non-aggregate value.
func GenScalar(r *gen.Rand, marks []int) V {
	switch r.Intn(14) {
	case 0, 1, 2:
		return V{K: "blob", T: gen.Pick(r, []byte{'$', '$', '$', '!', '='}), S: genPayload(r, marks)}
	case 3:
		n := r.Range(1, 4)
		v := V{K: "sblob", T: gen.Pick(r, []byte{'$', '$', '=', '!'})}
		for i := 0; i < n; i++ {
			c := genPayload(r, marks)
			if len(c) == 0 {
				c = []byte{byte(r.Intn(256))}
			}
			v.Chunks = append(v.Chunks, c)
		}
		if r.Chance(1, 6) {
			v.Chunks = nil // $?\r\n;0\r\n
		}
		return v
	case 4, 5:
		s := noLF(genPayload(r, marks))
		switch r.Intn(6) {
		case 0:
			s = []byte("OK")
		case 1:
			s = []byte("OK\r") // the OK fast path must not fire
		case 2:
			s = []byte("O")
		}
		return V{K: "line", T: gen.Pick(r, []byte{'+', '+', '-'}), S: s}
	case 6:
		return V{K: "line", T: ',', S: []byte(gen.Pick(r, []string{"1.5", "-0", "inf", "-inf", "nan", "3.141592653589793", "1e300", "OK"}))}
	case 7:
		return V{K: "line", T: '(', S: []byte(gen.Pick(r, []string{"0", "-1", "3492890328409238509324850943850943825024385", "OK"}))}
	case 8, 9:
		i := gen.Pick(r, intPool)
		if r.Bool() {
			i = int64(r.U64() >> uint(r.Intn(64)))
			if r.Bool() {
				i = -i
			}
		}
		return V{K: "int", I: i}
	case 10:
		return V{K: "bool", I: int64(r.Intn(2))}
	default:
		return V{K: "null", T: gen.Pick(r, []byte{'_', '_', '_', '$', '*', '!', '=', '~', '>'})}
	}
}

// GenValue generates a value tree of at most the given depth; budget bounds the number of nodes.
func GenValue(r *gen.Rand, depth int, budget *int, marks []int) V {
	*budget--
	if depth <= 0 || *budget <= 0 || r.Chance(2, 5) {
		return GenScalar(r, marks)
	}
	if r.Chance(1, 8) {
		x := GenValue(r, depth-1, budget, marks)
		for x.K == "attr" || (x.K == "null" && x.T != '_') {
			x = GenScalar(r, marks)
		}
		n := 2 * r.Range(0, 2)
		v := V{K: "attr", Streamed: r.Chance(1, 4), X: &x}
		for i := 0; i < n; i++ {
			v.L = append(v.L, GenValue(r, depth-2, budget, marks))
		}
		return v
	}
	t := gen.Pick(r, []byte{'*', '*', '*', '%', '~', '>'})
	n := r.Size(7, 2)
	if r.Chance(1, 25) {
		n = gen.Pick(r, []int{15, 16, 17, 31, 32, 33, 64, 65}) // around the decoder's pre-allocation / growth steps
		depth = 1
	}
	if t == '%' {
		n &^= 1
	}
	v := V{K: "agg", T: t, Streamed: r.Chance(1, 4)}
	for i := 0; i < n; i++ {
		v.L = append(v.L, GenValue(r, depth-1, budget, marks))
	}
	return v
}
