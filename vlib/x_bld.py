"""Builder family (C18 / C32 / C33): focused violation search.

When a finite obligation over the regenerated builder graph no longer checks, the Coq side can say *which*
edges / commands offend (the checkers are executable).  This hook asks coqc for that list and lets the observer
generate paths through exactly those builder methods, so that the direct oracle gets a chance to exhibit a
concrete failing input (DESIGN.md 2.1) instead of hoping that random paths hit one method out of 6000.
"""
import os
import re

from . import core, flow

IMPORTS = ["Model.BuilderGraph", "Model.BuilderSem", "Model.BuilderChecks", "Model.BuilderTags", "Gen.Builders"]


def _unpack(n):
    h = "%x" % n
    if len(h) % 2:
        h = "0" + h
    b = bytes.fromhex(h)
    return b[1:].decode("latin-1") if b[:1] == b"\x01" else ""


def _pairs(txt):
    """parse '[(a, b); (c, d)]' of N pairs printed by coqc"""
    m = re.search(r"=\s*(\[.*?\])\s*:", txt, re.S)
    body = m.group(1) if m else txt
    return [(int(a), int(b)) for a, b in re.findall(r"\(\s*(\d+)\s*,\s*(\d+)\s*\)", body)]


def _bytes_lists(txt):
    """parse a list of byte lists '[[65; 73]; [66]]' printed by coqc"""
    m = re.search(r"=\s*(\[.*\])\s*:\s*list", txt, re.S)
    body = m.group(1) if m else ""
    out = []
    for inner in re.findall(r"\[([0-9;\s]*)\]", body):
        nums = [int(x) for x in re.findall(r"\d+", inner)]
        if nums:
            out.append(bytes(nums).decode("latin-1"))
    return out


def offending_edges(ctx, checker):
    txt = core.coq_eval_term(ctx, IMPORTS, "bad_edges %s builders" % checker, timeout=600)
    return ["#%d.%s" % (h, _unpack(n)) for h, n in _pairs(txt)]


def offending_commands(ctx, known_term="[]"):
    out = []
    for rule in ("RReadonly", "RCache", "RBlocking", "RSubscribe", "RUnsubscribe"):
        txt = core.coq_eval_term(ctx, IMPORTS, "offenders tags builders %s (closure builders)" % rule, timeout=900)
        out += ["@" + c for c in _bytes_lists(txt)]
    return sorted(set(out))


def _stale(props_file):
    """the property's .vo was not rebuilt after the regenerated graph changed (a proof over it failed)"""
    vo = os.path.join(core.COQ, props_file + "o")
    gen = os.path.join(core.COQ, "Gen", "Builders.vo")
    if not os.path.exists(vo) or not os.path.exists(gen):
        return True
    return os.path.getmtime(gen) > os.path.getmtime(vo)


def make_extra(prop, spec_of):
    """spec_of() returns the SPEC dict (late binding: the hook is stored inside SPEC)."""

    def extra(ctx):
        spec = spec_of()
        if not _stale(spec["props_file"]) or not core.vo_fresh("Gen/Builders.v"):
            return []
        focus = []
        try:
            if prop == "C33":
                focus = offending_edges(ctx, "edge_wf") + offending_edges(ctx, "edge_fmt_ok")
            elif prop == "C18":
                focus = offending_edges(ctx, "edge_keys_ok")
            elif prop == "C32":
                focus = offending_commands(ctx)
        except Exception as ex:  # the model does not build either: nothing to focus on
            ctx.note("focused search unavailable: %s" % ex)
            return []
        if not focus:
            return []
        ctx.note("focused search through %s" % ", ".join(focus[:12]))
        ob = [o for o in spec["observers"] if o["cmd"] == "obs_builders"][0]
        recs, err = flow.observe(ctx, ob, max(200, 40 * len(focus)), oracle_only=True, seed_shift=104729,
                                 extra_args=["-focus", ",".join(focus[:50])])
        if recs:
            flow.handle_oracle_failures(ctx, ob, [r for r in recs if r.get("k") == "case"])
        return ["focused search: the regenerated builder graph fails its finite check at %s" % ", ".join(focus[:8])]

    return extra


def spec_path():
    return os.path.join(core.COQ, "Model", "RedisCmds.v")
