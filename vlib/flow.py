"""The standard shape of a check (DESIGN.md 2.1):

  translators -> full Coq build of Props/Cnn.v and its closure -> Print Assumptions ->
  observers (implementation + direct oracle) -> model evaluation inside coqc on the same cases ->
  on a broken obligation / tie: violation search with the direct oracle.

A property file props/Cnn.py defines SPEC (a dict) and optionally custom hooks.
"""
import json
import os
import time

from . import core


def _tier_val(v, tier):
    if isinstance(v, dict):
        return v.get(tier, v.get("quick"))
    return v


def run_translators(ctx, spec):
    """Each translator is a harness command writing one Gen/*.v file from the repository sources."""
    problems = []
    for tr in spec.get("translators", []):
        binp, out = core.go_build(ctx, tr["cmd"], tags="verif")
        if not binp:
            problems.append("translator %s does not build:\n%s" % (tr["cmd"], out[-1500:]))
            continue
        dst = os.path.join(core.COQ, tr["out"])
        tmp = os.path.join(ctx.work, os.path.basename(tr["out"]))
        rc, o = core.sh([binp, "-repo", core.REPO, "-out", tmp] + tr.get("args", []), timeout=600, env=core.GOENV)
        if rc != 0 or not os.path.exists(tmp):
            problems.append("translator %s failed (fail-closed on unrecognised source):\n%s" % (tr["cmd"], o[-1500:]))
            continue
        new = open(tmp).read()
        with core.Lock("gen-" + tr["out"].replace("/", "_")):
            old = open(dst).read() if os.path.exists(dst) else None
            if old != new:
                os.makedirs(os.path.dirname(dst), exist_ok=True)
                open(dst, "w").write(new)
                ctx.note("translator %s rewrote %s" % (tr["cmd"], tr["out"]))
    return problems


def observe(ctx, ob, n, oracle_only=False, seed_shift=0, extra_args=None):
    binp, out = core.go_build(ctx, ob["cmd"])
    if not binp:
        return None, "observer %s does not build against the working tree:\n%s" % (ob["cmd"], out[-2500:])
    args = ["-n", n]
    corpus = os.path.join(core.VERIF, "corpus", ctx.prop)
    if isinstance(ob.get("corpus"), str):
        corpus = os.path.join(core.VERIF, "corpus", ob["corpus"])
    if os.path.isdir(corpus) and not oracle_only and ob.get("corpus", True):
        args += ["-corpus", corpus]
    if oracle_only:
        args += ["-oracle-only"]
    args += ob.get("args", []) + (extra_args or [])
    env = dict(ob.get("env", {}))
    env["VERIF_SEED"] = str(ctx.seed + seed_shift)
    recs, rc, err = core.run_observer(ctx, binp, args, timeout=_tier_val(ob.get("timeout", 1800), ctx.tier), env=env)
    if rc != 0:
        return recs, "observer %s exited with %d: %s" % (ob["cmd"], rc, err[-1500:])
    return recs, None


def handle_oracle_failures(ctx, ob, recs):
    """Direct oracle failures on the implementation are violations with a concrete replay,
    unless they match a known finding (site + class)."""
    found = 0
    seen_known = set()
    for r in recs:
        if r.get("k") != "case" or not r.get("oracle"):
            continue
        kf = ctx.match_known(r.get("site", ""), r.get("class", ""))
        if kf is not None:
            key = (kf.get("site"), kf.get("class"))
            if key not in seen_known:
                seen_known.add(key)
                ctx.known_hits.append("%s [%s / %s] e.g. %s" % (kf.get("what", ""), kf.get("site"), kf.get("class"), json.dumps(r.get("desc"))[:200]))
            continue
        found += 1
        if found <= 40:
            ctx.violation("oracle: %s (site %s, class %s)" % (r["oracle"], r.get("site"), r.get("class")),
                          dict(observer=ob["cmd"], args=ob.get("args", []), desc=r.get("desc"), oracle=r["oracle"],
                               site=r.get("site"), cls=r.get("class"), obs=r.get("obs")))
    return found


def standard(ctx, spec):
    tier = ctx.tier
    ctx.level = spec.get("level", "proof")
    cov = ctx.coverage
    cov["trusted_base"] = core.TRUSTED_BASE_COMMON + spec.get("trusted", [])
    cov["rule"] = spec.get("rule", "")
    ctx.assumptions = spec.get("assumptions", [])
    broken = []          # descriptions of broken obligations / ties
    broken_detail = {}

    # 1. translators
    tp = run_translators(ctx, spec)
    for p in tp:
        broken.append("translator: " + p.splitlines()[0])
        broken_detail["translator"] = p

    # 2. proofs
    props_file = spec["props_file"]
    # the model files the observers' cases are evaluated with are build targets too (they may lie outside the proofs' closure)
    targets = [props_file] + spec.get("extra_props", [])
    for ob in spec.get("observers", []):
        for im in ob.get("imports", []):
            f = im.replace(".", "/") + ".v"
            if f not in targets and os.path.exists(os.path.join(core.COQ, f)):
                targets.append(f)
    b = core.coq_build(targets, timeout=_tier_val(spec.get("coq_timeout", 3000), tier))
    cov["obligations"] = b["obligations"]
    cov["discharged"] = b["discharged"]
    cov["checker_cmd"] = "make -k -j%d %so (coq_makefile project /verif/coq, coqc 8.16.1, full .vo build) + coqc Print Assumptions" % (core.NCPU, props_file)
    cov["proof_files"] = b["closure"]
    cov["theorem_statements"] = b["statements"].get(props_file, [])
    if not b["ok"]:
        first_err = ""
        for ln in b["log"].splitlines():
            if "Error" in ln or ln.startswith("File "):
                first_err += ln + " | "
        msg = "proof obligations do not check: files %s %s %s" % (b["failed_files"], b["lint"], first_err[:600])
        broken.append(msg)
        broken_detail["coq"] = b["log"][-4000:]
    else:
        a = core.coq_assumptions(ctx, props_file)
        cov["print_assumptions"] = a["assumptions"]
        if not a["ok"]:
            broken.append("Print Assumptions: %s %s" % (a["bad"], a["log"][-500:]))
            cov["discharged"] = 0
        if not a["theorems"]:
            broken.append("no Theorem in %s" % props_file)

    # thorough: independent re-check with coqchk
    if tier == "thorough" and b["ok"] and spec.get("coqchk", True):
        mod = "RV." + props_file[:-2].replace("/", ".")
        t = time.time()
        with core.Lock("coqchk"):
            rc, out = core.sh(["coqchk", "-silent", "-o", "-Q", core.COQ, "RV", mod], cwd=core.COQ, timeout=5400)
        cov["coqchk"] = dict(rc=rc, seconds=round(time.time() - t, 1), tail=out[-1500:])
        if rc != 0:
            broken.append("coqchk rejects %s" % mod)

    # 3. observers + correspondence
    model_ok = all(core.vo_fresh(f) for f in b["closure"] if f.startswith("Model/") or f.startswith("Gen/"))
    dist = {}
    any_oracle = 0
    for ob in spec.get("observers", []):
        n = _tier_val(ob.get("n", {"quick": 300, "thorough": 6000}), tier)
        recs, err = observe(ctx, ob, n)
        if err:
            broken.append(err.splitlines()[0][:300])
            broken_detail["observer:" + ob["cmd"]] = err
            if recs is None:
                continue
        cases = [r for r in recs if r.get("k") == "case"]
        for r in recs:
            if r.get("k") == "dist":
                dist[ob["cmd"]] = r
            elif r.get("k") not in ("case", "dist"):
                cov.setdefault("extra", []).append(r)
        for r in cases:
            ctx.count_case(ob["cmd"] + ":" + str(r.get("sig")), bool(r.get("nontrivial")))
        if cases and len(cov["samples"]) < 6:
            for r in cases[:3]:
                cov["samples"].append(dict(observer=ob["cmd"], desc=r.get("desc"), oracle=r.get("oracle") or "held", coq=(r.get("coq") or "")[:400]))
        any_oracle += handle_oracle_failures(ctx, ob, cases)
        # model side
        withcoq = [r for r in cases if r.get("coq")]
        if withcoq and "check" in ob:
            if not model_ok:
                broken.append("model files do not build; correspondence for %s not evaluated" % ob["cmd"])
            else:
                bad, e = core.coq_eval_cases(ctx, ob["imports"], ob["case_type"], ob["check"], [r["coq"] for r in withcoq],
                                             shard=ob.get("shard", 150), tag="cases_" + ob["cmd"])
                cov["model_evaluations"] = cov.get("model_evaluations", 0) + len(withcoq)
                if e:
                    broken.append("model evaluation failed for %s: %s" % (ob["cmd"], e[-600:]))
                for bi in bad[:5]:
                    r = withcoq[bi]
                    kf = ctx.match_known(r.get("site", ""), "model-mismatch:" + r.get("class", ""))
                    if kf is not None:
                        continue
                    broken.append("correspondence: model and implementation disagree on case %s of %s" % (r.get("id"), ob["cmd"]))
                    broken_detail.setdefault("mismatch", []).append(dict(observer=ob["cmd"], desc=r.get("desc"), coq=r["coq"][:3000], obs=r.get("obs")))
                cov["model_mismatches"] = cov.get("model_mismatches", 0) + len(bad)
    cov["input_distribution"] = dist

    # custom extra step
    if "extra" in spec:
        for msg in spec["extra"](ctx) or []:
            broken.append(msg)

    # 4. a broken obligation / tie: search for a concrete failing input with the direct oracle
    if broken and any_oracle == 0:
        found = 0
        for ob in spec.get("observers", []):
            n = _tier_val(ob.get("n", {"quick": 300, "thorough": 6000}), tier) * spec.get("search_factor", 20)
            recs, err = observe(ctx, ob, n, oracle_only=True, seed_shift=7919)
            if recs:
                found += handle_oracle_failures(ctx, ob, [r for r in recs if r.get("k") == "case"])
            if found:
                break
        # a disagreeing case is itself replayable evidence even when the oracle sees nothing
        if not found:
            ctx.violation("no longer shown to hold: " + " ;; ".join(broken)[:1500],
                          dict(broken=broken, detail=broken_detail,
                               note="no failing input found by the direct oracle; the listed theorem / correspondence no longer checks"),
                          no_input=True)
    cov["broken"] = broken
    if broken and cov["discharged"] == cov["obligations"]:
        # evidence must not claim full discharge when the tie is broken
        cov["tie_broken"] = True
    return ctx.finish()


def replay(ctx, spec, path):
    obj = json.load(open(path))
    rp = obj.get("replay", obj)
    cmd = rp.get("observer")
    obs = [o for o in spec.get("observers", []) if o["cmd"] == cmd] or spec.get("observers", [])[:1]
    if not obs or "desc" not in rp:
        print(json.dumps(obj, indent=1)[:6000])
        print("replay: this file names a broken theorem / correspondence, not an input")
        return 0
    ob = obs[0]
    binp, out = core.go_build(ctx, ob["cmd"])
    if not binp:
        print(out)
        return 2
    recs, rc, err = core.run_observer(ctx, binp, ["-replay", path] + ob.get("args", []))
    for r in recs:
        print("IMPLEMENTATION:", json.dumps({k: r.get(k) for k in ("desc", "obs", "oracle", "site", "class")})[:4000])
        if r.get("coq") and "check" in ob:
            print("MODEL check_case:", core.coq_eval_term(ctx, ob["imports"], "%s %s" % (ob["check"], r["coq"])))
    ctx.cleanup()
    return 1 if any(r.get("oracle") for r in recs) else 0
