"""Shared machinery of ./check: Coq build, Go harness build, case evaluation inside Coq,
evidence, violation reporting and known findings.  See DESIGN.md sections 2 and 3.

Everything a check needs is rebuilt from the current working tree of the repository under test
(VERIF_REPO, default /repo).  Scratch output goes to a per-run directory under
$VERIF_SCRATCH (default /root/.cache/verif) and is removed when the run ends.
"""
import fcntl
import hashlib
import json
import os
import re
import shutil
import subprocess
import sys
import time
from concurrent.futures import ThreadPoolExecutor

VERIF = os.path.dirname(os.path.dirname(os.path.abspath(__file__)))
REPO = os.environ.get("VERIF_REPO", "/repo")
SCRATCH_ROOT = os.environ.get("VERIF_SCRATCH", "/root/.cache/verif")
COQ = os.path.join(VERIF, "coq")
HARNESS = os.path.join(VERIF, "harness")
NCPU = os.cpu_count() or 4

FORBIDDEN = re.compile(
    r"\b(Admitted|admit|Axiom|Axioms|Parameter|Parameters|Conjecture|Conjectures|Admit\s+Obligations|"
    r"Unset\s+Guard\s+Checking|Unset\s+Positivity\s+Checking|Unset\s+Universe\s+Checking|"
    r"bypass_check|native_compute|type-in-type|impredicative-set)\b")
STATEMENT = re.compile(r"^\s*(?:#\[[^\]]*\]\s*)?(?:Local\s+|Global\s+)?(Theorem|Lemma|Corollary|Example|Proposition|Fact|Remark)\s+([A-Za-z_][A-Za-z0-9_']*)", re.M)

GOENV = {"GOFLAGS": "-mod=mod", "GOPROXY": "off", "CGO_ENABLED": "0"}


def log(*a):
    print(*a, file=sys.stderr, flush=True)


def sh(cmd, cwd=None, env=None, timeout=None, inp=None):
    e = dict(os.environ)
    if env:
        e.update(env)
    try:
        p = subprocess.run(cmd, cwd=cwd, env=e, timeout=timeout, input=inp,
                           stdout=subprocess.PIPE, stderr=subprocess.STDOUT, text=True, errors="replace")
        return p.returncode, p.stdout
    except subprocess.TimeoutExpired as ex:
        out = ex.stdout or ""
        if isinstance(out, bytes):
            out = out.decode("utf-8", "replace")
        return 124, out + "\n[timeout after %ss]" % timeout


class Lock:
    def __init__(self, name):
        os.makedirs(SCRATCH_ROOT, exist_ok=True)
        self.path = os.path.join(SCRATCH_ROOT, name + ".lock")

    def __enter__(self):
        self.f = open(self.path, "w")
        fcntl.flock(self.f, fcntl.LOCK_EX)
        return self

    def __exit__(self, *a):
        fcntl.flock(self.f, fcntl.LOCK_UN)
        self.f.close()


# ----------------------------------------------------------------------------------------------
# Coq project


def coq_sources():
    out = []
    for d in ("Model", "Proofs", "Props", "Gen"):
        p = os.path.join(COQ, d)
        if not os.path.isdir(p):
            continue
        for f in sorted(os.listdir(p)):
            if f.endswith(".v"):
                out.append(d + "/" + f)
    return out


def coq_prepare():
    """(Re)generate _CoqProject and Makefile when the set of source files changed."""
    files = coq_sources()
    listing = "\n".join(files) + "\n"
    lf = os.path.join(COQ, ".filelist")
    old = open(lf).read() if os.path.exists(lf) else None
    if old == listing and os.path.exists(os.path.join(COQ, "Makefile")):
        return
    with open(os.path.join(COQ, "_CoqProject"), "w") as f:
        f.write("-Q . RV\n-arg -w -arg -notation-overridden,-deprecated-hint-without-locality,-deprecated-instance-without-locality\n" + listing)
    rc, out = sh(["coq_makefile", "-f", "_CoqProject", "-o", "Makefile"], cwd=COQ, timeout=120)
    if rc != 0:
        raise RuntimeError("coq_makefile failed:\n" + out)
    # force dependency recomputation
    try:
        os.remove(os.path.join(COQ, ".Makefile.d"))
    except FileNotFoundError:
        pass
    with open(lf, "w") as f:
        f.write(listing)


def coq_deps():
    """dependency map  file.v -> [file.v] restricted to the project (via coqdep)."""
    files = coq_sources()
    rc, out = sh(["coqdep", "-Q", ".", "RV"] + files, cwd=COQ, timeout=120)
    deps = {f: [] for f in files}
    for line in out.splitlines():
        if ":" not in line:
            continue
        lhs, rhs = line.split(":", 1)
        tgt = [t for t in lhs.split() if t.endswith(".vo")]
        if not tgt:
            continue
        src = tgt[0][:-1]
        if src.startswith("./"):
            src = src[2:]
        if src not in deps:
            continue
        for r in rhs.split():
            if r.endswith(".vo"):
                d = r[:-1]
                if d.startswith("./"):
                    d = d[2:]
                if d in deps and d != src:
                    deps[src].append(d)
    return deps


def closure(deps, roots):
    seen, todo = [], list(roots)
    while todo:
        f = todo.pop()
        if f in seen:
            continue
        seen.append(f)
        todo.extend(deps.get(f, []))
    return sorted(seen)


def vo_fresh(src):
    v = os.path.join(COQ, src)
    vo = v + "o"
    return os.path.exists(vo) and os.path.getmtime(vo) >= os.path.getmtime(v)


def coq_build(targets, timeout=3000, jobs=None):
    """Full .vo build (never -vos) of the given Props/…​.v files and everything they depend on.
    Returns dict(ok, failed_files, closure, obligations, discharged, log, statements)."""
    jobs = jobs or NCPU
    with Lock("coqbuild-" + hashlib.md5(COQ.encode()).hexdigest()[:8]):
        coq_prepare()
        vos = [t + "o" for t in targets]
        rc, out = sh(["make", "-k", "-j%d" % jobs] + vos, cwd=COQ, timeout=timeout)
        deps = coq_deps()
    clo = closure(deps, targets)
    failed = [f for f in clo if not vo_fresh(f)]
    stmts = {}
    lint = []
    for f in clo:
        txt = strip_comments(open(os.path.join(COQ, f)).read())
        stmts[f] = [m.group(2) for m in STATEMENT.finditer(txt)]
        for m in FORBIDDEN.finditer(txt):
            lint.append("%s: forbidden token %r" % (f, m.group(0)))
        # Variable/Hypothesis outside a Section declare axioms
        depth = 0
        for ln in txt.splitlines():
            s = ln.strip()
            if re.match(r"Section\s+\w+\s*\.", s):
                depth += 1
            elif re.match(r"End\s+\w+\s*\.", s) and depth > 0:
                depth -= 1
            elif depth == 0 and re.match(r"(Variable|Variables|Hypothesis|Hypotheses|Context)\b", s):
                lint.append("%s: %s outside a Section" % (f, s.split()[0]))
    obligations = sum(len(v) for v in stmts.values())
    discharged = sum(len(v) for f, v in stmts.items() if f not in failed)
    ok = rc == 0 and not failed and not lint
    return dict(ok=ok, rc=rc, failed_files=failed, closure=clo, obligations=obligations,
                discharged=discharged if not lint else 0, log=out, statements=stmts, lint=lint)


def strip_comments(txt):
    out, depth, i, n = [], 0, 0, len(txt)
    instr = False
    while i < n:
        c = txt[i]
        if depth == 0 and c == '"':
            instr = not instr
            out.append(c)
            i += 1
            continue
        if not instr and txt.startswith("(*", i):
            depth += 1
            i += 2
            continue
        if not instr and depth > 0 and txt.startswith("*)", i):
            depth -= 1
            i += 2
            continue
        if depth == 0:
            out.append(c)
        elif c == "\n":
            out.append(c)
        i += 1
    return "".join(out)


ALLOWED_AXIOMS = ()  # the development is axiom-free; extend with stdlib axiom names only, and name them in DESIGN.md


def coq_assumptions(ctx, prop_file):
    """Print Assumptions for every Theorem of a Props file, in a scratch file (fresh on every run)."""
    mod = prop_file[:-2].replace("/", ".")
    txt = strip_comments(open(os.path.join(COQ, prop_file)).read())
    names = [m.group(2) for m in STATEMENT.finditer(txt) if m.group(1) == "Theorem"]
    src = "From RV Require Import %s.\n" % mod.split(".", 0)[0].replace("Props.", "")
    src = "Require Import RV.%s.\n" % mod
    for n in names:
        src += 'Goal True. idtac "@@ %s". exact I. Qed.\nPrint Assumptions %s.\n' % (n, n)
    d = os.path.join(ctx.work, "assum")
    os.makedirs(d, exist_ok=True)
    fn = os.path.join(d, "Assum_%s.v" % ctx.prop)
    open(fn, "w").write(src)
    rc, out = sh(["coqc", "-Q", COQ, "RV", fn], cwd=d, timeout=600)
    res, cur = {}, None
    for line in out.splitlines():
        if line.startswith("@@ "):
            cur = line[3:].strip()
            res[cur] = []
        elif cur is not None and line.strip():
            res[cur].append(line.rstrip())
    bad = []
    for n in names:
        body = " ".join(res.get(n, ["<no output>"]))
        if "Closed under the global context" in body:
            continue
        ax = re.findall(r"^([A-Za-z_][\w.']*)\s*:", "\n".join(res.get(n, [])), re.M)
        if not ax or any(a.split(".")[-1] not in ALLOWED_AXIOMS for a in ax):
            bad.append("%s depends on: %s" % (n, body[:300]))
    return dict(ok=(rc == 0 and not bad), theorems=names, assumptions={k: " ".join(v) for k, v in res.items()}, bad=bad, log=out if rc else "")


def coq_eval_cases(ctx, imports, case_type, check_fn, terms, shard=150, timeout=1800, tag="cases"):
    """Evaluate `check_fn : case_type -> bool` on every Gallina term inside Coq (vm_compute);
    returns the list of indices (into terms) for which the model disagrees, plus errors."""
    if not terms:
        return [], None
    d = os.path.join(ctx.work, tag)
    os.makedirs(d, exist_ok=True)
    shards = [(i, terms[i:i + shard]) for i in range(0, len(terms), shard)]

    def one(arg):
        k, (base, ts) = arg
        name = "Cases_%s_%d" % (ctx.prop, k)
        fn = os.path.join(d, name + ".v")
        with open(fn, "w") as f:
            f.write("From Coq Require Import List NArith ZArith String Bool.\n")
            f.write("Require Import RV.Model.Base.\n")
            for im in imports:
                f.write("Require Import RV.%s.\n" % im)
            f.write("Import ListNotations.\nOpen Scope N_scope.\nOpen Scope string_scope.\n")
            for j, t in enumerate(ts):
                f.write("Definition c%d : %s := %s.\n" % (j, case_type, t))
            f.write("Definition cases : list (N * %s) := [\n" % case_type)
            f.write(";\n".join("(%d, c%d)" % (j, j) for j in range(len(ts))))
            f.write("].\n")
            f.write("Definition bad : list N := Eval vm_compute in bad_indices (%s) cases.\n" % check_fn)
            f.write('Goal True. let b := eval vm_compute in bad in idtac "@@BAD" b. exact I. Qed.\n')
        rc, out = sh(["coqc", "-Q", COQ, "RV", fn], cwd=d, timeout=timeout)
        m = re.search(r"@@BAD\s*(.*)", out, re.S)
        if rc != 0 or not m:
            return base, None, out[-3000:]
        body = m.group(1)
        idx = [int(x) for x in re.findall(r"\d+", body.split("\n\n")[0])]
        return base, idx, None

    bad, err = [], None
    with ThreadPoolExecutor(max_workers=min(NCPU, len(shards))) as ex:
        for base, idx, e in ex.map(one, enumerate(shards)):
            if e is not None:
                err = e
                continue
            bad.extend(base + i for i in idx)
    return sorted(bad), err


def coq_eval_term(ctx, imports, term, timeout=300):
    d = os.path.join(ctx.work, "evalterm")
    os.makedirs(d, exist_ok=True)
    fn = os.path.join(d, "EvalTerm_%s.v" % ctx.prop)
    with open(fn, "w") as f:
        f.write("From Coq Require Import List NArith ZArith String Bool.\nRequire Import RV.Model.Base.\n")
        for im in imports:
            f.write("Require Import RV.%s.\n" % im)
        f.write("Import ListNotations.\nOpen Scope N_scope.\nOpen Scope string_scope.\n")
        f.write("Eval vm_compute in (%s).\n" % term)
    rc, out = sh(["coqc", "-Q", COQ, "RV", fn], cwd=d, timeout=timeout)
    return out.strip()[-4000:]


# ----------------------------------------------------------------------------------------------
# Go harness


def harness_modfile(ctx):
    """go.mod for the harness; when VERIF_REPO is not /repo an alternate modfile with the replace
    directives pointing at that tree is generated in the scratch directory."""
    base = os.path.join(HARNESS, "go.mod")
    if REPO == "/repo":
        return None
    txt = open(base).read().replace("=> /repo", "=> " + REPO)
    mf = os.path.join(ctx.work, "alt.go.mod")
    open(mf, "w").write(txt)
    shutil.copy(os.path.join(HARNESS, "go.sum"), os.path.join(ctx.work, "alt.go.sum"))
    return mf


def go_build(ctx, cmd, tags="verif", timeout=900):
    """Build harness/cmd/<cmd> against the current working tree of the repository."""
    out_bin = os.path.join(ctx.work, "bin", cmd)
    os.makedirs(os.path.dirname(out_bin), exist_ok=True)
    args = ["go", "build", "-tags", tags, "-o", out_bin]
    mf = harness_modfile(ctx)
    if mf:
        args += ["-modfile", mf]
    args += ["./cmd/" + cmd]
    t = time.time()
    rc, out = sh(args, cwd=HARNESS, env=GOENV, timeout=timeout)
    ctx.note("go build %s: rc=%d %.1fs" % (cmd, rc, time.time() - t))
    if rc != 0:
        return None, out
    return out_bin, out


def run_observer(ctx, binary, args, timeout=1800, env=None):
    """Run an observer; it prints one JSON object per line.  Returns (records, rc, tail)."""
    e = dict(GOENV)
    e["VERIF_SEED"] = str(ctx.seed)
    e["VERIF_TIER"] = ctx.tier
    if env:
        e.update(env)
    ee = dict(os.environ)
    ee.update(e)
    try:
        p = subprocess.run([binary] + [str(a) for a in args], env=ee, timeout=timeout,
                           stdout=subprocess.PIPE, stderr=subprocess.PIPE)
        rc, so, se = p.returncode, p.stdout, p.stderr
    except subprocess.TimeoutExpired as ex:
        rc, so, se = 124, ex.stdout or b"", (ex.stderr or b"") + b"\n[observer timeout]"
    recs = []
    for line in so.decode("utf-8", "replace").splitlines():
        line = line.strip()
        if not line.startswith("{"):
            continue
        try:
            recs.append(json.loads(line))
        except Exception:
            pass
    return recs, rc, se.decode("utf-8", "replace")[-4000:]


# ----------------------------------------------------------------------------------------------
# Context, evidence, verdicts


class Ctx:
    def __init__(self, prop, tier, seed):
        self.prop, self.tier, self.seed = prop, tier, seed
        self.t0 = time.time()
        os.makedirs(SCRATCH_ROOT, exist_ok=True)
        self.work = os.path.join(SCRATCH_ROOT, "%s-%d-%d" % (prop, os.getpid(), int(self.t0)))
        os.makedirs(self.work, exist_ok=True)
        self.notes = []
        self.coverage = dict(evaluations=0, distinct_nontrivial=0, rule="", samples=[], obligations=0,
                             discharged=0, checker_cmd="", trusted_base=[])
        self.assumptions = []
        self.violations = []      # list of dict(kind, what, replay_obj, no_input)
        self.known_hits = []
        self.level = "proof"
        self._sigs = set()

    def note(self, s):
        self.notes.append(s)
        log("[%s] %s" % (self.prop, s))

    def cleanup(self):
        shutil.rmtree(self.work, ignore_errors=True)

    # -- known findings -------------------------------------------------------------------------
    def known_findings(self):
        import glob
        ents = []
        for p in [os.path.join(VERIF, "known_findings.json")] + sorted(glob.glob(os.path.join(VERIF, "known_findings.d", "*.json"))):
            if os.path.exists(p):
                ents.extend(json.load(open(p)).get("entries", []))
        return [e for e in ents if e.get("property") == self.prop and e.get("kind") == "finding"]

    def match_known(self, site, cls):
        for e in self.known_findings():
            if e.get("site") == site and e.get("class") == cls:
                return e
        return None

    # -- verdicts -------------------------------------------------------------------------------
    def violation(self, what, replay_obj, no_input=False):
        self.violations.append(dict(what=what, replay=replay_obj, no_input=no_input))

    def count_case(self, sig, nontrivial):
        self.coverage["evaluations"] += 1
        if nontrivial and sig not in self._sigs:
            self._sigs.add(sig)
            self.coverage["distinct_nontrivial"] += 1

    def finish(self):
        """Write evidence, print verdict lines, return the exit code."""
        lines = []
        for e in self.known_hits:
            lines.append("KNOWN-FINDING: property=%s %s" % (self.prop, e))
        rc = 0
        os.makedirs(os.path.join(VERIF, "replays"), exist_ok=True)
        # concrete failing inputs first
        vs = sorted(self.violations, key=lambda v: (v["no_input"], len(json.dumps(v["replay"], default=str))))
        if vs:
            v = vs[0]
            path = os.path.join(VERIF, "replays", "%s-%s-%d.json" % (self.prop, self.tier, self.seed))
            obj = dict(property=self.prop, tier=self.tier, seed=self.seed, what=v["what"], replay=v["replay"],
                       all=[dict(what=x["what"], no_input=x["no_input"]) for x in vs[:20]])
            json.dump(obj, open(path, "w"), indent=1, default=str)
            lines.append("VIOLATION property=%s replay=%s%s" % (self.prop, path, " no-failing-input-found" if v["no_input"] else ""))
            rc = 1
        ev = dict(property_id=self.prop, tier=self.tier, seed=self.seed, level=self.level,
                  coverage=self.coverage, assumptions=self.assumptions,
                  wall_s=round(time.time() - self.t0, 2), violations=len(self.violations),
                  known_findings=list(self.known_hits), notes=self.notes[-60:])
        os.makedirs(os.path.join(VERIF, "evidence"), exist_ok=True)
        tmp = os.path.join(VERIF, "evidence", ".%s.json.tmp" % self.prop)
        json.dump(ev, open(tmp, "w"), indent=1, default=str)
        os.replace(tmp, os.path.join(VERIF, "evidence", "%s.json" % self.prop))
        for ln in lines:
            print(ln, flush=True)
        if rc == 0:
            print("OK property=%s tier=%s obligations=%d/%d evaluations=%d distinct_nontrivial=%d wall=%.1fs" % (
                self.prop, self.tier, self.coverage["discharged"], self.coverage["obligations"],
                self.coverage["evaluations"], self.coverage["distinct_nontrivial"], time.time() - self.t0), flush=True)
        self.cleanup()
        return rc


TRUSTED_BASE_COMMON = [
    "Coq 8.16.1 kernel incl. its VM (vm_compute); no native_compute; coqchk in the thorough tier",
    "axioms: none (Print Assumptions of every property theorem is re-run and checked on every run)",
    "correspondence: Go observer built from the working tree with -tags verif + evaluation of the model's executable definitions inside coqc (vm_compute) on the same inputs; ties the model to the code, cannot make a false theorem true",
    "Go 1.25 toolchain and standard library; python3 driver",
]
