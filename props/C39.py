SPEC = dict(
    props_file="Props/C39.v",
    level="proof",
    observers=[dict(cmd="obs_aside", imports=["Model.Aside"], case_type="Aside.case", check="Aside.check_case",
                    n={"quick": 350, "thorough": 4000}, shard=25, timeout={"quick": 1800, "thorough": 7200})],
    search_factor=6,
    rule="scripted scenarios with 2-4 rueidisaside clients (separate rueidis clients, SET NX GET and acquireLock-script "
         "variants) on one fake server running the real scripts under mini-Lua: miss/load/hit rounds, concurrent Gets of one "
         "key across clients with slow loaders, failing and panicking loaders, a loading client closed mid-load, expiry by "
         "clock advance, writes and deletes by another application, Gets without loader; kind race: several first Gets of ONE "
         "fresh client (distinct keys, blocked loaders) racing in keepalive, ClientTTL passing on the virtual clock in two hops "
         "each after an observed refresh, then other clients asking for those keys. Every server command in the server's "
         "total order, every cache hit, every delivered invalidation, every loader result and every return is one step of the "
         "recorded run which the model replays; non-trivial = at least two Gets; distinct by (kind, configuration, outcomes)",
    trusted=["client-side caching of rueidis itself (C06/C07): the model has an explicit per-client cache driven by the observed "
             "hits and invalidation deliveries",
             "a SET NX whose reply is lost, OverrideCacheTTL: not modelled",
             "the second critical section of keepalive (AInstall) leaves no trace on the server: the observer places it "
             "before the first lock command that carries the marker; the marker SET is attributed to its Get by goroutine",
             "mini-Lua and the fake server's tracking / invalidation / virtual clock (tie only)"],
    assumptions=["label_ok: loaders and other applications never produce a value with the prefix 'rueidisid:', cached keys do "
                 "not have that prefix, client ids do",
                 "real time is not modelled: ClientTTL refresh, the Get's context timeout and expiry are steps that may happen; "
                 "the *_partial wake-up theorems leave the delivery of invalidations to the environment"],
)

MANIFEST = dict(
    text="Proof of the protocol model at round-trip granularity: Coq theorems over all schedules of any number of clients and "
         "Gets (explicit client caches, tracking and in-flight invalidations): a Get never returns the placeholder; a value "
         "returned without error was produced by a loader (or written by another application) for that key; at most one Get "
         "per key is the registered loader, it holds the lock on the server, a loader starts only on an absent key, and the "
         "registration disappears only through its own setkey/delkey, a write/DEL/expiry of the key or a release by a Get "
         "that found the holder's liveness key absent; from any state with a dead holder's placeholder another client's Get "
         "reaches its loader in seven steps; whatever races in keepalive, a Get locks/loads/stores under the id installed in its "
         "client, which is the one the refresh goroutine extends; no lost wake-up for waiting Gets. Partial for timers and goroutine scheduling. Tie "
         "by observation: real clients and the real script text under mini-Lua on the fake server, every run replayed by the "
         "model step by step, plus a direct oracle (no placeholder, value origin, one loader at a time, dead lock released, no lock taken from a client "
         "that is alive).",
    note="Partial: real time (TTL refresh, context timeouts, 'eventually') not modelled; wake-up delivery is an environment "
         "assumption; lost replies of SET NX are outside the model.",
    technique="Coq proof (four invariants of a labelled transition system + a progress lemma) + model-based trace validation "
              "of real executions",
    category="proof",
)
