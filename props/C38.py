SPEC = dict(
    props_file="Props/C38.v",
    level="proof",
    translators=[dict(cmd="tr_scripts", out="Gen/Scripts.v")],
    observers=[dict(cmd="obs_limiter", imports=["Model.Limiter"], case_type="Limiter.case", check="Limiter.check_case",
                    n={"quick": 600, "thorough": 15000}, shard=100)],
    rule="2-16 phases per case; a phase sets the server's virtual clock to the real clock plus a skew (0, -1, -100, -3000, +500, +990 ms; a tenth "
         "of the cases also +1000..+5000, outside the hypothesis), sleeps 0-4 ms of real time and lets 1-4 callers (own connections) issue 1-4 "
         "Check/Allow/AllowN calls concurrently on 1-3 identifiers, a sixth of them with WithCustomRateLimit (limits 0, 1, 2, L, L+3, -1; "
         "windows 1-30 ms), a tenth with negative n; limiter limits 1-20, windows 2 ms-1 s so that window boundaries fall inside the histories; "
         "the calls are ordered by the server's script log; a case is non-trivial when at least one script ran; distinct by the whole description",
    trusted=["fake Redis server + mini-Lua execute the script text the client sends (GET/SET PXAT/INCRBY and key expiry are ours)",
             "the caller's clock is read back from the script arguments (ARGV[2], ARGV[3]); the server clock is the fake's virtual clock",
             "atomicity of script execution (the fake runs a script under the server lock, as single-threaded Redis does)"],
    assumptions=["every call has a positive window and a server clock less than 1000 ms ahead of the caller's clock (good); the theorem "
                 "C38_clock_hypothesis_needed shows the statement fails without it",
                 "int64 overflow of the counter and Lua number precision above 2^53 are not modelled"],
)

MANIFEST = dict(
    text="Proof: over all sequences of Check/Allow/AllowN calls (= all interleavings of concurrent callers, script executions being atomic), any "
         "identifiers, n, per-call limits and windows, and all caller/server clock values with the server less than 1 s ahead: per (identifier, "
         "ResetAtMs) the admitted units never exceed the limit (of every admitted call; of the common limit L in total), Remaining = max(limit - "
         "everything requested so far in the window, 0), ResetAtMs identifies the window a call was counted in and never goes back, Check changes "
         "nothing on a live window and never changes the counted units; the script is transcribed statement by statement and pinned; tie: real "
         "concurrent clients + the real script under mini-Lua, ordered by the server's script log, vs the model.",
    note="The clock hypothesis (server < caller + 1000 ms, the script's key slack) is necessary (proved by counter-example). Counter overflow and "
         "Lua number precision above 2^53 are not modelled. Fake server, mini-Lua, real-clock read-back trusted for the tie.",
    technique="Coq proof (invariant linking the two server keys, the script counter and the per-window sums over all histories) + differential run",
    category="proof",
)
