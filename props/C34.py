SPEC = dict(
    props_file="Props/C34.v",
    level="proof",
    observers=[dict(cmd="obs_lock", imports=["Model.Lock"], case_type="Lock.case", check="Lock.check_case",
                    n={"quick": 320, "thorough": 3000}, shard=20, timeout={"quick": 1800, "thorough": 7200})],
    search_factor=6,
    rule="scripted scenarios with 2-4 rueidislock lockers (separate clients, majority 1-3, PX and PXAT scripts) on one fake "
         "server running the real lock scripts under mini-Lua: lock/unlock rounds, simultaneous TryWithContext races, "
         "WithContext waiters (also two on one locker, without client-side caching, with self-notifications), keys deleted "
         "by somebody else, clock jumps that expire every key, ForceWithContext takeovers, injected failures of single "
         "acquire / extend round trips. Every script execution in the server's total order, every harness action and every "
         "observation of a lock context becoming done is one step of the recorded run which the model replays. A case is "
         "non-trivial when at least two attempts took part; distinct by (scenario kind, configuration, per-call outcomes)",
    trusted=["owner values (random()) of different attempts are distinct (attempts are identified by their position in the model)",
             "timers (ExtendInterval, validity) and goroutine scheduling are not modelled: a timer is a step that may fire at any "
             "moment; a round trip and the caller's handling of its reply are one atomic step",
             "mini-Lua, the fake server's tracking / invalidation / virtual clock (tie only)"],
    assumptions=["C34_mutex / C34_live_owns_majority / C34_release_keeps_majority: runs satisfying run_good (no ForceWithContext, no "
                 "deletion by others, no Close, every extension of a running monitor is executed and answered with a deadline "
                 "in the future, the server clock never passes the expiry of a key whose monitor runs)",
                 "C34_done_before_release_partial: all schedules; the majority bound needs all 2m-1 keys attempted "
                 "(window shown by C34_release_during_acquisition_witness)",
                 "C34_loss_cancels_*_partial and C34_waiter_wakeup_partial: fairness of timers / delivery of invalidations is "
                 "the environment's; the gate model has one waiter per locker"],
)

MANIFEST = dict(
    text="Proof of the protocol model at round-trip granularity: Coq theorems over all schedules of any number of lock attempts "
         "on the 2m-1 keys of a name (scripts as transformers, acquisition loop, per-key monitors, cancel, timers as steps): "
         "mutual exclusion of live lock contexts under the stated hypotheses (holders extend in time, no force), the context is "
         "done before the release that costs the majority (proved on the repaired order of monitoring(), with a counterexample "
         "for the original order and a characterised residual window during background acquisition), loss of the majority "
         "leads to cancel within m extension steps, no lost wake-up at the gate. Partial for timers and goroutine scheduling. "
         "Tie by observation: real lockers and the real script text under mini-Lua on the fake server, every run replayed by the "
         "model step by step; a direct oracle checks at every server step that a live holder owns a majority.",
    note="Partial: real-time behaviour (timers, scheduling, 'promptly') is not modelled; the gate model has one waiter per "
         "locker; attempt values assumed distinct. Fix in the repository: cancel before the delete script (S5).",
    technique="Coq proof (invariants of a labelled transition system) + model-based trace validation of real executions",
    category="proof",
)
