SPEC = dict(
    props_file="Props/C14.v",
    level="proof",
    observers=[dict(cmd="obs_respwrite", imports=["Model.RespWrite"], case_type="RespWrite.case", check="RespWrite.check_case",
                    n={"quick": 800, "thorough": 12000}, shard=100)],
    rule="the first 100 cases sweep the real writeN exhaustively (every n < 10^7 quick / < 2*10^9 thorough, sampled points also "
         "evaluated by the model), then 10^k-1,10^k,10^k+1 for k<=14 and 10^15-1; generated writeB/writeS strings, argument vectors "
         "(empty args, CR/LF, RESP look-alikes, binary, argument counts and lengths at decimal digit boundaries up to 10^7 bytes / "
         "70000 args), several commands through one bufio.Writer of size 16..4096, and DoMulti through a real pipelined client over "
         "net.Pipe whose server records the wire; a case is non-trivial when it writes at least one argument / number; distinct by written bytes",
    trusted=["writeN computes the digit count with float64 Log10/Pow10; the model prints mathematical decimal digits; tied by the "
             "exhaustive sweep of the real function (not by proof); the theorems carry len < 10^15",
             "bufio.Writer delivers the bytes written to it in order (Go standard library)"],
    assumptions=["every argument length and argument count is below 10^15 (wire_ok)"],
)

MANIFEST = dict(
    text="Proof: for every argument vector (any count, any bytes) an independent RESP command parser applied to the model of "
         "writeCmd returns exactly argv and the untouched remainder; any concatenation of written commands parses back to exactly "
         "that command list; frames are prefix-free. The model is tied to resp.go/pipe.go on every run by running the real writers "
         "(also through a real pipelined connection) and by an exhaustive sweep of the float-based digit printer writeN.",
    note="writeN's float digit routine is tied by sweep (all n < 10^7 quick, < 2*10^9 thorough, powers of ten up to 10^15-1), not proved; "
         "statement restricted to lengths < 10^15. That the client's own reader decodes the same frame is C14_own_reader in Props/C12.v.",
    technique="Coq proof (induction over argv / command list, decimal print-parse lemma) + differential run + exhaustive sweep",
    category="proof",
)
