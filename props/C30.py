SPEC = dict(
    props_file="Props/C30.v",
    level="proof",
    observers=[dict(cmd="obs_lua", imports=["Model.LuaExec"], case_type="LuaExec.case", check="LuaExec.check_case",
                    n={"quick": 1200, "thorough": 30000}, shard=150)],
    rule="histories of 1-9 Exec / ExecMulti (0-5 LuaExec) calls on one Lua value built by each of the seven constructor forms (plain, "
         "read-only, NoSha, read-only NoSha, retryable, LoadSHA1, read-only LoadSHA1) with one of eleven scripts that write and then reply: their argument, an error, a "
         "fabricated NOSCRIPT / ERR NOSCRIPT error, or a NON-error reply that looks like one (bulk or status string starting with NOSCRIPT / ERR NOSCRIPT, "
         "a string containing it, an integer, an array holding such strings); per script command received the fault hook applies an environment "
         "step: flush the script cache first (1/3), reject with NOSCRIPT or another error, or execute and kill the connection before the reply; "
         "every command handed to the client is recorded with IsRetryable()/IsReadOnly() by a wrapping client; one case in eight is the scenario "
         "'cold cache (or flushed right before EVALSHA), the fallback EVAL executes, its reply is lost' run with the library's DEFAULT retry policy "
         "(oracle only: the body may run twice only for retryable / read-only scripts); "
         "a case is non-trivial when at least one script command reached the server; distinct by the whole description",
    trusted=["fake Redis server + scripting engine: script cache, NOSCRIPT replies, execution log of script bodies (Engine.Runs)",
             "the client runs with DisableRetry and a single connection (PipelineMultiplex -1): 'absent transport-level retries'",
             "one node: ExecMulti's SCRIPT LOAD fan-out over c.Nodes() is a single SCRIPT LOAD in the model"],
    assumptions=["no transport-level retries", "the Lua value is one the constructors can build (consistent)",
                 "C30_at_most_once_partial: no script body replies with an error that starts with NOSCRIPT (the excluded class is a known finding)"],
)

MANIFEST = dict(
    text="Proof over all environments (cache flushed or not before any command, any command rejected or its reply lost, any body reply), cache "
         "states and histories: the commands of one Exec follow the grammar [SCRIPT LOAD]? (EVAL | EVALSHA | EVALSHA EVAL) with EVAL only after a "
         "NOSCRIPT reply; NoSha values send EVAL/EVAL_RO only; read-only values only the _RO commands; with LoadSHA1 the SHA-1 is known exactly "
         "from the first successful SCRIPT LOAD on and Exec loads only while it is unknown; ExecMulti returns one result per LuaExec in order and "
         "runs every body at most once; the body of one Exec runs at most once unless the script's own reply is a NOSCRIPT error (then exactly "
         "twice is possible: refuted/characterised, known finding). Tie: real client against the fake server with an injected environment.",
    note="Finding (not repaired): a script that itself replies with an error starting with NOSCRIPT is run twice by one Exec. Transport-level "
         "retries are excluded (DisableRetry); one node only. Fake server and its script log trusted for the tie.",
    technique="Coq proof (exhaustive symbolic case analysis of the decision tree inside the kernel, induction over histories) + differential run with fault injection",
    category="proof",
)
