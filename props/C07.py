SPEC = dict(
    props_file="Props/C07.v",
    level="proof",
    # a list: the pipe-level builder appends its observer (full client against the fake server) here
    observers=[dict(cmd="obs_lru", args=["-prop", "C07"], imports=["Model.Lru"], case_type="Lru.case", check="Lru.check_case",
                    shard=25, n={"quick": 150, "thorough": 4000}),
               dict(cmd="obs_adapter", args=["-prop", "C07"], imports=["Model.Lru", "Model.Adapter"], case_type="Adapter.case", check="Adapter.check_case",
                    shard=25, n={"quick": 70, "thorough": 2000}),
               dict(cmd="obs_cachewire", imports=["Model.Lru", "Model.CacheKey", "Model.CacheWire"], case_type="CacheWire.case", check="CacheWire.check_case",
                    shard=100, n={"quick": 120, "thorough": 3000})],
    rule="obs_lru: generated histories of 8-45 store operations (Flight, Flights incl. duplicates in one batch, Update with replies of 1x-8x entryMinSize and server expiries around / before / after now, Cancel, Delete of key sets, flush, Close, GetTTL, 1000-2048 repeated hits across the 1024-hit MoveToBack threshold, operations of other callers run at the lock-free points inside Flight/Flights, clocks that occasionally run backwards, TTLs of 0 / negative / sub-millisecond); obs_adapter: 6-40 operations on NewSimpleCacheAdapter over a map-backed SimpleCache (colliding key+cmd pairs, SimpleCache evictions, operations of other callers inside Flight, the two-callers-miss race); a history is non-trivial with at least 3 hits / waits / commits / cancels / invalidations; distinct by (op kinds, observation size); obs_cachewire: one DoCache per case in standard / static-TTL / MGET form, server PTTL from {-2,-1,0,1,5,40,100,3600000,2^40}, replies of every RESP3 scalar type, nil, arrays, error replies in the static form",
    trusted=["container/list, sync.RWMutex, Go maps, channels: modelled by their documented semantics (list = sequence, maps kept in sync with the list, a closed channel releases every waiter)",
             "time.Time.Add / UnixMilli without overflow (|now|, |ttl| < 2^62 ns)",
             "entryBaseSize / messageStructSize are read from the build (unsafe.Sizeof) and passed to the model as parameters"],
    assumptions=["replies handed to Update have a non-zero RESP type byte and an expiry field in [0, 2^56) (setExpireAt truncates)",
                 "expiries are compared in Unix milliseconds; instants are nanoseconds, |now + ttl| < 2^63"],
)

MANIFEST = dict(
    text="Proof: in every history every completed lru entry carries the expiry min(UnixMilli(flight start + client TTL) mod 2^56, server expiry of the committed reply) with 'no server expiry' (PTTL -1/-2, static TTL) meaning the client's; the reader glue (Model/CacheWire.v) attaches arrival instant + PTTL for PTTL >= 0 and nothing otherwise; Flight serves a completed entry iff the instant is strictly before that expiry, and no answer of any operation is a hit at or after it; Update returns the stored expiry and CachePXAT/CachePTTL/CacheTTL report it (CacheTTL = ceil(CachePTTL/1000)); the 56-bit field is exact on [0, 2^56). Same rule and hit condition for NewSimpleCacheAdapter. Tied on every run: real lru / adapter driven with explicit now arguments (exact equality of pxat and entries after every operation), CachePTTL/CacheTTL/GetTTL (which read time.Now()) compared as intervals between two harness clock readings.",
    note='CacheWire (which Update follows which EXEC / static-TTL / MGET reply) is a transcription of the two commit branches of _backgroundRead, tied by obs_cachewire: a real single client over net.Pipe against a scripted RESP3 server with a recording CacheStore, the time.Now() of the reader bracketed by the send instant of the server and the store call; concurrency of several DoCache calls and DoMultiCache batches are left to the pipe-level observer; time.Duration overflow for PTTL > 292 years is not modelled.',
    technique="Coq proof (invariants by induction over histories of executable step functions, incl. the separate critical sections of Flight/Flights as atomic steps) + differential run model vs implementation after every operation + direct oracles on the implementation",
    category="proof",
)

# end-to-end tie (integrator): real caching clients against the fake server, direct oracle only (docs/csc.md)
SPEC["observers"].append(dict(cmd="obs_csc", args=["-oracle", "c07"], n={"quick": 150, "thorough": 4000}, corpus=False))
SPEC["rule"] += "; obs_csc: concurrent cached readers (DoCache / DoMultiCache / MGetCache) on a real client against the fake server with writers on another connection, per-key and flush invalidations, PX / virtual-clock expiries, disconnects and aborted transactions, checked by the C07 oracle of docs/csc.md"
