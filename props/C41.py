SPEC = dict(
    props_file="Props/C41.v",
    level="proof",
    observers=[dict(cmd="obs_compatpipe", imports=["Model.CompatPipe"], case_type="CompatPipe.case",
                    check="CompatPipe.check_case", n={"quick": 1700, "thorough": 40000}, shard=300)],
    rule="generated programs over Pipeline / TxPipeline / Watch+Tx of rueidiscompat (15 command templates of 5 Cmd "
         "types incl. Do, failing commands: WRONGTYPE, not-an-integer, unknown command => EXECABORT, nil replies; Do() "
         "without arguments, Len, Discard, re-use after Exec, nested Pipelined/TxPipelined incl. a failing fn, entry "
         "through adapter.Pipelined/TxPipelined) against the real client over fakeredis (RESP2 and RESP3, WATCH with "
         "an interfering writer) and against a scripted client returning reply lists of any shape (wrong lengths, "
         "errors, nil, nested arrays, connection errors => the panics of the model); plus a reflection sweep that calls "
         "every command method of Pipeliner (511) with synthesised arguments and checks one command + one Cmder per "
         "call; a case is non-trivial when it queued a command and executed (sweep: when the method did not panic); "
         "distinct by (kind, executed ops)",
    trusted=["the server replies are an input of the model (fakeredis log / script), Redis semantics are not modelled",
             "Cmd.from is modelled for StringCmd/StatusCmd, IntCmd, BoolCmd, Cmd, SliceCmd over nil/string/integer/error/array replies; "
             "other Cmd types only through the one-command-one-Cmder sweep",
             "'as one batch' = one DoMulti call with exactly these commands (recorded at the rueidis.Client interface) and, on the "
             "fake server, received contiguously on one connection; what rueidis' own DoMulti does below that is C01/C02's subject"],
    assumptions=["every adapter method called on a Pipeline captures exactly one command and appends exactly one Cmder "
                 "(checked for all 511 wrappers by the sweep on every run, not proved)"],
)

MANIFEST = dict(
    text="Proof: over all histories of a rueidiscompat Pipeline/TxPipeline (any mix of queued commands, Do, Len, Discard, "
         "Exec, re-use, nested Pipelined) and all reply lists: the DoMulti calls are exactly the commands queued since the "
         "last Exec/Discard, in order, wrapped in exactly one MULTI … EXEC for a TxPipeline; each Cmd receives the reply at "
         "its own index (EXEC element i for a transaction), no other Cmd is touched, the returned error is the first in "
         "queue order; nil EXEC => TxFailedErr, EXEC error => that error, Cmds untouched; Discard empties; no panic against "
         "a well-formed server; Watch sends WATCH first and skips fn on its error. The model is tied to pipeline.go/tx.go on "
         "every run (real client over the fake server + scripted malformed replies + a sweep of all 511 wrappers).",
    note="Server replies are inputs; Cmd conversion modelled for 5 Cmd types; the one-command-per-method invariant of the 511 "
         "wrappers is swept, not proved; connection identity of WATCH/MULTI/EXEC is checked by the observer's oracle only.",
    technique="Coq proof (invariant over fold of the step function, refinement to an abstract queue) + differential run of model vs implementation",
    category="proof",
)
