SPEC = dict(
    props_file="Props/C21.v",
    level="proof",
    observers=[dict(cmd="obs_replica", imports=["Model.Replica"], case_type="Replica.case", check="Replica.check_case",
                    n={"quick": 1226, "thorough": 15000}, shard=100)],
    rule="EXHAUSTIVE on every run (976 cases, independent of the seed): DoMulti / DoMultiCache / DoMultiStream in cluster, standalone and sentinel "
         "mode x batch length 2..3 x every subset of positions opting in x every command keyed on the slot / keyed on another shard's slot (cluster) / "
         "without key slot; Do / DoCache / DoStream / Receive / Dedicated x opt-in yes/no x keyed / keyless. RANDOM in addition: every entry point that routes by replica opt-in (Do, DoMulti, DoCache, DoMultiCache, DoStream, DoMultiStream, Receive, Dedicated) "
         "in cluster, standalone and sentinel mode, with batches of 1-4 GET / SET / ECHO / PUBLISH in which the command that does not opt in "
         "is keyed or has no key slot and sits first, in the middle or last, two-slot stream batches (panic), predicates by command name / key "
         "hash / keyless-only; plus: SendToReplicas predicates (reads only / all / none / by key hash / absent), ReplicaOnly, node selectors returning -1 … 9 "
         "(inside and outside the candidate list), EnableReplicaAZInfo on/off, 0-3 replicas, single commands and batches of 1-4 GET/SET, in "
         "standalone-with-replicas (incl. EnableRedirect without replicas), sentinel (1-2 replicas) and cluster mode (1-3 shards with 0-2 "
         "replicas each, CLUSTER SLOTS and CLUSTER SHARDS, the four replica configurations); the node that receives each command and the "
         "role it reports are read from the fake nodes' logs; every case is non-trivial; distinct by configuration and commands",
    trusted=["fake nodes report the role they were given (ROLE / CLUSTER topology); cluster replicas serve reads only after READONLY",
             "random replica choices (rand.IntN, FastRand) are not observable: any replica of the right shard is accepted"],
    assumptions=["the answers of SendToReplicas and of the selectors are inputs of the model (all functions)"],
)

MANIFEST = dict(
    text="Proof (all entry points: Do, DoMulti, DoCache, DoMultiCache, DoStream, DoMultiStream, Receive, Dedicated): in standalone and sentinel mode a replica destination implies that SendToReplicas is configured and true for the command — for "
         "batches for every command — or that the client is ReplicaOnly; in cluster mode a command that did not opt in (client not ReplicaOnly) "
         "goes to the primary of the shard listing its slot, an opted-in one to a node of that shard, ReplicaOnly to a replica when the shard "
         "has one; a cluster DoMultiStream batch stays on the write table as soon as one command of it — keyed or without key slot, anywhere in the "
         "batch — does not opt in; a ReplicaSelector / ReadNodeSelector / standalone selector result outside the candidate list falls back to the primary and "
         "one inside is honoured; over all predicates, selector results, random draws, topologies and map orders. Tied to standalone.go / "
         "sentinel.go / cluster.go on every run: generated configurations through the real clients against fake nodes, destination compared "
         "with the model, direct oracle on the roles logged by the nodes.",
    note="known finding cluster.go:_pick / keyless-command-any-node: a command without key slot sent through Do / DoStream / Receive / Dedicated "
         "on a cluster client goes to an arbitrary connection, replicas included (map-order dependent, so the KNOWN-FINDING line appears in a "
         "fraction of the runs); the model also exposes that SendToReplicas without any replica (possible with EnableRedirect) panics in standalone.pick "
         "(rand.IntN(0)) — outside this property's statement, reported in docs/route.md. Coq kernel + VM, Go toolchain, fake nodes, python driver trusted.",
    technique="Coq proofs (case analysis over the routing functions and the slot-table closed form) + differential run of model vs implementation",
    category="proof",
)
