# C12 — RESP decoding reproduces every well-formed reply (byte-level streaming part: see also props/C29.py)
SPEC = dict(
    props_file="Props/C12.v",
    level="proof",
    observers=[dict(cmd="obs_resp", imports=["Model.Resp"], case_type="Resp.case", check="Resp.check_case",
                    n={"quick": 1200, "thorough": 40000}, shard=40)],
    rule="generated value trees of every RESP2/RESP3 type (depth <= 6 quick / 10 thorough; payloads with CR/LF/NUL/0xFF, sizes at "
         "0/1/B-1/B/B+1/2B and around the decoder's pre-allocation steps; RESP2 nulls, streamed strings with any chunk split, streamed "
         "aggregates, attributes, pushes) encoded by the harness' own encoder and decoded by the real readNextMessage through bufio sizes "
         "{32,64,4096} over readers that deliver the stream whole / one byte at a time / in random pieces; every strict prefix of "
         "encodings (trunc); a malformed stream (see C13). A wf case is non-trivial always; distinct by (buffer size, input bytes)",
    trusted=["bufio.Reader / io.ReadFull / io.CopyN are modelled by their documented behaviour (Model/RespIO.v), exercised by the tie "
             "with three chunkings per case",
             "unsafe.String / unsafe.Slice views are modelled as values"],
    assumptions=["B >= 32 (enforced by rueidis for ReadBufferEachConn)",
                 "payloads <= 2^48 bytes and aggregates <= 2^48/40 elements (Go's allocation limit)"],
)

MANIFEST = dict(
    text="Proof: for every well-formed value tree (all RESP2/RESP3 types, unbounded size/depth/payload) and every per-node encoding "
         "choice (length-prefixed or streamed with any chunk split, counted or streamed aggregates, RESP3 or RESP2 nulls, attributes, "
         "pushes) the model of readNextMessage decodes the encoding to exactly the value and leaves the following bytes untouched "
         "(induction over value trees); for EVERY byte stream and every way of splitting it across reads the result, the unread bytes "
         "and the allocations are the same (proved once for every program over the bufio operations). The model is tied to resp.go on "
         "every run by decoding generated trees with the real readNextMessage under three chunkings and three buffer sizes.",
    note="bufio / io are modelled by their documented behaviour; stacked attribute frames and attributes on RESP2 nulls are outside wf "
         "(the code keeps the last frame / drops them). Streaming reads: Props/C29.v (C29_bytes_*).",
    technique="Coq proof (nested induction over value trees; refinement chunked reader -> flat reader) + differential run",
    category="proof",
)
