from vlib import x_bld

SPEC = dict(
    props_file="Props/C18.v",
    level="proof",
    translators=[dict(cmd="tr_crc", out="Gen/Crc16Tab.v"), dict(cmd="tr_builders", out="Gen/Builders.v")],
    observers=[dict(cmd="obs_slot", imports=["Model.Slot", "Model.SlotGen"], case_type="Slot.case", check="SlotGen.check_case",
                    n={"quick": 1200, "thorough": 70000}, shard=150),
               dict(cmd="obs_builders", imports=["Model.BuilderGraph", "Model.BuilderSem", "Model.BuilderGen"], case_type="BuilderSem.case",
                    check="BuilderGen.check_case", n={"quick": 400, "thorough": 4000}, shard=50, args=["-prop", "C18"])],
    rule="keys: brace edge cases (36 fixed), brace-heavy random strings, tagged keys, random bytes incl. NUL/0xFF (thorough: "
         "additionally all 65,536 two-byte keys); multi-key combinations through 16 real builder shapes (single and variadic key "
         "parameters, Arbitrary.Keys) on cluster and non-cluster builders with keys sharing a tag 2/3 of the time; SetSlot. "
         "A slot case is non-trivial when the key is non-empty, a built case when it has at least two keys; distinct by (kind, builder, keys)",
    trusted=["tr_crc transcribes the 256 literals of crc16tab and refuses the run when crc16()/slot() no longer have the transcribed shape",
             "Go's uint16/uint8 arithmetic in crc16() is modelled with N.shiftl/N.lxor and explicit mod 2^16 (exercised by the tie)"],
    assumptions=["keys are byte strings (every element < 256)"],
)
SPEC["extra"] = x_bld.make_extra("C18", lambda: SPEC)

MANIFEST = dict(
    text="Proof: the CRC table regenerated from slot.go is proved (kernel, every run) to hold the bitwise CRC16-XMODEM of each index; "
         "from that, for all byte strings, the table loop equals the bit-by-bit CRC and Slot(k) = CRC16(hash tag) mod 16384 with the "
         "hash-tag law stated declaratively; for all sequences of key-carrying builder calls a cluster builder panics iff two keys "
         "differ in slot and otherwise carries the common slot, a non-cluster builder never panics; every key-typed builder method of "
         "the regenerated builder graph updates the slot. Tied to the code by running cmds.Slot/crc16 and real builders against an "
         "independent bitwise oracle and the model.",
    note="Model of slot()/crc16() is hand-written (translator pins their source shape); generated builder methods enter through the "
         "translator tr_builders; Coq kernel + VM, Go toolchain, python driver trusted.",
    technique="Coq proof (xor-linearity of the CRC shift register, induction over the key, induction over builder calls) + "
              "kernel-checked finite obligation over regenerated data + differential run",
)
