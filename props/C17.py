SPEC = dict(
    props_file="Props/C17.v",
    level="proof",
    observers=[dict(cmd="obs_cachecodec", imports=["Model.CacheCodec"], case_type="CacheCodec.case", check="CacheCodec.check_case",
                    n={"quick": 1000, "thorough": 30000}, shard=80)],
    rule="generated cacheable trees (strings of every string-like type byte incl. unknown ones, binary payloads, int64 extremes, "
         "null/bool, nested array/map/set up to depth 5 and 257 children) with expiries at the 56-bit boundary, through the real "
         "CacheMarshal / CacheSize / CacheUnmarshalView, plus CacheUnmarshalView on EVERY strict prefix of each encoding under recover(); "
         "a second stream of mutated buffers (size fields -1, -2^63, 2^63-1, 2^62, 2^48/40+1, type swaps, flips, truncation; buffers "
         "that would make the runtime allocate more than 2^20 elements are not fed) ties the model's Panic/Err outcomes; "
         "a codec case is non-trivial always, a mutated buffer when it is rejected; distinct by encoded bytes",
    trusted=["unsafe.String / unsafe.Slice views are modelled as value copies (aliasing of the unmarshalled view with the buffer is not modelled)",
             "runtime.makeslice panics iff len < 0 or len*40 > 2^48 (linux/amd64); allocation failure (fatal out-of-memory) is not modelled"],
    assumptions=["the encoding is shorter than 2^45 bytes (buf_bound)"],
)

MANIFEST = dict(
    text="Proof: for every cacheable reply tree (unbounded size and depth; integer/null/bool, array/map/set, and every other type byte as "
         "a string) and every expiry, the model of CacheUnmarshalView applied to the model of CacheMarshal returns exactly the tree and the "
         "expiry (mod 2^56); CacheMarshal writes exactly CacheSize bytes for every message; every strict prefix of an encoding yields "
         "ErrCacheUnmarshal (never a panic, never a value). The model (with explicit Panic outcomes for make/slice expressions) is tied to "
         "message.go on every run through the real functions, including every prefix of every generated encoding.",
    note="Attributes are not serialized (C17_attrs_dropped). Buffers not produced by CacheMarshal can panic unmarshalView "
         "(C17_note_untrusted_buffer_can_panic) - outside this property's quantifier, left unchanged. Hypothesis: encoding shorter than 2^45 bytes.",
    technique="Coq proof (nested induction over reply trees) + differential run incl. all truncation points",
    category="proof",
)
