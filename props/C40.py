SPEC = dict(
    props_file="Props/C40.v",
    level="proof",
    observers=[dict(cmd="obs_om", imports=["Model.Om"], case_type="Om.case", check="Om.check_case",
                    n={"quick": 700, "thorough": 8000}, shard=60)],
    rule="histories on one entity key of om.NewHashRepository (all supported field kinds, verless and exat variants) and "
         "om.NewJSONRepository against the fake server running the real save scripts under mini-Lua: saves, 2-5 concurrent "
         "savers carrying the same version (separate clients; order taken from the server's script log), Fetch / FetchCache, "
         "Remove, HSET by another application, clock advances and expiry; ARGV of toExec; strconv vs the model's decimal "
         "functions. A case is non-trivial when it has concurrent same-version savers or a fetch after a successful save; "
         "distinct by (repository kind, per-op outcome signature)",
    trusted=["encoding/json for struct-like hash fields: modelled as an abstract print/parse pair with the law parse(print j) = j "
             "(the tie instantiates a struct value with its canonical JSON text)",
             "RedisJSON (JSON.SET / JSON.GET / JSON.NUMINCRBY) and the entity codec of the JSON repository are abstract, "
             "constrained by the two laws json_laws of Props/C40.v; the fake server's tiny RedisJSON is the lua builder's",
             "mini-Lua and the fake server (tie only)"],
    assumptions=["versions stay inside (-10^14, 10^14 - 1): Lua 5.1 prints larger numbers in exponent form "
                 "(known finding version-beyond-lua-integer-printing)",
                 "one-winner / mismatch theorems: during the history the key neither expires nor is removed or written by "
                 "another application, and no save writes an entity whose exat is already past (predicate quiet)",
                 "entities are well-formed for their schema (predicate wf: distinct non-empty field names, values within their Go types)"],
)

MANIFEST = dict(
    text="Proof: Coq theorems over all histories of saves on a key from any server state (at most one save per version "
         "succeeds, every other answers ErrVersionMismatch), version + 1 reported and stored, and Fetch-after-Save returns the "
         "saved entity for every supported field kind including nil pointers (hash repository; proved on the repaired code, "
         "see fix 'om: clear hash fields of nil pointers'); the same optimistic-locking theorems for the JSON repository are "
         "partial (RedisJSON and the entity codec abstracted behind two stated laws). The model is tied to om/hash.go, "
         "om/conv.go, om/json.go on every run: the real repositories and the real Lua script text run under mini-Lua on the "
         "fake server (concurrent savers included) and the model replays the same histories in the server's execution order.",
    note="Outside the theorems: versions beyond +-10^14 (Lua number printing; known finding), RediSearch functions, "
         "SaveMulti (same script per entity), json.Marshal failures of struct fields. Coq kernel + VM, Go toolchain, "
         "mini-Lua, fake server and python driver trusted for the tie.",
    technique="Coq proof (invariant over save histories, hash algebra, per-kind codec round trips) + differential run of "
              "model vs real client code and real script text",
    category="proof",
)
