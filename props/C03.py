SPEC = dict(
    props_file="Props/C03.v",
    level="proof",
    observers=[
        dict(cmd="obs_retry", imports=["Model.RetryCase"], case_type="RetryCase.case", check="RetryCase.check_case",
             args=["-prop", "C03", "-kinds", "single,single,single,batch,batch,standalone,standalone,standalone-batch,standalone-batch,sentinel,sentinel,expiry"],
             n={"quick": 400, "thorough": 6000}, shard=100, timeout={"quick": 600, "thorough": 5400}),
        dict(cmd="obs_cluster", imports=["Model.Cluster"], case_type="Cluster.case", check="Cluster.check_case",
             args=["-prop", "C03", "-kinds", "do"],
             n={"quick": 250, "thorough": 6000}, shard=100),
    ],
    rule="every point at which a connection can fail relative to a request (closed before execution, after execution without reply, "
         "inside the reply) in sequences of 0-6 reactions, with LOADING / REDIRECT / MOVED / ASK replies in between, for single, sentinel, "
         "standalone (EnableRedirect; primary demoted in the middle of a batch) and cluster clients, synchronous and pipelined paths; "
         "ConnLifetime expiry while a written INCR is unanswered (quick: the server executes after 500 ms and drops the connection; thorough: "
         "the reply comes after lifetime + the 1 s close grace); executions counted per request in the servers' logs; non-trivial when more "
         "than one send happened; distinct by inputs",
    trusted=["the fake nodes' execution logs (a request counts as executed when the node ran it, also when the reply was lost)",
             "the expiry scenario depends on a 60 ms timer firing before a 500 ms server latency elapses; when the scheduler delays the timer "
             "beyond that the scenario degenerates to a single send (no false alarm, the known finding is then not exhibited in that run)"],
    assumptions=["consistent: MOVED / ASK / REDIRECT / TRYAGAIN / CLUSTERDOWN / LOADING replies and unwritten attempts are never executions"],
)

MANIFEST = dict(
    text="Proof of characterisation + partial theorem: on the faithful model the property is refuted (C03_at_most_once_refuted: an attempt the "
         "server executed ends with errConnExpired and is re-sent; C03_standalone_batch_refuted: standalone DoMulti re-sends executed members "
         "when a later member is answered REDIRECT). Proved for all failure sequences, policies and client states: a command that is neither "
         "read-only nor retryable is sent again only after errConnExpired (single / sentinel), MOVED / ASK or errConnExpired (cluster), REDIRECT "
         "or errConnExpired (standalone Do); the number of executions is at most 1 + the number of executed attempts that ended with "
         "errConnExpired (exact extent of the defect), hence at most once whenever an expired connection never overtakes a written command; "
         "connection drops, timeouts and client-side retries never cause a second execution. Both defects are reproduced on the unchanged code "
         "on every run (known findings pipe.go:connLifetime and standalone.go:DoMulti).",
    note="partial: the property does not hold on the code (two known findings, not repaired: see known_findings.d/route.json); pipe-internal "
         "timing (lifetime timer, 1 s grace) is not modelled, only its outcome (errConnExpired for a written command). Coq kernel + VM, Go "
         "toolchain, fake nodes, python driver trusted.",
    technique="Coq proofs over traces (induction on fuel, trace-shape lemmas) + fault-injection replay of the real clients with per-request execution logs",
    category="proof",
)

# integrator's addition: executions per call are also counted on the wire by the ownership observer of C33 (a buffer or command
# recycled while still queued makes the writer send another call's commands a second time: seeded change C03-1)
from props import C33 as _c33  # noqa: E402
SPEC["observers"] = list(SPEC["observers"]) + [dict(o, corpus=False) for o in _c33.SPEC["observers"] if o["cmd"] == "obs_recycle"]
SPEC["rule"] += "; obs_recycle (docs/bld.md): single and cluster clients with calls abandoned (cancel / deadline) while queued behind a parked write, fresh calls built from the pools, then the gate opens; every frame the server receives was built by a live call and arrives at most once"
