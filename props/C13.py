SPEC = dict(
    props_file="Props/C13.v",
    level="proof",
    observers=[dict(cmd="obs_resp", imports=["Model.Resp"], case_type="Resp.case", check="Resp.check_case",
                    n={"quick": 1200, "thorough": 40000}, shard=40, env={"VERIF_RESP_MIX": "malformed"})],
    rule="malformed stream: mutations of valid encodings (length fields replaced by -2, -1, -2^63, 2^63-1, 10^18, 99999999999, 2^62, 2^62+1, "
         "2^64-1, 2^63, 65537, 2^31, values just above the remaining input, '?', empty; swapped type bytes; deleted / inserted bytes; truncation) "
         "and raw bytes over the RESP alphabet, through the real readNextMessage under recover() with bufio sizes {32,64,4096} and three ways of "
         "splitting the stream; inputs that declare a length far beyond their own size are decoded in a child process with a 4 GiB address-space "
         "limit; bytes allocated measured with runtime.MemStats.TotalAlloc. Oracle: no panic, no fatal out-of-memory, allocation <= 64 x input + 1 MiB. "
         "Well-formed trees and truncations at every offset are part of the same run. Non-trivial always; distinct by (buffer, input bytes)",
    trusted=["bufio.Reader / io.ReadFull / io.CopyN modelled by their documented behaviour (Model/RespIO.v)",
             "allocation meter: make / Grow of resp.go, the line returned by ReadBytes, bytes appended to the strings.Builder, 40 bytes per append; "
             "amortised growth inside append / strings.Builder and size-class rounding are not modelled (the tie checks measured <= 3 x meter + 8 x consumed + 16 KiB on the quietest of three runs)",
             "goroutine stack growth with nesting depth is not part of the meter (recursion depth is bounded by the input length / 4)"],
    assumptions=["input shorter than 2^40 bytes (input_bound)"],
)

MANIFEST = dict(
    text="Proof: for EVERY byte string (shorter than 2^40 bytes) and every buffer size the model of readNextMessage returns a value or an error "
         "and never panics, although make(), Builder.Grow and slice indexing are modelled as panicking primitives; and the bytes it asks the "
         "allocator for are at most 200 x (bytes consumed from the connection) + 384 KiB (amortised analysis of the doubling buffers, by "
         "induction over the recursion). The model follows the repaired resp.go and is tied to it on every run by a malformed-input stream "
         "with a memory-guarded child process, incl. measured allocations.",
    note="Defect found and repaired (fix: commit): declared lengths were passed to make()/Grow() unchecked -> makeslice panics for $-2, *-2, %-1, "
         "%2^62 and a 100 GB allocation for $99999999999. Stack depth (nested aggregates) is outside the allocation meter.",
    technique="Coq proof (Hoare-style potential argument over reader programs, induction over fuel) + differential run on a malformed stream",
    category="proof",
)
