SPEC = dict(
    props_file="Props/C10.v",
    level="proof",
    # a list: the pipe-level builder appends its observer (full client against the fake server) here
    observers=[dict(cmd="obs_lru", args=["-prop", "C10"], imports=["Model.Lru"], case_type="Lru.case", check="Lru.check_case",
                    shard=25, n={"quick": 300, "thorough": 4000})],
    rule="generated histories of 8-45 store operations (Flight, Flights incl. duplicates in one batch, Update with replies "
         "of 1x-8x entryMinSize so that one insert needs several evictions, Cancel, Delete of key sets, flush, Close, GetTTL, "
         "1000-2048 repeated hits to cross the 1024-hit MoveToBack threshold, and operations of other callers run at the "
         "lock-free points inside Flight/Flights); a history is non-trivial when it contains at least 3 hits / waits / "
         "commits / cancels / invalidations; distinct by (max, op kinds, observation size)",
    trusted=["container/list, sync.RWMutex, Go maps: modelled by their documented semantics (list = sequence, map kept in sync with the list)",
             "time.Time.Add / UnixMilli without overflow (|now|, |ttl| < 2^62 ns)",
             "entryBaseSize / messageStructSize are read from the build (unsafe.Sizeof) and passed to the model as parameters"],
    assumptions=["0 <= CacheSizeEachConn (rueidis.go substitutes the default for non-positive values)",
                 "replies handed to Update have a non-zero RESP type byte (true of every message the RESP reader produces)",
                 "after Close the size field is stale (never read again); the equation size = sum is stated for an open store"],
)

MANIFEST = dict(
    text="Proof: over every history of store operations (including every lock-granular interleaving of the critical sections of "
         "Flight/Flights), the accounted size of lru.go equals the sum of the retained completed entries and is at most "
         "CacheSizeEachConn; Update evicts a minimal prefix of the completed entries in list order and never a pending one. "
         "Proved on the repaired eviction loop (fix: commit in known_findings.d/lru.json); the unrepaired loop evicted at most one "
         "entry per Update (replayable oracle failure). The model is tied to lru.go on every run: generated histories are executed "
         "on the real lru (exported under the verif tag) and compared after every operation (return values, pxat, released "
         "waiters, accounted size, list order) with the model evaluated inside coqc, next to a direct size/eviction oracle.",
    note="Model = list-based transcription of lru.go; Go runtime primitives (container/list, RWMutex, maps, time) trusted as documented; "
         "the window between the read-locked lookup and the counter increment in Flight is merged into one step (affects LRU order only).",
    technique="Coq proof (invariant by induction over histories of an executable step function) + differential run model vs implementation + direct oracle",
    category="proof",
)
