SPEC = dict(
    props_file="Props/C45.v",
    level="proof",
    observers=[dict(cmd="obs_binary", imports=["Model.Binary"], case_type="Binary.case", check="Binary.check_case",
                    n={"quick": 600, "thorough": 20000})],
    rule="generated float vectors (half of the words from a pool of NaN payloads / signalling NaNs / signed zeros / "
         "subnormals / infinities), byte strings incl. ragged lengths for ToVectorNN, JSON samples; a case is "
         "non-trivial when its vector / byte string is non-empty; distinct by (operation, input)",
    trusted=["math.Float32bits/Float32frombits/Float64bits/Float64frombits are bit-pattern identities (modelled as identity, exercised by the tie)",
             "JSON(x) is compared with encoding/json by the observer only (no model)"],
    assumptions=["floats are represented by their IEEE bit patterns in the model"],
)

MANIFEST = dict(
    text="Proof: round-trip theorems for the little-endian vector codecs over all vectors of 32/64-bit patterns (unbounded length), "
         "closed under the global context; the model is tied to binary.go on every run by running the real functions and the "
         "model on the same generated inputs (NaN payloads, signed zeros, ragged lengths) and by a direct round-trip oracle.",
    note="Floats are modelled by their bit patterns (Float32bits/frombits trusted as identities); JSON() is compared with "
         "encoding/json by the observer only; Coq kernel + VM, Go toolchain, python driver trusted.",
    technique="Coq proof (induction over the vector) + differential run of model vs implementation",
)
