SPEC = dict(
    props_file="Props/C19.v",
    level="proof",
    observers=[dict(cmd="obs_cluster", imports=["Model.Cluster"], case_type="Cluster.case", check="Cluster.check_case",
                    args=["-prop", "C19", "-kinds", "endpoint,enc,slots,shards,table,table,do,do,do,multi"],
                    n={"quick": 700, "thorough": 20000}, shard=100)],
    rule="ENUMERATED on every run (86 cases, independent of the seed): first reply ASK / MOVED x target known / never heard of x GET / SET x next reply value / ASK / MOVED / TRYAGAIN / connection closed x MaxMovedRedirections default / 1, slot moved / migrating / both, each followed by a second command on the slot; and the batch table of C20 / C28 (202 cases). RANDOM in addition: generated topologies (1-4 shards, replicas, endpoints \"\" / \"?\" / IPv6 / host names, health, tls-port; overlapping, "
         "negative, reversed and oversized ranges; duplicate primaries) as CLUSTER SLOTS and CLUSTER SHARDS replies, 40% with 1-3 "
         "tree mutations (dropped / duplicated / retyped sub-trees) through the exported parsers; the same replies served by a fake node "
         "to NewClient in the four replica configurations with the tables probed at range boundaries; single keyed commands against the "
         "simulated cluster with scripted and migration-induced redirect chains (MOVED, ASK, TRYAGAIN, CLUSTERDOWN, LOADING, dropped "
         "connections, MaxMovedRedirections 0-3, DisableRetry, RetryDelay tables); batches. A case is non-trivial when the reply tree is "
         "non-empty / more than one send happened; distinct by input",
    trusted=["harness/fakecluster is our reading of the Redis Cluster specification (MOVED/ASK/ASKING/TRYAGAIN, EXEC-time slot check)",
             "addresses are compared as (host, port) pairs obtained with net.SplitHostPort (net.JoinHostPort assumed injective)",
             "the per-slot loops of _refresh are modelled by their closed form (covers / last_owner); tied by probing the real tables",
             "replies are classified (MOVED / ASK / … ) by the harness; the text-level classifiers of message.go belong to C15"],
    assumptions=["Go map iteration order is an input (theorems quantify over every permutation of the groups)",
                 "a concurrent topology refresh is an input of every attempt (ct_refresh); cases in which a lazy refresh completed "
                 "during the observed call are re-run"],
)

MANIFEST = dict(
    text="Proof: the topology parsers are total (no Panic on any reply tree; parsed groups always have a primary, so the table "
         "rebuild cannot index out of range in any map order); a CLUSTER SLOTS / CLUSTER SHARDS reply encoding an abstract topology yields "
         "exactly the listed ranges under their primaries and only healthy nodes with a known endpoint, and the rebuilt table maps every slot "
         "of a listed range to that primary in every iteration order; the send at label retry goes to the table entry of the command's slot; in "
         "every trace of clusterClient.do, over all reply sequences and concurrent table replacements, MOVED is followed by the plain "
         "command on the named node, ASK by ASKING+command on the named node, nothing follows a final reply, the caller gets the last "
         "reply, and at most MaxMovedRedirections redirects are followed. The model is tied to cluster.go on every run by running the "
         "real parsers / NewClient / Do / DoMulti against a simulated cluster on generated topologies and redirect chains and evaluating "
         "the model on the same inputs, plus a direct oracle on the servers' logs.",
    note="partial: goroutine scheduling of the lazy refresh is an input of the model, not verified; "
         "the per-slot assignment loops are represented by their closed form. Coq kernel + VM, Go toolchain, fake cluster, python driver trusted.",
    technique="Coq proofs (induction over reply trees, loop invariants over fold_left-style parsers, induction on fuel for the redirect loop) "
              "+ differential run of model vs implementation on a simulated cluster",
    category="proof",
)
