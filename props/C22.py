SPEC = dict(
    props_file="Props/C22.v",
    level="proof",
    observers=[dict(cmd="obs_selector", imports=["Model.Selector"], case_type="Selector.case", check="Selector.check_case",
                    n={"quick": 1200, "thorough": 40000}, shard=100)],
    rule="generated node lists (0-20 nodes, and 253-300 nodes around the 255-node window; same-AZ density none / rare / more than 8; "
         "same-AZ nodes only at the edge of or beyond the window) x call sequences (1-24 calls on one closure, node list occasionally "
         "changed) for the three exported selectors, plus pickAZ with chosen counter values (incl. the last 12 before the uint32 wrap); "
         "a case is non-trivial when some call had more than one equally ranked candidate; distinct by full input",
    trusted=["atomic.Uint32.Add(1) is modelled as +1 modulo 2^32 on a sequential counter (no concurrent callers in the model)"],
    assumptions=["node lists shorter than 2^32; rotation theorems: the counter does not wrap inside the window of consecutive calls (explicit hypothesis; "
                 "the wrap glitch is characterised)"],
)

MANIFEST = dict(
    text="Proof: for every node list, AZ assignment, client AZ and counter value the three selectors never panic and return -1 or a "
         "valid index (also along any call sequence); a same-AZ replica among the first 255 nodes is always chosen; the documented "
         "fallbacks (same-AZ primary, any replica, primary) are proved as equations; over count consecutive calls each of the (at most 8) "
         "equally ranked candidates / each replica is returned exactly once (permutation), with the uint32 wrap of the counter explicit. "
         "The model is tied to helper.go on every run through the exported selectors and pickAZ, plus a direct oracle (range, priority, rotation).",
    note="The defect found (AZAffinityNodeSelector on an empty node list returned 2, 3, ...) is repaired in the repository "
         "(fix: commit in known_findings.d/acc.json); the theorems are about the repaired code and C22_before_fix_refuted records the old behaviour. "
         "Concurrency of callers on the atomic counter is not modelled. Coq kernel + VM, Go toolchain, python driver trusted.",
    technique="Coq proof (list induction, modular arithmetic, permutation) + differential run of model vs implementation",
    category="proof",
)
