SPEC = dict(
    props_file="Props/C44.v",
    level="proof",
    observers=[dict(cmd="obs_url", imports=["Model.AccBase", "Model.Url"], case_type="Url.case", check="Url.check_case",
                    n={"quick": 1500, "thorough": 60000})],
    rule="URLs generated from components: 12 schemes (valid, unsupported, upper case, empty) x credentials (none / user / user:password, "
         "escaped characters) x hosts (none, name, name:port, IPv4, bracketed IPv6 with and without port, :port) x paths (none, /, /n, "
         "signed, overflowing, non numeric, nested; socket paths with escaped blanks) x multi-valued addr lists (2-4 entries mixing "
         "host:port, [v6]:port, :port and port-less entries in any order; expected InitAddress from an independent reading of the "
         "documented rule) x any subset of the 11 query parameters with valid "
         "and invalid values and repeated keys, plus texts net/url rejects; a case is non-trivial when it has credentials, a path or a "
         "query; distinct by URL text",
    trusted=["net/url.Parse, url.Values, net.SplitHostPort, time.ParseDuration, strings.TrimSpace: the model takes their results as input "
             "(passed by the observer for the strings at hand); theorems hold for every behaviour of these functions",
             "strconv.Atoi, strconv.ParseBool, net.JoinHostPort, strings.Split are modelled concretely and exercised by the tie"],
    assumptions=["input of the model is the URL as parsed by net/url (scheme, userinfo, host, hostname, path, query multimap)"],
)

MANIFEST = dict(
    text="Proof: for every parsed URL and every behaviour of the library parsers, ParseURL never panics, rejects exactly under an explicit "
         "condition (unsupported scheme, non-integer db / path database, unparsable dial_timeout / write_timeout, non-boolean skip_verify "
         "on a TLS scheme, nested path) and otherwise returns exactly the documented option record: one closed form per option "
         "(credentials, address / socket path + addr list, database, dial_timeout -> Dialer.Timeout, write_timeout -> ConnWriteTimeout, "
         "protocol, client_cache, client_name, max_retries, master_set, skip_verify), each depending only on its own part of the URL "
         "(non-interference theorem). The model is tied to url.go on every run (real ParseURL on generated URL texts vs the model on the "
         "structure net/url produced), plus a direct oracle built from the generator's components.",
    note="Second repair (fix commit in known_findings.d/acc.json): the default host of host-less addresses was u.Host verbatim "
         "(redis://h1:7000?addr=:7001 gave [h1:7000]:7001), now u.Hostname(); C44_addr_rule is the full documented rule, "
         "C44_addr_rule_before_fix_refuted the old behaviour. addr entries without a port are undocumented (addr=<host>:<port>) and outside "
         "the statement: the oracle requires nothing of them, the model still pins what the code does. The defect found (write_timeout was stored into Dialer.Timeout, overwriting dial_timeout; ConnWriteTimeout never set) is repaired "
         "in the repository (fix: commit in known_findings.d/acc.json); theorems are about the repaired code. Code behaviours kept as they are "
         "and stated in the theorems: a path of just \"/\" is rejected (empty database number); skip_verify is not validated on non-TLS "
         "schemes; protocol / client_cache / max_retries are equality tests with no invalid value; an addr value without host takes the "
         "URL's whole host:port as its host. Coq kernel + VM, Go toolchain, python driver trusted.",
    technique="Coq proof (case analysis over the staged parser) + differential run of model vs implementation",
    category="proof",
)
