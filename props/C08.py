SPEC = dict(
    props_file="Props/C08.v",
    level="proof",
    observers=[dict(cmd="obs_cachekey", imports=["Model.CacheKey"], case_type="CacheKey.case", check="CacheKey.check_case",
                    shard=150, n={"quick": 1000, "thorough": 20000}),
               dict(cmd="obs_adapter", args=["-prop", "C08"], imports=["Model.Lru", "Model.Adapter"], case_type="Adapter.case", check="Adapter.check_case",
                    shard=25, n={"quick": 60, "thorough": 1500})],
    rule="obs_cachekey: token lists of 0-7 tokens over mixed alphabets (arbitrary bytes, empty tokens, digit strings), read-only-script "
         "commands incl. numkeys <> 1 and too-short ones (panics), MGET / JSON.MGET forms; pairs of distinct commands: arguments "
         "re-split at random cut points (same name and key), name absorbing a suffix of the key (TTL kP / PTTL k), key-only "
         "differences, commands whose arguments repeat the key token (any position, several times, also in front of a script's key) paired with "
         "reorderings / one copy more or fewer, flag-only differences, tokens moved across the key position, unrelated pairs; for lru collisions the real lru "
         "is driven to show the wrong hit; obs_adapter: histories over colliding (key, cmd) pairs; a pair is non-trivial when both "
         "identities exist; distinct by (flag, tokens)",
    trusted=["strings.Builder concatenation; Go string equality"],
    assumptions=["a cacheable command is its token list plus the script-read-only flag (the builder graph that produces the tokens is C32/C33)"],
)

MANIFEST = dict(
    text="Proof of the exact characterisation of the cache identity: two commands share an lru entry iff their key tokens are equal and the "
         "concatenations of their remaining tokens are equal (adapter: iff key ++ concatenation are equal); hence the property as stated is "
         "refuted (GETRANGE k 1 23 / GETRANGE k 12 3; adapter also TTL kP / PTTL k) and holds on every family of commands with fixed "
         "token lengths, on all two-token commands (built-in store), and MGET/JSON.MGET members share the identities of GET/JSON.GET. "
         "Known finding (format pinned by internal/cmds/cmds_test.go; an injective encoding fails three unedited tests). Every run "
         "executes the real CacheKey on generated commands and near-collision pairs, shows the wrong hit in the real lru, and labels a "
         "collision with the known class only if it satisfies the proved characterisation (re-checked by the model); any other collision "
         "is a violation.",
    note="Which builder paths end in Cache() (the set of cacheable shapes) is the builder-graph family's translator; here a command is any token list.",
    technique="Coq proof (characterisation + injectivity lemmas, witnesses by vm_compute) + differential run of CacheKey / MGetCacheCmd / MGetCacheKey + collision oracle with class decided by the characterisation",
    category="proof",
)
