"""C05 — calls honour context deadlines and cancellation.

This file covers the pipeline wait, the synchronous connection deadline, the flow-buffer queue wait, the
client-side-cache flight wait and the retry back-off.  The blocking pool's wake-up (cancellation racing
with the pool's broadcast) is proved in Props/C05pool.v by the pool builder; the integrator adds it here:

    EXTRA_PROPS     = ["Props/C05pool.v"]                       # built and axiom-checked with Props/C05.v
    EXTRA_OBSERVERS = [dict(cmd="obs_pool", ..., n={...})]      # same shape as SPEC["observers"] entries
"""
from vlib import core, flow

EXTRA_PROPS = ["Props/C05pool.v"]   # pool wake-up half (family lts): C05_pool_wakeup, C05_pool_done_ctx_never_parks, C05_pool_wakeup_refuted_orig
EXTRA_OBSERVERS = [dict(cmd="obs_pool", imports=["Model.Pool"], case_type="Pool.case", check="Pool.check_case",
                        shard=75, corpus=False, n={"quick": 300, "thorough": 6000}, timeout={"quick": 600, "thorough": 3000})]

SPEC = dict(
    props_file="Props/C05.v",
    level="proof",
    observers=[dict(cmd="obs_ctx", imports=["Model.Pipe", "Model.PipeLts", "Model.PipeWait", "Model.PipeCase"],
                    case_type="PipeCase.case", check="PipeCase.check_case", shard=20,
                    n={"quick": 72, "thorough": 720}, timeout={"quick": 900, "thorough": 5400})],
    rule="scenario kinds: stalled reply to a pipelined single / batch (deadline or manual cancellation), stalled reply to a synchronous "
         "call (connection deadline derived from the context), a context that is already done (cancelled / expired; single / batch), "
         "a caller blocked in PutOne of a full 2-position flow buffer, a caller waiting on another caller's pending cache flight (lru and "
         "adapter), retry back-off with a 3 s delay (manual cancellation of a cancel-only context; of a context with a one-minute deadline, by its own cancel function or "
         "through its parent, Do and DoMulti; deadline sooner than the delay; a 30 ms delay that elapses), "
         "two callers with different kinds of context on one idle connection (A: deadline, waiting synchronously on a stalled server; "
         "B arrives with a cancel-only context / context.Background / a SUBSCRIBE / on an already pipelining connection): A returns at "
         "its deadline with the context's error and the background workers are not started while A owns the connection; "
         "deadline sweep 20/50/100/200/400 ms; ring and flow-buffer queue; distinct by (kind, queue, deadline, variant)",
    trusted=["wall-clock measurement with 250 ms slack; a late return is re-run twice before it is reported",
             "fakeredis Drop / Override fault actions"],
    assumptions=["see C01 (abstract FIFO, Go runtime modelled)",
                 "real-time bounds are not model notions: the theorems state that after CtxDone the caller's own step is enabled and returns "
                 "the context's error; the tie measures the delay",
                 "the ring queue does not observe the context while a caller is parked on a full ring (documented in rueidis.go); that "
                 "waiting state is outside the theorems and the tie"],
)

MANIFEST = dict(
    text="Proof: in every state of the pipeline LTS (see C01) a caller waiting for the reply of a queued command whose context is done "
         "has its abort step enabled and that step returns the context's error for every command without touching queue or wire "
         "(C05_exit_enabled); likewise a caller blocked in the flow buffer's PutOne (C05_exit_enabled_flow_put) and a synchronous call "
         "whose connection deadline derived from the context has passed (C05_exit_enabled_sync); cancellation can arrive in every state "
         "(C05_ctxdone_any_time); the selects of cacheEntry.Wait / adapterEntry.Wait and of the retry back-off are never blocked once the "
         "context is done, and WaitOrSkipRetry never starts a back-off that would outlast the deadline (C05_exit_enabled_cache_wait, "
         "C05_exit_enabled_retry, C05_exit_enabled_retry_any_ctx, C05_retry_skips_when_deadline_sooner); a call whose context is already done returns the context's error "
         "and its commands are never put on the wire nor queued, in any schedule (C05_done_ctx_sends_nothing); while a caller uses the "
         "connection synchronously it is its only user and the background workers - whose first action clears the connection deadline - "
         "are started by no step but that caller's own failure step, so nobody else touches the deadline it derived from its context "
         "(C05_sync_owner_alone, C05_sync_deadline_preserved). Tie: a real client against "
         "a stalling server, pending cache flights and long retry delays with a deadline sweep; oracle: return no later than deadline + "
         "250 ms with the context's error, nothing sent for a done context; every observed execution is replayed as a schedule of the LTS "
         "(or an instance of the wait model), which must hand the call the same result.",
    note="Partial for scheduling/timing: 'shortly after the deadline' is measured by the tie (250 ms slack), not proved. The blocking pool's "
         "wake-up is the pool builder's part (Props/C05pool.v, added through EXTRA_PROPS). A caller parked on a full ring does not observe "
         "its context (documented limitation of the ring queue; the flow buffer does).",
    technique="Coq: enabledness lemmas over the executable LTS + invariant for 'sent' + wait model; deadline sweep on the real client with "
              "a direct oracle and schedule replay through the model",
    category="proof",
)


def _extra(ctx):
    """Build and axiom-check the additional Props files (Props/C05pool.v once the pool builder's part is merged)."""
    problems = []
    if not EXTRA_PROPS:
        return problems
    b = core.coq_build(list(EXTRA_PROPS))
    ctx.coverage["obligations"] += b["obligations"]
    ctx.coverage["discharged"] += b["discharged"]
    if not b["ok"]:
        problems.append("extra props do not check: %s %s" % (b["failed_files"], b["lint"]))
        return problems
    for f in EXTRA_PROPS:
        a = core.coq_assumptions(ctx, f)
        if not a["ok"]:
            problems.append("Print Assumptions (%s): %s" % (f, a["bad"]))
    return problems


def run(ctx):
    spec = dict(SPEC)
    spec["observers"] = list(SPEC["observers"]) + list(EXTRA_OBSERVERS)
    spec["extra"] = _extra
    return flow.standard(ctx, spec)
