SPEC = dict(
    props_file="Props/C31.v",
    level="proof",
    observers=[dict(cmd="obs_helpers", imports=["Model.CacheBatch", "Model.Helpers"], case_type="Helpers.hcase", check="Helpers.check_hcase",
                    n={"quick": 800, "thorough": 12000}, shard=400)],
    rule="MGet / MGetCache / JsonMGet / JsonMGetCache / MSet / MSetNX / JsonMSet / MDel on REAL single (1 and 4 connections) and "
         "cluster (2-4 nodes, scattered slots) clients over the in-process server: key universes with strings, JSON documents, "
         "missing and wrong-type keys, duplicates in the key list, injected -ERR on one command; arrayToKV with shorter / equal / "
         "longer arrays; MGets / MDels / MSets / MSetNXs / JsonMGets / JsonMSets of internal/cmds; DecodeSliceOfJSON with nil, "
         "malformed and non-string elements; non-trivial = at least two keys / elements; distinct by full case description",
    trusted=["fake Redis server incl. the JSON.* stand-ins (documents stored as strings, reads return <doc>@<path>)",
             "Go map iteration order is read back from the command the server received and fed to the model as the order input"],
    assumptions=["the server answers MGET / JSON.MGET with one element per key in order",
                 "Client.DoMulti is positional (cluster.DoMulti regrouping: scatter/gather identity of C11, routing of C20)",
                 "sentinel and standalone clients take the same helper branch as the single client (type switch) and are not run"],
)

MANIFEST = dict(
    text="Proof: for every key list (duplicates included), slot function, server and Go map iteration order, the models of MGet, JsonMGet, "
         "MSet, MSetNX, MDel, JsonMSet (single-command and per-slot / per-key cluster paths), arrayToKV, doMultiSet, the slot-grouping "
         "builders and DecodeSliceOfJSON bind exactly the input keys, each to its own reply or error (Coq, closed under the global "
         "context); tied to helper.go on every run by real single and cluster clients against an in-process server.",
    note="MGET / JSON.MGET elementwise replies and positional DoMulti are hypotheses; sentinel / standalone clients share the single-client "
         "branch and are not exercised separately; MGetCache / JsonMGetCache rest on C11.",
    technique="Coq proof (fold invariants over association-list maps; grouping loop = slot map builder) + differential run vs real clients "
              "+ direct key-set / per-key-value oracle",
)
