SPEC = dict(
    props_file="Props/C35.v",
    level="proof",
    translators=[dict(cmd="tr_scripts", out="Gen/Scripts.v")],
    observers=[dict(cmd="obs_bloom", imports=["Model.Bloom"], case_type="Bloom.case", check="Bloom.check_case",
                    n={"quick": 500, "thorough": 12000}, shard=60)],
    rule="histories of Add/AddMulti/Exists/ExistsMulti/Count/Reset/Delete (2-26 operations, keys from a pool of 24 plus random "
         "byte strings and the empty key) on filters built by NewBloomFilter for (n, rate) drawn from small n and rates "
         "0.000001..1, a quarter with WithEnableReadOperation, a fifth over RESP2; a case is non-trivial when at least one "
         "item was added or Count was observed; distinct by (n, rate, option, operation list). Plus a deterministic grid of "
         "9825 (n, rate) points for the sizing side condition.",
    trusted=["murmur3.Sum128 (github.com/twmb/murmur3) is a Section variable of the model; its values for the keys of each case are "
             "computed by the real function and passed into the model",
             "the float sizing code (numberOfBloomFilterBits/HashFunctions) is not modelled: the theorems assume 1 <= k and 0 < size, "
             "and the observer checks that every accepted configuration of the case stream and of a 9825-point grid satisfies it",
             "fake Redis server + mini-Lua interpreter execute the script text the client sends (BITFIELD/INCRBY/SET/DEL semantics are ours)",
             "decimal printing of indexes (strconv.AppendUint) and Lua's tonumber are inverse below 2^53 (not modelled)"],
    assumptions=["1 <= hashIterations and 0 < size (tested side condition, see trusted)", "hash : K -> N * N arbitrary (Section variable)"],
)

MANIFEST = dict(
    text="Proof: for every size > 0, hashIterations >= 1, hash function, starting state and history, an item added by Add/AddMulti is "
         "reported present by Exists/ExistsMulti until a Reset/Delete, ExistsMulti answers per key in order (= all k bits set), Count is "
         "monotone; the add/exists/reset/delete scripts are transcribed loop for loop (the i % k boundary arithmetic is proved) and pinned "
         "byte for byte; tie: real client + real script text under mini-Lua vs the model on generated histories, index lists compared.",
    note="Sizing floats are not modelled: the side condition k >= 1, 0 < size <= 2^32 is checked on every accepted configuration met and on a "
         "9825-point grid each run (it failed on the original code: D9, hashIterations = 0, repaired by a fix: commit). murmur3, the fake "
         "server and mini-Lua are trusted for the tie.",
    technique="Coq proof (loop invariants over the script loops, history induction) + differential run against the real client and scripts",
    category="proof",
)
