SPEC = dict(
    props_file="Props/C36.v",
    level="proof",
    translators=[dict(cmd="tr_scripts", out="Gen/Scripts.v")],
    observers=[dict(cmd="obs_cbloom", imports=["Model.CountingBloom"], case_type="CountingBloom.case", check="CountingBloom.check_case",
                    n={"quick": 450, "thorough": 10000}, shard=40)],
    rule="histories of Add/AddMulti/Remove/RemoveMulti/Exists/ExistsMulti/ItemMinCount(Multi)/Count/Delete (3-30 operations) on small "
         "counting filters (n 1..12, so that indexes collide), keys from a pool of 3..10; removals mostly of present items, one in six of "
         "an arbitrary key; the server hash and counter key are read directly after every write; a case is non-trivial when it used at "
         "least one key; distinct by (n, rate, operation list). Plus a deterministic grid of 8960 (n, rate) points for the sizing side condition.",
    trusted=["murmur3.Sum128 is a Section variable; its values are computed by the real function and passed into the model",
             "float sizing code not modelled: theorems assume 1 <= k, 0 < size; the observer checks every accepted configuration met and an 8960-point grid",
             "fake Redis server + mini-Lua execute the script text the client sends (HINCRBY/HGET/HMGET/INCRBY/DECRBY/DEL semantics are ours)",
             "phase 1 of the remove script (indexCounter snapshot) is modelled as a copy of the hash; the step-k slicing of ARGV as the per-key chunks the client concatenates"],
    assumptions=["1 <= hashIterations and 0 < size (tested side condition)", "hash : K -> N * N arbitrary (Section variable)",
                 "decidable equality on keys (premise of the multiplicity theorem)"],
)

MANIFEST = dict(
    text="Proof: for every size > 0, k >= 1 and hash function: no counter becomes negative in any history; the remove script equals, item by item, "
         "'subtract if every counter can pay, else change nothing' (a failed removal changes nothing); when only present items are removed every "
         "counter is the exact number of (item, position) pairs mapped to it, Count is the number of items, ItemMinCount(Multi) answers per key in "
         "order and at least the net multiplicity, Exists(Multi) reports every item with positive multiplicity. Scripts pinned byte for byte; tie: "
         "real client + real scripts under mini-Lua vs model, including the raw server hash after every write.",
    note="Sizing floats not modelled (k >= 1, size > 0 checked per configuration and on a grid; it failed before the D9 fix). Counter values above "
         "2^63 (HINCRBY overflow) and uint64 parsing limits are outside the model. murmur3, fake server, mini-Lua trusted for the tie.",
    technique="Coq proof (simulation of the script's nested loops with break/rollback against a per-item specification; multiset invariant) + differential run",
    category="proof",
)
