SPEC = dict(
    props_file="Props/C24.v",
    level="proof",
    observers=[dict(cmd="obs_pool", imports=["Model.Pool"], case_type="Pool.case", check="Pool.check_case",
                    n={"quick": 600, "thorough": 12000}, shard=75, timeout={"quick": 600, "thorough": 3000})],
    rule="real pool.go driven by 2-8 goroutines x 1-4 acquisitions each on pools of capacity 1-3 with background / cancellable / "
         "already-cancelled contexts, cancellation after a delay or exactly between the wait-condition check and cond.Wait "
         "(yield hook), failing dials (shared dead wire or wire with an error), wires whose timer cannot be stopped, broken / "
         "expired idle wires, idle clean-up timer, Close; plus five scripted scenarios (D6, D8, a freed slot with a cancelled "
         "dialler, DoStream / DoMultiStream through a real mux). Every recorded trace is replayed through the LTS (each event "
         "must be an enabled transition with the recorded size / returned wire; final size, idle list, down must match). "
         "Non-trivial = some caller parked, a context was cancelled, or the pool was closed; distinct by label sequence.",
    trusted=["Go runtime semantics of sync.Mutex / sync.Cond / context (modelled: Wait enqueues and unlocks atomically, Signal wakes "
             "one waiter, Broadcast all, no spurious wake-ups)",
             "trace hooks (build tag verif) emit events under the pool mutex; lock-free cond.Signal / Broadcast calls are "
             "re-attached to the wake-up they cause by the observer (docs/lts.md)",
             "caller protocols of mux.go / pipe.go (PoolCallers.v) are transcribed by hand; tied by the scripted DoStream scenarios only"],
    assumptions=["every caller stores the wire it acquired (proved for the library's own callers in PoolCallers.v after the D7 fix; "
                 "a user abandoning a stream or a dedicated client keeps the slot)",
                 "capacity >= 1 (newPool replaces cap <= 0 by DefaultPoolSize)"],
)

MANIFEST = dict(
    text="Proof of the pool LTS for all schedules, any number of callers and any capacity: size = holders + idle + makes in "
         "flight and never above BlockingPoolSize, a connection is in at most one of idle / one holder, Store is always accepted "
         "and the library's callers store every wire they acquire, after Close only dead wires are handed out, a parked caller "
         "whose context is done always has its wake-up pending and leaves within three steps (lost-wake-up freedom), and no "
         "reachable state is stuck. Safety, lost-wake-up freedom and non-stuckness are proved; liveness under the real Go "
         "scheduler (fair termination, real-time bounds) is partial: not claimed, measured by the observer only. The model is "
         "tied to pool.go by model-based trace validation of real concurrent executions on every run.",
    note="Three genuine defects were found and repaired (fix: commits): D6 Store decremented size for the uncounted dead pipe of "
         "a done context (capacity exceeded later), D8 the cancellation goroutine broadcast without the mutex (lost wake-up of a "
         "cancelled waiter), D7 DoStream/DoMultiStream leaked the acquired wire on ctx.Err(). The original behaviour is kept in "
         "the model as orig_cfg with _refuted theorems. Trusted: Coq kernel + VM, Go runtime semantics of Mutex/Cond/context as "
         "modelled, the trace hooks and the observer's re-attachment of lock-free Signal calls.",
    technique="Coq proof (invariants by induction over run of a labelled transition system) + model-based trace validation",
    category="proof",
)

# "every handed-out connection is returned" for the streaming callers is tied to the code by the recycling observer of C29
# (pool-books oracle: size / idle after every DoStream / DoMultiStream incl. faults at every reply index); integrator's addition.
from props import C29b as _recycle  # noqa: E402
SPEC["observers"] = list(SPEC["observers"]) + [dict(o, corpus=False, n=dict(o["n"], quick=100)) for o in _recycle.SPEC["observers"]]
SPEC["rule"] += "; obs_stream (docs/ps.md): DoStream / DoMultiStream through a real client with BlockingPoolSize 1-2, replies cut at every reply index incl. non-final ones, failing writers, contexts ending before / during connection set-up; pool books (size, idle) checked after every call"
