SPEC = dict(
    props_file="Props/C37.v",
    level="proof",
    translators=[dict(cmd="tr_scripts", out="Gen/Scripts.v")],
    observers=[dict(cmd="obs_sbloom", imports=["Model.SlidingBloom"], case_type="SlidingBloom.case", check="SlidingBloom.check_case",
                    n={"quick": 400, "thorough": 10000}, shard=40)],
    rule="timed histories (3-26 operations: Add/AddMulti/Exists/ExistsMulti/Count/Reset/Delete/re-initialisation by a second "
         "NewSlidingBloomFilter) on the fake server's virtual clock, advanced before each operation by 0, 1, 2, 7, wh/2, wh-2, wh-1, wh, wh+1, "
         "2wh or a random amount below wh (wh = window/2; windows 1000, 1001, 1500, 2000, 2001, 60000 ms); the five server keys are read "
         "directly after every operation; a case is non-trivial when it used at least one key; distinct by (n, rate, window, option, timed operation list)",
    trusted=["murmur3.Sum128 is a Section variable; its values are computed by the real function and passed into the model",
             "float sizing code not modelled: theorems assume 1 <= k, 0 < size; the observer checks every accepted configuration it meets (grid: C35/C36 observers)",
             "fake Redis server + mini-Lua execute the script text the client sends; SET NX PX, RENAME, BITFIELD, TIME and key expiry "
             "(expired when pxat <= now, one millisecond earlier than Redis) are ours; the server clock is the fake's virtual clock"],
    assumptions=["1 <= hashIterations and 0 < size (tested side condition)", "hash : K -> N * N arbitrary (Section variable)",
                 "operations between the add and the query run at server times within [t, t + windowHalf] (no monotonicity needed)"],
)

MANIFEST = dict(
    text="Proof: from any server state, an item whose Add/AddMulti succeeded at server time t is reported present by Exists/ExistsMulti (one "
         "answer per key, in order) at every time t' with t <= t' <= t + windowHalfMs — every millisecond instant before t + window/2 — "
         "whatever other clients add, query, count or re-initialise in between (no Reset/Delete), for every size > 0, k >= 1, hash function "
         "and window; the five scripts are transcribed statement by statement (rotation lock, RENAMEs with their error paths) and pinned; "
         "tie: real client + real scripts under mini-Lua on a virtual clock vs the model, including the raw server keys after every step.",
    note="Sizing floats not modelled (tested side condition; repaired by the D9 fix). Time is the server's clock in whole milliseconds; the "
         "model uses the fake server's expiry rule. Reset returning redis-nil on success is observed, not judged. murmur3, fake server, mini-Lua trusted for the tie.",
    technique="Coq proof (invariant over all timed histories from an arbitrary state) + differential run on a virtual clock",
    category="proof",
)
