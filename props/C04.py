SPEC = dict(
    props_file="Props/C04.v",
    level="proof",
    observers=[dict(cmd="obs_fault", imports=["Model.Pipe"], case_type="Pipe.case", check="Pipe.check_case", shard=10,
                    n={"quick": 100, "thorough": 420}, timeout={"quick": 900, "thorough": 5400}),
               dict(cmd="obs_stall", imports=["Model.Pipe", "Model.PipeLts", "Model.PipeWatch", "Model.PipeCase"],
                    case_type="PipeCase.case", check="PipeCase.check_case", shard=10, corpus="C04-stall",
                    n={"quick": 20, "thorough": 200}, timeout={"quick": 900, "thorough": 5400})],
    rule="obs_stall: blocking-command ending (5) x queue x batch / Receive / hooks x ping interval 50-200 ms x timeout 100-300 ms; "
         "obs_fault: each case = a scripted exchange (2-6 goroutines keeping synchronous, pipelined, batched, client-side-cached calls, a Receive "
         "and a blocking BLPOP pending; ring / flow-buffer queue; RESP3 / RESP2; AlwaysPipelining or not) x the command index at which "
         "the fault happens x the fault (connection closed before executing / after executing without reply / after 3 bytes of the "
         "reply / Client.Close() / a failed dial followed by Close); quick tier: random sample, thorough tier: the full enumeration of "
         "26 indices x 4 modes x 2 queues x 2 pipelining modes first; non-trivial = the fault point was reached; distinct by the whole case",
    trusted=["fakeredis fault injection (CloseBefore / CloseAfter / CloseMidReply) and the recording dialler",
             "the wall-clock bound (3 s per phase) stands in for 'returns'; a hang is reported, a slow return is not"],
    assumptions=["see C01 (ServerProto, abstract FIFO, Go runtime modelled)",
                 "termination under the real scheduler is not a model notion: C04_not_stuck shows that a progress step is enabled, "
                 "C04_drain what holds once the loop has terminated"],
)

MANIFEST = dict(
    text="Proof over the pipeline LTS (see C01) with connection failures at any point, the keep-alive watchdog's _exit, Close() "
         "by any number of callers, the reader's deferred error delivery, the sacrificial PING and the clean-up loop of _background: "
         "while the loop runs with waits > 0 some thread other than its idle spin can always move (C04_not_stuck: every counted waiter "
         "is about to move by itself or has its slot in the queue where the loop or the writer reaches it); once the loop has terminated "
         "no call is waiting any more, the cache was closed, an error is latched and the counter is exact (C04_drain); results are the "
         "server's replies to the call's own commands followed by errors, never a hole (C04_results_are_replies_or_errors); after Close "
         "has passed its compare-and-swap every new call takes the error path and returns the latched error, which is ErrClosing when "
         "Close came first and never changes (C04_after_close, C04_error_path_returns_latched, C04_close_latches_errclosing, "
         "C04_latched_error_is_stable). A connection that goes silent without being closed is failed by the keep-alive watchdog, which "
         "stands back while the blocking-command signal blcksig is up: in the LTS extended with that counter and the watchdog's tick / "
         "time-out (every state of which is a state of the pipe LTS) the counter is exactly the number of blocking calls in flight or "
         "abandoned with a transport / context error - a blocking call that ended with a value, a null reply or an error reply has given "
         "it back (C04_blcksig_exact, C04_blcksig_zero) - and then the watchdog's steps are enabled and close the connection and latch "
         "the error without touching queue or calls (C04_watchdog_fails_silent_connection). Tie: fault enumeration on a real client (every command index x before/after/mid-reply/Close) "
         "with the oracle 'every call returns within the bound with an error or its own reply; once the client has noticed the failure a later call succeeds on "
         "a fresh connection (one of at most 6 consecutive follow-up calls, each returning promptly); after Close calls return ErrClosing', and replay of every connection's frames through the model's reader; silent-stall scenarios (obs_stall: a dedicated "
         "connection, blocking commands ending with a value / null reply / error reply / cancelled / none, then a server that reads "
         "but never answers, then a pipelined Do or DoMulti without deadline, Receive and the SetPubSubHooks error channel) with the "
         "oracle 'each returns an error within 2 x ping interval + timeout + 2 s, then a freshly dedicated connection works', replayed "
         "as a schedule of the extended LTS that must end with blcksig = 0 and hand the pending call an error.",
    note="Partial for scheduling/timing: termination within a wall-clock bound is measured by the tie, the theorems state non-stuckness and "
         "the state after termination. The mux's replacement of a broken wire (isBroken, CAS back to init) is exercised by the tie only "
         "(later call on a fresh connection), not modelled. One defect found by the tie was repaired: after a failed dial, calls on a closed "
         "client returned the stale dial error instead of ErrClosing (mux.go Close).",
    technique="Coq: invariants over an executable LTS (counting invariant, life-cycle latch, waiter-has-a-slot) + fault enumeration on the "
              "real client with a direct oracle + model-based replay of the reader",
    category="proof",
)

# integrator's addition: "cache waiters are released when the connection dies or is closed" is tied at store level by the
# lru observer of C09 (Close after histories with pending flights anywhere in the LRU order; seeded change C04-2)
from props import C09 as _c09  # noqa: E402
SPEC["observers"] = list(SPEC["observers"]) + [dict(o, corpus=False) for o in _c09.SPEC["observers"] if o["cmd"] == "obs_lru"]
