SPEC = dict(
    props_file="Props/C09.v",
    level="proof",
    # a list: the pipe-level builder appends its observer (full client against the fake server) here
    observers=[dict(cmd="obs_lru", args=["-prop", "C09"], imports=["Model.Lru"], case_type="Lru.case", check="Lru.check_case",
                    shard=25, n={"quick": 200, "thorough": 4000}),
               dict(cmd="obs_adapter", args=["-prop", "C09"], imports=["Model.Lru", "Model.Adapter"], case_type="Adapter.case", check="Adapter.check_case",
                    shard=25, n={"quick": 100, "thorough": 2000})],
    rule="obs_lru: generated histories of 8-45 store operations (Flight, Flights incl. duplicates in one batch, Update with replies of 1x-8x entryMinSize and server expiries around / before / after now, Cancel, Delete of key sets, flush, Close, GetTTL, 1000-2048 repeated hits across the 1024-hit MoveToBack threshold, operations of other callers run at the lock-free points inside Flight/Flights, clocks that occasionally run backwards, TTLs of 0 / negative / sub-millisecond); obs_adapter: 6-40 operations on NewSimpleCacheAdapter over a map-backed SimpleCache (colliding key+cmd pairs, SimpleCache evictions, operations of other callers inside Flight, the two-callers-miss race); a history is non-trivial with at least 3 hits / waits / commits / cancels / invalidations; distinct by (op kinds, observation size)",
    trusted=["container/list, sync.RWMutex, Go maps, channels: modelled by their documented semantics (list = sequence, maps kept in sync with the list, a closed channel releases every waiter)",
             "time.Time.Add / UnixMilli without overflow (|now|, |ttl| < 2^62 ns)",
             "entryBaseSize / messageStructSize are read from the build (unsafe.Sizeof) and passed to the model as parameters"],
    assumptions=["replies handed to Update have a non-zero RESP type byte",
                 "sync.RWMutex critical sections are atomic; a closed channel wakes all waiters (Go semantics)"],
)

MANIFEST = dict(
    text="Proof at store level over every history (every lock-granular interleaving of the critical sections of Flight/Flights with all other operations): after a Miss for (key, cmd) on an open store every lookup of that command is answered 'wait on that very entry' until its Update / Cancel or Close — no second Miss; every Wait/Miss answer names an entry that is in flight in the resulting store; Update delivers the committed value, Cancel and Close the error, to exactly that entry's waiters; no entry is ever released twice; a cancelled flight leaves nothing cached and the next Flight misses. NewSimpleCacheAdapter: while a flight is pending lookups wait on it (or are served a live SimpleCache value), the flight persists until resolved, its waiters get the value / error, Cancel leaves the SimpleCache untouched. Tied on every run by executing generated histories (duplicates in one Flights batch, gap operations, cancels, closes) on the real stores: returned entries are compared by identity, released channels and delivered values/errors are read after every operation.",
    note='Caller side (which failure of DoCache / doCacheMGet / DoMultiCache leads to which Cancel, context abandonment) and server request counts belong to the pipe-level model / observer of another builder; goroutine scheduling is replaced by lock-granular interleavings.',
    technique="Coq proof (invariants by induction over histories of executable step functions, incl. the separate critical sections of Flight/Flights as atomic steps) + differential run model vs implementation after every operation + direct oracles on the implementation",
    category="proof",
)

# end-to-end tie (integrator): real caching clients against the fake server, direct oracle only (docs/csc.md)
SPEC["observers"].append(dict(cmd="obs_csc", args=["-oracle", "c09"], n={"quick": 150, "thorough": 4000}, corpus=False))
SPEC["rule"] += "; obs_csc: concurrent cached readers (DoCache / DoMultiCache / MGetCache) on a real client against the fake server with writers on another connection, per-key and flush invalidations, PX / virtual-clock expiries, disconnects and aborted transactions, checked by the C09 oracle of docs/csc.md"

# caller side of DoCache(MGET / JSON.MGET) (builder csc, docs/csc.md): when the rewritten request fails, exactly the
# flights the call started are cancelled - theorems in Props/C09mget.v over Model/CacheBatch.v, tied by obs_batch's
# mgetfail cases (recording CacheStore: result + cancelled flights compared with the model) and by obs_csc's c09-mget scenarios
SPEC["extra_props"] = SPEC.get("extra_props", []) + ["Props/C09mget.v"]
SPEC["observers"].append(dict(cmd="obs_batch", args=["-kinds", "mgetfail"], imports=["Model.CacheBatch"], case_type="CacheBatch.case",
                              check="CacheBatch.check_case", shard=200, n={"quick": 120, "thorough": 3000}, corpus=False))
SPEC["rule"] += "; obs_batch -kinds mgetfail: DoCache(MGET / JSON.MGET) with hits, another caller's pending flights, misses and duplicates whose rewritten request is rejected at queue time (EXECABORT) or answered with an error inside EXEC, on a recording CacheStore"
