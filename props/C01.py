SPEC = dict(
    props_file="Props/C01.v",
    level="proof",
    observers=[dict(cmd="obs_pipe", imports=["Model.Pipe"], case_type="Pipe.case", check="Pipe.check_case", shard=12,
                    n={"quick": 150, "thorough": 3000}, timeout={"quick": 600, "thorough": 3000})],
    rule="placeholder",
    trusted=[],
    assumptions=[],
)
MANIFEST = dict(text="", note="", technique="", category="proof")
