SPEC = dict(
    props_file="Props/C01.v",
    level="proof",
    observers=[dict(cmd="obs_pipe", imports=["Model.Pipe"], case_type="Pipe.case", check="Pipe.check_case", shard=8,
                    n={"quick": 80, "thorough": 3000}, timeout={"quick": 900, "thorough": 5400})],
    rule="each case = one configuration (ring / flow-buffer queue, RESP3 / RESP2, PipelineMultiplex, RingScaleEachConn 1-3 or "
         "default, AlwaysPipelining / DisableAutoPipelining, MaxFlushDelay, cache on/off) x 2-32 goroutines issuing tagged ECHO / GET / "
         "batches / cached reads / subscribe / unsubscribe with live, cancelled, expiring and already-done contexts, pushes injected "
         "by the server; 4 scripted scenarios (proactive sunsubscribe during the writer's flush delay; push in the middle of a cache "
         "batch; the flow-buffer hand-over race driven through the gap hooks; a reply that arrives for a cancelled caller held just "
         "before its swallowing goroutine starts, on a 2-entry queue with a producer waiting for that entry); non-trivial = at least two goroutines and two calls; distinct by (configuration, op-kind histogram)",
    trusted=["fakeredis (our reading of the Redis protocol) and the recording dialler in front of it",
             "the cut of the recorded wire order into queue slots (harness/pipe/slots.go) uses the tags the observer put into "
             "its own commands; a wrong cut shows up as a model mismatch, not as a hidden one",
             "frames are decoded by the implementation's readNextMessage (RESP decoding is C12/C13's subject)"],
    assumptions=["ServerProto: one non-push reply per ordinary command in order, the n confirmations of an n-channel subscribe "
                 "contiguously, the PONG of the PING written after an unsubscribe, out-of-band pushes only between commands "
                 "(cmd_served_ok / free_push in Model/PipeLts.v); version <> 6 (the Redis-6 embedded-push workaround is not modelled)",
                 "the queue is the abstract FIFO of Model/PipeQueue.v (what ring.go / flowbuffer.go are proved to refine under C02)",
                 "NextWriteCmd of the queue never blocks (true for the flow buffer; for the ring since the queue family's repair of "
                 "ring.NextWriteCmd) - safety statements only, no liveness",
                 "Go runtime: scheduling, channels, sync primitives, bufio, net.Conn are modelled, not verified"],
)

MANIFEST = dict(
    text="Proof over a labelled transition system of the whole connection pipeline (any number of Do/DoMulti callers with single, "
         "batched, opt-in-cached and subscribe/unsubscribe commands, cancellation at any moment, Close, connection failures, the writer, "
         "the reader as a line-by-line transcription of _backgroundRead, the clean-up loop, a server following the Redis reply protocol "
         "that may push at any time), for every schedule, any number of callers and any queue capacity: the connection has at most one "
         "user (C01_exclusive_conn), every call's delivered results are a prefix of the server's replies to its own "
         "commands in order and a call that returns without error returns exactly those replies (C01_routing), the delivery log is an "
         "initial segment of what the wire order prescribes - nothing lost, duplicated or handed to another slot (C01_no_loss_no_dup) - "
         "and the reader never reaches panic(protocolbug) (C01_no_protocol_panic); all for both queue kinds. "
         "Tie: a real client runs against the in-process server in many configurations with 2-32 goroutines; every returned reply "
         "must carry the caller's own tag and each command must be executed once (direct oracle), and the recorded frames and wire "
         "order of every connection are replayed through the model's reader, whose deliveries must equal what the callers received.",
    note="Partial for scheduling/timing: the theorems are about all schedules of the model; the Go runtime, channels, bufio and "
         "net.Conn are modelled, not verified; no liveness statement. The Redis-6 embedded-push workaround is not modelled "
         "(version <> 6). Defects repaired: in _backgroundRead unsubscribe pushes took a ring slot early (deadlock) and were committed to "
         "the client-side cache; in Do/DoMulti the count in waits was released before background() was called, which - first found as a "
         "counterexample in the model, then replayed on the implementation with gap hooks - let a synchronous caller and the background "
         "workers share the connection with the flow-buffer queue (the model follows the repaired code). A ring deadlock found here "
         "(writer blocked in NextWriteCmd with unflushed bytes) was repaired by the queue family.",
    technique="Coq: invariants over an executable LTS (counting invariant of the waits counter, wire/queue/reader coherence, "
              "per-call result shape) + model-based replay of real executions through the extracted reader + tag oracle",
    category="proof",
)
