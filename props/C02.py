SPEC = dict(
    props_file="Props/C02.v",
    level="proof",
    observers=[
        dict(cmd="obs_queue", args=["-queue", "ring"], imports=["Model.Ring"], case_type="Ring.case", check="Ring.check_case",
             n={"quick": 600, "thorough": 15000}, shard=50, timeout={"quick": 600, "thorough": 3000}),
        dict(cmd="obs_queue", args=["-queue", "flow"], imports=["Model.Flow"], case_type="Flow.case", check="Flow.check_case",
             n={"quick": 400, "thorough": 10000}, shard=50, timeout={"quick": 600, "thorough": 3000}),
    ],
    rule="real ring.go / flowbuffer.go with 1-12 concurrent putters (PutOne and PutMulti, up to 5 commands each), one writer loop "
         "(NextWriteCmd / WaitForWrite) and one reader loop (NextResultCh / send / FinishResult, with spurious polls) on queues of 2 "
         "and 4 slots; ring counters started at 0, 1, 7, 2^31-1 and just below 2^32 (ticket wrap); callers that stop waiting and "
         "drain in the background; a scripted buffered-writer scenario (D15: a batch larger than the write buffer); flowbuffer puts with contexts cancelled while waiting for a token. Every recorded trace is "
         "replayed through the LTS (each event must be an enabled transition with the recorded outcome / item; at the end all "
         "slots are free, every command was dequeued and completed once and every caller holds its own result); the (one, multi, resps) returned by NextWriteCmd / WaitForWrite / NextResultCh are recorded (resps identified by a per-caller tag) and must be the putter's own, in the model replay and by a direct oracle, with mixed PutOne / PutMulti callers re-using slots. "
         "Non-trivial = more than the sentinel command; distinct by label sequence.",
    trusted=["Go runtime semantics of sync.Mutex / sync.Cond / channels (modelled: Wait enqueues and unlocks atomically, Signal "
             "wakes one waiter, Broadcast all, no spurious wake-ups; buffered channels are FIFOs)",
             "trace hooks (build tag verif): events are emitted under the slot mutex / atomically with a channel send; the lock-free "
             "ticket increment, cond.Signal and channel receives are re-ordered by the observer as described in docs/lts.md",
             "the reader's channel send is performed by the observer (pipe.go does it between NextResultCh and FinishResult)"],
    assumptions=["one writer thread and one reader thread (the queue interface requires it)",
                 "ring size 2^k with k <= 32 for the wrap theorem (newRing: k <= 31)"],
)

MANIFEST = dict(
    text="Proof of the ring and flow-buffer LTS for all schedules, any number of callers and any queue size: every command is handed "
         "to the writer exactly once, the writer dequeues in position order and the reader completes in the writer's order, the "
         "result channel and the stored payload (one / multi / resps) are handed over for exactly the caller that enqueued the command and a slot cannot be reused before its result is "
         "delivered (lock tenure), the uint32 ticket wrap is harmless, parked putters / the parked writer always have a pending "
         "waker (lost-wake-up freedom L1, L2), and no reachable state with pending work is stuck; for the flow buffer token "
         "conservation, FIFO order, non-blocking sends and own results. Safety, lost-wake-up freedom and non-stuckness are proved; "
         "liveness under the real Go scheduler (fair termination) is partial: not claimed. The models are tied to ring.go / "
         "flowbuffer.go by model-based trace validation of real concurrent executions on every run.",
    note="One genuine defect was found (reported by the pipe builder, confirmed by the scripted d15 scenario) and repaired: D15 ring.NextWriteCmd blocked on a slot the reader still held while the writer had unflushed commands (deadlock with a batch larger than the write buffer on a full ring); it now uses TryLock. Queue order is position order (with more than 2N callers a later ticket may occupy an earlier position; replies follow "
         "positions). The wait-condition check and cond.Wait are one model step (justified in Model/Ring.v). Trusted: Coq kernel + VM, "
         "Go runtime semantics of Mutex/Cond/channels as modelled, the trace hooks and the observer's re-ordering of lock-free events.",
    technique="Coq proof (invariants by induction over run of a labelled transition system) + model-based trace validation",
    category="proof",
)
