SPEC = dict(
    props_file="Props/C27.v",
    level="proof",
    observers=[dict(cmd="obs_inval", imports=["Model.PsBase", "Model.PubSub"], case_type="PubSub.case", check="PubSub.check_case",
                    n={"quick": 300, "thorough": 10000}, shard=50, timeout={"quick": 900, "thorough": 6000}),
               dict(cmd="obs_dedicated", imports=["Model.PsBase", "Model.Dedicated"], case_type="Dedicated.case", check="Dedicated.check_case",
                    n={"quick": 30, "thorough": 1500}, shard=20, timeout={"quick": 900, "thorough": 6000})],
    search_factor=3,
    rule="obs_inval: (a) a caching client with OnInvalidations: cached reads, writes / FLUSHALL from another connection (real tracking pushes of "
         "the fake server), injected multi-key pushes, then Close or kill; ground truth = the invalidate pushes found in the bytes the client "
         "read (client-side tee); (b) a dedicated client installing / replacing / clearing hook sets with and without an invalidation callback, "
         "pushes and messages in between, then release, Close or kill; both with and without the client-side cache (DisableCache + CLIENT TRACKING ON "
         "by hand) and, for the hook kind, with and without ClientOption.OnInvalidations set as well (both callbacks on the dedicated "
         "connection: the client-wide log must equal every push sent on it + nil when it is lost); the hook kind also checks each hook set's invalidation log directly against the pushes the server was made to send. "
         "obs_dedicated: release after SetOnInvalidations turns tracking off before reuse",
    trusted=["client-side tee + minimal RESP3 scanner (harness/psx) as ground truth of the pushes on the wire",
             "fake Redis server tracking (OPTIN, invalidation pushes, flush pushes)"],
    assumptions=["the invalidation branch of handlePush and the clean-up are part of the C26 LTS; all schedules of that LTS are covered by the theorems, "
                 "real executions are compared at quiescent points (a PING round trip after every step)"],
)

MANIFEST = dict(
    text="Proof: for every schedule of the connection LTS, ClientOption.OnInvalidations has been called with exactly the key lists of the "
         "invalidate pushes the reader handled, in wire order, nil for a flush, plus one nil once the connection is lost, and never when "
         "unset (C27_exact); the invalidation callback of a dedicated client's hook set saw exactly the pushes handled while that set was "
         "installed, plus a final nil iff it was installed when the connection was lost (C27_exact_hooks); with both configured on one connection every push goes to BOTH callbacks, the hook's does not replace the "
         "client-wide one (C27_exact_both_callbacks); releasing a dedicated client "
         "that installed an invalidation callback sends CLIENT TRACKING OFF in its own name and leaves tracking off before the wire is "
         "released (C27_tracking_off). Tied to the code by comparing callback logs with the pushes actually read from the connection "
         "(client-side tee) and with the model, and by the dedicated-client observer for the tracking-off clean-up.",
    note="The final nil on Close of a dedicated client races with Store's hook removal: both orders are schedules of the model and the observer "
         "accepts the one that happened. Cache invalidation itself (lru) is C06/C07's subject.",
    technique="Coq proof (invariants over all schedules) + differential run with a wire tee against a fake server",
    category="proof",
)
