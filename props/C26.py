SPEC = dict(
    props_file="Props/C26.v",
    level="proof",
    observers=[dict(cmd="obs_pubsub", imports=["Model.PsBase", "Model.PubSub"], case_type="PubSub.case", check="PubSub.check_case",
                    n={"quick": 200, "thorough": 6000}, shard=25, timeout={"quick": 900, "thorough": 6000})],
    search_factor=3,
    rule="generated operation sequences on one client against the fake server: 1-5 Receives (channels / patterns / shard channels "
         "with overlapping sets, with and without a cancellable context) plus three permanent ones on the marker channel, single "
         "publishes and concurrent bursts (5-64 messages from 1-4 publishers; the server's log gives the order), UNSUBSCRIBE of a "
         "shared / private / unknown channel, context cancellation, then Close or server-side kill; RESP3 and RESP2 (second "
         "connection for Pub/Sub); ECHO traffic on the same client meanwhile in half of the cases; plus the overlapping-subscribe "
         "scenario with 8-40 messages in flight before a second Receive's confirmation. Non-trivial = at least one message delivered",
    trusted=["fake Redis server: SUBSCRIBE/PSUBSCRIBE/SSUBSCRIBE families, PUBLISH/SPUBLISH fan-out order (channel subscribers, then patterns in sorted order)",
             "quiescence barrier: a marker published to a channel every live Receive listens to (bounded waits of 8 s; a timeout is reported as a stuck Receive)",
             "patterns used by the observer are literal or prefix* only, for which the model's matcher (pm_simple) and path.Match agree"],
    assumptions=["the theorems quantify over every schedule of the LTS; the correspondence run validates the LTS on quiescent points of real executions "
                 "(delivered sequences and return values per Receive), not on every interleaving: partial w.r.t. the Go scheduler",
                 "subscription hooks (WithOnSubscriptionHook) and the Redis-6 embedded-push workaround are not modelled; reply routing of the "
                 "subscribe commands themselves is C01's subject (a confirmation frame carries the Receive it answers)"],
)

MANIFEST = dict(
    text="Proof: an LTS of one connection's Pub/Sub (reader with handlePush and the blocking 16-slot sends of subs.Publish, any number of "
         "Receive callers with overlapping channel sets, cancellation, the locked removal, unsubscribe pushes, Close / connection loss with the "
         "clean-up, SetPubSubHooks callers, and the server's fan-out). For every schedule: what a Receive delivered is a prefix of the "
         "message frames for its own channels that the reader handled while it was registered, in wire order; delivered + buffered + in-flight "
         "is all of them while it runs; it is exactly all of them when the Receive ended by unsubscribe / Close (C26_delivery); every "
         "delivered message was published to a channel it named (C26_no_foreign); the return value is the context error iff the context "
         "ended it, nil only after an unsubscribe of one of its channels, else the latched pipe error (C26_return); hook channels are "
         "closed exactly once with at most one error and no send-on-closed / double-close panic is reachable (C26_hook_chan). Tied to "
         "the code by running generated subscribe / publish / unsubscribe / cancel / close sequences (RESP3 and RESP2, bursts from several "
         "publishers) on a real client against the fake server and comparing each Receive's delivered sequence and return value with the "
         "model and, independently, with the server's own publish log.",
    note="Partial: proof of the model over all interleavings; real executions are compared at quiescent points only (Go scheduler, timing). "
         "A genuine defect was found and repaired (Receive dead-locked the connection when 17 messages for an already subscribed channel "
         "arrived before its confirmation); model and theorems follow the repaired code. Command-reply correctness meanwhile is C01 "
         "(the observer only checks ECHO replies). Completeness is stated against the frames on the wire, the server-log form is checked by the observer's oracle.",
    technique="Coq proof (invariants of a labelled transition system over all schedules) + model-based and oracle-based validation of real executions against a fake server",
    category="proof",
)
