# The connection-recycling half of C29, runnable on its own (./check C29b).  props/C29.py (byte-level half, another
# builder) runs the same observer and props file as its PARTS["recycle"]: see docs/ps.md, section "C29b".
SPEC = dict(
    props_file="Props/C29b.v",
    level="proof",
    observers=[dict(cmd="obs_stream", imports=["Model.PsBase", "Model.Stream"], case_type="Stream.case", check="Stream.check_case",
                    n={"quick": 250, "thorough": 8000}, shard=100, timeout={"quick": 900, "thorough": 6000})],
    search_factor=3,
    rule="DoStream / DoMultiStream of 1-5 commands (bulk payloads of 0 .. 3x the read-buffer size with marks at the buffer size, nil, error, "
         "integer and simple-string replies) with read buffers 32 / 64 / 256 / 4096 and a stream pool of capacity 1 or 2; the reply of "
         "command j (every j, final and non-final) cut after k bytes and the connection closed (k random, offsets 0-39 favoured); an "
         "io.Writer failing after m bytes with a partial write; a context done before the call; a context ending while the pooled "
         "connection is being set up (one call, or two in a row each forced onto a fresh connection); a context ending in the dial before / "
         "after the connection is made; a failing dial; half of the calls on a recycled wire. After each call the pool's books are read "
         "(verif export) and a follow-up stream checks that the pool still hands out a connection and that a recycled one is in sync. "
         "Non-trivial = at least one WriteTo or a context scenario",
    trusted=["VerifSpoolStats (zz_verif_ps.go) reads pool.size / len(pool.list) under the pool lock",
             "the fake server's CloseMidReply / CloseAfter faults"],
    assumptions=["one reply is abstracted to streamTo's (n, err, clean); clean = exactly one reply was taken off the connection is the byte-level half's theorem (Props/C29.v)",
                 "the caller drains the stream (for s.HasNext() { s.WriteTo(w) }); an abandoned stream keeps its wire (documented API contract)"],
)

MANIFEST = dict(
    text="Proof (recycling half of C29): for every number of commands and every list of replies, draining a stream makes one WriteTo per reply "
         "read, in order, all of them when every reply is clean and up to the first unclean one otherwise (C29_one_per_cmd); the wire is stored "
         "exactly once, by the WriteTo of the last reply read, closed first exactly when a reply was unclean, and never touched again "
         "(C29_store_once); nil / error replies are reported for their WriteTo only (C29_nil_err). Over the whole call the wire taken from "
         "the pool is stored exactly once on every path — done context at the check, closing pipe, failed flush, drained stream — "
         "(C29_store_once_call) and the pool then accounts for exactly its idle list: one connection when the wire is still good, none "
         "otherwise (C29_books). Tied to the code on every run incl. faults at every reply index and six context / dial scenarios.",
    note="Two defects were found by obs_stream and repaired by their owners (fixed entries): DoStream returned on a done context without "
         "storing the acquired wire (DESIGN D7; kept as C29_store_once_call_before_fix_refuted) and streamTo over-discarded after a failed "
         "Write. The byte-level half is Props/C29.v.",
    technique="Coq proof (induction over the replies) + differential / oracle run with fault injection at byte offsets against a fake server",
    category="proof",
)
