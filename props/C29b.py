# The connection-recycling half of C29, runnable on its own (./check C29b).  props/C29.py (byte-level half, another
# builder) is meant to absorb it: see docs/ps.md, section "C29b".
SPEC = dict(
    props_file="Props/C29b.v",
    level="proof",
    observers=[dict(cmd="obs_stream", imports=["Model.PsBase", "Model.Stream"], case_type="Stream.case", check="Stream.check_case",
                    n={"quick": 250, "thorough": 8000}, shard=100, timeout={"quick": 900, "thorough": 6000})],
    search_factor=3,
    rule="DoStream / DoMultiStream of 1-5 commands (bulk payloads of 0 .. 3x the read-buffer size with marks at the buffer size, nil, error, "
         "integer and simple-string replies) with read buffers 32 / 64 / 256 / 4096; the reply of one command cut after k bytes and the "
         "connection closed (k random, offsets 0-39 favoured); an io.Writer failing after m bytes with a partial write; a context done before "
         "the call; a context ending while the pooled connection is being set up; half of the calls on a recycled wire. After each call the "
         "pool's books are read (verif export) and a follow-up stream checks the recycled connection. Non-trivial = at least one WriteTo or a context scenario",
    trusted=["VerifSpoolStats (zz_verif_ps.go) reads pool.size / len(pool.list) under the pool lock",
             "the fake server's CloseMidReply / CloseAfter faults"],
    assumptions=["one reply is abstracted to streamTo's (n, err, clean); clean = exactly one reply was taken off the connection is the byte-level half's theorem (Props/C29.v)",
                 "the caller drains the stream (for s.HasNext() { s.WriteTo(w) }); an abandoned stream keeps its wire (documented API contract)"],
)

MANIFEST = dict(
    text="Proof (recycling half of C29): for every number of commands and every list of replies, draining a stream makes one WriteTo per reply "
         "read, in order, all of them when every reply is clean and up to the first unclean one otherwise (C29_one_per_cmd); the wire is stored "
         "exactly once, by the WriteTo of the last reply read, closed first exactly when a reply was unclean, and never touched again "
         "(C29_store_once); nil / error replies are reported for their WriteTo only (C29_nil_err). At the level of the whole call the "
         "statement is refuted by the early return on a done context (C29_store_once_call_refuted), characterised exactly "
         "(…_characterised: never stored iff the context was done at the check) and proved otherwise (…_partial).",
    note="Known findings: ctx-done-wire-leak (DESIGN D7, repair pending with builder lts) and writer-failure-misaligned (streamTo, repaired on "
         "builder resp's branch). The byte-level half is Props/C29.v.",
    technique="Coq proof (induction over the replies) + differential / oracle run with fault injection at byte offsets against a fake server",
    category="proof",
)
