SPEC = dict(
    props_file="Props/C28.v",
    level="proof",
    observers=[
        dict(cmd="obs_retry", imports=["Model.RetryCase"], case_type="RetryCase.case", check="RetryCase.check_case",
             args=["-prop", "C28", "-kinds", "wait,single,single,batch,batch,standalone,sentinel"],
             n={"quick": 400, "thorough": 15000}, shard=100),
        dict(cmd="obs_cluster", imports=["Model.Cluster"], case_type="Cluster.case", check="Cluster.check_case",
             args=["-prop", "C28", "-kinds", "do,multi"],
             n={"quick": 400, "thorough": 10000}, shard=100),
    ],
    rule="ENUMERATED on every run (obs_cluster, 288 cases independent of the seed): the do and multi tables of C19 / C20, and for cluster DoMulti a member whose "
         "first reply is MOVED / ASK followed by k = 1..4 x {LOADING, TRYAGAIN, CLUSTERDOWN, connection closed after execution}, then a value, under RetryDelay "
         "policies {always 0, declines at attempts >= 2, >= 3, negative at once}: the re-send after every retry-class failure must be preceded by a consultation "
         ">= 0, and the attempt number of every consultation must be 1 + the number of retry rounds of the call so far (rounds read off the arrival log; "
         "cluster do: 1, 2, 3, …). RANDOM in addition: failure sequences of 0-6 scripted reactions per request (LOADING, error reply, connection closed before / after execution, "
         "truncated reply; cluster: MOVED, ASK, TRYAGAIN, CLUSTERDOWN) x RetryDelay tables (0, 1µs, negative, 1h) x DisableRetry x "
         "read-only / ToRetryable / plain write commands x context modes (none, deadline, cancelled before the call, cancelled inside "
         "the first retry decision) x synchronous / pipelined path, for single, sentinel, standalone (EnableRedirect) and cluster clients, "
         "single commands and batches; WaitOrSkipRetry alone on a delay x deadline grid; non-trivial when more than one send happened "
         "or a context was cancelled; distinct by inputs",
    trusted=["harness/fakesentinel data nodes and harness/fakecluster are our reading of Redis / Sentinel / Cluster replies",
             "which path of pipe.go (synchronous or pipelined) answers a failed batch member is reconstructed from the options (AlwaysPipelining)",
             "time.Until(deadline) is not read: deadlines (30 s) and delays (<= 1 ms or 1 h) are chosen so that the comparison has one answer"],
    assumptions=["RetryDelay is an arbitrary function of (attempts, reply) in the model; the observer uses tables by attempt",
                 "Receive / DoCache / DoMultiCache retry loops have the same shape as Do / DoMulti and are not modelled separately; dedicated clients are not modelled"],
)

MANIFEST = dict(
    text="Proof: for the single, sentinel and standalone clients a retry decision implies — for every reply sequence, RetryDelay function, "
         "context and client state — retries enabled, a read-only or retryable command, a LOADING reply or transport failure, a live context, "
         "an open client and a non-negative delay that fits before the deadline; every other reply is handed to the caller unchanged; nothing "
         "is written on a done context; a batch with a non-retryable member is never retried. For the cluster client every retry send in "
         "every trace follows a TRYAGAIN / CLUSTERDOWN / LOADING reply or a transport failure with a live context, of a retryable command, "
         "under the same policy; a batch member is queued for another round only if the policy accepts it (proved on the repaired "
         "doresultfn, fix a512c0c: members with a negative RetryDelay were re-sent with redirected members). Tied to client.go / retry.go / "
         "cluster.go / sentinel.go / standalone.go on every run by scripted failure sequences through the real clients against fake nodes, "
         "model evaluated on the observed attempts, direct oracle on the servers' arrival logs.",
    note="partial: real-time behaviour (how long WaitForRetry sleeps, deadline arithmetic on the wall clock) is outside the model; the "
         "transparent re-send after errConnExpired is a separate reason (C03). Coq kernel + VM, Go toolchain, fake nodes, python driver trusted.",
    technique="Coq proofs over decision functions and traces (induction on fuel) + differential run of model vs implementation with fault injection",
    category="proof",
)
