SPEC = dict(
    props_file="Props/C46.v",
    level="proof",
    observers=[dict(cmd="obs_scanner", imports=["Model.Scanner"], case_type="Scanner.case", check="Scanner.check_case",
                    n={"quick": 1500, "thorough": 60000})],
    rule="generated page scripts (0-9 pages; empty pages, error pages, cursor 0 in the middle, cursors near 2^64) x consumer "
         "stop points (never / any index up to one past the stream) for Iter and Iter2; a case is non-trivial when the script has "
         "at least two pages and next was called at least twice; distinct by (operation, script, stop point)",
    trusted=["range-over-func semantics of Go (a break in the loop body makes yield return false) is modelled by the consumer's stop point"],
    assumptions=["the next callback is deterministic in its call index (scripted); past the end of the script it returns an error"],
)

MANIFEST = dict(
    text="Proof: for every script of pages (any length, any mix of pages, errors and cursors) and every consumer stop point, Iter yields "
         "exactly the prefix of the concatenated page elements the consumer asked for, requests cursor 0 and then exactly the returned "
         "cursors, makes no call after an error / cursor 0 / consumer stop, exposes the failing page through Err, and Iter2 yields the "
         "consecutive pairs of each page; induction over the script, closed under the global context. The model is tied to helper.go on "
         "every run through NewScanner with a scripted callback, plus a direct oracle computed from the script.",
    note="Pairs in Iter2 are per page (a trailing odd element of a page is skipped), as in the code. Coq kernel + VM, Go toolchain, python driver trusted.",
    technique="Coq proof (induction over the page script) + differential run of model vs implementation",
    category="proof",
)
