SPEC = dict(
    props_file="Props/C23.v",
    level="proof",
    observers=[dict(cmd="obs_sentinel", imports=["Model.Sentinel"], case_type="Sentinel.case", check="Sentinel.check_case",
                    n={"quick": 250, "thorough": 8000}, shard=60)],
    rule="ENUMERATED on every run (25 histories, independent of the seed): same-address re-validation — default / SendToReplicas client x "
         "{no change, master demoted in place, master answers ROLE with an error, replica promoted in place} with the sentinel still reporting "
         "the old addresses x {+switch-master naming the current address, +reboot master for it, subscription connection dropped, +sdown slave}, "
         "then SET / GET (compared with live_m / live_r of the model), then a failover to a third node the client must follow. RANDOM in "
         "addition: deployments of 2-3 data nodes and 1-4 sentinels (one known only through other sentinels' answers); sentinels down, reporting a "
         "stale / wrong / dead master, answering get-master-addr-by-name with nil, an empty or a one-element array, failing SENTINEL sentinels / "
         "replicas, replicas flagged s-down; data nodes down or answering ROLE with an error, an empty array, 'sentinel', or the opposite role; "
         "default / ReplicaOnly / SendToReplicas clients; NewClient = one synchronous _refresh whose result (adopted addresses, rotated "
         "sentinel list, error, panic) is compared; +switch-master after a role flip, for another master set, for a node that is not master, "
         "for a dead node, followed by primary traffic; every case non-trivial; distinct by world",
    trusted=["harness/fakesentinel is our reading of the Sentinel protocol (ROLE, SENTINEL sub-commands, +switch-master message layout)",
             "pickReplica's random draw is made irrelevant by leaving at most one eligible replica per answer",
             "event handling is asynchronous: the observer waits (up to 10 s) for the client to have asked the target for its ROLE / "
             "to have switched before it sends traffic; in the re-validation histories it waits for the second ROLE probe of the node "
             "that fails the check (the client handled the first reply, close included, before it sent the second)"],
    assumptions=["the world (all answers) is an input of every step; the ghost fields ss_m_role / ss_m_src record the ROLE answer and the "
                 "announcer at adoption", "the two goroutines of the SendToReplicas refresh are modelled in master-then-replica order "
                 "(they touch disjoint fields)"],
)

MANIFEST = dict(
    text="Proof: over all histories of refreshes and sentinel events, each under an arbitrary world of sentinel and ROLE answers, connection "
         "failures included, the address primary traffic goes to answered ROLE with 'master' at the moment it was adopted and had been "
         "announced by a sentinel answer or an event (replica traffic: 'slave'); a node answering with another role is never adopted; after a "
         "successful refresh the master is the address the answering sentinel reported; a +switch-master for the client's master set whose "
         "target is up and answers 'master' moves primary traffic to it, one for another set is ignored; a switch to the address already in use "
         "probes the installed connection (reused target) and closes it when the probe fails — wrong role or ROLE error, master and replica side —: "
         "after +switch-master / +reboot naming the current address of a node demoted in place, and after the refresh that follows a dropped "
         "subscription, user traffic reaches that node no more, and wherever it can arrive is reachable and answered the right role. The unguarded indexing of short answers "
         "(S2) is characterised exactly (C23_panic_sites) and reproduced by replays (corpus/C23). Tied to sentinel.go on every run: generated "
         "worlds through the real client (NewClient's synchronous refresh; role flips with +switch-master and subsequent traffic; 25 enumerated "
         "same-address re-validation histories with traffic and a final failover) against "
         "fake sentinels and nodes, model evaluated on the same world, direct oracle on ROLE logs and on the role of the node receiving traffic.",
    note="partial (timing): when events are delivered and how long the switch takes is scheduler dependent and outside the model; the "
         "refreshRetry loop (unbounded, without back-off in the code) is cut by a parameter; crash freedom on malformed sentinel answers is not "
         "part of the statement (three panic sites confirmed). Coq kernel + VM, Go toolchain, fake sentinels, python driver trusted.",
    technique="Coq proofs (state invariant over fold of steps, induction on the rotation loop) + differential run of model vs implementation on scripted deployments",
    category="proof",
)
