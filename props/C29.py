# C29 — Streaming reads deliver exact bytes and recycle connections.
# This file checks the BYTE-LEVEL half (streamTo of resp.go: Props/C29.v, observer obs_respstream).
# The connection-recycling half (DoStream / DoMultiStream / pool; Props/C29b.v) is added by its builder:
# append its observer to PARTS["recycle"]["observers"] and set PARTS["recycle"]["props_file"]; run() checks
# every configured part with the standard flow and reports the worst verdict.
from vlib import flow

PARTS = dict(
    bytes=dict(
        props_file="Props/C29.v",
        observers=[dict(cmd="obs_respstream", imports=["Model.RespStream"], case_type="RespStream.case",
                        check="RespStream.check_case", n={"quick": 1500, "thorough": 40000}, shard=100)],
    ),
    recycle=dict(props_file=None, observers=[]),
)
# the recycling half (builder ps): the same props file and observer as the stand-alone ./check C29b
from props import C29b as _recycle  # noqa: E402
PARTS["recycle"]["props_file"] = _recycle.SPEC["props_file"]
# (corpus/C29 holds byte-level inputs; the quick tier runs fewer recycling cases here than ./check C29b to stay within the time budget)
PARTS["recycle"]["observers"] += [dict(o, corpus=False, n=dict(o["n"], quick=100)) for o in _recycle.SPEC["observers"]]


def _recycle_closed(ctx):
    """Print Assumptions for the theorems of the recycling half (flow.standard does it for SPEC["props_file"] only)."""
    from vlib import core
    a = core.coq_assumptions(ctx, PARTS["recycle"]["props_file"])
    ctx.coverage.setdefault("print_assumptions", {}).update(a["assumptions"])
    ctx.coverage.setdefault("theorem_statements_recycle", a["theorems"])
    if a["ok"] and a["theorems"]:
        return []
    return ["Print Assumptions (%s): %s %s" % (PARTS["recycle"]["props_file"], a["bad"], a["log"][-500:])]


SPEC = dict(
    props_file=PARTS["bytes"]["props_file"],
    level="proof",
    observers=PARTS["bytes"]["observers"] + PARTS["recycle"]["observers"],
    extra_props=[PARTS["recycle"]["props_file"]],
    extra=_recycle_closed,
    rule="generated replies of every type (counted / streamed strings in any chunk split, verbatim, simple, double, big number, integer, "
         "bool, nulls of every encoding, errors, aggregates, attribute frames; payload sizes around the buffer size) optionally preceded "
         "by push frames and followed by the next reply, through the real streamTo with bufio sizes {32,64,4096} and three ways of "
         "splitting the stream; a writer that fails after k bytes (k across the payload); EVERY strict prefix of the input (trunc); "
         "mutated inputs (mal). Non-trivial always; distinct by (kind, buffer, writer budget, input bytes)",
    trusted=["bufio.Reader / io.Copy / io.LimitedReader are modelled by their documented behaviour; io.Copy is modelled as reading exactly "
             "what it writes (the repaired code makes the result independent of how much more it read)",
             "the caller's io.Writer is modelled as accepting a budget of bytes and then failing with a short write"],
    assumptions=["B >= 32", "payloads <= 2^48 bytes"],
)
SPEC["rule"] += ". RECYCLING HALF (obs_stream): " + _recycle.SPEC["rule"]
SPEC["trusted"] = SPEC["trusted"] + _recycle.SPEC["trusted"]
SPEC["assumptions"] = SPEC["assumptions"] + _recycle.SPEC["assumptions"]

MANIFEST = dict(
    text="Proof (byte level): for every string / verbatim / simple / double / big-number / integer / boolean reply (counted or streamed in any "
         "chunk split, any payload bytes, any size) the model of streamTo hands the writer exactly the payload that a normal read decodes, "
         "returns its length, and takes exactly that reply off the connection; nulls of every encoding become Nil, errors become a RedisError "
         "with the decoded message, pushes are skipped, other aggregates are refused but consumed; with a writer failing after ANY number of "
         "bytes the written prefix, the writer's error and exact consumption (clean) are proved for replies copied in one piece. Tied to "
         "resp.go on every run incl. truncation of the input at every byte and writer failure at many bytes.",
    note="Two defects of streamTo were found and repaired (fix: commits in the repository): a failing writer desynchronised the connection while "
         "the reply was reported clean; a streamed string abandoned after an error was reported clean. Truncation at every byte is proved for counted strings, observed for the other kinds; "
         "streamed string + failing writer (unclean) is observed only. Connection recycling: Props/C29b.v.",
    technique="Coq proof (per reply kind, induction over chunk lists) + differential run with failure injection on both sides",
    category="proof",
)


def run(ctx):
    rc = flow.standard(ctx, SPEC)
    return rc
