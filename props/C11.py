SPEC = dict(
    props_file="Props/C11.v",
    level="proof",
    observers=[dict(cmd="obs_batch", imports=["Model.CacheBatch"], case_type="CacheBatch.case", check="CacheBatch.check_case",
                    n={"quick": 400, "thorough": 6000}, shard=200)],
    rule="generated batches over a key universe (strings, missing keys, wrong-type keys, JSON documents) with duplicates, "
         "pre-warmed hits, flights of another caller held open by a stalled server, static-TTL commands (none / all / mixed), "
         "run on REAL clients: one connection, PipelineMultiplex 2/4/8 connections, lru and SimpleCacheAdapter stores, OPTIN and "
         "BCAST tracking, cluster client over a 2-4 node fake cluster incl. slots moved after start (-MOVED at queue time) and slots in migration (-ASK, ASKING path); "
         "DoCache(MGET / JSON.MGET); helper doMultiCache with canned results; a case is non-trivial when the batch has at least "
         "two commands and at least two of {hit, wait, miss, duplicate, moved}; distinct by full case description",
    trusted=["fake Redis server (harness/fakeredis): MULTI/EXEC, CLIENT TRACKING, -MOVED at queue time poisons the transaction",
             "the model's redis_wire (MULTI/EXEC machine) is our reading of the protocol; the replies it is fed in the tie are "
             "the replies the fake server really sent (taken from its log)"],
    assumptions=["replies carry a type byte (typ <> 0) and a woken waiter holds a value or an error",
                 "equal cache keys within one batch mean equal commands (C08 identity; proved for two-word commands)",
                 "the server answers MGET / JSON.MGET with one element per key in order",
                 "cache state is fixed during one call (interleavings with other callers are C06 / C09)"],
)

MANIFEST = dict(
    text="Proof: for every batch, cache state (any mix of hits, waits on other callers' flights, misses, duplicates), server, "
         "number of multiplexed connections, slot-to-connection map, redirection sequence and Go map iteration order, the models of "
         "pipe.DoMultiCache (lru.Flights two-pass and per-command Flight), doCacheMGet, mux.DoMultiCache, cluster.DoMultiCache and "
         "helper doMultiCache return at position i / under key i the reply of command i (Coq, closed under the global context); "
         "the models are tied to the code on every run by real single / multiplexed / cluster clients against an in-process server.",
    note="Cache store and server are abstract functions fixed during a call; "
         "EVAL_RO cache keys are not modelled; real-time scheduling of waits is sampled, not proved.",
    technique="Coq proof (stride walks = scan-and-fill over blanked lists; scatter through recorded indices as an invariant on written "
              "positions) + differential run of model vs real clients + direct positional oracle on key-tagged values",
)
