SPEC = dict(
    props_file="Props/C15.v",
    level="proof",
    observers=[dict(cmd="obs_acc", imports=["Model.AccBase", "Model.Accessors"], case_type="Accessors.case", check="Accessors.check_case",
                    n={"quick": 1000, "thorough": 80000}, shard=100)],
    rule="reply trees: well-shaped replies of every helper in the RESP2 and RESP3 shapes (scalars, slices, string/int maps, ZSCORE(S), "
         "XRANGE, XREAD, SCAN, LMPOP, ZMPOP, FT.SEARCH with/without scores and attributes, FT.AGGREGATE with/without cursor, GEOSEARCH "
         "with every WITH* combination, generic maps), the same mutated (child dropped / duplicated, node retagged, aggregate emptied, "
         "scalar for aggregate and back, truncation, attributes attached), exhaustive deformation sweeps (about 15% of the cases: a small "
         "well-shaped seed reply of any helper and EVERY single systematic edit of it — every prefix of every aggregate, removal and "
         "duplication of every element, every node replaced by each of 22 scalar / aggregate kinds incl. empty string, empty array, nil, "
         "every node retagged to every other type — all through all accessors and the direct oracles, about 200 deformations per seed, "
         "4 of them per seed also through the model), random trees of depth <= 3, RedisResult values holding a "
         "non-redis error, error texts for the classifiers (every keyword x 0..3 fields, IPv4/IPv6 address forms) and fixIPv6HostPort; "
         "all 38 accessors run on every tree; the corpus holds the witnesses of the repaired panics and of the seeded change C15-1; a tree case is non-trivial "
         "when the tree has more than one node; distinct by full input",
    trusted=["strconv.ParseFloat, float64(int64), json.Unmarshal: parameters of the model, the observer passes "
             "their results on every string / integer of the tree (tables checked for coverage, fail closed); theorems hold for every behaviour",
             "strconv.ParseInt/ParseUint base 10, strings.Split/HasPrefix/TrimPrefix, net.JoinHostPort are modelled concretely and exercised by the tie",
             "unsafe string/slice views of RedisMessage: modelled as immutable values"],
    assumptions=["a reply is a tree with exactly one payload kind per node (integer / string / children); every message the decoder, the "
                 "cache codec or the mock builders produce is such a tree"],
)

MANIFEST = dict(
    text="Proof: on EVERY reply tree (any depth, children lists of any length incl. odd-length streamed maps and empty aggregates, any type "
         "byte on any node) none of the 38 accessors panics, directly or through RedisResult (induction over the tree for ToAny, list "
         "induction for the helpers); the RedisError classifiers never panic on any text; nil replies surface as Nil and error replies as "
         "that RedisError from every accessor, a RedisResult error is returned unchanged; on decodable replies of a type an accessor is not "
         "meant for every accessor returns a parse error except for one characterised class. The model is tied to message.go on every run: "
         "all accessors on generated, mutated and random trees under recover(), canonical outcomes compared, plus direct oracles.",
    note="Repaired in the repository (fix commit in known_findings.d/acc.json): 10 call sites that panicked on malformed replies / short "
         "redirect texts; theorems are about the repaired code, C15_*_before_fix_* record the old behaviour. Open finding (not repaired): "
         "ToString and the accessors built on it read a boolean or end-marker reply as the empty string instead of a parse error "
         "(C15_wrong_shape_refuted / _characterised / _partial). Shape errors such as 'got 3, wanted 2' are plain errors, not parse errors "
         "(modelled as a separate error kind). Coq kernel + VM, Go toolchain, python driver trusted.",
    technique="Coq proof (structural induction over reply trees and lists) + differential run of model vs implementation",
    category="proof",
)
