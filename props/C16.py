SPEC = dict(
    props_file="Props/C16.v",
    level="proof",
    observers=[dict(cmd="obs_acc", imports=["Model.AccBase", "Model.Accessors"], case_type="Accessors.case", check="Accessors.check_case",
                    n={"quick": 1000, "thorough": 80000}, shard=100, args=["-prop", "C16"])],
    rule="structured data generated per helper (integers incl. int64/uint64 extremes, floats incl. +-Inf, NaN, -0, subnormals, strings "
         "incl. empty / binary / number-like, field lists with repeated fields, nil stream entries, 0-6 elements) encoded by the harness in "
         "the RESP2 and the RESP3 reply shape (scalars, slices, string/int maps as array and map, ZSCORE(S) flat and nested, XRANGE, "
         "string-encoded integers in non-canonical spellings (leading zeros, '+', '-0', padded int64 extremes, out-of-range) with the decimal "
         "reading expected and non-decimal strings (0x / 0b / 0o prefixes, '_' separators, blanks, exponents) with a number error expected, "
         "through AsInt64, AsUint64, AsIntSlice, AsIntMap; XREAD map and array, SCAN, LMPOP, ZMPOP, FT.SEARCH x {scores, attributes}, FT.AGGREGATE with/without cursor, GEOSEARCH x "
         "{dist, hash, coord}, generic maps); the real accessor's output is compared with the data the reply was generated from (direct "
         "oracle) and with the model; mutated and random trees ride along; a case is non-trivial when the tree has more than one node",
    trusted=["strconv.ParseFloat / FormatFloat, float64(int64), json.Unmarshal: parameters of the model (ParseFloat also accepts hex floats, "
             "Inf/Infinity/NaN in any case, as C strtod does; that is the accessors' documented float reading and is not restricted here)",
             "strconv.ParseInt / ParseUint base 10 are modelled concretely (parse_int10 / parse_uint10) and exercised by the tie with non-canonical spellings",
             "the reply shapes of the Redis commands are the spec-side encoders of Proofs/AccFaithful.v (and, independently, the harness encoders)"],
    assumptions=["fmt_parse: strconv.ParseFloat reads back the server's formatting of a double (forall f, pf e (fmt f) = (f, true)); "
                 "fmt_nonempty — Section hypotheses of the float theorems, "
                 "exercised on every run with Go's own FormatFloat/ParseFloat",
                 "FT.SEARCH RESP2: document keys are non-empty and do not parse as floats (key_ok, explicit hypothesis: the accessor's "
                 "heuristic is lossy otherwise, by design)"],
)

MANIFEST = dict(
    text="Proof: for all structured data (unbounded lists, arbitrary byte strings) each accessor applied to the encoding of the data in "
         "each reply shape the server uses returns exactly the data: integers (decimal print/parse round trip proved for the whole "
         "int64 / uint64 range; every decimal spelling is read as its base-ten value and everything else is a number error, for AsInt64, "
         "AsIntSlice and AsIntMap), strings, booleans, floats, slices in order, string/int/message maps in array and map shape with "
         "last-value-wins for repeated fields, ZSCORE(S) flat and nested, XRANGE / XREAD (map and array shape, map and slice results), SCAN, "
         "LMPOP, ZMPOP, FT.SEARCH RESP2 (all four score/attribute combinations) and RESP3, FT.AGGREGATE RESP2/RESP3 with and without "
         "cursor, GEOSEARCH with every WITH* combination, DecodeSliceOfJSON. The model is tied to message.go on every run, and the real "
         "accessors are compared with the generator's data by a direct oracle.",
    note="Float parsing/printing is a Section hypothesis (read-back of the server's formatting), not an axiom. Repaired in the repository "
         "(fix commit in known_findings.d/acc.json): AsIntMap read string values with base-prefix detection (\"0100\" = 64). "
         "The FT.SEARCH RESP2 heuristic needs keys that are non-empty and not floats: explicit validity condition. The JSON decoder is "
         "abstract (only success/failure). Coq kernel + VM, Go toolchain, python driver trusted.",
    technique="Coq proof (list induction, decimal round trip, case analysis per reply shape) + differential run of model vs implementation",
    category="proof",
)
