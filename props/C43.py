SPEC = dict(
    props_file="Props/C43.v",
    level="proof",
    translators=[dict(cmd="tr_hook", out="Gen/HookDeleg.v")],
    observers=[dict(cmd="obs_hook", imports=["Model.Hook", "Model.HookGen"], case_type="Hook.case", check="HookGen.check_case",
                    n={"quick": 1080, "thorough": 2160}, shard=120)],
    rule="exhaustive: stacks of 1, 2 and 3 counting hooks (WithHook(WithHook(fake, h1), h2) …) x every derivation path of depth <= 3 "
         "over Nodes (two nodes per client), optionally ending in Dedicated or Dedicate (45 derived clients) x every method of the "
         "resulting client (10 for clients, 7 for dedicated clients) = 1080 cases, each hook records and calls through; oracle: every "
         "hook of the stack exactly once, outermost first, then the underlying client of exactly that derived client; non-trivial: "
         "the 7 (resp. 3) request entry points; distinct by (stack, path, method)",
    trusted=["tr_hook transcribes the delegation shape of every method of hookclient/dedicated/extended in rueidishook/hook.go and "
             "fails closed on any other body; cross-checked by the observer on every entry point",
             "methods promoted from the embedded rueidis.DedicatedClient of `extended` are Go semantics (the table proves extended "
             "declares only the refusing methods)"],
    assumptions=["underlying clients are opaque; their Dedicated/Dedicate/Nodes results are modelled by an arbitrary environment"],
)

MANIFEST = dict(
    text="Proof: the delegation table regenerated from rueidishook/hook.go is checked by the kernel on every run (every request method "
         "of hookclient and dedicated is `return hook.M(wrapped client, params...)`, pass-through methods go to the wrapped client, "
         "Dedicated/Dedicate/Nodes wrap their results again with the same hook, extended only refuses); from it, for every wrapper "
         "value and therefore for clients derived through any chain of Dedicated/Dedicate/Nodes over any topology, each request "
         "produces exactly one hook invocation handed the un-hooked client, and the callee's result is returned.",
    note="Go method promotion through the embedded DedicatedClient and the absence of side channels in hook.go are read off the "
         "syntax (translator trusted, fail-closed); tied by a counting hook over a fake client on all 360 entry-point cases.",
    technique="Coq proof over kernel-checked regenerated data + exhaustive differential run with a counting hook",
)
