SPEC = dict(
    props_file="Props/C47.v",
    level="proof",
    observers=[dict(cmd="obs_setup", imports=["Model.PsBase", "Model.Setup"], case_type="Setup.case", check="Setup.check_case",
                    # exhaustive part first (quick: 2 of the 6 authentication modes x every other option combination x
                    # {RESP3 server, server without HELLO} = 18432; thorough: all 55296), then random configurations with one
                    # failing setup step / every connection of a full client
                    n={"quick": 18432 + 1500, "thorough": 55296 + 20000}, shard=1000,
                    timeout={"quick": 600, "thorough": 3000})],
    search_factor=2,
    rule="cases 0..N-1 enumerate the option space exhaustively (authentication mode x ClientName x AZ-from-INFO x cache "
         "{disabled, default OPTIN, custom options} x SelectDB x ReplicaOnly x Sentinel.MasterSet x NO-TOUCH x NO-EVICT x "
         "CAPA redirect x ClientSetInfo {nil, pair, disabled} x AlwaysRESP2 x {server knows HELLO, does not}); the remaining "
         "cases draw a configuration at random and fail the k-th setup command (error, NOPERM, unknown-command-HELLO text, "
         "null, wrong shape, proto 2, connection closed), or examine every connection a full client opens (all multiplexed "
         "wires, a pooled wire, a streaming wire, the RESP2 Pub/Sub connection). Every case is non-trivial; distinct by configuration + fault",
    trusted=["fake Redis server (harness/fakeredis + harness/psx session flags): our reading of HELLO/AUTH/CLIENT/SELECT/READONLY",
             "reply classes are read off the replies the fake server actually sent; the unknown-command-HELLO flag of an error "
             "reply is computed with the implementation's own regular expression (exported by zz_verif_ps.go)",
             "configurations NewClient refuses for one node (ReplicaOnly without redirect, Sentinel.MasterSet) run the real newPipe through the verif export"],
    assumptions=["a reply is modelled by the class the examined accessors distinguish (map / string / integer / other aggregate / "
                 "other scalar / null / error with or without the unknown-command-HELLO text / no reply)",
                 "the setup pipelines run through syncDoMulti (the setup context always has a deadline): one missing reply turns every result into the I/O error"],
)

MANIFEST = dict(
    text="Proof: theorems over all option records and all reply lists for a transcription of _newPipe — each setting's command is in "
         "the RESP3 / RESP2 list exactly when configured, once, with the configured value (C47_contents, _credentials, _setinfo); "
         "the session the accepted commands leave at the server is the configured one (C47_session, _session_resp2); a connection "
         "carries its whole setup before any user command and none after a failed setup, success needs every reply of every pipeline "
         "(C47_before_user, _io_failure); the first non-tolerated error at any examined step fails the connection and a success saw "
         "none (C47_step_failure, _step_failure_resp2, _ok_clean); RESP2 only on request / unknown-command-HELLO / proto<3 and never "
         "with the cache (C47_fallback). The model is tied to the code on every run by running NewClient / newPipe against the fake "
         "server exhaustively over the option space x {RESP3, no HELLO} and with every setup step failing, comparing logged commands, "
         "outcome, server-side session and whether a user command was served, plus a direct oracle on the server's state.",
    note="Tolerated errors are exactly READONLY's, the two trailing CLIENT SETINFO and any error whose text names HELLO as an unknown "
         "command (the code goes by the text on every step, not only on HELLO; stated in the theorems via the reply flag). "
         "p.info / version / availability-zone parsing, auth refresh timers and TLS are not modelled. Quick tier enumerates 2 of 6 "
         "authentication modes exhaustively (all in thorough); Coq kernel + VM, fake server, Go toolchain, python driver trusted.",
    technique="Coq proof (induction over the examination loops, single-writer field lemma for the server session) + exhaustive / fault-injecting differential run against a fake server",
    category="proof",
)
