SPEC = dict(
    props_file="Props/C25.v",
    level="proof",
    observers=[dict(cmd="obs_dedicated", imports=["Model.PsBase", "Model.Dedicated"], case_type="Dedicated.case", check="Dedicated.check_case",
                    n={"quick": 100, "thorough": 3000}, shard=30, timeout={"quick": 900, "thorough": 6000})],
    search_factor=3,
    rule="generated programs over one client: up to 4 dedicated sessions (Dedicate) whose operations interleave in program order "
         "(SET, WATCH + MULTI/INCR/EXEC, SUBSCRIBE, CLIENT TRACKING ON, SetPubSubHooks, SetOnInvalidations, an abandoned blocking "
         "command), blocking commands of ordinary callers sharing the pool (some abandoned), release / Close in any order, every entry "
         "point called again after release, 0-3 goroutines of shared pipelined traffic throughout; server version 7 or 6 "
         "(SUNSUBSCRIBE in the clean-up or not). Every command names its issuer. A quarter of the cases are the retry family: retries "
         "enabled, a read-only command through Do / DoMulti answered -LOADING 1-3 times, the session released or closed before the call, "
         "after it, or in the back-off after attempt k (inside the RetryDelay callback), another session acquiring the connection and "
         "sitting between MULTI and EXEC when the retry comes, then every entry point of the ended session and a third session. "
         "Non-trivial = at least one pool connection was used",
    trusted=["fake Redis server per-connection logs (issuer names in the keys) as the ground truth of who wrote what on which connection",
             "pool connections are numbered by the server in dial order (2, 3, ...); the model numbers its wires the same way"],
    assumptions=["the pool is abstracted to 'a wire is idle or held by one holder, idle wires are reused LIFO' (its own concurrency is C24's subject)",
                 "whole client operations are the atomic steps of the model; the observer runs dedicated sessions from one goroutine "
                 "(program order) with concurrent shared traffic: partial w.r.t. the Go scheduler"],
)

MANIFEST = dict(
    text="Proof: over every program of dedicated sessions, pooled blocking commands and shared commands — the log of what the server sees on "
         "the pool connections is accepted by the 'one holder per wire' specification in every reachable state (C25_exclusive: acquire only "
         "when free, only the holder's commands until its release); release and Close mark the client for good and every entry point of a "
         "marked client returns ErrDedicatedClientRecycled without writing anything or touching a wire (C25_recycled); the retry loop "
         "of Do / DoMulti re-checks the mark before every attempt, so once a client is marked — also during the back-off of a call in "
         "progress — no continuation of the program adds a command of that client to any connection (C25_no_send_after_release); release appends "
         "exactly Store's clean-up in the holder's name — hooks cleared, UNSUBSCRIBE/PUNSUBSCRIBE/[SUNSUBSCRIBE]/DISCARD when pipelining "
         "(or the connection closed after an abandoned blocking command), CLIENT TRACKING OFF iff an invalidation hook was installed — "
         "before the wire is idle again (C25_cleanup, C25_cleanup_sequence). Tied to the code by running generated programs on a real "
         "client with concurrent shared traffic against the fake server and comparing per-connection command sequences, results of every "
         "call and the shared connection with the model, plus a direct oracle (issuers form contiguous blocks on every pool connection, "
         "nothing after release — also not from a call that was retrying when the session ended —, calls after release rejected, live sessions "
         "and their MULTI/EXEC undisturbed, TRACKING OFF before reuse).",
    note="Partial: the pool is abstract and whole operations are atomic in the model; isolation under the real scheduler is observed with "
         "concurrent shared traffic only. A genuine defect was found and repaired: Close() on an already released DedicatedClient closed the "
         "recycled connection under another dedicated client (single and cluster client); model and theorems follow the repaired code. "
         "Cluster / sentinel dedicated clients share the mark/acquire/release logic modelled here but are not run by the observer.",
    technique="Coq proof (invariant + replay against a set-of-holders specification) + differential and oracle-based runs against a fake server",
    category="proof",
)
