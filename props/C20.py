SPEC = dict(
    props_file="Props/C20.v",
    level="proof",
    observers=[dict(cmd="obs_cluster", imports=["Model.Cluster"], case_type="Cluster.case", check="Cluster.check_case",
                    args=["-prop", "C20", "-kinds", "multi"],
                    n={"quick": 500, "thorough": 15000}, shard=100)],
    rule="ENUMERATED on every run (202 cases, independent of the seed): two-slot batches and MULTI…EXEC batches with commands before and after the block, the scripted member at every position (EXEC included) x MOVED / ASK / TRYAGAIN x followed by a value / a MOVED; plus 128 redirect-then-retry histories (see C28). RANDOM in addition: generated batches of 1-8 GET/SET over 1-4 slots on a 2-4 node simulated cluster, 40% with one MULTI…EXEC block (commands before, "
         "inside and after it), slots moved or put in migration after the client learnt the topology, per-command scripted replies "
         "(MOVED / ASK to arbitrary nodes, TRYAGAIN, CLUSTERDOWN, LOADING, errors; EXEC refused with MOVED / ASK at execution time), "
         "MaxMovedRedirections 0-2, DisableRetry, RetryDelay tables; non-trivial when a command was sent more than once or the batch was "
         "split over nodes; distinct by batch, scripts and options",
    trusted=["harness/fakecluster is our reading of Redis Cluster (queue-time and EXEC-time slot checks, ASKING kept for a MULTI…EXEC opened under it)",
             "per-node arrival order of the same command in one round is scheduler dependent: the model is compared on final results and on the "
             "multiset of (command, ASKING) per node"],
    assumptions=["the order in which the goroutines of one round append to the retry map is an arbitrary permutation (bc_perm)",
                 "servers never answer MULTI (no key) with MOVED/ASK; MULTI/EXEC carry no key",
                 "the errConnExpired recovery inside doretry is modelled in Retry.v (C03), not here; DoMultiCache shares _pickMulti's grouping "
                 "and doresultfn's scatter without the transaction branch and is not modelled separately"],
)

MANIFEST = dict(
    text="Proof: cluster DoMulti is positional — for every batch, topology, server behaviour (arbitrary function of command, node and arrival "
         "count), redirect limit, retry policy and interleaving of the per-node goroutines, and for any number of rounds, position i of the "
         "result is a reply some node gave to command i; and a MULTI…EXEC block is only ever written to a node whole, in order and contiguous "
         "(every list of commands the client writes in any round is properly bracketed, its MULTI…EXEC stretches are blocks of the batch, "
         "and no member of a block travels outside one), with ASKING once per block. Proved on the repaired doresultfn (fix 612860b: an EXEC "
         "answered with MOVED/ASK was re-sent alone). Tied to cluster.go on every run: batches with scripted and migration-induced redirects "
         "through the real client on a simulated cluster; model and implementation compared on results and per-node sends; direct oracle "
         "on the servers' logs (positional results, whole contiguous blocks per connection).",
    note="partial: goroutine interleaving is an input of the model (all permutations of the append actions), not verified against the Go "
         "scheduler; a reply to MULTI is assumed not to be a redirect. Coq kernel + VM, Go toolchain, fake cluster, python driver trusted.",
    technique="Coq proofs (loop invariants over fold_left, positional bracket invariants closed under concatenation and permutation, induction on rounds) "
              "+ differential run of model vs implementation on a simulated cluster",
    category="proof",
)
