from vlib import x_bld

SPEC = dict(
    props_file="Props/C32.v",
    level="proof",
    translators=[dict(cmd="tr_crc", out="Gen/Crc16Tab.v"), dict(cmd="tr_builders", out="Gen/Builders.v")],
    observers=[
        dict(cmd="obs_builders", imports=["Model.BuilderGraph", "Model.BuilderSem", "Model.BuilderGen"], case_type="BuilderSem.case",
             check="BuilderGen.check_case", n={"quick": 900, "thorough": 15000}, shard=75,
             args=["-prop", "C32", "-spec", x_bld.spec_path()]),
    ],
    rule="every root constructor (575 commands) in turn plus random ones, random walks through the real method sets by reflection, "
         "both terminals; the flag word of the built command is read back raw and through IsReadOnly/IsBlock/NoReply/IsUnsub; "
         "predefined commands of cmds.go; random flag words for the predicates. Non-trivial: a path with at least one call; "
         "distinct by the sequence of method names",
    trusted=["Model/RedisCmds.v: the hand-written classification of Redis commands (reads, blocking, Pub/Sub) is the specification",
             "tr_builders (fail-closed translator, cross-checked by running sampled paths through the real builders)"],
    assumptions=["a command is identified by the tokens its root constructor appends (e.g. OBJECT ENCODING)"],
)
SPEC["extra"] = x_bld.make_extra("C32", lambda: SPEC)

MANIFEST = dict(
    text="Proof: the set of reachable (command, builder type, flag word, BLOCK given) combinations of the regenerated builder graph is "
         "computed in Coq, proved closed under every method (kernel, every run) and hence, by induction over paths, contains every "
         "completion path; on it: Cache() offered => read-only, blocking commands and XREAD/XREADGROUP with BLOCK => blockTag, "
         "SUBSCRIBE/UNSUBSCRIBE families => Pub/Sub marks, read-only => side-effect-free read according to a hand-written list of "
         "Redis commands. The last rule is refuted for exactly one command (AI.MODELEXECUTE, proved to be the only offender).",
    note="Known finding: AI.MODELEXECUTE (stores output tensors) is tagged read-only and cacheable by hack/cmds/gen.go; the generated "
         "test pins Cache() on it, so it is recorded, not repaired. The Redis command classification is hand-written (trusted).",
    technique="Coq proof (abstract interpretation of the builder graph + closure invariant by induction over paths, finite checks by "
              "vm_compute over regenerated data) + differential run through the real builders",
)
