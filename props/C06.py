SPEC = dict(
    props_file="Props/C06.v",
    level="proof",
    # a list: the pipe-level builder appends its observer (full client against the fake server) here
    observers=[dict(cmd="obs_lru", args=["-prop", "C06"], imports=["Model.Lru"], case_type="Lru.case", check="Lru.check_case",
                    shard=25, n={"quick": 200, "thorough": 4000}),
               dict(cmd="obs_adapter", args=["-prop", "C06"], imports=["Model.Lru", "Model.Adapter"], case_type="Adapter.case", check="Adapter.check_case",
                    shard=25, n={"quick": 100, "thorough": 2000})],
    rule="obs_lru: generated histories of 8-45 store operations (Flight, Flights incl. duplicates in one batch, Update with replies of 1x-8x entryMinSize and server expiries around / before / after now, Cancel, Delete of key sets, flush, Close, GetTTL, 1000-2048 repeated hits across the 1024-hit MoveToBack threshold, operations of other callers run at the lock-free points inside Flight/Flights, clocks that occasionally run backwards, TTLs of 0 / negative / sub-millisecond); obs_adapter: 6-40 operations on NewSimpleCacheAdapter over a map-backed SimpleCache (colliding key+cmd pairs, SimpleCache evictions, operations of other callers inside Flight, the two-callers-miss race); a history is non-trivial with at least 3 hits / waits / commits / cancels / invalidations; distinct by (op kinds, observation size)",
    trusted=["container/list, sync.RWMutex, Go maps, channels: modelled by their documented semantics (list = sequence, maps kept in sync with the list, a closed channel releases every waiter)",
             "time.Time.Add / UnixMilli without overflow (|now|, |ttl| < 2^62 ns)",
             "entryBaseSize / messageStructSize are read from the build (unsafe.Sizeof) and passed to the model as parameters"],
    assumptions=["replies handed to Update have a non-zero RESP type byte (true of every message the RESP reader produces)",
                 "the server emits invalidations in Redis order (an invalidation caused by a write after a tracked read follows that read's reply on the wire)",
                 "adapter: a call 'started after' an invalidation reads its clock no earlier than the lookups that preceded the invalidation",
                 "cache identity of a command = CacheKey pair (lru) / key ++ cmd (adapter): see C08"],
)

MANIFEST = dict(
    text="Proof at the level of the connection's cache store, over every history of reader commits, invalidations, flushes, disconnects and lookups (every lock-granular interleaving of concurrent callers is a history): a hit of the built-in store returns the reply of an Update of exactly that (key, cmd) after which the key was not invalidated, the cache not flushed and the connection not lost, and it is unexpired (no clock assumption); pending flights survive invalidation; nothing is served after a disconnect. For NewSimpleCacheAdapter the same holds for every caller that read its clock after the lookups preceding the invalidation (the adapter keeps expired values, harmlessly under that condition). Proved on the repaired adapter.Flight (fix: commit in known_findings.d/lru.json): the unrepaired adapter served a pre-invalidation reply after two concurrent misses (replay corpus/C06/adapter-race.json). Tied to lru.go / cache.go on every run by executing generated histories on the real stores and comparing every observation with the models; the direct oracle checks every hit against the implementation's own commit/invalidation record.",
    note="Store level only: the full-client tie (wire order of pushes vs replies, OnInvalidations, real goroutine timing of 'started afterwards') is the pipe-level builder's observer; 'exactly that command' holds up to the cache identity of C08; tracking mode only changes which invalidations the server emits and is not modelled here.",
    technique="Coq proof (invariants by induction over histories of executable step functions, incl. the separate critical sections of Flight/Flights as atomic steps) + differential run model vs implementation after every operation + direct oracles on the implementation",
    category="proof",
)

# end-to-end tie (integrator): real caching clients against the fake server, direct oracle only (docs/csc.md)
SPEC["observers"].append(dict(cmd="obs_csc", args=["-oracle", "c06"], n={"quick": 150, "thorough": 4000}, corpus=False))
SPEC["rule"] += "; obs_csc: concurrent cached readers (DoCache / DoMultiCache / MGetCache) on a real client against the fake server with writers on another connection, per-key and flush invalidations, PX / virtual-clock expiries, disconnects and aborted transactions, checked by the C06 oracle of docs/csc.md"
