SPEC = dict(
    props_file="Props/C42.v",
    level="proof",
    observers=[dict(cmd="obs_compatargs", imports=["Model.GoRedisSpec", "Model.CompatArgs"], case_type="CompatArgs.fcase",
                    check="CompatArgs.fcheck", n={"quick": 2250, "thorough": 110000}, shard=280)],
    rule="75 method families (132 methods of rueidiscompat.Cmdable, Result.Kind = method name) called in turn on a Compat over a "
         "recording rueidis.Client (no server) with generated arguments: keys/values incl. empty, spaces, CR/LF, non-ASCII; "
         "interface{} values string/int/bool/nil; durations 0, -1 (KeepTTL), sub-millisecond, sub-second, whole seconds, "
         "negative; int64 boundaries; uint64 cursors up to 2^64-1; enum strings in several letter cases incl. invalid ones; "
         "empty and multi-element key / member / id / stream / weight lists; floats incl. 1e21, 1e-7, negatives. The argv "
         "handed to client.Do (or the panic / error Cmd) is compared exactly with the Coq model of adapter.go and, under the "
         "normal form, with a Go transcription of the go-redis reference; a case is non-trivial when a command was sent; "
         "distinct by arguments",
    trusted=["Model/GoRedisSpec.v is a hand-written specification of go-redis v9 (go-redis is not installed; transcribed from "
             "memory of commands.go and the *_commands.go files, certainty per method in docs/compat.md); the Go reference in "
             "harness/cmd/obs_compatargs/methods.go is a second, independent transcription of the same source",
             "which tokens Redis reads case-insensitively (tag K), that '=' after MAXLEN/MINID is the server default, and that SET "
             "options commute, are our reading of the Redis command reference",
             "float formatting (strconv 'f', -1, 64 on both sides) is a Section variable; the observer prints floats with that "
             "formatting, so the tie checks that the adapter formats them so"],
    assumptions=["specification of go-redis v9 trusted (hand-written)", "methods outside the listed 132 are not claimed",
                 "interface{} arguments restricted to string / []byte / integers / bool / nil (floats passed as interface{} are "
                 "spelled with %v by the adapter and with 'f' by go-redis: equivalent numeric spellings, not modelled)"],
)

MANIFEST = dict(
    text="Partial: specification trusted, coverage listed in the evidence. For 132 methods of the go-redis adapter (75 families: "
         "SET/GETEX/EXPIRE family, COPY, RESTORE, MIGRATE, BITCOUNT/BITPOS/BITFIELD, SORT family, SCAN family, MEMORY USAGE, LPOS, "
         "LINSERT, (B)LMPOP, (B)LMOVE, blocking pops, ZADD family, ZRANGE plain/args/store/by-score/by-lex, ZPOP*, ZRANDMEMBER, "
         "ZINTER/ZUNION/ZDIFF (+STORE, +WITHSCORES, +CARD), (B)ZMPOP, XADD, XREAD, XREADGROUP, XRANGE*, XGROUP CREATE, XACK, XDEL, "
         "XPENDING, XCLAIM, XAUTOCLAIM, XTRIM, XINFO STREAM FULL, GEOADD, GEODIST, GEORADIUS*, GEOSEARCH*, EVAL*/FCALL*, "
         "FUNCTION LOAD/LIST, CLIENT KILL/PAUSE, SLOWLOG GET, ACL LOG) Coq theorems show, for all arguments incl. unbounded key/member/id/stream lists, that the argv "
         "built by adapter.go equals the argv of a hand-written go-redis v9 specification up to keyword case, the default '=' and "
         "SET option order; 5 kinds of differences (12 call sites) pinned by the repository's own tests or not repairable are characterised "
         "exactly (iff theorems) and reported as known findings; 3 defects found this way were repaired in the repository. The adapter "
         "model is compared with the real adapter.go on every run; a Go transcription of go-redis is the direct oracle.",
    note="go-redis v9 is not installed: the reference is a hand-written specification (trusted); methods outside the list are "
         "not claimed; six groups are claimed on a restricted argument range because the specification, or Redis' treatment of the "
         "two spellings, is not certain outside (BitPosSpan span, (B)LMPop/(B)ZMPop count<=0, SortStore to the empty key, SCAN-family "
         "cursors >= 2^63, ACLLog count<=0).",
    technique="Coq proof (case analysis + list induction over a tagged-token normal form) + differential run of model vs implementation + reference oracle",
    category="proof",
)
