(** C05: context deadlines and cancellation in the pipe LTS and in the auxiliary waits. *)
From Coq Require Import List NArith ZArith Bool Arith Lia.
Require Import RV.Model.Base RV.Model.PipeQueue RV.Model.Pipe RV.Model.PipeLts RV.Model.PipeWait.
Require Import RV.Proofs.PipeLtsBasics RV.Proofs.PipeExclusive RV.Proofs.PipeLifecycle.
Import ListNotations.
Open Scope N_scope.

(** ** exit is enabled after CtxDone *)

(** waiting for the reply of a queued command *)
Lemma abort_enabled g s t :
  k_pc (p_calls s t) = PWait -> k_done (p_calls s t) = true ->
  exists s', pstep g s (LAbort t) = Some s' /\ k_pc (p_calls s' t) = PRet /\
             k_ret (p_calls s' t) = Some (errs_for (p_calls s t) ECtx) /\ p_q s' = p_q s /\ p_c2s s' = p_c2s s /\ p_wbuf s' = p_wbuf s.
Proof.
  intros Epc Ed. eexists. cbn [pstep]. rewrite Epc, Ed. split; [reflexivity|]. cbn. rewrite upd_same. cbn. auto.
Qed.

(** blocked in PutOne / PutMulti of the flow buffer *)
Lemma putfail_enabled g s t :
  g_kind g = Flow -> k_pc (p_calls s t) = PPut -> k_done (p_calls s t) = true -> k_ctxput (p_calls s t) = true ->
  exists s', pstep g s (LPutFail t) = Some s' /\ k_pc (p_calls s' t) = PRet /\
             k_ret (p_calls s' t) = Some (errs_for (p_calls s t) ECtx) /\ p_q s' = p_q s /\ p_c2s s' = p_c2s s.
Proof.
  intros Ek Epc Ed Ec. eexists. cbn [pstep]. rewrite Epc, Ek, Ed, Ec.
  cbn. split; [reflexivity|]. cbn. rewrite upd_same. cbn. auto.
Qed.

(** a synchronous call whose connection deadline (derived from the context's deadline) has passed:
    the failure step is enabled, then the (non-blocking) decrement; the call returns the context error *)
Lemma calls_bg_same x t c : p_calls (set_call (do_background x) t c) t = c.
Proof. unfold do_background. destruct (p_bg x); cbn; apply upd_same. Qed.

Lemma syncfail_enabled g s t :
  sync_user (p_calls s t) = true -> k_ctx (p_calls s t) = CtxDeadline -> k_done (p_calls s t) = true ->
  exists s1, pstep g s (LSyncFail t true) = Some s1 /\ k_pc (p_calls s1 t) = PDecr true /\
             k_res (p_calls s1 t) = errs_for (p_calls s t) ECtx /\
             exists path s2, (path = [LDecr t] \/ path = [LDecr t; LBgAfter t; LDecr t]) /\
                             prun g path s1 = Some s2 /\
                             k_ret (p_calls s2 t) = Some (errs_for (p_calls s t) ECtx).
Proof.
  intros Hs Hc Hd. unfold sync_user in Hs.
  set (c1 := with_pc (with_res (p_calls s t) (errs_for (p_calls s t) ECtx)) (PDecr true)).
  set (s1 := set_call (do_background (set_wire (latch s ECtx true) [] [])) t c1).
  assert (E1 : pstep g s (LSyncFail t true) = Some s1).
  { cbn [pstep]. rewrite Hs, Hc, Hd. reflexivity. }
  assert (Ec : p_calls s1 t = c1) by apply calls_bg_same.
  exists s1. split; [exact E1|]. rewrite Ec. split; [reflexivity|split; [reflexivity|]].
  destruct (negb (Nat.eqb (p_waits s1) 1)) eqn:Ew.
  - (* others are counted: background() (a no-op here, LSyncFail has called it), then the plain decrement *)
    exists [LDecr t; LBgAfter t; LDecr t]. eexists. split; [now right|].
    cbn [prun pstep]. rewrite Ec. cbn [k_pc with_pc c1]. rewrite Ew. cbn [andb].
    cbn [p_calls set_call set_calls]. rewrite upd_same. cbn [k_pc with_pc].
    rewrite calls_bg_same. cbn [k_pc with_pc andb].
    split; [reflexivity|]. cbn. rewrite upd_same. reflexivity.
  - exists [LDecr t]. eexists. split; [now left|].
    cbn [prun pstep]. rewrite Ec. cbn [k_pc with_pc c1]. rewrite Ew. cbn [andb].
    split; [reflexivity|]. cbn. rewrite upd_same. reflexivity.
Qed.

(** the environment can always cancel a cancellable context that is not done yet *)
Lemma ctxdone_enabled g s t :
  k_ctx (p_calls s t) <> CtxBg -> k_pc (p_calls s t) <> PIdle -> k_done (p_calls s t) = false ->
  exists s', pstep g s (LCtxDone t) = Some s' /\ k_done (p_calls s' t) = true /\ k_pc (p_calls s' t) = k_pc (p_calls s t).
Proof.
  intros Hc Hp Hd. cbn [pstep].
  destruct (k_ctx (p_calls s t)) eqn:Ec; [contradiction| |]; destruct (k_pc (p_calls s t)) eqn:Ep; try contradiction;
    rewrite Hd; eexists; (split; [reflexivity|]); cbn; rewrite upd_same; cbn; rewrite ?Ep; auto.
Qed.

(** ** auxiliary waits *)
Lemma select_ctx_enabled ready : In WCtxErr (select_outcomes true true ready).
Proof. unfold select_outcomes. cbn. now left. Qed.

Lemma select_not_blocked_after_done ready : select_outcomes true true ready <> [].
Proof. unfold select_outcomes. cbn. discriminate. Qed.

Lemma retry_wait_ctx d fired : (0 < d)%Z -> exists outs, wait_for_retry d true true fired = Some outs /\ In WCtxErr outs.
Proof.
  intros Hd. unfold wait_for_retry. destruct (d <=? 0)%Z eqn:E; [apply Z.leb_le in E; lia|].
  eexists. split; [reflexivity|apply select_ctx_enabled].
Qed.

(** whenever WaitOrSkipRetry decides to wait - the context has no deadline, or one later than the end of the back-off -
    the wait is the same select over ctx.Done() and the timer: a cancellation during the back-off ends it, whether the
    context has a deadline or not *)
Lemma retry_wait_any_ctx delay has_dl until fired :
  (0 < delay)%Z -> has_dl = false \/ (delay < until)%Z ->
  exists outs, wait_or_skip delay has_dl until true true fired = (true, Some outs) /\ In WCtxErr outs /\
               (fired = false -> outs = [WCtxErr]).
Proof.
  intros Hd H. unfold wait_or_skip, wait_for_retry.
  assert (E0 : (delay =? 0)%Z = false) by (apply Z.eqb_neq; lia).
  assert (E1 : (0 <? delay)%Z = true) by (apply Z.ltb_lt; lia).
  assert (E2 : (delay <=? 0)%Z = false) by (apply Z.leb_gt; lia).
  assert (E3 : negb has_dl || (delay <? until)%Z = true).
  { destruct H as [->|H]; [reflexivity|]. apply orb_true_iff. right. apply Z.ltb_lt. exact H. }
  rewrite E0, E1, E3, E2. eexists. split; [reflexivity|]. split; [apply select_ctx_enabled|].
  intros ->. reflexivity.
Qed.

(** WaitOrSkipRetry never starts a wait that would outlast the context's deadline *)
Lemma retry_skip_when_deadline_sooner delay until c d f :
  (0 < delay)%Z -> (until <= delay)%Z -> wait_or_skip delay true until c d f = (false, None).
Proof.
  intros H1 H2. unfold wait_or_skip.
  destruct (delay =? 0)%Z eqn:E0; [apply Z.eqb_eq in E0; lia|].
  assert ((0 <? delay)%Z = true) as -> by (apply Z.ltb_lt; lia).
  assert ((delay <? until)%Z = false) as -> by (apply Z.ltb_ge; lia). reflexivity.
Qed.

(** ** a call whose context is already done sends nothing *)
Record InvS (s : pstate) : Prop := mkInvS {
  s_start : forall t, k_donestart (p_calls s t) = true -> k_pc (p_calls s t) = PRet;
  s_sent : forall t, In t (p_sent s) -> k_donestart (p_calls s t) = false /\ k_pc (p_calls s t) <> PIncr /\ k_pc (p_calls s t) <> PIdle;
  s_queue : forall sl, In sl (q_pend (p_q s) ++ q_wr (p_q s)) ->
            k_donestart (p_calls s (s_owner sl)) = false /\ k_pc (p_calls s (s_owner sl)) <> PIncr /\ k_pc (p_calls s (s_owner sl)) <> PIdle
}.

Lemma invs_init g : InvS (p_init g).
Proof. constructor; cbn; intros; try discriminate; contradiction. Qed.

Definition live (c : crec) : Prop := k_donestart c = false /\ k_pc c <> PIncr /\ k_pc c <> PIdle.

Lemma invs_call s s' t c' :
  InvS s -> p_sent s' = p_sent s -> p_q s' = p_q s ->
  (forall u, p_calls s' u = upd (p_calls s) t c' u) ->
  (k_donestart c' = true -> k_pc c' = PRet) ->
  (live (p_calls s t) -> live c') ->
  InvS s'.
Proof.
  intros [s1 s2 s3] e1 e2 e3 H1 H2. constructor; rewrite ?e1, ?e2.
  - intros u. rewrite e3. unfold upd. destruct (N.eqb u t); auto.
  - intros u Hu. rewrite e3. unfold upd. destruct (N.eqb u t) eqn:E; [apply N.eqb_eq in E; subst u; apply H2; apply s2; exact Hu|apply s2; exact Hu].
  - intros sl Hsl. rewrite e3. unfold upd. destruct (N.eqb (s_owner sl) t) eqn:E.
    + apply N.eqb_eq in E. apply H2. rewrite <- E. apply s3. exact Hsl.
    + apply s3. exact Hsl.
Qed.

Lemma invs_same s s' :
  InvS s -> p_sent s' = p_sent s ->
  (forall sl, In sl (q_pend (p_q s') ++ q_wr (p_q s')) -> In sl (q_pend (p_q s) ++ q_wr (p_q s))) ->
  (forall u, k_donestart (p_calls s' u) = k_donestart (p_calls s u) /\ k_pc (p_calls s' u) = k_pc (p_calls s u)) ->
  InvS s'.
Proof.
  intros [s1 s2 s3] e1 e2 e3. constructor; rewrite ?e1.
  - intros u. destruct (e3 u) as [-> ->]. auto.
  - intros u Hu. destruct (e3 u) as [-> ->]. auto.
  - intros sl Hsl. destruct (e3 (s_owner sl)) as [-> ->]. auto.
Qed.

Ltac live_solve Epc := let L1 := fresh in let L2 := fresh in let L3 := fresh in
  intros (L1&L2&L3); unfold live; cbn; rewrite ?Epc in *; repeat split; auto; try discriminate; try congruence.

Lemma apply_act_queue_sub o m s a sl :
  In sl (q_pend (p_q (apply_act o m s a)) ++ q_wr (p_q (apply_act o m s a))) -> In sl (q_pend (p_q s) ++ q_wr (p_q s)).
Proof.
  destruct a as [k v|got|i c|i mg|i x|x|w|]; cbn [apply_act]; auto.
  - destruct got; auto. unfold q_next_result. destruct (q_wr (p_q s)) as [|y r] eqn:E.
    + rewrite E. auto.
    + cbn. intros H. apply in_app_or in H as [H|H]; apply in_or_app; [now left|right; apply in_cons; exact H].
  - destruct m; cbn; auto.
Qed.

Lemma fold_apply_queue_sub o m acts : forall s sl,
  In sl (q_pend (p_q (fold_left (apply_act o m) acts s)) ++ q_wr (p_q (fold_left (apply_act o m) acts s))) ->
  In sl (q_pend (p_q s) ++ q_wr (p_q s)).
Proof.
  induction acts as [|a acts IH]; intros s sl H; cbn [fold_left] in H; [exact H|].
  apply IH in H. eapply apply_act_queue_sub; eauto.
Qed.

Lemma invs_step g s l s' : InvA s -> InvS s -> pstep g s l = Some s' -> InvS s'.
Proof.
  intros IA IS H. destruct l; cbn [pstep] in H.
  - (* LCall *) break_step H. inversion H; subst; clear H.
    destruct (fresh_notin s t) as [Hn _]; [apply andb_true_iff in E as [E _]; apply andb_true_iff in E as [E _]; apply andb_true_iff in E as [E _]; exact E|].
    destruct (a_idle s IA t Hn) as [Epc Ed].
    eapply (invs_call s _ t); [exact IS|reflexivity|reflexivity|intros u; reflexivity| |].
    + cbn. discriminate.
    + intros (_&_&K). contradiction.
  - (* LIncr *) destruct (k_pc (p_calls s t)) eqn:Epc; try discriminate. break_step H; inversion H; subst; clear H.
    + eapply (invs_call s _ t); [exact IS|reflexivity|reflexivity|intros u; reflexivity| |]; [cbn; auto|intros (_&K&_); contradiction].
    + eapply (invs_call s _ t); [exact IS|reflexivity|reflexivity|intros u; reflexivity| |].
      * cbn. intros K. rewrite (s_start s IS t K) in Epc. discriminate.
      * intros (_&K&_); contradiction.
  - (* LLoad *) destruct (k_pc (p_calls s t)) eqn:Epc; try discriminate. break_step H; inversion H; subst; clear H.
    all: eapply (invs_call s _ t); [exact IS|reflexivity|reflexivity|intros u; reflexivity| |];
      [cbn; intros K; rewrite (s_start s IS t K) in Epc; discriminate|live_solve Epc].
  - (* LBg *) destruct (k_pc (p_calls s t)) eqn:Epc; try discriminate. inversion H; subst; clear H.
    assert (I1 : InvS (do_background s)).
    { apply (invs_same s); auto; unfold do_background; destruct (p_bg s); cbn; auto. }
    assert (Ec : p_calls (do_background s) = p_calls s) by (unfold do_background; destruct (p_bg s); reflexivity).
    eapply (invs_call (do_background s) _ t); [exact I1|reflexivity|reflexivity|intros u; reflexivity| |].
    + cbn. rewrite ?Ec. intros K. rewrite (s_start s IS t K) in Epc. discriminate.
    + rewrite ?Ec. live_solve Epc.
  - (* LSyncW *) destruct (k_pc (p_calls s t)) eqn:Epc; try discriminate. break_step H. inversion H; subst; clear H.
    assert (Hds : k_donestart (p_calls s t) = false).
    { destruct (k_donestart (p_calls s t)) eqn:K; [rewrite (s_start s IS t K) in Epc; discriminate|reflexivity]. }
    destruct IS as [s1 s2 s3]. constructor; cbn.
    + intros u. unfold upd. destruct (N.eqb u t) eqn:E1; cbn; auto. intros K. congruence.
    + intros u [<-|Hu]; unfold upd.
      * rewrite N.eqb_refl. cbn. repeat split; auto; discriminate.
      * destruct (N.eqb u t) eqn:E1; [cbn; repeat split; auto; discriminate|auto].
    + intros sl Hsl. unfold upd. destruct (N.eqb (s_owner sl) t) eqn:E1; [cbn; repeat split; auto; discriminate|auto].
  - (* LSyncR *) destruct (k_pc (p_calls s t)) as [| | | | |k| | | | | | |] eqn:Epc; try discriminate.
    destruct k as [|k]; [discriminate|]. destruct (p_s2c s) as [|f rest]; [discriminate|].
    destruct (N.eqb (m_typ f) t_push).
    + inversion H; subst. apply (invs_same s); auto.
    + inversion H; subst; clear H. destruct k;
        (eapply (invs_call s _ t); [exact IS|reflexivity|reflexivity|intros u; reflexivity| |];
         [cbn; intros K; rewrite (s_start s IS t K) in Epc; discriminate|live_solve Epc]).
  - (* LSyncFail *)
    destruct ((match k_pc (p_calls s t) with PSyncW | PSyncR _ => true | _ => false end) &&
              (if ctxerr then match k_ctx (p_calls s t) with CtxDeadline => k_done (p_calls s t) | _ => false end else true)) eqn:G; [|discriminate].
    apply andb_true_iff in G as [G _]. inversion H; subst; clear H.
    set (e := if ctxerr then ECtx else EConn).
    assert (I1 : InvS (do_background (set_wire (latch s e true) [] []))).
    { apply (invs_same s); auto; unfold do_background; cbn; destruct (p_bg s); cbn; auto. }
    assert (Ec : p_calls (do_background (set_wire (latch s e true) [] [])) = p_calls s) by (unfold do_background; cbn; destruct (p_bg s); reflexivity).
    eapply (invs_call _ _ t); [exact I1|reflexivity|reflexivity|intros u; reflexivity| |].
    + cbn. rewrite ?Ec. intros K. rewrite (s_start s IS t K) in G. discriminate.
    + rewrite ?Ec. intros (L1&L2&L3). unfold live; cbn. repeat split; auto; discriminate.
  - (* LErr *) destruct (k_pc (p_calls s t)) eqn:Epc; try discriminate. inversion H; subst; clear H.
    eapply (invs_call s _ t); [exact IS|reflexivity|reflexivity|intros u; reflexivity| |];
      [cbn; intros K; rewrite (s_start s IS t K) in Epc; discriminate|live_solve Epc].
  - (* LDecr *) destruct (k_pc (p_calls s t)) as [| | | | | | |st0| | | | |] eqn:Epc; try discriminate.
    break_step H; inversion H; subst; clear H.
    + eapply (invs_call s _ t); [exact IS|reflexivity|reflexivity|intros u; reflexivity| |];
        [cbn; intros K; rewrite (s_start s IS t K) in Epc; discriminate|live_solve Epc].
    + eapply (invs_call s _ t); [exact IS|reflexivity|reflexivity|intros u; reflexivity| |]; [cbn; auto|live_solve Epc].
  - (* LBgAfter *) destruct (k_pc (p_calls s t)) eqn:Epc; try discriminate. inversion H; subst; clear H.
    assert (I1 : InvS (do_background s)).
    { apply (invs_same s); auto; unfold do_background; destruct (p_bg s); cbn; auto. }
    assert (Ec : p_calls (do_background s) = p_calls s) by (unfold do_background; destruct (p_bg s); reflexivity).
    eapply (invs_call (do_background s) _ t); [exact I1|reflexivity|reflexivity|intros u; reflexivity| |].
    + cbn. rewrite ?Ec. intros K. rewrite (s_start s IS t K) in Epc. discriminate.
    + rewrite ?Ec. live_solve Epc.
  - (* LPut *) destruct (k_pc (p_calls s t)) eqn:Epc; try discriminate.
    destruct (q_put (p_q s) (slot_of t (p_calls s t))) as [q'|] eqn:Eq; [|discriminate]. inversion H; subst; clear H.
    unfold q_put in Eq. destruct (q_can_put (p_q s)); [|discriminate]. inversion Eq; subst; clear Eq.
    assert (Hds : k_donestart (p_calls s t) = false).
    { destruct (k_donestart (p_calls s t)) eqn:K; [rewrite (s_start s IS t K) in Epc; discriminate|reflexivity]. }
    destruct IS as [s1 s2 s3]. constructor; cbn.
    + intros u. unfold upd. destruct (N.eqb u t) eqn:E1; cbn; auto. intros K. congruence.
    + intros u Hu. unfold upd. destruct (N.eqb u t) eqn:E1; [cbn; repeat split; auto; discriminate|auto].
    + intros sl Hsl. rewrite <- app_assoc in Hsl. apply in_app_or in Hsl as [Hsl|[<-|Hsl]].
      * unfold upd. destruct (N.eqb (s_owner sl) t) eqn:E1; [cbn; repeat split; auto; discriminate|apply s3; apply in_or_app; now left].
      * cbn. rewrite upd_same. cbn. repeat split; auto; discriminate.
      * unfold upd. destruct (N.eqb (s_owner sl) t) eqn:E1; [cbn; repeat split; auto; discriminate|apply s3; apply in_or_app; now right].
  - (* LPutFail *) destruct (k_pc (p_calls s t)) eqn:Epc; try discriminate. break_step H. inversion H; subst; clear H.
    eapply (invs_call s _ t); [exact IS|reflexivity|reflexivity|intros u; reflexivity| |]; [cbn; auto|live_solve Epc].
  - (* LRecv *) destruct (k_pc (p_calls s t)) eqn:Epc; try discriminate. break_step H. inversion H; subst; clear H.
    eapply (invs_call s _ t); [exact IS|reflexivity|reflexivity|intros u; reflexivity| |];
      [cbn; intros K; rewrite (s_start s IS t K) in Epc; discriminate|live_solve Epc].
  - (* LAbort *) destruct (k_pc (p_calls s t)) eqn:Epc; try discriminate. break_step H. inversion H; subst; clear H.
    eapply (invs_call s _ t); [exact IS|reflexivity|reflexivity|intros u; reflexivity| |]; [cbn; auto|live_solve Epc].
  - (* LFin *) destruct (k_pc (p_calls s t)) eqn:Epc; try discriminate. inversion H; subst; clear H.
    eapply (invs_call s _ t); [exact IS|reflexivity|reflexivity|intros u; reflexivity| |]; [cbn; auto|live_solve Epc].
  - (* LDrainRecv *) destruct (k_drain (p_calls s t)) eqn:Ed; try discriminate. break_step H. inversion H; subst; clear H.
    apply (invs_same s); auto. intros u. cbn. unfold upd. destruct (N.eqb u t) eqn:E1; [apply N.eqb_eq in E1; subst; auto|auto].
  - (* LDrainFin *) destruct (k_drain (p_calls s t)) eqn:Ed; try discriminate. inversion H; subst; clear H.
    apply (invs_same s); auto. intros u. cbn. unfold upd. destruct (N.eqb u t) eqn:E1; [apply N.eqb_eq in E1; subst; auto|auto].
  - (* LCtxDone *)
    assert (K : (if k_done (p_calls s t) then None else Some (set_call s t (with_done (p_calls s t)))) = Some s' -> InvS s').
    { destruct (k_done (p_calls s t)); [discriminate|]. intros H1. inversion H1; subst.
      apply (invs_same s); auto. intros u. cbn. unfold upd. destruct (N.eqb u t) eqn:E; [apply N.eqb_eq in E; subst; auto|auto]. }
    destruct (k_ctx (p_calls s t)); [discriminate| |]; destruct (k_pc (p_calls s t)); try discriminate; auto.
  - (* LWNext *)
    destruct (p_w s) eqn:Ew; try discriminate. destruct (wnext_blocked g (p_q s)); [discriminate|].
    unfold q_next_write in H. destruct (q_pend (p_q s)) as [|x p] eqn:Ep; [discriminate|]. inversion H; subst; clear H.
    destruct IS as [s1 s2 s3]. constructor; cbn; auto.
    + intros u [<-|Hu]; [|auto]. apply s3. rewrite Ep. now left.
    + intros sl Hsl. apply s3. rewrite Ep. apply in_app_or in Hsl as [K|K]; [right; apply in_or_app; now left|].
      apply in_app_or in K as [K|[<-|[]]]; [right; apply in_or_app; now right|now left].
  - break_step H. inversion H; subst. apply (invs_same s); auto.
  - break_step H. inversion H; subst. apply (invs_same s); auto.
  - break_step H. inversion H; subst. apply (invs_same s); auto.
  - break_step H. inversion H; subst. apply (invs_same s); auto.
  - (* LRStep *)
    destruct (p_b s) as [|r| | | |] eqn:Eb; try discriminate. destruct (p_s2c s) as [|f rest]; [discriminate|].
    destruct (reader_step (g_r2ps g) (g_ver g) (hd_error (q_wr (p_q s))) r f) as [r' acts].
    destruct (existsb is_bad acts); [discriminate|]. inversion H; subst; clear H.
    pose proof (fold_apply_same_ctl (r_owner r') (r_resps r') acts (set_wire s (p_c2s s) rest)) as K.
    destruct K as (a1&a2&a3&a4&a5&a6&a7&a8&a9&a10&a11&a12&a13&a14&a15&a16&a17&a18).
    apply (invs_same s); [exact IS| | |].
    + cbn [p_sent set_b]. rewrite a17. reflexivity.
    + intros sl Hsl. cbn in Hsl. apply fold_apply_queue_sub in Hsl. exact Hsl.
    + intros u. destruct (a18 u) as (c1&_&_&_&_&_&_&_&c9). cbn in c1, c9. cbn. auto.
  - (* LRFail *)
    destruct (p_b s) as [|r| | | |] eqn:Eb; try discriminate. destruct (reader_exit r) as [idx complete]. inversion H; subst; clear H.
    destruct complete; apply (invs_same s); cbn; auto.
    intros u. unfold upd. destruct (N.eqb u (r_owner r)) eqn:E1; [apply N.eqb_eq in E1; subst; auto|auto].
  - break_step H. inversion H; subst. apply (invs_same s); auto.
  - (* LPostPing *) destruct (p_b s) eqn:Eb; try discriminate. break_step H. inversion H; subst; clear H.
    apply andb_true_iff in E as [_ E]. destruct (fresh_notin s t' E) as [Hn _]. destruct (a_idle s IA t' Hn) as [Epc Ed].
    eapply (invs_call s _ t'); [exact IS|reflexivity|reflexivity|intros u; reflexivity| |].
    + cbn. discriminate.
    + intros (_&_&K). contradiction.
  - (* LCleanNW *) destruct (p_b s) eqn:Eb; try discriminate. destruct (p_wclosed s && negb (Nat.eqb (p_waits s) 0)); [|discriminate].
    unfold q_next_write in H. destruct (q_pend (p_q s)) as [|x p] eqn:Ep; [discriminate|]. inversion H; subst; clear H.
    apply (invs_same s); cbn; auto.
    intros sl Hsl. rewrite Ep. apply in_app_or in Hsl as [K|K]; [right; apply in_or_app; now left|].
    apply in_app_or in K as [K|[<-|[]]]; [right; apply in_or_app; now right|now left].
  - (* LCleanNR *) destruct (p_b s) eqn:Eb; try discriminate. destruct (negb (Nat.eqb (p_waits s) 0)); [|discriminate].
    unfold q_next_result in H. destruct (q_wr (p_q s)) as [|sl0 wr'] eqn:Ew; [discriminate|]. inversion H; subst; clear H.
    apply (invs_same s); cbn; auto.
    + intros sl Hsl. rewrite Ew. apply in_app_or in Hsl as [K|K]; apply in_or_app; [now left|right; now right].
    + intros u. unfold upd. destruct (N.eqb u (s_owner sl0)) eqn:E1; [apply N.eqb_eq in E1; subst; auto|auto].
  - break_step H. inversion H; subst. assumption.
  - break_step H. inversion H; subst. apply (invs_same s); auto.
  - break_step H. inversion H; subst. apply (invs_same s); auto.
  - break_step H. inversion H; subst. apply (invs_same s); auto.
  - inversion H; subst. apply (invs_same s); auto.
  - break_step H. inversion H; subst. apply (invs_same s); auto.
  - break_step H. inversion H; subst. apply (invs_same s); auto.
  - (* LClose3 *) destruct (p_closers s t) as [| |bg ping| | |]; try discriminate. destruct bg.
    + inversion H; subst. apply (invs_same s); unfold do_background; destruct (p_bg s); cbn; auto.
    + destruct ping; [discriminate|]. inversion H; subst. apply (invs_same s); auto.
  - (* LClose4 *) destruct (p_closers s t) as [| |bg ping| | |]; try discriminate. break_step H. inversion H; subst; clear H.
    destruct (fresh_notin s t' E1) as [Hn _]. destruct (a_idle s IA t' Hn) as [Epc Ed].
    eapply (invs_call s _ t'); [exact IS|reflexivity|reflexivity|intros u; reflexivity| |].
    + cbn. discriminate.
    + intros (_&_&K). contradiction.
  - break_step H. inversion H; subst. apply (invs_same s); auto.
  - break_step H. inversion H; subst. apply (invs_same s); auto.
Qed.

Theorem invs_run g sched : forall s s', InvA s -> InvS s ->
  prun g sched s = Some s' -> InvA s' /\ InvS s'.
Proof.
  induction sched as [|l r IH]; intros s s' IA IS H; cbn [prun] in H.
  - inversion H; subst; auto.
  - destruct (pstep g s l) as [s1|] eqn:E; [|discriminate]. eapply IH; [| |exact H].
    + eapply inva_step; eauto.
    + eapply invs_step; eauto.
Qed.

(** C05_done_ctx_sends_nothing: a call that found its context done at the start returned the context's
    error for every command, is not (and never was) among the calls whose commands were put on the wire,
    and owns no queue slot. *)
Theorem done_ctx_sends_nothing g sched s t :
  prun g sched (p_init g) = Some s -> k_donestart (p_calls s t) = true ->
  k_pc (p_calls s t) = PRet /\ ~ In t (p_sent s) /\ ~ In t (map s_owner (q_pend (p_q s) ++ q_wr (p_q s))).
Proof.
  intros H Hd. destruct (invs_run g sched _ _ (inva_init g) (invs_init g) H) as [_ IS].
  split; [apply (s_start s IS t Hd)|split].
  - intros K. destruct (s_sent s IS t K) as (K1&_). congruence.
  - intros K. apply in_map_iff in K as (sl&E&Hsl). destruct (s_queue s IS sl Hsl) as (K1&_). rewrite E in K1. congruence.
Qed.

(** ** the synchronous owner of the connection is left alone

    syncDo / syncDoMulti install the connection deadline they derive from the context; the only other code that
    touches that deadline is the first statement of _background ([p.conn.SetDeadline(time.Time{})]), i.e. the start
    of the background workers ([p_bg] false -> true in [do_background]).  While a caller is in its synchronous
    section nobody else uses the connection and the background workers have not been started; the step that starts
    them ends that caller's synchronous section, so it is the caller's own step (its failure step). *)
Lemma sync_owner_alone g sched s t :
  prun g sched (p_init g) = Some s -> sync_user (p_calls s t) = true ->
  p_bg s = false /\ bg_user s = false /\ (forall u, sync_user (p_calls s u) = true -> u = t).
Proof.
  intros H Hs. pose proof (inva_run g sched _ _ (inva_init g) H) as I.
  assert (Hb : p_bg s = false).
  { destruct (p_bg s) eqn:E; [|reflexivity]. rewrite (a_e2 s I E t) in Hs. discriminate. }
  split; [exact Hb|split].
  - destruct (a_bgw s I Hb) as [K1 K2]. unfold bg_user. rewrite K1, K2. reflexivity.
  - intros u Hu. apply (a_tok1 s I); now apply sync_tok.
Qed.

Lemma sync_deadline_preserved g sched s t l s' :
  prun g sched (p_init g) = Some s -> sync_user (p_calls s t) = true -> pstep g s l = Some s' ->
  sync_user (p_calls s' t) = true -> p_bg s' = false.
Proof.
  intros H Hs Hstep Hs'. pose proof (inva_run g sched _ _ (inva_init g) H) as I.
  pose proof (inva_step g s l s' I Hstep) as I'.
  destruct (p_bg s') eqn:E; [|reflexivity]. rewrite (a_e2 s' I' E t) in Hs'. discriminate.
Qed.
