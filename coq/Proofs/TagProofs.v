(** C32: a closed set of abstract states contains the abstraction of every concrete builder path;
    a rule checked on every state of such a set therefore holds for every completed command. *)
From Coq Require Import List Arith NArith Bool Lia.
Require Import RV.Model.Base RV.Model.Slot RV.Model.BuilderGraph RV.Model.BuilderSem RV.Model.BuilderChecks RV.Model.BuilderTags.
Require Import RV.Proofs.BuilderProofs.
Import ListNotations.
Open Scope N_scope.

Lemma astate_eqb_eq x y : astate_eqb x y = true -> x = y.
Proof.
  destruct x as [r1 n1 c1 b1], y as [r2 n2 c2 b2]. unfold astate_eqb. cbn.
  intros H. apply andb_prop in H. destruct H as [H Hb]. apply andb_prop in H. destruct H as [H Hc].
  apply andb_prop in H. destruct H as [Hr Hn].
  apply N.eqb_eq in Hr. apply N.eqb_eq in Hn. apply N.eqb_eq in Hc. apply Bool.eqb_prop in Hb. now subst.
Qed.

Lemma smem_In s m : smem s m = true -> exists l, In l m /\ In s l.
Proof.
  unfold smem. destruct (nth_error m (N.to_nat (a_node s))) as [l|] eqn:E; [|discriminate].
  intros H. apply existsb_exists in H. destruct H as (s' & Hin & Heq).
  apply astate_eqb_eq in Heq. subst s'. exists l. split; [eapply nth_error_In; eauto|exact Hin].
Qed.

Lemma closed_step g m s nd e :
  closedb g m = true -> smem s m = true -> get_node g (a_node s) = Some nd -> In e (n_edges nd) ->
  smem (astep s e) m = true.
Proof.
  intros Hc Hs Hn He. unfold closedb in Hc. apply andb_prop in Hc. destruct Hc as [_ Hc].
  destruct (smem_In s m Hs) as (l & Hl & Hsl).
  rewrite forallb_forall in Hc. specialize (Hc l Hl). rewrite forallb_forall in Hc. specialize (Hc s Hsl).
  rewrite Hn in Hc. rewrite forallb_forall in Hc. now apply Hc.
Qed.

Lemma closed_run g m : closedb g m = true -> forall ss s tr,
  smem s m = true -> resolve g (a_node s) ss = Some tr -> smem (arun s tr) m = true.
Proof.
  intros Hc. induction ss as [|[name args] ss IH]; intros s tr Hs Hr; cbn [resolve] in Hr.
  - inversion Hr; subst. exact Hs.
  - destruct (get_node g (a_node s)) as [nd|] eqn:En; [|discriminate].
    destruct (find_edge name (n_edges nd)) as [e|] eqn:Ee; [|discriminate].
    destruct (resolve g (e_tgt e) ss) as [tr'|] eqn:Er; [|discriminate].
    inversion Hr; subst. unfold arun. cbn [fold_left fst].
    apply (IH (astep s e) tr').
    + eapply closed_step; eauto. now apply (find_edge_In name).
    + exact Er.
Qed.

Lemma indexed_In {A} : forall (l : list A) i k x, nth_error l k = Some x -> In (i + N.of_nat k, x) (indexed i l).
Proof.
  induction l as [|y l IH]; intros i k x H; destruct k as [|k]; cbn in H; try discriminate.
  - inversion H; subst. cbn [indexed]. left. f_equal. cbn. lia.
  - cbn [indexed]. right. replace (i + N.of_nat (S k)) with (i + 1 + N.of_nat k) by lia. now apply IH.
Qed.

Lemma closed_root g m k r :
  closedb g m = true -> nth_error (g_roots g) k = Some r -> smem (ainit (N.of_nat k) r) m = true.
Proof.
  intros Hc Hk. unfold closedb in Hc. apply andb_prop in Hc. destruct Hc as [Hc _].
  rewrite forallb_forall in Hc.
  exact (Hc _ (indexed_In (g_roots g) 0 k r Hk)).
Qed.

(** the abstraction follows the concrete run *)
Lemma exec_steps_abs g tab fe : forall ss st st',
  exec_steps g tab fe st ss = Ok st' ->
  exists tr, resolve g (b_node st) ss = Some tr /\
    forall s, a_node s = b_node st -> a_cf s = b_cf st ->
      a_node (arun s tr) = b_node st' /\ a_cf (arun s tr) = b_cf st' /\
      a_blk (arun s tr) = a_blk s || existsb (fun c => edge_blk (fst c)) tr /\
      a_root (arun s tr) = a_root s.
Proof.
  induction ss as [|[name args] ss IH]; intros st st' H; cbn [exec_steps] in H.
  - inversion H; subst. exists []. split; [reflexivity|]. intros s Hn Hc. cbn. now rewrite orb_false_r.
  - destruct (exec_step g tab fe st (Call name args)) as [st1| |] eqn:E1; try discriminate.
    cbn [exec_step] in E1.
    destruct (get_node g (b_node st)) as [nd|] eqn:En; [|discriminate].
    destruct (find_edge name (n_edges nd)) as [e|] eqn:Ee; [|discriminate].
    destruct (exec_edge_ok _ _ _ _ _ _ E1) as (_ & _ & Hn1 & Hcf1 & _).
    destruct (IH st1 st' H) as (tr & Hr & Habs).
    exists ((e, args) :: tr). cbn [resolve]. rewrite En, Ee. rewrite Hn1 in Hr. rewrite Hr.
    split; [reflexivity|]. intros s Hn Hc.
    unfold arun. cbn [fold_left fst]. fold (arun (astep s e) tr).
    destruct (Habs (astep s e)) as (A & B & C & D).
    + cbn. now rewrite Hn1.
    + cbn. now rewrite Hcf1, Hc.
    + repeat split; [exact A|exact B| |exact D].
      rewrite C. cbn [existsb fst astep a_blk]. now rewrite orb_assoc.
Qed.

(** Main lemma: every completed command obeys every rule that was checked on a closed set
    (up to the listed exceptions). *)
Theorem completed_obeys g tg m rl known tab fe init k r ss st t c :
  closedb g m = true ->
  rule_holds_except tg g rl known m = true ->
  nth_error (g_roots g) k = Some r ->
  exec_steps g tab fe (root_state r init) ss = Ok st ->
  finish g st t = Ok c ->
  exists tr nd, resolve g (r_node r) ss = Some tr /\ get_node g (b_node st) = Some nd /\
    (in_list known (cmd_name r) = true \/
     rule_ok tg rl (cmd_name r) nd (c_cf c) (existsb (fun x => edge_blk (fst x)) tr) = true).
Proof.
  intros Hc Hrule Hk Hrun Hfin.
  destruct (exec_steps_abs _ _ _ _ _ _ Hrun) as (tr & Hr & Habs).
  cbn [root_state b_node] in Hr.
  destruct (Habs (ainit (N.of_nat k) r)) as (A & B & C & D); [reflexivity|reflexivity|].
  pose proof (closed_root g m k r Hc Hk) as Hroot.
  pose proof (closed_run g m Hc ss (ainit (N.of_nat k) r) tr Hroot Hr) as Hmem.
  destruct (smem_In _ _ Hmem) as (l & Hl & Hsl).
  unfold rule_holds_except in Hrule. rewrite forallb_forall in Hrule. specialize (Hrule l Hl).
  rewrite forallb_forall in Hrule. specialize (Hrule _ Hsl).
  unfold finish in Hfin.
  destruct (get_node g (b_node st)) as [nd|] eqn:En; [|discriminate].
  destruct (offers nd t) eqn:Eo; [|discriminate].
  inversion Hfin; subst c. cbn [c_cf].
  exists tr, nd. split; [exact Hr|]. split; [reflexivity|].
  unfold state_ok in Hrule. rewrite D in Hrule. cbn [ainit a_root] in Hrule. rewrite Nat2N.id, Hk in Hrule.
  rewrite A, En in Hrule.
  apply orb_prop in Hrule. destruct Hrule as [Hok|Hex]; [|left; exact Hex].
  right. rewrite B, C in Hok. cbn [ainit a_blk orb] in Hok.
  assert (Hcomp : completes nd = true).
  { unfold completes. destruct t; cbn [offers] in Eo; rewrite Eo; [reflexivity|apply orb_true_r]. }
  rewrite Hcomp in Hok. exact Hok.
Qed.
