(** Proofs about Model/Retry.v: when a command is sent again (C28) and how often a command that is
    neither read-only nor retryable can be executed in one call (C03). *)
From Coq Require Import List Arith NArith ZArith Bool Lia.
Require Import RV.Model.Base RV.Model.ClusterTopo RV.Model.Retry.
Import ListNotations.
Open Scope Z_scope.

(** failures after which the single-node clients may retry *)
Definition retry_class_single (r : reply) : bool :=
  match r with RLoading | RTransport | RCtx => true | _ => false end.

Lemma wait_or_skip_nonneg d l : wait_or_skip d l = true -> 0 <= d /\ (d = 0 \/ l = None \/ exists x, l = Some x /\ d < x).
Proof.
  unfold wait_or_skip. destruct (Z.eqb_spec d 0) as [->|N]; [intros _; split; [lia|now left]|].
  destruct (Z.ltb_spec 0 d) as [Hd|Hd]; [|discriminate]. destruct l as [x|].
  - intro Hx. apply Z.ltb_lt in Hx. split; [lia|]. right. right. exists x. auto.
  - intros _. split; [lia|]. right. now left.
Qed.

(** C28: a retry decision implies every condition of the policy *)
Lemma single_decision_retry p retryable attempts t :
  single_decision p retryable attempts t = DRetry ->
  p_retry p = true /\ retryable = true /\ retry_class_single (k_reply t) = true /\
  k_ctx_cls t = false /\ k_closed t = false /\
  0 <= p_delay p attempts (k_reply t) /\
  (p_delay p attempts (k_reply t) = 0 \/ k_left t = None \/ exists x, k_left t = Some x /\ p_delay p attempts (k_reply t) < x).
Proof.
  unfold single_decision. destruct (is_expired (k_reply t)) eqn:E; [discriminate|].
  destruct (p_retry p && retryable && single_retryable_err (k_reply t) (k_ctx_cls t) (k_closed t)
            && wait_or_skip (p_delay p attempts (k_reply t)) (k_left t)) eqn:C; [|discriminate].
  intros _. apply andb_true_iff in C. destruct C as [C W]. apply andb_true_iff in C. destruct C as [C S].
  apply andb_true_iff in C. destruct C as [R1 R2].
  destruct (wait_or_skip_nonneg _ _ W) as [W1 W2].
  assert (X : retry_class_single (k_reply t) = true /\ k_ctx_cls t = false /\ k_closed t = false).
  { unfold single_retryable_err in S. destruct (k_reply t); try discriminate; cbn in E; try discriminate;
      apply negb_true_iff, orb_false_iff in S; destruct S; auto. }
  destruct X as [X1 [X2 X3]]. repeat split; auto.
Qed.

(** C28: any other outcome hands the reply to the caller unchanged *)
Lemma single_do_passthrough f p retryable attempts w t0 env :
  single_decision p retryable attempts (effective t0) = DReturn ->
  snd (single_do (S f) p retryable attempts w (t0 :: env)) = Done (k_reply (effective t0)).
Proof. intro H. cbn [single_do]. rewrite H. reflexivity. Qed.

(** nothing is written when the context is already done *)
Lemma single_do_ctx_done f p retryable attempts w t0 env :
  k_ctx_call t0 = true -> single_do (S f) p retryable attempts w (t0 :: env) = ([], Done RCtx).
Proof.
  intro H. cbn [single_do]. unfold single_decision, effective. rewrite H. cbn [k_reply is_expired k_ctx_cls k_closed].
  unfold single_retryable_err. rewrite orb_true_r. cbn [negb]. rewrite andb_false_r. cbn. reflexivity.
Qed.

(** the events of a call: every one but the first is justified by the decision taken on the one before *)
Fixpoint ev_chain (p : policy) (retryable : bool) (attempts : nat) (tr : list ev) : Prop :=
  match tr with
  | e1 :: ((e2 :: _) as r) =>
    match single_decision p retryable attempts (e_tick e1) with
    | DResend => e_why e2 = WExpired /\ ev_chain p retryable attempts r
    | DRetry => e_why e2 = WRetry /\ ev_chain p retryable (S attempts) r
    | DReturn => False
    end
  | _ => True
  end.

Lemma effective_idem t : effective (effective t) = effective t.
Proof. unfold effective. destruct (k_ctx_call t) eqn:E; [reflexivity|now rewrite E]. Qed.

Lemma single_do_chain : forall f p retryable attempts w env tr o,
  single_do f p retryable attempts w env = (tr, o) ->
  ev_chain p retryable attempts tr /\ (forall e r, tr = e :: r -> e_why e = w) /\
  (forall e, In e tr -> k_ctx_call (e_tick e) = false).
Proof.
  induction f as [|f IH]; intros p retryable attempts w env tr o H.
  - cbn in H. inversion H; subst. cbn. repeat split; intros; try discriminate; contradiction.
  - destruct env as [|t0 env']; [cbn in H; inversion H; subst; cbn; repeat split; intros; try discriminate; contradiction|].
    destruct (k_ctx_call t0) eqn:CC.
    + rewrite (single_do_ctx_done f p retryable attempts w t0 env' CC) in H. inversion H; subst.
      cbn. repeat split; intros; try discriminate; contradiction.
    + cbn [single_do] in H. rewrite CC in H.
      assert (Et : effective t0 = t0) by (unfold effective; now rewrite CC). rewrite Et in H.
      destruct (single_decision p retryable attempts t0) eqn:D.
      * inversion H; subst. cbn. repeat split; [intros e r E; inversion E; reflexivity|intros e [<-|[]]; exact CC].
      * destruct (single_do f p retryable attempts WExpired env') as [tr1 o1] eqn:R. inversion H; subst.
        destruct (IH _ _ _ _ _ _ _ R) as [C1 [H1 K1]]. cbn [app]. split; [|split].
        -- destruct tr1 as [|e2 r2]; [exact I|]. cbn [ev_chain e_tick]. rewrite D. split; [exact (H1 e2 r2 eq_refl)|exact C1].
        -- intros e r E; inversion E; reflexivity.
        -- intros e [<-|Hin]; [exact CC|auto].
      * destruct (single_do f p retryable (S attempts) WRetry env') as [tr1 o1] eqn:R. inversion H; subst.
        destruct (IH _ _ _ _ _ _ _ R) as [C1 [H1 K1]]. cbn [app]. split; [|split].
        -- destruct tr1 as [|e2 r2]; [exact I|]. cbn [ev_chain e_tick]. rewrite D. split; [exact (H1 e2 r2 eq_refl)|exact C1].
        -- intros e r E; inversion E; reflexivity.
        -- intros e [<-|Hin]; [exact CC|auto].
Qed.

(** ---- C03 on one connection ---- *)
Definition expired_executed (e : ev) : bool := is_expired (k_reply (e_tick e)) && k_executed (e_tick e).

(** for a command that is not retryable only an expired connection leads to another send *)
Lemma single_do_nonretryable_shape : forall f p attempts w env tr o,
  single_do f p false attempts w env = (tr, o) ->
  forall pre e post, tr = pre ++ e :: post -> post <> [] -> k_reply (e_tick e) = RExpired.
Proof.
  induction f as [|f IH]; intros p attempts w env tr o H pre e post E Np.
  - cbn in H. injection H as Htr _. rewrite <- Htr in E. destruct pre; discriminate.
  - destruct env as [|t0 env']; [cbn in H; injection H as Htr _; rewrite <- Htr in E; destruct pre; discriminate|].
    destruct (k_ctx_call t0) eqn:CC.
    + rewrite (single_do_ctx_done f p false attempts w t0 env' CC) in H. injection H as Htr _. rewrite <- Htr in E. destruct pre; discriminate.
    + cbn [single_do] in H. rewrite CC in H.
      assert (Et : effective t0 = t0) by (unfold effective; now rewrite CC). rewrite Et in H.
      unfold single_decision in H. rewrite andb_false_r in H. cbn [andb] in H.
      destruct (is_expired (k_reply t0)) eqn:X.
      * destruct (single_do f p false attempts WExpired env') as [tr1 o1] eqn:R. injection H as Htr _. rewrite <- Htr in E. cbn [app] in E.
        destruct pre as [|x pre']; cbn [app] in E; injection E as E1 E2.
        -- rewrite <- E1. cbn [e_tick]. destruct (k_reply t0); try discriminate. reflexivity.
        -- eapply IH; eauto.
      * injection H as Htr _. rewrite <- Htr in E. destruct pre as [|x [|y pre']]; cbn in E; injection E as E1 E2; try discriminate.
        subst post. congruence.
Qed.

Lemma executions_app a b : executions (a ++ b) = (executions a + executions b)%nat.
Proof. unfold executions. now rewrite filter_app, app_length. Qed.

(** characterisation: more than one execution needs an expired-connection result for an attempt
    that the server had executed *)
Lemma single_do_c03 : forall f p attempts w env tr o,
  single_do f p false attempts w env = (tr, o) ->
  (executions tr <= 1 + length (filter expired_executed tr))%nat.
Proof.
  intros f p attempts w env tr o H.
  pose proof (single_do_nonretryable_shape f p attempts w env tr o H) as Sh.
  clear H. induction tr as [|e r IH]; [cbn; lia|].
  destruct r as [|e2 r2].
  - unfold executions. cbn. destruct (k_executed (e_tick e)); destruct (expired_executed e); cbn; lia.
  - assert (Ee : k_reply (e_tick e) = RExpired) by (apply (Sh [] e (e2 :: r2)); [reflexivity|discriminate]).
    assert (IH' : (executions (e2 :: r2) <= 1 + length (filter expired_executed (e2 :: r2)))%nat).
    { apply IH. intros pre x post E Np. apply (Sh (e :: pre) x post); [cbn; now rewrite E|exact Np]. }
    change (e :: e2 :: r2) with ([e] ++ e2 :: r2). rewrite executions_app, filter_app, app_length.
    remember (executions (e2 :: r2)) as A. remember (length (filter expired_executed (e2 :: r2))) as B.
    assert (X : (executions [e] <= length (filter expired_executed [e]))%nat).
    { unfold executions. cbn [filter]. unfold expired_executed. rewrite Ee. cbn [is_expired andb].
      destruct (k_executed (e_tick e)); cbn [length]; lia. }
    lia.
Qed.


(** events are attempts of the environment that were really written *)
Lemma single_do_events : forall f p retryable attempts w env tr o,
  single_do f p retryable attempts w env = (tr, o) ->
  forall e, In e tr -> In (e_tick e) env /\ k_ctx_call (e_tick e) = false.
Proof.
  induction f as [|f IH]; intros p retryable attempts w env tr o H e Hin.
  - cbn in H. injection H as Htr _. subst tr. destruct Hin.
  - destruct env as [|t0 env']; [cbn in H; injection H as Htr _; subst tr; destruct Hin|].
    destruct (k_ctx_call t0) eqn:CC.
    + rewrite (single_do_ctx_done f p retryable attempts w t0 env' CC) in H. injection H as Htr _. subst tr. destruct Hin.
    + cbn [single_do] in H. rewrite CC in H.
      assert (Et : effective t0 = t0) by (unfold effective; now rewrite CC). rewrite Et in H.
      destruct (single_decision p retryable attempts t0).
      * injection H as Htr _. subst tr. destruct Hin as [<-|[]]. cbn. auto.
      * destruct (single_do f p retryable attempts WExpired env') as [tr1 o1] eqn:R. injection H as Htr _. subst tr.
        destruct Hin as [<-|Hin]; [cbn; auto|]. destruct (IH _ _ _ _ _ _ _ R e Hin). split; [now right|assumption].
      * destruct (single_do f p retryable (S attempts) WRetry env') as [tr1 o1] eqn:R. injection H as Htr _. subst tr.
        destruct Hin as [<-|Hin]; [cbn; auto|]. destruct (IH _ _ _ _ _ _ _ R e Hin). split; [now right|assumption].
Qed.

(** the reply handed back is the one of the last attempt written (or the context error) *)
Lemma single_do_last : forall f p retryable attempts w env tr r,
  single_do f p retryable attempts w env = (tr, Done r) ->
  r = RCtx \/ exists pre e, tr = pre ++ [e] /\ k_reply (e_tick e) = r.
Proof.
  induction f as [|f IH]; intros p retryable attempts w env tr r H.
  - cbn in H. discriminate.
  - destruct env as [|t0 env']; [cbn in H; discriminate|].
    destruct (k_ctx_call t0) eqn:CC.
    + rewrite (single_do_ctx_done f p retryable attempts w t0 env' CC) in H. injection H as _ Hr. now left.
    + cbn [single_do] in H. rewrite CC in H.
      assert (Et : effective t0 = t0) by (unfold effective; now rewrite CC). rewrite Et in H.
      destruct (single_decision p retryable attempts t0).
      * injection H as Htr Hr. right. exists [], (mkEv w t0). subst. auto.
      * destruct (single_do f p retryable attempts WExpired env') as [tr1 o1] eqn:R. injection H as Htr Ho. subst o1.
        destruct (IH _ _ _ _ _ _ _ R) as [X|[pre [e [E1 E2]]]]; [now left|]. right. exists (mkEv w t0 :: pre), e. subst. auto.
      * destruct (single_do f p retryable (S attempts) WRetry env') as [tr1 o1] eqn:R. injection H as Htr Ho. subst o1.
        destruct (IH _ _ _ _ _ _ _ R) as [X|[pre [e [E1 E2]]]]; [now left|]. right. exists (mkEv w t0 :: pre), e. subst. auto.
Qed.

(** an inner call that ends with a refusal (REDIRECT, MOVED, …) did not execute the command, except on
    attempts that ended with an expired connection *)
Lemma single_do_refused : forall f p attempts w env tr r,
  (forall t, In t env -> consistent t = true) ->
  single_do f p false attempts w env = (tr, Done r) ->
  (match r with RRedirect _ | RMoved _ | RAsk _ => True | _ => False end) ->
  (executions tr <= length (filter expired_executed tr))%nat.
Proof.
  intros f p attempts w env tr r Hc H Hr.
  pose proof (single_do_nonretryable_shape _ _ _ _ _ _ _ H) as Sh.
  pose proof (single_do_events _ _ _ _ _ _ _ _ H) as Ev.
  destruct (single_do_last _ _ _ _ _ _ _ _ H) as [X|[pre [e [E1 E2]]]]; [subst r; contradiction|].
  assert (Hall : forall x, In x tr -> k_reply (e_tick x) <> RExpired -> k_executed (e_tick x) = false).
  { intros x Hin Ne. destruct (in_split _ _ Hin) as [p1 [p2 Ep]].
    destruct p2 as [|y p2'].
    - (* the last event *)
      assert (x = e).
      { rewrite E1 in Ep. apply app_inj_tail in Ep. destruct Ep. auto. }
      subst x. destruct (Ev e Hin) as [Ie _]. specialize (Hc _ Ie). unfold consistent in Hc. rewrite E2 in Hc.
      apply andb_true_iff in Hc. destruct Hc as [Hc _]. destruct r; try contradiction; now apply negb_true_iff in Hc.
    - exfalso. apply Ne. apply (Sh p1 x (y :: p2') Ep). discriminate. }
  clear - Hall. induction tr as [|x r0 IH]; [cbn; lia|].
  unfold executions in *. cbn [filter]. unfold expired_executed at 1.
  destruct (is_expired (k_reply (e_tick x))) eqn:X.
  - cbn [andb]. destruct (k_executed (e_tick x)); cbn [length]; [apply le_n_S|]; apply IH; intros; apply Hall; auto; now right.
  - cbn [andb]. rewrite (Hall x (or_introl eq_refl)) by (intro Y; rewrite Y in X; discriminate).
    apply IH. intros; apply Hall; auto; now right.
Qed.

(** ---- standalone with EnableRedirect (Do) ---- *)
Lemma standalone_do_c03 : forall f p redirect attempts w env tr o,
  (forall o', In o' env -> forall t, In t (o_inner o') -> consistent t = true) ->
  standalone_do f p redirect false attempts w env = (tr, o) ->
  (executions tr <= 1 + length (filter expired_executed tr))%nat.
Proof.
  induction f as [|f IH]; intros p redirect attempts w env tr o Hc H.
  - cbn in H. injection H as Htr _. subst. cbn. lia.
  - destruct env as [|ot env']; [cbn in H; injection H as Htr _; subst; cbn; lia|].
    cbn [standalone_do] in H.
    destruct (single_do (S (length (o_inner ot))) p false 1 w (o_inner ot)) as [tr1 res] eqn:R.
    pose proof (single_do_c03 _ _ _ _ _ _ _ R) as B1.
    assert (Hdone : (tr1, res) = (tr, o) -> (executions tr <= 1 + length (filter expired_executed tr))%nat)
      by (intro E; injection E as E1 E2; subst; exact B1).
    destruct res as [r| |]; try (apply Hdone; exact H).
    destruct r; try (apply Hdone; exact H).
    destruct (redirect && (o_switch_ok ot || wait_or_skip (p_delay p attempts (RRedirect a)) (o_left ot))); [|apply Hdone; exact H].
    destruct (standalone_do f p redirect false (S attempts) WRedirect env') as [tr2 o2] eqn:R2. injection H as Htr Ho. subst tr o.
    assert (B2 : (executions tr2 <= 1 + length (filter expired_executed tr2))%nat).
    { eapply IH; [|exact R2]. intros o' Hin. apply Hc. now right. }
    assert (B1' : (executions tr1 <= length (filter expired_executed tr1))%nat).
    { eapply single_do_refused; [|exact R|exact I]. intros t Ht. apply (Hc ot); [now left|exact Ht]. }
    rewrite executions_app, filter_app, app_length. lia.
Qed.

(** ---- refutation witnesses ---- *)
(** a written INCR is executed, the connection expires before the reply, the client re-sends *)
Definition w_expired_exec : tick := mkTick RExpired true false false false None.
Definition w_value_exec : tick := mkTick (RVal 7) true false false false None.
Definition w_policy : policy := mkPolicy true (fun _ _ => 0) true.

Lemma single_do_c03_witness :
  let '(tr, o) := single_do 3 w_policy false 1 WFirst [w_expired_exec; w_value_exec] in
  executions tr = 2%nat /\ o = Done (RVal 7) /\ forallb consistent [w_expired_exec; w_value_exec] = true.
Proof. vm_compute. repeat split; reflexivity. Qed.

(** standalone DoMulti: the first member is executed, the second is answered REDIRECT, the whole
    batch is sent again to the new primary *)
Definition w_cmds : list bcmd := [mkCmd None KPlain false false 1; mkCmd None KPlain false false 2].
Definition w_redirect : tick := mkTick (RRedirect ([49%N], 6380)) false false false false None.
Definition w_env_batch : list obtick :=
  [mkObtick [[w_value_exec; w_redirect]] true None; mkObtick [[w_value_exec; w_value_exec]] true None].

Lemma standalone_domulti_c03_witness :
  let '(tr, o) := standalone_domulti 3 w_policy true w_cmds 1 WFirst w_env_batch in
  batch_executions 0 tr = 2%nat /\ o = Some [RVal 7; RVal 7] /\
  forallb (fun ob => forallb (forallb consistent) (ob_inner ob)) w_env_batch = true.
Proof. vm_compute. repeat split; reflexivity. Qed.

(** the expiry recovery of a batch restarts in the middle of a transaction whose MULTI sits at
    index 0 ([txIdx == 0] also means "no transaction"): [MULTI; INCR; EXEC] answered
    [OK; expired; expired] is resumed at INCR, outside any MULTI *)
Lemma recover_from_txidx0 :
  recover_from [mkCmd None KMulti false false 1; mkCmd None KPlain false false 2; mkCmd None KExec false false 3]
               [RVal 1; RExpired; RExpired] 0 0 = Some 1%nat /\
  recover_from [mkCmd None KPlain true false 0; mkCmd None KMulti false false 1; mkCmd None KPlain false false 2; mkCmd None KExec false false 3]
               [RVal 5; RVal 1; RExpired; RExpired] 0 0 = Some 1%nat.
Proof. split; reflexivity. Qed.

(** ---- batches on one connection ---- *)
(** without an expired connection a batch with a non-retryable member is sent exactly once *)
Lemma recover_from_none cs : forall rs i tx, (forall r, In r rs -> is_expired r = false) -> recover_from cs rs i tx = None.
Proof.
  induction cs as [|c cs IH]; intros rs i tx H; [destruct rs; reflexivity|].
  destruct rs as [|r rs]; [reflexivity|]. cbn [recover_from]. rewrite (H r (or_introl eq_refl)). apply IH.
  intros x Hx. apply H. now right.
Qed.

Lemma single_domulti_once f p cs attempts w x env :
  all_retryable cs = false ->
  (forall t, In t x -> is_expired (k_reply (effective t)) = false) ->
  single_domulti (S f) p cs attempts w (x :: env) = ([mkBsend w 0 x], Some (map (fun t => k_reply (effective t)) x)).
Proof.
  intros Hn Hx. cbn [single_domulti].
  assert (Hr : recover_loop (S (length env)) cs (map (fun t => k_reply (effective t)) x) env
               = Some (map (fun t => k_reply (effective t)) x, [], env)).
  { cbn [recover_loop]. rewrite recover_from_none; [reflexivity|].
    intros r Hin. apply in_map_iff in Hin. destruct Hin as [t [<- Ht]]. now apply Hx. }
  destruct (p_lftm p).
  - change (recover_loop (S (length env)) cs (map (fun t => k_reply (effective t)) x) env) with
      (recover_loop (S (length env)) cs (map (fun t : tick => k_reply (effective t)) x) env).
    rewrite Hr. rewrite Hn, andb_false_r. reflexivity.
  - rewrite Hn, andb_false_r. reflexivity.
Qed.
