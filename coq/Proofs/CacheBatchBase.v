(** List-level lemmas for the batched cache reads: boolean equalities, [upd], the scan-and-fill walk. *)
From Coq Require Import String Ascii.
From Coq Require Import List Arith NArith ZArith Bool Lia.
Require Import RV.Model.Base RV.Model.CacheBatch.
Import ListNotations.
Open Scope nat_scope.

(** ** boolean equality on byte strings and cache keys *)

Lemma list_eqb_N_eq (a b : bytes) : bytes_eqb a b = true <-> a = b.
Proof.
  unfold bytes_eqb. revert b. induction a as [|x a IH]; intros [|y b]; cbn [list_eqb]; split; intro H;
    try reflexivity; try discriminate.
  - apply andb_true_iff in H as [H1 H2]. apply N.eqb_eq in H1. apply IH in H2. now subst.
  - inversion H; subst. apply andb_true_iff; split; [apply N.eqb_refl|now apply IH].
Qed.

Lemma bytes_eqb_refl a : bytes_eqb a a = true.
Proof. now apply list_eqb_N_eq. Qed.

Lemma bytes_eqb_neq a b : bytes_eqb a b = false <-> a <> b.
Proof.
  split; intro H.
  - intro E. apply list_eqb_N_eq in E. congruence.
  - destruct (bytes_eqb a b) eqn:E; [|reflexivity]. apply list_eqb_N_eq in E. contradiction.
Qed.

Lemma ck_eqb_eq a b : ck_eqb a b = true <-> a = b.
Proof.
  destruct a as [a1 a2], b as [b1 b2]. unfold ck_eqb. cbn [fst snd]. rewrite andb_true_iff, !list_eqb_N_eq.
  split; [intros [-> ->]; reflexivity|intro H; inversion H; auto].
Qed.

Lemma ck_eqb_refl a : ck_eqb a a = true.
Proof. now apply ck_eqb_eq. Qed.

Lemma ck_mem_In x l : ck_mem x l = true <-> In x l.
Proof.
  induction l as [|y l IH]; cbn [ck_mem In]; [split; [discriminate|tauto]|].
  rewrite orb_true_iff, ck_eqb_eq, IH. split; intros [H|H]; auto.
Qed.

Lemma ck_mem_app x l1 l2 : ck_mem x (l1 ++ l2) = ck_mem x l1 || ck_mem x l2.
Proof. induction l1 as [|y l1 IH]; cbn [ck_mem app]; [reflexivity|]. now rewrite IH, orb_assoc. Qed.

(** ** [upd], [repeat_n] *)

Lemma repeat_n_length {A} (x : A) n : length (repeat_n x n) = n.
Proof. induction n; cbn; auto. Qed.

Lemma repeat_n_S {A} (x : A) n : repeat_n x (S n) = x :: repeat_n x n.
Proof. reflexivity. Qed.

Lemma upd_length {A} i (x : A) l : length (upd i x l) = length l.
Proof. revert i; induction l as [|a l IH]; intros [|i]; cbn; auto. Qed.

Lemma upd_app_here {A} (pre : list A) x y t : upd (length pre) x (pre ++ y :: t) = pre ++ x :: t.
Proof. induction pre as [|a pre IH]; cbn; [reflexivity|now rewrite IH]. Qed.

Lemma upd_app_r {A} (pre : list A) i x t : upd (length pre + i) x (pre ++ t) = pre ++ upd i x t.
Proof. induction pre as [|a pre IH]; cbn; [reflexivity|now rewrite IH]. Qed.

Lemma set_nth_app_here {A} (pre : list A) x y t : set_nth (length pre) x (pre ++ y :: t) = Ok (pre ++ x :: t).
Proof.
  unfold set_nth. rewrite app_length. cbn [length].
  destruct (Nat.ltb_spec (length pre) (length pre + S (length t))); [|lia]. now rewrite upd_app_here.
Qed.

Lemma indexed_cons_seq {A} (l : list A) off :
  combine (seq off (length l)) l =
  match l with [] => [] | a :: r => (off, a) :: combine (seq (S off) (length r)) r end.
Proof. destruct l; reflexivity. Qed.

(** ** the scan-and-fill walk shared by the stride walks *)

Definition filled (r : rres) : Prop := unfilled r = false.

Lemma unfilled_zero : unfilled zero_res = true.
Proof. reflexivity. Qed.

Lemma filled_new_error e : filled (new_error e).
Proof. reflexivity. Qed.

Lemma filled_new_result m : m_typ m <> 0%N -> filled (new_result m).
Proof.
  intro H. unfold filled, unfilled, new_result. cbn [r_val r_err].
  destruct (N.eqb_spec (m_typ m) 0); [contradiction|reflexivity].
Qed.

Lemma find_unfilled_app_filled pre t :
  Forall filled pre -> find_unfilled (pre ++ zero_res :: t) = Some (length pre).
Proof.
  induction 1 as [|x pre Hx _ IH]; cbn [app find_unfilled length].
  - reflexivity.
  - rewrite Hx, IH. reflexivity.
Qed.

Lemma Forall_skipn {A} (P : A -> Prop) n l : Forall P l -> Forall P (skipn n l).
Proof. revert n; induction l as [|a l IH]; intros [|n] H; cbn; auto. inversion H; auto. Qed.

Lemma scan_app_filled pre t j :
  j <= length pre -> Forall filled pre -> scan j (pre ++ zero_res :: t) = Some (length pre).
Proof.
  intros Hj Hp. unfold scan. rewrite skipn_app.
  replace (j - length pre) with 0 by lia. cbn [skipn].
  rewrite find_unfilled_app_filled by now apply Forall_skipn.
  cbn [option_map]. rewrite skipn_length. f_equal. lia.
Qed.

Lemma find_unfilled_none l : Forall filled l -> find_unfilled l = None.
Proof. induction 1 as [|x l Hx _ IH]; cbn; [reflexivity|]. now rewrite Hx, IH. Qed.

(** the walk, with the values to fill in already extracted *)
Fixpoint fill_seq (fills : list rres) (j : nat) (rs : list rres) : list rres :=
  match fills with
  | [] => rs
  | x :: r =>
    match scan j rs with
    | Some j' => fill_seq r j' (upd j' x rs)
    | None => fill_seq r (length rs) rs
    end
  end.

(** [l] pairs the final value of each slot with "this slot is a miss"; blanking the misses and
    filling them in order from the left restores the list, provided filled values are recognisable *)
Definition blanked (l : list (rres * bool)) : list rres :=
  map (fun xb : rres * bool => if snd xb then zero_res else fst xb) l.

Definition fills_of (l : list (rres * bool)) : list rres := map fst (filter snd l).

Lemma fill_seq_blanked l : forall pre j,
  j <= length pre -> Forall filled pre -> Forall (fun xb : rres * bool => filled (fst xb)) l ->
  fill_seq (fills_of l) j (pre ++ blanked l) = pre ++ map fst l.
Proof.
  induction l as [|[x b] l IH]; intros pre j Hj Hpre Hl.
  - reflexivity.
  - inversion Hl as [|? ? Hx Hl']; subst. cbn [fst] in Hx.
    destruct b.
    + unfold fills_of. cbn [filter snd map fst blanked]. fold (fills_of l). fold (blanked l).
      cbn [fill_seq]. rewrite scan_app_filled by assumption.
      rewrite upd_app_here.
      replace (pre ++ x :: blanked l) with ((pre ++ [x]) ++ blanked l) by now rewrite <- app_assoc.
      rewrite IH; [now rewrite <- app_assoc| rewrite app_length; cbn; lia | apply Forall_app; auto | assumption].
    + unfold fills_of. cbn [filter snd map fst blanked]. fold (fills_of l). fold (blanked l).
      replace (pre ++ x :: blanked l) with ((pre ++ [x]) ++ blanked l) by now rewrite <- app_assoc.
      rewrite IH; [now rewrite <- app_assoc| rewrite app_length; cbn; lia | apply Forall_app; auto | assumption].
Qed.

Lemma fill_seq_blanked0 l :
  Forall (fun xb : rres * bool => filled (fst xb)) l -> fill_seq (fills_of l) 0 (blanked l) = map fst l.
Proof. intro H. apply (fill_seq_blanked l [] 0); auto. Qed.

(** same walk over messages (doCacheMGet) *)
Definition filled_m (m : msg) : Prop := typ_unfilled m = false.

Lemma find_unfilled_m_app_filled pre t :
  Forall filled_m pre -> find_unfilled_m (pre ++ zero_msg :: t) = Some (length pre).
Proof.
  induction 1 as [|x pre Hx _ IH]; cbn [app find_unfilled_m length]; [reflexivity|].
  rewrite Hx, IH. reflexivity.
Qed.

Lemma scan_m_app_filled pre t j :
  j <= length pre -> Forall filled_m pre -> scan_m j (pre ++ zero_msg :: t) = Some (length pre).
Proof.
  intros Hj Hp. unfold scan_m. rewrite skipn_app.
  replace (j - length pre) with 0 by lia. cbn [skipn].
  rewrite find_unfilled_m_app_filled by now apply Forall_skipn.
  cbn [option_map]. rewrite skipn_length. f_equal. lia.
Qed.

Definition blanked_m (l : list (msg * bool)) : list msg :=
  map (fun xb : msg * bool => if snd xb then zero_msg else fst xb) l.

Definition fills_of_m (l : list (msg * bool)) : list msg := map fst (filter snd l).

Lemma refill_m_blanked l : forall pre j,
  j <= length pre -> Forall filled_m pre -> Forall (fun xb : msg * bool => filled_m (fst xb)) l ->
  refill_m (fills_of_m l) j (pre ++ blanked_m l) = pre ++ map fst l.
Proof.
  induction l as [|[x b] l IH]; intros pre j Hj Hpre Hl.
  - reflexivity.
  - inversion Hl as [|? ? Hx Hl']; subst. cbn [fst] in Hx.
    destruct b.
    + unfold fills_of_m. cbn [filter snd map fst blanked_m]. fold (fills_of_m l). fold (blanked_m l).
      cbn [refill_m]. rewrite scan_m_app_filled by assumption.
      rewrite upd_app_here.
      replace (pre ++ x :: blanked_m l) with ((pre ++ [x]) ++ blanked_m l) by now rewrite <- app_assoc.
      rewrite IH; [now rewrite <- app_assoc| rewrite app_length; cbn; lia | apply Forall_app; auto | assumption].
    + unfold fills_of_m. cbn [filter snd map fst blanked_m]. fold (fills_of_m l). fold (blanked_m l).
      replace (pre ++ x :: blanked_m l) with ((pre ++ [x]) ++ blanked_m l) by now rewrite <- app_assoc.
      rewrite IH; [now rewrite <- app_assoc| rewrite app_length; cbn; lia | apply Forall_app; auto | assumption].
Qed.

(** ** association lists keyed by cache keys *)

Lemma assoc_ck_app {B} x (l1 l2 : list ((key * bytes) * B)) :
  assoc_ck x (l1 ++ l2) = match assoc_ck x l1 with Some b => Some b | None => assoc_ck x l2 end.
Proof.
  induction l1 as [|[y b] l1 IH]; cbn [app assoc_ck]; [reflexivity|].
  destruct (ck_eqb x y); [reflexivity|exact IH].
Qed.
