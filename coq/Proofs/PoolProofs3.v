(** Pool LTS: every call is in at most one place, a parked cancellable caller has its cancellation
    goroutine armed, a parked caller whose context is done has a pending broadcast (C05, pool half),
    and the lost-wake-up invariant. *)
From Coq Require Import List NArith ZArith Bool Arith Lia.
Require Import RV.Model.Base RV.Model.Pool RV.Proofs.PoolBase RV.Proofs.PoolProofs.
Import ListNotations.
Open Scope Z_scope.

Ltac st := cbn [size idle down timer_on tarmed mutex parked woken making exiting entered cancellable armed
                ctxdone bpend held broken nostop used sigs cbc dstores
                upd_threads upd_wires upd_misc set_eval hand_out set_mutex add_making] in *.

Notation cnt := (count_occ Nat.eq_dec).

Definition ind (a x : nat) : nat := if Nat.eq_dec a x then 1%nat else 0%nat.

Lemma cnt_cons : forall a l x, cnt (a :: l) x = (ind a x + cnt l x)%nat.
Proof. intros a l x. unfold ind. cbn [count_occ]. destruct (Nat.eq_dec a x); reflexivity. Qed.

Lemma cnt_remove1 : forall a l x, cnt (remove1 a l) x = (cnt l x - ind a x)%nat.
Proof.
  intros a l x. unfold ind. destruct (Nat.eq_dec a x) as [E|E].
  - subst x. rewrite count_occ_remove1_same. lia.
  - rewrite count_occ_remove1_other; [lia|congruence].
Qed.

Lemma memb_cnt : forall a l, memb a l = true -> (1 <= cnt l a)%nat.
Proof. intros a l H. apply memb_In in H. apply (count_occ_In Nat.eq_dec) in H. lia. Qed.

Lemma In_cnt : forall a l, In a l <-> (1 <= cnt l a)%nat.
Proof. intros a l. rewrite (count_occ_In Nat.eq_dec). lia. Qed.

Lemma notIn_cnt : forall a l, ~ In a l -> cnt l a = 0%nat.
Proof. intros a l H. apply (count_occ_not_In Nat.eq_dec) in H. exact H. Qed.

Lemma ind_refl : forall a, ind a a = 1%nat.
Proof. intro a. unfold ind. destruct (Nat.eq_dec a a); [reflexivity|congruence]. Qed.

Lemma ind_neq : forall a x, a <> x -> ind a x = 0%nat.
Proof. intros a x H. unfold ind. destruct (Nat.eq_dec a x); [congruence|reflexivity]. Qed.

Definition mx (s : state) (t : nat) : nat :=
  match mutex s with Some u => ind u t | None => 0%nat end.

Definition places (s : state) (t : nat) : nat :=
  (mx s t + cnt (parked s) t + cnt (woken s) t + cnt (making s) t + cnt (exiting s) t)%nat.

Record InvT (s : state) : Prop := {
  t_places : forall t, (places s t <= 1)%nat /\ (~ In t (entered s) -> places s t = 0%nat);
  t_a0 : forall t, In t (ctxdone s) -> In t (entered s) -> In t (cancellable s);
  t_sub : forall t, In t (cancellable s) -> In t (entered s);
  t_a1 : forall t, (mx s t = 1%nat \/ In t (parked s) \/ In t (woken s)) -> In t (cancellable s) -> In t (armed s);
  t_w : forall t, (mx s t = 1%nat \/ In t (parked s)) -> In t (ctxdone s) -> In t (bpend s)
}.

Lemma invT_init : InvT init.
Proof.
  constructor; unfold places, mx; cbn.
  - intros t. split; [lia|reflexivity].
  - tauto.
  - tauto.
  - intros t [H|[H|H]]; [discriminate|tauto|tauto].
  - intros t [H|H]; [discriminate|tauto].
Qed.

Lemma inv1_size_le : forall cfg s, Inv1 cfg s -> size s <= cap cfg.
Proof. intros cfg s [I1 I2 _ _]. lia. Qed.

(** how an evaluation moves the calling thread *)
Inductive eval_shape (cfg : config) (t : nat) (s s' : state) : Prop :=
| ES_park : mutex s' = Some t -> making s' = making s -> exiting s' = exiting s ->
            memb t (ctxdone s) = false -> down s = false ->
            (exists k, size s = cap cfg + Z.of_nat k /\ (k = 0%nat -> idle s = [])) -> eval_shape cfg t s s'
| ES_make : mutex s' = None -> making s' = t :: making s -> exiting s' = exiting s -> eval_shape cfg t s s'
| ES_out : mutex s' = None -> making s' = making s -> exiting s' = t :: exiting s -> eval_shape cfg t s s'.

Lemma acquire_eval_shape : forall cfg t s,
  let s' := acquire_eval cfg t s in
  parked s' = parked s /\ woken s' = woken s /\ entered s' = entered s /\ cancellable s' = cancellable s /\
  armed s' = armed s /\ ctxdone s' = ctxdone s /\ bpend s' = bpend s /\ eval_shape cfg t s s'.
Proof.
  intros cfg t s. cbv zeta. unfold acquire_eval.
  destruct (eval cfg (down s) (memb t (ctxdone s)) (broken s) (nostop s) (idle s) (size s)) as [[[o l'] sz'] cl] eqn:E.
  apply eval_spec in E. destruct E as (E1 & E2 & E3 & E4).
  destruct o; st; repeat split; try reflexivity.
  - destruct E4 as (F1 & F2 & F3 & F4). apply ES_park; st; try reflexivity; try assumption.
    exists (length cl). split; [lia|]. intro Hk. destruct cl; [|discriminate]. subst l'. rewrite E1. reflexivity.
  - apply ES_out; st; reflexivity.
  - apply ES_out; st; reflexivity.
  - apply ES_make; st; reflexivity.
  - apply ES_out; st; reflexivity.
Qed.

(** the generic part: a thread [t] that is in none of the places, or was just removed from one,
    runs an evaluation *)
Lemma invT_acquire_eval : forall cfg t s,
  mutex s = None -> In t (entered s) ->
  (forall x, (places s x + ind t x <= 1)%nat /\ (~ In x (entered s) -> places s x = 0%nat)) ->
  (forall x, In x (ctxdone s) -> In x (entered s) -> In x (cancellable s)) ->
  (forall x, In x (cancellable s) -> In x (entered s)) ->
  (forall x, (In x (parked s) \/ In x (woken s)) -> In x (cancellable s) -> In x (armed s)) ->
  (forall x, In x (parked s) -> In x (ctxdone s) -> In x (bpend s)) ->
  (* parking is only possible for a thread that is armed when its context can be cancelled *)
  ((exists k, size s = cap cfg + Z.of_nat k /\ (k = 0%nat -> idle s = [])) -> down s = false ->
      memb t (ctxdone s) = false -> In t (cancellable s) -> In t (armed s)) ->
  InvT (acquire_eval cfg t s).
Proof.
  intros cfg t s Hm Hent HP HA0 Hsub HA1 HW Harm.
  pose proof (acquire_eval_shape cfg t s) as Hs. cbv zeta in Hs.
  destruct Hs as (S1 & S2 & S3 & S4 & S5 & S6 & S7 & Sh).
  assert (Hmx0 : forall x, mx s x = 0%nat) by (intro x; unfold mx; rewrite Hm; reflexivity).
  constructor.
  - intro x. specialize (HP x). destruct HP as [P1 P2]. unfold places in *. rewrite Hmx0 in *.
    rewrite S1, S2, S3. destruct Sh as [M1 M2 M3 _ _ _|M1 M2 M3|M1 M2 M3]; unfold mx; rewrite M1, M2, M3; rewrite ?cnt_cons.
    + split; [lia|]. intro Hx. assert (x <> t) by congruence. rewrite ind_neq by congruence. apply P2 in Hx. lia.
    + split; [lia|]. intro Hx. assert (x <> t) by congruence. rewrite ind_neq by congruence. apply P2 in Hx. lia.
    + split; [lia|]. intro Hx. assert (x <> t) by congruence. rewrite ind_neq by congruence. apply P2 in Hx. lia.
  - intros x. rewrite S6, S3, S4. apply HA0.
  - intros x. rewrite S4, S3. apply Hsub.
  - intros x. rewrite S1, S2, S4, S5. intros [H|H] Hc.
    + destruct Sh as [M1 M2 M3 N1 N2 N3|M1 M2 M3|M1 M2 M3]; unfold mx in H; rewrite M1 in H; try discriminate.
      unfold ind in H. destruct (Nat.eq_dec t x); [subst x|discriminate]. apply Harm; assumption.
    + apply HA1; assumption.
  - intros x. rewrite S1, S6, S7. intros [H|H] Hc.
    + destruct Sh as [M1 M2 M3 N1 N2 N3|M1 M2 M3|M1 M2 M3]; unfold mx in H; rewrite M1 in H; try discriminate.
      unfold ind in H. destruct (Nat.eq_dec t x); [subst x|discriminate].
      apply memb_In in Hc. congruence.
    + apply HW; assumption.
Qed.

Lemma mx_none : forall s x, mutex s = None -> mx s x = 0%nat.
Proof. intros s x H. unfold mx. rewrite H. reflexivity. Qed.

Lemma placed_entered : forall s t, (forall x, (places s x <= 1)%nat /\ (~ In x (entered s) -> places s x = 0%nat)) ->
  (1 <= places s t)%nat -> In t (entered s).
Proof.
  intros s t IP H. destruct (in_dec Nat.eq_dec t (entered s)) as [Hi|Hn]; [exact Hi|].
  destruct (IP t) as [_ P2]. specialize (P2 Hn). lia.
Qed.

Ltac case_ind a x := destruct (Nat.eq_dec a x) as [?E|?E]; [subst x; rewrite ?ind_refl|rewrite ?(ind_neq a x) by assumption].

Lemma invT_step : forall cfg s l s', locked_bcast cfg = true -> Inv1 cfg s ->
  InvT s -> lstep cfg s l = Some s' -> InvT s'.
Proof.
  intros cfg s l s' Hlb I1 I Hl. pose proof (inv1_size_le _ _ I1) as Hsz.
  destruct I as [IP IA0 ISub IA1 IW].
  destruct l; cbn [lstep] in Hl.
  - (* AcqEnter *)
    destruct (mutex_free s && negb (memb t (entered s)) && (c || negb (memb t (ctxdone s)))) eqn:G; [|discriminate].
    apply andb_true_iff in G. destruct G as [G G3]. apply andb_true_iff in G. destruct G as [G1 G2].
    apply mutex_free_true in G1. apply negb_true_iff in G2. apply memb_false_In in G2.
    inversion Hl; subst s'. clear Hl.
    apply invT_acquire_eval; st.
    + exact G1.
    + left. reflexivity.
    + intro x. destruct (IP x) as [P1 P2]. unfold places, mx in *. st. rewrite G1 in *. split.
      * unfold ind. destruct (Nat.eq_dec t x); [subst x; rewrite (P2 G2); lia|lia].
      * intro Hx. apply P2. intro H. apply Hx. right. exact H.
    + intros x Hd [He|He].
      * subst x. destruct c; [left; reflexivity|]. cbn [orb] in G3. apply negb_true_iff in G3. apply memb_false_In in G3. tauto.
      * destruct c; [right|]; apply IA0; assumption.
    + intros x Hx. destruct c; [destruct Hx as [Hx|Hx]; [left; exact Hx|]|]; right; apply ISub; exact Hx.
    + intros x Hx Hc. assert (Hxt : x <> t).
      { intro; subst x. destruct (IP t) as [P1 P2]. specialize (P2 G2). unfold places in P2.
        destruct Hx as [Hx|Hx]; apply In_cnt in Hx; lia. }
      assert (Hc' : In x (cancellable s)). { destruct c; [destruct Hc as [Hc|Hc]; [congruence|exact Hc]|exact Hc]. }
      destruct (full cfg s && negb (down s) && negb (memb t (ctxdone s)) && c); [right|]; apply IA1; auto.
    + intros x Hx Hd. apply IW; [right; exact Hx|exact Hd].
    + intros [k [K1 K2]] Hdn Hcd Hc.
      assert (k = 0%nat) by lia. specialize (K2 H). subst k.
      assert (Hfull : full cfg s = true). { unfold full. rewrite K2. cbn [is_nil andb]. apply Z.eqb_eq. lia. }
      rewrite Hfull, Hdn, Hcd. cbn [negb andb].
      destruct c; [left; reflexivity|]. exfalso. apply G2. apply ISub. exact Hc.
  - (* AcqPark *)
    destruct (mutex s) as [u|] eqn:Hm; [|discriminate]. destruct (Nat.eqb t u) eqn:E; [|discriminate].
    apply Nat.eqb_eq in E. subst u. inversion Hl; subst s'. clear Hl.
    constructor; st.
    + intro x. destruct (IP x) as [P1 P2]. unfold places, mx in *. st. rewrite Hm in *. rewrite count_occ_app, cnt_cons.
      cbn [count_occ]. split; [lia|]. intro Hx. specialize (P2 Hx). lia.
    + exact IA0.
    + exact ISub.
    + intros x Hx Hc. apply IA1; [|exact Hc]. unfold mx in *. st. rewrite Hm.
      destruct Hx as [Hx|[Hx|Hx]]; [discriminate| |right; right; exact Hx].
      apply in_app_or in Hx. destruct Hx as [Hx|[Hx|[]]]; [right; left; exact Hx|subst x; left; apply ind_refl].
    + intros x Hx Hc. apply IW; [|exact Hc]. unfold mx in *. st. rewrite Hm.
      destruct Hx as [Hx|Hx]; [discriminate|].
      apply in_app_or in Hx. destruct Hx as [Hx|[Hx|[]]]; [right; exact Hx|subst x; left; apply ind_refl].
  - (* AcqWake *)
    destruct (mutex_free s && memb t (woken s)) eqn:G; [|discriminate]. apply andb_true_iff in G. destruct G as [G1 G2].
    apply mutex_free_true in G1. pose proof (memb_cnt _ _ G2) as Hc1.
    inversion Hl; subst s'. clear Hl.
    assert (Hent : In t (entered s)). { apply placed_entered; [exact IP|]. unfold places. lia. }
    apply invT_acquire_eval; st.
    + exact G1.
    + exact Hent.
    + intro x. destruct (IP x) as [P1 P2]. unfold places, mx in *. st. rewrite G1 in *. rewrite cnt_remove1. split.
      * case_ind t x; lia.
      * intro Hx. specialize (P2 Hx). lia.
    + exact IA0.
    + exact ISub.
    + intros x Hx Hc. apply IA1; [|exact Hc]. destruct Hx as [Hx|Hx]; [right; left; exact Hx|right; right; eapply remove1_In; exact Hx].
    + intros x Hx Hd. apply IW; [right; exact Hx|exact Hd].
    + intros _ _ _ Hc. apply IA1; [|exact Hc]. right; right. apply memb_In. exact G2.
  - (* MakeOk *)
    destruct (memb t (making s)) eqn:G; [|discriminate]. pose proof (memb_cnt _ _ G) as Hc1.
    assert (IT' : InvT (upd_threads s (parked s) (woken s) (remove1 t (making s)) (t :: exiting s) (entered s)
                          (cancellable s) (armed s) (ctxdone s) (bpend s))).
    { constructor; st; try assumption.
      intro x. destruct (IP x) as [P1 P2]. unfold places, mx in *. st. rewrite cnt_remove1, cnt_cons. split.
      - case_ind t x; lia.
      - intro Hx. specialize (P2 Hx). case_ind t x; lia. }
    destruct IT' as [JP JA0 JSub JA1 JW].
    destruct id as [id|].
    + destruct (memb id (used s)); [discriminate|]. inversion Hl; subst s'. constructor; unfold places, mx in *; st; assumption.
    + inversion Hl; subst s'. constructor; unfold places, mx in *; st; assumption.
  - (* MakeBad *)
    destruct (mutex_free s && memb t (making s) && negb (memb id (used s))) eqn:G; [|discriminate].
    apply andb_true_iff in G. destruct G as [G G3]. apply andb_true_iff in G. destruct G as [G1 G2].
    apply mutex_free_true in G1. pose proof (memb_cnt _ _ G2) as Hc1.
    inversion Hl; subst s'. clear Hl.
    assert (Hent : In t (entered s)). { apply placed_entered; [exact IP|]. unfold places. lia. }
    apply invT_acquire_eval; st.
    + exact G1.
    + exact Hent.
    + intro x. destruct (IP x) as [P1 P2]. unfold places, mx in *. st. rewrite G1 in *. rewrite cnt_remove1. split.
      * case_ind t x; lia.
      * intro Hx. specialize (P2 Hx). lia.
    + exact IA0.
    + exact ISub.
    + intros x Hx Hc. apply IA1; [|exact Hc]. destruct Hx as [Hx|Hx]; [right; left; exact Hx|right; right; exact Hx].
    + intros x Hx Hd. apply IW; [right; exact Hx|exact Hd].
    + intros [k [K1 K2]] _ _ _. exfalso. lia.
  - (* AcqReturn *)
    destruct (memb t (exiting s)) eqn:G; [|discriminate]. pose proof (memb_cnt _ _ G) as Hc1.
    inversion Hl; subst s'. clear Hl. constructor; st.
    + intro x. destruct (IP x) as [P1 P2]. unfold places, mx in *. st. rewrite cnt_remove1. split; [lia|].
      intro Hx. specialize (P2 Hx). lia.
    + exact IA0.
    + exact ISub.
    + intros x Hx Hc. assert (Hxt : x <> t).
      { intro; subst x. destruct (IP t) as [P1 _]. unfold places in P1. unfold mx in *. st.
        destruct Hx as [Hx|[Hx|Hx]]; [lia|apply In_cnt in Hx; lia|apply In_cnt in Hx; lia]. }
      apply remove1_In_other; [exact Hxt|]. apply IA1; [|exact Hc]. unfold mx in *. st. exact Hx.
    + intros x Hx Hd. apply IW; [|exact Hd]. unfold mx in *. st. exact Hx.
  - (* CtxCancel *)
    destruct (negb (memb t (ctxdone s)) && (negb (memb t (entered s)) || memb t (cancellable s))) eqn:G; [|discriminate].
    apply andb_true_iff in G. destruct G as [G1 G2].
    inversion Hl; subst s'. clear Hl. constructor; st.
    + intro x. destruct (IP x) as [P1 P2]. unfold places, mx in *. st. split; assumption.
    + intros x [Hx|Hx] He.
      * subst x. apply orb_true_iff in G2. destruct G2 as [G2|G2].
        -- apply negb_true_iff in G2. apply memb_false_In in G2. tauto.
        -- apply memb_In. exact G2.
      * apply IA0; assumption.
    + exact ISub.
    + intros x Hx Hc. apply IA1; [|exact Hc]. unfold mx in *. st. exact Hx.
    + intros x Hx [Hd|Hd].
      * subst x. assert (Hpl : (1 <= places s t)%nat).
        { unfold places. unfold mx in *. st. destruct Hx as [Hx|Hx]; [lia|apply In_cnt in Hx; lia]. }
        pose proof (placed_entered _ _ IP Hpl) as Hent.
        assert (Hcan : In t (cancellable s)).
        { apply orb_true_iff in G2. destruct G2 as [G2|G2].
          - apply negb_true_iff in G2. apply memb_false_In in G2. tauto.
          - apply memb_In. exact G2. }
        assert (Harm : In t (armed s)).
        { apply IA1; [|exact Hcan]. unfold mx in *. st. destruct Hx as [Hx|Hx]; [left; exact Hx|right; left; exact Hx]. }
        apply memb_In in Harm. rewrite Harm. left. reflexivity.
      * assert (In x (bpend s)). { apply IW; [|exact Hd]. unfold mx in *. st. exact Hx. }
        destruct (memb t (armed s)); [right|]; assumption.
  - (* Bcast *)
    destruct (memb t (bpend s) && (negb (locked_bcast cfg) || mutex_free s)) eqn:G; [|discriminate].
    apply andb_true_iff in G. destruct G as [G1 G2]. rewrite Hlb in G2. cbn [negb orb] in G2. apply mutex_free_true in G2.
    inversion Hl; subst s'. clear Hl. constructor; st.
    + intro x. destruct (IP x) as [P1 P2]. unfold places, mx in *. st. rewrite count_occ_app. cbn [count_occ]. split; [lia|].
      intro Hx. specialize (P2 Hx). lia.
    + exact IA0.
    + exact ISub.
    + intros x Hx Hc. apply IA1; [|exact Hc]. unfold mx in *. st.
      destruct Hx as [Hx|[[]|Hx]]; [left; exact Hx|]. apply in_app_or in Hx. destruct Hx as [Hx|Hx]; [right; right|right; left]; exact Hx.
    + intros x Hx Hd. unfold mx in *. st. rewrite G2 in Hx. destruct Hx as [Hx|[]]. discriminate.
  - (* Store *)
    destruct (wmemb w (held s) && mutex_free s); [|discriminate].
    destruct (if down s then None else is_real_ok s w) as [id|].
    + inversion Hl; subst s'. constructor; unfold places, mx in *; st; assumption.
    + inversion Hl; subst s'. constructor; unfold places, mx in *; st; assumption.
  - (* Signal *)
    destruct (sigs s) as [|k]; [discriminate|]. destruct o as [u|].
    + destruct (memb u (parked s)) eqn:G; [|discriminate]. pose proof (memb_cnt _ _ G) as Hc1.
      inversion Hl; subst s'. clear Hl. constructor; st.
      * intro x. destruct (IP x) as [P1 P2]. unfold places, mx in *. st. rewrite cnt_remove1, count_occ_app, cnt_cons.
        cbn [count_occ]. split.
        -- case_ind u x; lia.
        -- intro Hx. specialize (P2 Hx). case_ind u x; lia.
      * exact IA0.
      * exact ISub.
      * intros x Hx Hc. apply IA1; [|exact Hc]. unfold mx in *. st.
        destruct Hx as [Hx|[Hx|Hx]]; [left; exact Hx|right; left; eapply remove1_In; exact Hx|].
        apply in_app_or in Hx. destruct Hx as [Hx|[Hx|[]]]; [right; right; exact Hx|subst x; right; left; apply memb_In; exact G].
      * intros x Hx Hd. apply IW; [|exact Hd]. unfold mx in *. st.
        destruct Hx as [Hx|Hx]; [left; exact Hx|right; eapply remove1_In; exact Hx].
    + destruct (is_nil (parked s)); [|discriminate]. inversion Hl; subst s'.
      constructor; unfold places, mx in *; st; assumption.
  - (* CloseCS *)
    destruct (mutex_free s); [|discriminate]. inversion Hl; subst s'.
    constructor; unfold places, mx in *; st; assumption.
  - (* CloseBcast *)
    destruct (cbc s) as [|k]; [discriminate|]. inversion Hl; subst s'. clear Hl. constructor; st.
    + intro x. destruct (IP x) as [P1 P2]. unfold places, mx in *. st. rewrite count_occ_app. cbn [count_occ]. split; [lia|].
      intro Hx. specialize (P2 Hx). lia.
    + exact IA0.
    + exact ISub.
    + intros x Hx Hc. apply IA1; [|exact Hc]. unfold mx in *. st.
      destruct Hx as [Hx|[[]|Hx]]; [left; exact Hx|]. apply in_app_or in Hx. destruct Hx as [Hx|Hx]; [right; right|right; left]; exact Hx.
    + intros x Hx Hd. apply IW; [|exact Hd]. unfold mx in *. st. destruct Hx as [Hx|[]]. left. exact Hx.
  - (* IdleCleanup *)
    destruct (mutex_free s && tarmed s); [|discriminate]. inversion Hl; subst s'.
    constructor; unfold places, mx in *; st; assumption.
  - destruct (memb id (used s)); [|discriminate]. inversion Hl; subst s'.
    constructor; unfold places, mx in *; st; assumption.
  - destruct (memb id (used s)); [|discriminate]. inversion Hl; subst s'.
    constructor; unfold places, mx in *; st; assumption.
Qed.
