(** mux.DoMultiCache / cluster.DoMultiCache: grouping the batch by wire / connection and scattering the
    sub-results through the recorded indices puts every reply at the position of its command. *)
From Coq Require Import String Ascii.
From Coq Require Import List Arith NArith ZArith Bool Lia Permutation.
Require Import RV.Model.Base RV.Model.CacheBatch RV.Proofs.CacheBatchBase RV.Proofs.CacheBatchMulti.
Import ListNotations.
Open Scope nat_scope.

(** ** [upd] pointwise *)

Lemma upd_nth_same {A} i (x d : A) l : i < length l -> nth i (upd i x l) d = x.
Proof. revert i; induction l as [|a l IH]; intros [|i] H; cbn in *; try lia; auto. apply IH. lia. Qed.

Lemma upd_nth_other {A} i j (x d : A) l : i <> j -> nth j (upd i x l) d = nth j l d.
Proof.
  revert i j; induction l as [|a l IH]; intros [|i] [|j] H; cbn; auto; try congruence.
Qed.

(** ** indexed lists *)

Lemma indexed_gen_in {A} (l : list A) : forall off i x,
  In (i, x) (combine (seq off (length l)) l) <-> (off <= i /\ nth_error l (i - off) = Some x).
Proof.
  induction l as [|a l IH]; intros off i x; cbn [length seq combine In].
  - split; [intros []|intros [_ H]; destruct (i - off); discriminate].
  - rewrite IH. split.
    + intros [E|[Hle Hn]].
      * inversion E; subst. rewrite Nat.sub_diag. auto.
      * split; [lia|]. replace (i - off) with (S (i - S off)) by lia. exact Hn.
    + intros [Hle Hn]. destruct (Nat.eq_dec i off) as [->|Hne].
      * rewrite Nat.sub_diag in Hn. cbn in Hn. left. congruence.
      * right. split; [lia|]. replace (i - off) with (S (i - S off)) in Hn by lia. exact Hn.
Qed.

Lemma indexed_in {A} (l : list A) i x : In (i, x) (indexed l) <-> nth_error l i = Some x.
Proof. unfold indexed. rewrite indexed_gen_in, Nat.sub_0_r. split; [tauto|split; [lia|assumption]]. Qed.

(** ** buckets *)

Definition bkeys (bks : list (N * bucket)) : list N := map fst bks.

Lemma bucket_add_spec s i c : forall bks,
  NoDup (bkeys bks) -> In s (bkeys bks) ->
  bucket_add s i c bks
  = Ok (map (fun sb : N * bucket => if N.eqb s (fst sb) then (fst sb, mkB (b_idx (snd sb) ++ [i]) (b_cmds (snd sb) ++ [c])) else sb) bks).
Proof.
  induction bks as [|[t b] bks IH]; intros Hnd Hin; [destruct Hin|].
  cbn [bucket_add map fst snd]. inversion Hnd as [|? ? Hnt Hnd']; subst.
  destruct (N.eqb_spec s t) as [->|Hne].
  - f_equal. f_equal. rewrite <- (map_id bks) at 1. apply map_ext_in. intros [t' b'] Hin'. cbn [fst snd].
    destruct (N.eqb_spec t t') as [->|]; [|reflexivity]. exfalso. apply Hnt. apply in_map_iff. exists (t', b'). auto.
  - destruct Hin as [E|Hin]; [cbn in E; congruence|]. rewrite IH by assumption. reflexivity.
Qed.

Section Buckets.
  Variable group_of : item -> N.

  Definition grp (s : N) (ic : nat * item) : bool := N.eqb (group_of (snd ic)) s.

  Lemma fill_fold l : forall bks,
    NoDup (bkeys bks) -> (forall ic, In ic l -> In (group_of (snd ic)) (bkeys bks)) ->
    fold_left (fun acc (ic : nat * item) =>
      match acc with
      | Ok bks => bucket_add (group_of (snd ic)) (fst ic) (snd ic) bks
      | other => other
      end) l (Ok bks)
    = Ok (map (fun sb : N * bucket =>
                 (fst sb, mkB (b_idx (snd sb) ++ map fst (filter (grp (fst sb)) l))
                              (b_cmds (snd sb) ++ map snd (filter (grp (fst sb)) l)))) bks).
  Proof.
    induction l as [|[i c] l IH]; intros bks Hnd Hall.
    - cbn [fold_left filter map]. f_equal. rewrite <- (map_id bks) at 1. apply map_ext. intros [s [ix cm]].
      cbn. now rewrite !app_nil_r.
    - cbn [fold_left fst snd].
      rewrite bucket_add_spec; [|assumption|apply (Hall (i, c)); now left].
      rewrite IH.
      + f_equal. rewrite map_map. apply map_ext. intros [s b]. cbn [fst snd filter].
        assert (Eg : grp s (i, c) = N.eqb (group_of c) s) by reflexivity.
        rewrite Eg. destruct (N.eqb (group_of c) s); cbn [fst snd b_idx b_cmds map]; [|reflexivity].
        now rewrite <- !app_assoc.
      + unfold bkeys in *. rewrite map_map.
        erewrite map_ext; [exact Hnd|]. intros [s b]. cbn. now destruct (N.eqb _ s).
      + intros ic Hic. unfold bkeys in *. rewrite map_map.
        erewrite map_ext; [apply Hall; now right|]. intros [s b]. cbn. now destruct (N.eqb _ s).
  Qed.

  Lemma distinct_groups_spec gs : forall seen,
    NoDup (distinct_groups gs seen) /\
    (forall x, In x (distinct_groups gs seen) <-> In x gs /\ ~ In x seen).
  Proof.
    induction gs as [|g gs IH]; intro seen; cbn [distinct_groups].
    - split; [constructor|]. intros x; cbn; tauto.
    - destruct (existsb (N.eqb g) seen) eqn:E.
      + destruct (IH seen) as [Hnd Hin]. split; [assumption|]. intro x. rewrite Hin. cbn [In].
        apply existsb_exists in E as [y [Hy Ey]]. apply N.eqb_eq in Ey. subst y.
        split; [tauto|]. intros [[->|H] Hn]; tauto.
      + assert (Hg : ~ In g seen).
        { intro H. assert (existsb (N.eqb g) seen = true) by (apply existsb_exists; exists g; split; [assumption|apply N.eqb_refl]). congruence. }
        destruct (IH (g :: seen)) as [Hnd Hin]. split.
        * constructor; [|assumption]. rewrite Hin. cbn. tauto.
        * intro x. cbn [In]. rewrite Hin. cbn [In]. split.
          -- intros [<-|[H1 H2]]; tauto.
          -- intros [[<-|H1] H2]; [tauto|]. destruct (N.eq_dec g x); [tauto|right; tauto].
  Qed.

  Definition pairs (batch : list item) (s : N) : list (nat * item) := filter (grp s) (indexed batch).

  Definition the_buckets (batch : list item) : list (N * bucket) :=
    map (fun s => (s, mkB (map fst (pairs batch s)) (map snd (pairs batch s))))
        (distinct_groups (map group_of batch) []).

  Lemma fill_buckets_spec batch : fill_buckets group_of batch = Ok (the_buckets batch).
  Proof.
    unfold fill_buckets. destruct (distinct_groups_spec (map group_of batch) []) as [Hnd Hin].
    rewrite fill_fold.
    - unfold the_buckets. f_equal. rewrite map_map. reflexivity.
    - unfold bkeys. rewrite map_map. cbn [fst]. now rewrite map_id.
    - intros [i c] Hic. unfold bkeys. rewrite map_map. cbn [fst snd]. rewrite map_id. apply Hin.
      split; [|tauto]. apply in_map. apply indexed_in in Hic. eapply nth_error_In; eauto.
  Qed.

  Lemma pairs_in batch s i c : In (i, c) (pairs batch s) <-> nth_error batch i = Some c /\ group_of c = s.
  Proof. unfold pairs. rewrite filter_In, indexed_in. unfold grp. cbn [snd]. now rewrite N.eqb_eq. Qed.

  Lemma bucket_find_the batch s :
    bucket_find s (the_buckets batch) =
    if existsb (N.eqb s) (distinct_groups (map group_of batch) [])
    then Some (mkB (map fst (pairs batch s)) (map snd (pairs batch s))) else None.
  Proof.
    unfold the_buckets. induction (distinct_groups (map group_of batch) []) as [|t l IH]; [reflexivity|].
    cbn [map bucket_find existsb]. destruct (N.eqb_spec s t) as [->|]; [reflexivity|exact IH].
  Qed.
End Buckets.

(** ** scattering preserves "every written index holds a good value" *)
Section Scatter.
  Variable Good : nat -> rres -> Prop.

  Definition all_good (W : list nat) (rs : list rres) : Prop := forall i, In i W -> Good i (nth i rs zero_res).

  Lemma scatter_inv idx resp : forall rs W,
    Forall2 Good idx resp -> Forall (fun i => i < length rs) idx -> all_good W rs ->
    exists rs', scatter idx resp rs = Ok rs' /\ length rs' = length rs /\ all_good (idx ++ W) rs'.
  Proof.
    intros rs W H. revert rs W. induction H as [|i r idx resp Hg _ IH]; intros rs W Hlt Hw.
    - exists rs. auto.
    - inversion Hlt as [|? ? Hi Hlt']; subst. cbn [scatter]. unfold set_nth.
      destruct (Nat.ltb_spec i (length rs)); [|lia].
      destruct (IH (upd i r rs) (i :: W)) as (rs' & Hs & Hl & Hg').
      + rewrite upd_length. exact Hlt'.
      + intros x [<-|Hx]; [now rewrite upd_nth_same|].
        destruct (Nat.eq_dec i x) as [<-|Hne]; [now rewrite upd_nth_same|].
        rewrite upd_nth_other by assumption. now apply Hw.
      + exists rs'. split; [assumption|]. split; [now rewrite Hl, upd_length|].
        intros x Hx. apply Hg'. cbn [app] in Hx. destruct Hx as [<-|Hx]; [apply in_or_app; right; now left|].
        apply in_app_or in Hx as [Hx|Hx]; apply in_or_app; [now left|right; now right].
  Qed.
End Scatter.

Lemma Forall2_nth_all {A B} (R : A -> B -> Prop) l1 l2 d1 d2 :
  length l1 = length l2 -> (forall i, i < length l2 -> R (nth i l1 d1) (nth i l2 d2)) -> Forall2 R l1 l2.
Proof.
  revert l2; induction l1 as [|a l1 IH]; intros [|b l2] Hl H; try discriminate; constructor.
  - apply (H 0). cbn; lia.
  - apply IH; [cbn in Hl; lia|]. intros i Hi. apply (H (S i)). cbn; lia.
Qed.

Lemma Forall2_map_pairs {A B C} (R : A -> C -> Prop) (ps : list (A * B)) (resp : list C) (Q : A * B -> C -> Prop) :
  Forall2 Q ps resp -> (forall p r, In p ps -> Q p r -> R (fst p) r) -> Forall2 R (map fst ps) resp.
Proof. induction 1; intros HQ; cbn; constructor; [apply HQ; auto using in_eq|apply IHForall2; intros; apply HQ; auto using in_cons]. Qed.

Lemma Forall2_flip_map {A B C} (R : B -> C -> Prop) (f : A -> C) (l1 : list B) (l2 : list A) :
  Forall2 R l1 (map f l2) -> Forall2 (fun a b => R b (f a)) l2 l1.
Proof.
  revert l1; induction l2 as [|a l2 IH]; intros l1 H; inversion H; subst; constructor; auto.
Qed.

(** ** mux.DoMultiCache *)
Section Mux.
  Variable conn_do : N -> list item -> result (list rres).
  Variable group_of : item -> N.
  Variable batch : list item.
  (** [P g r it]: [r] is an acceptable answer of wire [g] to [it] *)
  Variable P : N -> rres -> item -> Prop.
  Hypothesis Hconn : forall g cmds, cmds <> [] -> (forall it, In it cmds -> In it batch /\ group_of it = g) ->
    exists resp, conn_do g cmds = Ok resp /\ Forall2 (P g) resp cmds.

  Definition good_mux (i : nat) (r : rres) : Prop :=
    exists it, nth_error batch i = Some it /\ P (group_of it) r it.

  Let groups := distinct_groups (map group_of batch) [].

  Lemma run_buckets_inv order : forall rs W,
    length rs = length batch -> all_good good_mux W rs ->
    exists rs', run_buckets conn_do order (the_buckets group_of batch) rs = Ok rs' /\ length rs' = length batch /\
      all_good good_mux (flat_map (fun g => if existsb (N.eqb g) groups then map fst (pairs group_of batch g) else []) order ++ W) rs'.
  Proof.
    induction order as [|g order IH]; intros rs W Hl Hw.
    - exists rs. cbn. auto.
    - cbn [run_buckets flat_map]. rewrite bucket_find_the. fold groups.
      destruct (existsb (N.eqb g) groups) eqn:Eg.
      + cbn [b_cmds b_idx].
        set (ps := pairs group_of batch g).
        assert (Hne : map snd ps <> []).
        { apply existsb_exists in Eg as [g' [Hg' Eg']]. apply N.eqb_eq in Eg'. subst g'.
          unfold groups in Hg'. apply (proj2 (distinct_groups_spec _ _)) in Hg' as [Hg' _].
          apply in_map_iff in Hg' as [it [Hit Hin]]. apply In_nth_error in Hin as [i Hi].
          assert (In (i, it) ps) by (apply pairs_in; auto).
          intro E. apply map_eq_nil in E. rewrite E in H. destruct H. }
        destruct (Hconn g (map snd ps) Hne) as (resp & Hdo & Hresp).
        { intros it Hit. apply in_map_iff in Hit as [[i c] [<- Hin]]. apply pairs_in in Hin as [Hn Hg].
          cbn [snd]. split; [eapply nth_error_In; eauto|assumption]. }
        rewrite Hdo.
        assert (Hgood : Forall2 good_mux (map fst ps) resp).
        { apply Forall2_flip_map in Hresp.
          eapply Forall2_map_pairs with (Q := fun p r => P g r (snd p)); [exact Hresp|].
          intros [i c] r Hin Hp. apply pairs_in in Hin as [Hn Hg]. cbn [fst snd] in *.
          exists c. split; [assumption|now rewrite Hg]. }
        destruct (scatter_inv good_mux (map fst ps) resp rs W Hgood) as (rs1 & Hs & Hl1 & Hg1); [|assumption|].
        { apply Forall_forall. intros i Hi. apply in_map_iff in Hi as [[i' c] [<- Hin]]. apply pairs_in in Hin as [Hn _].
          cbn [fst]. rewrite Hl. apply nth_error_Some. congruence. }
        rewrite Hs.
        destruct (IH rs1 (map fst ps ++ W)) as (rs' & Hr & Hl' & Hg'); [congruence|assumption|].
        exists rs'. split; [assumption|]. split; [assumption|].
        intros x Hx. apply Hg'. rewrite <- app_assoc in Hx. apply in_app_or in Hx as [Hx|Hx]; apply in_or_app.
        * right. apply in_or_app. now left.
        * apply in_app_or in Hx as [Hx|Hx]; [now left|right; apply in_or_app; now right].
      + cbn [app]. apply IH; assumption.
  Qed.

  Theorem run_buckets_positional order :
    (forall g, In g groups -> In g order) ->
    exists rs, run_buckets conn_do order (the_buckets group_of batch) (repeat_n zero_res (length batch)) = Ok rs /\
      Forall2 (fun r it => P (group_of it) r it) rs batch.
  Proof.
    intro Hcover.
    destruct (run_buckets_inv order (repeat_n zero_res (length batch)) []) as (rs & Hr & Hl & Hg).
    - apply repeat_n_length.
    - intros i [].
    - exists rs. split; [assumption|].
      apply Forall2_nth_all with (d1 := zero_res) (d2 := no_item); [assumption|].
      intros i Hi. destruct (nth_error batch i) as [it|] eqn:En; [|apply nth_error_None in En; lia].
      rewrite (nth_error_nth _ _ _ En).
      destruct (Hg i) as (it' & En' & HP).
      + rewrite app_nil_r. apply in_flat_map. exists (group_of it). split.
        * apply Hcover. unfold groups. apply (proj2 (distinct_groups_spec _ _)). split; [|tauto].
          apply in_map. eapply nth_error_In; eauto.
        * assert (Eg : existsb (N.eqb (group_of it)) groups = true).
          { apply existsb_exists. exists (group_of it). split; [|apply N.eqb_refl].
            unfold groups. apply (proj2 (distinct_groups_spec _ _)). split; [|tauto]. apply in_map. eapply nth_error_In; eauto. }
          rewrite Eg. apply in_map_iff. exists (i, it). split; [reflexivity|]. apply pairs_in. auto.
      + rewrite En in En'. injection En' as <-. exact HP.
  Qed.

  Lemma distinct_groups_nil gs : forall seen, distinct_groups gs seen = [] -> forall x, In x gs -> In x seen.
  Proof.
    induction gs as [|g gs IH]; intros seen H x Hx; [destruct Hx|].
    cbn [distinct_groups] in H. destruct (existsb (N.eqb g) seen) eqn:E; [|discriminate].
    destruct Hx as [<-|Hx]; [|now apply (IH seen)].
    apply existsb_exists in E as [y [Hy Ey]]. apply N.eqb_eq in Ey. now subst.
  Qed.
End Mux.

Lemma distinct_groups_nil' gs : forall seen, distinct_groups gs seen = [] -> forall x, In x gs -> In x seen.
Proof.
  induction gs as [|g gs IH]; intros seen H x Hx; [destruct Hx|].
  cbn [distinct_groups] in H. destruct (existsb (N.eqb g) seen) eqn:E; [|discriminate].
  destruct Hx as [<-|Hx]; [|now apply (IH seen)].
  apply existsb_exists in E as [y [Hy Ey]]. apply N.eqb_eq in Ey. now subst.
Qed.

Lemma one_group_head (g : item -> N) (batch : list item) :
  batch <> [] -> length (distinct_groups (map g batch) []) < 2 ->
  exists it0 b0, batch = it0 :: b0 /\ forall it, In it batch -> g it = g it0.
Proof.
  destruct batch as [|it0 b0]; [contradiction|]. intros _ Hlt. exists it0, b0. split; [reflexivity|].
  cbn [map distinct_groups existsb length] in Hlt.
  assert (Hnil : distinct_groups (map g b0) [g it0] = []).
  { destruct (distinct_groups (map g b0) [g it0]); [reflexivity|cbn [length] in Hlt; lia]. }
  intros it [<-|Hit]; [reflexivity|].
  assert (H : In (g it) [g it0]) by (eapply distinct_groups_nil'; eauto using in_map).
  destruct H as [H|[]]; auto.
Qed.

Lemma match_head {A B} (l : list A) a l' (p : B) (f : A -> B) :
  l = a :: l' -> match l with [] => p | x :: _ => f x end = f a.
Proof. intros ->. reflexivity. Qed.

Lemma Forall2_with_in {A B} (R : A -> B -> Prop) l1 l2 :
  Forall2 R l1 l2 -> Forall2 (fun a b => In b l2 /\ R a b) l1 l2.
Proof.
  induction 1 as [|a b l1 l2 Hab _ IH]; constructor; [split; [now left|assumption]|].
  eapply Forall2_imp; [|exact IH]. intros x y [Hin Hr]. split; [now right|assumption].
Qed.

Section MuxTop.
  Variable conn_do : N -> list item -> result (list rres).
  Variable nwires : N.
  Variable slot_of : item -> N.
  Variable batch : list item.
  Variable P : N -> rres -> item -> Prop.

  Let g (it : item) : N := N.land (slot_of it) (nwires - 1).

  Hypothesis Hne : batch <> [].
  Hypothesis Hconn : forall w cmds, cmds <> [] -> (forall it, In it cmds -> In it batch /\ g it = w) ->
    exists resp, conn_do w cmds = Ok resp /\ Forall2 (P w) resp cmds.

  (** any processing order of the per-wire batches that covers the wires in use *)
  Theorem mux_do_multi_cache_positional order :
    (forall w, In w (distinct_groups (map g batch) []) -> In w order) ->
    exists rs, mux_do_multi_cache conn_do nwires slot_of order batch = Ok rs /\
      Forall2 (fun r it => P (g it) r it) rs batch.
  Proof.
    intro Hcover. unfold mux_do_multi_cache. fold g.
    destruct (N.eqb_spec (nwires - 1) 0) as [Hm|Hm].
    - destruct (Hconn 0%N batch Hne) as (resp & Hd & Hr).
      { intros it Hit. split; [assumption|]. unfold g. rewrite Hm. apply N.land_0_r. }
      exists resp. split; [assumption|]. eapply Forall2_imp; [|exact Hr].
      intros r it HP. unfold g. rewrite Hm, N.land_0_r. exact HP.
    - change (fun it : item => N.land (slot_of it) (nwires - 1)) with g.
      unfold less_than_2.
      destruct (Nat.ltb_spec (length (distinct_groups (map g batch) [])) 2) as [Hlt|Hge].
      + destruct (one_group_head g batch Hne Hlt) as (it0 & b0 & Eb & Hall).
        rewrite (match_head batch it0 b0 Panic (fun x => conn_do (N.land (slot_of x) (nwires - 1)) batch) Eb). fold (g it0).
        destruct (Hconn (g it0) batch Hne) as (resp & Hd & Hr); [intros; split; auto|].
        exists resp. split; [assumption|].
        apply Forall2_with_in in Hr.
        eapply Forall2_imp; [|exact Hr]. intros r it [Hin HP]. now rewrite (Hall it Hin).
      + rewrite fill_buckets_spec.
        apply run_buckets_positional; assumption.
  Qed.
End MuxTop.

(** ** cluster.DoMultiCache *)

Definition cbkeys (bks : list (N * cbucket)) : list N := map fst bks.

Section ClusterProof.
  Variable conn_of : item -> option N.
  Variable conn_do : N -> list item -> result (list rres).
  Variable asking_do : N -> list item -> result (list rres).
  Variable redirect_of : rres -> redirect.
  Variable batch : list item.
  (** [R c r it]: [r] is an answer of connection [c] to command [it] (directly or after ASKING) *)
  Variable R : N -> rres -> item -> Prop.

  Hypothesis Hconn : forall c cmds, cmds <> [] -> (forall it, In it cmds -> In it batch) ->
    exists resp, conn_do c cmds = Ok resp /\ Forall2 (R c) resp cmds.
  Hypothesis Hask : forall c cmds, cmds <> [] -> (forall it, In it cmds -> In it batch) ->
    exists resp, asking_do c cmds = Ok resp /\ Forall2 (R c) resp cmds.

  Definition good_cl (i : nat) (r : rres) : Prop :=
    exists it c, nth_error batch i = Some it /\ R c r it.

  (** the recorded index of every queued command is the position of that command in the batch *)
  Definition paired (idx : list nat) (cmds : list item) : Prop :=
    Forall2 (fun i c => nth_error batch i = Some c) idx cmds.

  Definition cb_ok (b : cbucket) : Prop := paired (cb_idx b) (cb_cmds b) /\ paired (cb_aidx b) (cb_acmds b).

  Definition cbs_ok (bks : list (N * cbucket)) : Prop := Forall (fun sb => cb_ok (snd sb)) bks.

  Lemma paired_snoc idx cmds i c : paired idx cmds -> nth_error batch i = Some c -> paired (idx ++ [i]) (cmds ++ [c]).
  Proof. intros H Hn. apply Forall2_app; [assumption|constructor; [assumption|constructor]]. Qed.

  Lemma cb_add_ok s asking i c bks : cbs_ok bks -> nth_error batch i = Some c -> cbs_ok (cb_add s asking i c bks).
  Proof.
    intros Hok Hn. induction bks as [|[t b] bks IH]; cbn [cb_add].
    - constructor; [|constructor]. destruct asking; cbn; split; try constructor; auto; constructor.
    - inversion Hok as [|? ? Hb Hok']; subst. destruct (N.eqb s t).
      + constructor; [|assumption]. destruct Hb as [H1 H2]. destruct asking; cbn [snd]; split; cbn; auto using paired_snoc.
      + constructor; [assumption|]. apply IH. exact Hok'.
  Qed.

  Lemma cb_find_ok s bks b : cbs_ok bks -> cb_find s bks = Some b -> cb_ok b.
  Proof.
    induction bks as [|[t b'] bks IH]; cbn [cb_find]; [discriminate|]. intros Hok H. inversion Hok; subst.
    destruct (N.eqb s t); [injection H as <-; assumption|auto].
  Qed.

  Lemma result_cache_fn_inv cc idx cmds resps : forall rs W next,
    paired idx cmds -> Forall2 (R cc) resps cmds -> length rs = length batch ->
    all_good good_cl W rs -> cbs_ok next ->
    exists rs' next', result_cache_fn redirect_of cc idx cmds resps rs next = Ok (rs', next') /\
      length rs' = length batch /\ all_good good_cl (idx ++ W) rs' /\ cbs_ok next'.
  Proof.
    intros rs W next Hp. revert resps rs W next.
    induction Hp as [|i c idx cmds Hn _ IH]; intros resps rs W next Hr Hl Hw Hnx.
    - inversion Hr; subst. exists rs, next. cbn. auto.
    - inversion Hr as [|r ? resps' ? Hrc Hr']; subst. cbn [result_cache_fn]. unfold set_nth.
      assert (Hi : i < length rs) by (rewrite Hl; apply nth_error_Some; congruence).
      destruct (Nat.ltb_spec i (length rs)); [|lia].
      set (next1 := match redirect_of r with RNone => next | RMoved t => cb_add t false i c next | RAsk t => cb_add t true i c next end).
      assert (Hnx1 : cbs_ok next1) by (unfold next1; destruct (redirect_of r); auto using cb_add_ok).
      destruct (IH resps' (upd i r rs) (i :: W) next1) as (rs' & next' & Hf & Hl' & Hg' & Hn'); auto.
      + now rewrite upd_length.
      + intros x [<-|Hx].
        * rewrite upd_nth_same by assumption. exists c, cc. auto.
        * destruct (Nat.eq_dec i x) as [<-|Hne]; [rewrite upd_nth_same by assumption; exists c, cc; auto|].
          rewrite upd_nth_other by assumption. now apply Hw.
      + exists rs', next'. split; [assumption|]. split; [assumption|]. split; [|assumption].
        intros x Hx. apply Hg'. cbn [app] in Hx. destruct Hx as [<-|Hx]; [apply in_or_app; right; now left|].
        apply in_app_or in Hx as [Hx|Hx]; apply in_or_app; [now left|right; now right].
  Qed.

  Lemma paired_in idx cmds it : paired idx cmds -> In it cmds -> In it batch.
  Proof.
    induction 1 as [|i c idx cmds Hn _ IH]; [intros []|]. intros [<-|H]; [eapply nth_error_In; eauto|auto].
  Qed.

  Lemma do_retry_cache_inv cc b : forall rs W next,
    cb_ok b -> length rs = length batch -> all_good good_cl W rs -> cbs_ok next ->
    exists rs' next', do_retry_cache conn_do asking_do redirect_of cc b rs next = Ok (rs', next') /\
      length rs' = length batch /\ all_good good_cl (cb_aidx b ++ cb_idx b ++ W) rs' /\ cbs_ok next'.
  Proof.
    intros rs W next [Hp1 Hp2] Hl Hw Hnx. unfold do_retry_cache.
    assert (Step1 : exists rs1 next1,
      match cb_cmds b with
      | [] => Ok (rs, next)
      | _ :: _ => match conn_do cc (cb_cmds b) with
                  | Ok resps => result_cache_fn redirect_of cc (cb_idx b) (cb_cmds b) resps rs next
                  | Err e => Err e
                  | Panic => Panic
                  end
      end = Ok (rs1, next1) /\ length rs1 = length batch /\ all_good good_cl (cb_idx b ++ W) rs1 /\ cbs_ok next1).
    { destruct (cb_cmds b) as [|c0 cs] eqn:Ec.
      - inversion Hp1; subst. exists rs, next. cbn [app]. auto.
      - rewrite <- Ec in *. destruct (Hconn cc (cb_cmds b)) as (resps & Hd & Hr); [rewrite Ec; discriminate|intros it Hit; exact (paired_in _ _ it Hp1 Hit)|].
        rewrite Hd. apply result_cache_fn_inv; auto. }
    destruct Step1 as (rs1 & next1 & -> & Hl1 & Hg1 & Hn1).
    destruct (cb_acmds b) as [|c0 cs] eqn:Ec.
    - inversion Hp2; subst. exists rs1, next1. cbn [app]. auto.
    - rewrite <- Ec in *. destruct (Hask cc (cb_acmds b)) as (resps & Hd & Hr); [rewrite Ec; discriminate|intros it Hit; exact (paired_in _ _ it Hp2 Hit)|].
      rewrite Hd. apply result_cache_fn_inv; auto.
  Qed.

  Lemma cluster_round_inv order bks : forall rs W next,
    cbs_ok bks -> length rs = length batch -> all_good good_cl W rs -> cbs_ok next ->
    exists rs' next', cluster_round conn_do asking_do redirect_of order bks rs next = Ok (rs', next') /\
      length rs' = length batch /\ cbs_ok next' /\
      all_good good_cl (flat_map (fun g => match cb_find g bks with Some b => cb_aidx b ++ cb_idx b | None => [] end) order ++ W) rs'.
  Proof.
    induction order as [|g order IH]; intros rs W next Hok Hl Hw Hnx.
    - exists rs, next. cbn. auto.
    - cbn [cluster_round flat_map]. destruct (cb_find g bks) as [b|] eqn:Ef.
      + destruct (do_retry_cache_inv g b rs W next) as (rs1 & next1 & Hd & Hl1 & Hg1 & Hn1); eauto using cb_find_ok.
        rewrite Hd. destruct (IH rs1 (cb_aidx b ++ cb_idx b ++ W) next1) as (rs' & next' & Hr & Hl' & Hn' & Hg'); auto.
        exists rs', next'. split; [assumption|]. split; [assumption|]. split; [assumption|].
        intros x Hx. apply Hg'. rewrite <- !app_assoc in Hx. apply in_app_or in Hx as [Hx|Hx]; apply in_or_app.
        * right. apply in_or_app. now left.
        * apply in_app_or in Hx as [Hx|Hx].
          -- right. apply in_or_app. right. apply in_or_app. now left.
          -- apply in_app_or in Hx as [Hx|Hx]; [now left|right; apply in_or_app; right; apply in_or_app; now right].
      + cbn [app]. apply IH; assumption.
  Qed.

  (** once every position holds an answer to its command, further rounds keep it so *)
  Lemma cluster_rounds_inv fuel : forall orders maxredir redirects bks rs W,
    cbs_ok bks -> length rs = length batch -> all_good good_cl W rs ->
    forall out, cluster_rounds conn_do asking_do redirect_of fuel orders maxredir redirects bks rs = Ok out ->
      length out = length batch /\ all_good good_cl W out.
  Proof.
    induction fuel as [|fuel IH]; intros orders maxredir redirects bks rs W Hok Hl Hw out Hrun; [discriminate|].
    cbn [cluster_rounds] in Hrun.
    set (order := match orders with o :: _ => o | [] => map fst bks end) in Hrun.
    destruct (cluster_round_inv order bks rs W []) as (rs1 & next & Hr & Hl1 & Hn1 & Hg1); auto; [constructor|].
    rewrite Hr in Hrun.
    assert (HgW : all_good good_cl W rs1) by (intros x Hx; apply Hg1, in_or_app; now right).
    destruct next as [|n0 nx].
    - injection Hrun as <-. auto.
    - destruct ((0 <? maxredir) && (maxredir <? S redirects)).
      + injection Hrun as <-. auto.
      + eapply IH; eauto.
  Qed.

  (** the first round writes every position *)
  Definition cl_group (it : item) : N := match conn_of it with Some g => g | None => 0%N end.

  Lemma paired_of_list (l : list (nat * item)) :
    (forall p, In p l -> nth_error batch (fst p) = Some (snd p)) -> paired (map fst l) (map snd l).
  Proof.
    induction l as [|[i c] l IHl]; intro Hsub; cbn [map]; constructor.
    - apply (Hsub (i, c)). now left.
    - apply IHl. intros; apply Hsub; now right.
  Qed.

  Lemma first_round_covers order :
    (forall g, In g (distinct_groups (map cl_group batch) []) -> In g order) ->
    let cbs := map (fun gb : N * bucket => (fst gb, mkCB (b_idx (snd gb)) (b_cmds (snd gb)) [] [])) (the_buckets cl_group batch) in
    cbs_ok cbs /\
    forall i, i < length batch ->
      In i (flat_map (fun g => match cb_find g cbs with Some b => cb_aidx b ++ cb_idx b | None => [] end) order).
  Proof.
    intros Hcover cbs. split.
    - unfold cbs, cbs_ok, the_buckets. rewrite !map_map. apply Forall_forall. intros sb Hsb.
      apply in_map_iff in Hsb as [s [<- _]]. cbn [snd fst]. split; cbn [cb_idx cb_cmds cb_aidx cb_acmds b_idx b_cmds]; [|constructor].
      apply paired_of_list. intros [i c] Hp. apply pairs_in in Hp. tauto.
    - intros i Hi. destruct (nth_error batch i) as [it|] eqn:En; [|apply nth_error_None in En; lia].
      apply in_flat_map. exists (cl_group it). split.
      + apply Hcover. apply (proj2 (distinct_groups_spec _ _)). split; [|tauto]. apply in_map. eapply nth_error_In; eauto.
      + assert (Hf : cb_find (cl_group it) cbs
                     = Some (mkCB (map fst (pairs cl_group batch (cl_group it))) (map snd (pairs cl_group batch (cl_group it))) [] [])).
        { unfold cbs, the_buckets. rewrite map_map. cbn [fst snd b_idx b_cmds].
          assert (Hin : In (cl_group it) (distinct_groups (map cl_group batch) [])).
          { apply (proj2 (distinct_groups_spec _ _)). split; [|tauto]. apply in_map. eapply nth_error_In; eauto. }
          clear Hcover. induction (distinct_groups (map cl_group batch) []) as [|t0 l0 IHl]; [destruct Hin|].
          cbn [map cb_find fst]. destruct (N.eqb_spec (cl_group it) t0) as [Heq|Hne]; [now rewrite Heq|].
          destruct Hin as [E|Hin]; [congruence|auto]. }
        rewrite Hf. cbn [cb_aidx cb_idx app]. apply in_map_iff. exists (i, it). split; [reflexivity|]. apply pairs_in. auto.
  Qed.

  (** whatever redirections happen, a finished call has at every position an answer to that
      position's command *)
  Theorem cluster_do_multi_cache_positional fuel orders maxredir rs :
    (forall g, In g (distinct_groups (map cl_group batch) []) ->
               In g (match orders with o :: _ => o | [] => distinct_groups (map cl_group batch) [] end)) ->
    cluster_do_multi_cache conn_of conn_do asking_do redirect_of fuel orders maxredir batch = Ok (inl rs) ->
    Forall2 (fun r it => exists c, R c r it) rs batch.
  Proof.
    intros Hcover Hrun. unfold cluster_do_multi_cache in Hrun.
    destruct batch as [|it0 b0] eqn:Eb; [injection Hrun as <-; constructor|]. rewrite <- Eb in *.
    unfold pick_multi_cache in Hrun.
    destruct (forallb _ batch); [|discriminate].
    change (fun it : item => match conn_of it with Some g => g | None => 0%N end) with cl_group in Hrun.
    rewrite fill_buckets_spec in Hrun.
    set (cbs := map (fun gb : N * bucket => (fst gb, mkCB (b_idx (snd gb)) (b_cmds (snd gb)) [] [])) (the_buckets cl_group batch)) in Hrun.
    destruct fuel as [|fuel]; [discriminate|]. cbn [cluster_rounds] in Hrun.
    set (order := match orders with o :: _ => o | [] => map fst cbs end) in Hrun.
    assert (Hord : forall g, In g (distinct_groups (map cl_group batch) []) -> In g order).
    { intros g Hg. unfold order. destruct orders as [|o os]; [|now apply Hcover].
      unfold cbs, the_buckets. rewrite !map_map. cbn [fst]. now rewrite map_id. }
    destruct (first_round_covers order Hord) as [Hok Hcov].
    fold cbs in Hok, Hcov.
    destruct (cluster_round_inv order cbs (repeat_n zero_res (length batch)) [] []) as (rs1 & next & Hr & Hl1 & Hn1 & Hg1);
      auto using repeat_n_length; [intros ? []|constructor|].
    rewrite Hr in Hrun. rewrite app_nil_r in Hg1.
    set (Wall := flat_map (fun g => match cb_find g cbs with Some b => cb_aidx b ++ cb_idx b | None => [] end) order) in *.
    assert (Hfinal : length rs = length batch /\ all_good good_cl Wall rs).
    { destruct next as [|n0 nx].
      - injection Hrun as <-. auto.
      - destruct ((0 <? maxredir) && (maxredir <? 1)).
        + injection Hrun as <-. auto.
        + destruct (cluster_rounds conn_do asking_do redirect_of fuel (tl orders) maxredir 1 (n0 :: nx) rs1) as [out| |] eqn:Erun; try discriminate.
          injection Hrun as <-. eapply cluster_rounds_inv; eauto. }
    destruct Hfinal as [Hlen Hgood].
    apply Forall2_nth_all with (d1 := zero_res) (d2 := no_item); [assumption|].
    intros i Hi. destruct (Hgood i (Hcov i Hi)) as (it & c & En & HR).
    rewrite (nth_error_nth _ _ _ En). eauto.
  Qed.
End ClusterProof.
