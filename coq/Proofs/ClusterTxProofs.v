(** Proofs about Model/ClusterBatch.v: a MULTI…EXEC block travels whole (C20_tx_contiguous).
    Everything is positional: [W1]/[W2] say that on a list of commands every MULTI is closed by an
    EXEC with only plain commands in between and vice versa; [idt] says that such a stretch carries
    consecutive indices of the original batch; [mem] says that a plain command which sits inside a
    block of the original batch sits inside a block of the list. *)
From Coq Require Import List Arith NArith ZArith Bool Lia Permutation.
Require Import RV.Model.Base RV.Model.ClusterTopo RV.Model.Retry RV.Model.ClusterDo RV.Model.ClusterBatch.
Require Import RV.Proofs.ClusterTopoProofs RV.Proofs.ClusterBatchProofs.
Import ListNotations.
Open Scope Z_scope.

Definition marker (c : bcmd) : bool := is_multi c || is_exec c.

Definition at_ (f : bcmd -> bool) (cs : list bcmd) (z : nat) : bool :=
  match nth_error cs z with Some c => f c | None => false end.
Notation mk := (at_ marker).
Notation mu := (at_ is_multi).
Notation ex := (at_ is_exec).

Definition nomark (cs : list bcmd) (a b : nat) : Prop := forall j, (a < j < b)%nat -> mk cs j = false.

Definition W1 (cs : list bcmd) : Prop :=
  forall z, mu cs z = true -> exists e, (z < e)%nat /\ ex cs e = true /\ nomark cs z e.
Definition W2 (cs : list bcmd) : Prop :=
  forall e, ex cs e = true -> exists z, (z < e)%nat /\ mu cs z = true /\ nomark cs z e.

Lemma mu_mk cs z : mu cs z = true -> mk cs z = true.
Proof. unfold at_, marker. destruct (nth_error cs z); [intros ->; reflexivity|discriminate]. Qed.
Lemma ex_mk cs z : ex cs z = true -> mk cs z = true.
Proof. unfold at_, marker. destruct (nth_error cs z); [intros ->; apply orb_true_r|discriminate]. Qed.
Lemma mu_ex_excl cs z : mu cs z = true -> ex cs z = true -> False.
Proof. unfold at_, is_multi, is_exec. destruct (nth_error cs z) as [c|]; [destruct (b_kind c)|]; discriminate. Qed.
Lemma mk_cases cs z : mk cs z = true -> mu cs z = true \/ ex cs z = true.
Proof. unfold at_, marker. destruct (nth_error cs z); [apply orb_true_iff|discriminate]. Qed.
Lemma at_lt f cs z : at_ f cs z = true -> (z < length cs)%nat.
Proof. unfold at_. intro H. apply nth_error_Some. destruct (nth_error cs z); [discriminate|discriminate]. Qed.

Lemma at_app_l f l1 l2 z : (z < length l1)%nat -> at_ f (l1 ++ l2) z = at_ f l1 z.
Proof. intro H. unfold at_. now rewrite nth_error_app1. Qed.
Lemma at_app_r f l1 l2 z : (length l1 <= z)%nat -> at_ f (l1 ++ l2) z = at_ f l2 (z - length l1).
Proof. intro H. unfold at_. now rewrite nth_error_app2. Qed.

(** ---- the scans ---- *)
Lemma at_some f cs i c : nth_error cs i = Some c -> at_ f cs i = f c.
Proof. unfold at_. now intros ->. Qed.
Lemma at_none f cs i : nth_error cs i = None -> at_ f cs i = false.
Proof. unfold at_. now intros ->. Qed.

Lemma scan_down_spec cs : forall i,
  (scan_down cs i = -1 /\ forall j, (j <= i)%nat -> mk cs j = false) \/
  (0 <= scan_down cs i <= Z.of_nat i /\ mk cs (Z.to_nat (scan_down cs i)) = true /\
   forall j, (Z.to_nat (scan_down cs i) < j <= i)%nat -> mk cs j = false).
Proof.
  assert (Hhere : forall i, mk cs i = true -> scan_down cs i = Z.of_nat i).
  { intros i H. unfold at_ in H. destruct i; cbn [scan_down]; destruct (nth_error cs _) as [c|]; try discriminate;
      unfold marker in H; rewrite H; reflexivity. }
  assert (Hnot0 : mk cs 0 = false -> scan_down cs 0 = -1).
  { intro H. unfold at_ in H. cbn [scan_down]. destruct (nth_error cs 0) as [c|]; [|reflexivity].
    unfold marker in H. now rewrite H. }
  assert (HnotS : forall i, mk cs (S i) = false -> scan_down cs (S i) = scan_down cs i).
  { intros i H. unfold at_ in H. cbn [scan_down]. destruct (nth_error cs (S i)) as [c|]; [|reflexivity].
    unfold marker in H. now rewrite H. }
  induction i as [|i IH].
  - destruct (mk cs 0) eqn:M.
    + right. rewrite (Hhere 0%nat M). cbn [Z.of_nat Z.to_nat]. split; [lia|]. split; [exact M|]. intros; lia.
    + left. split; [now apply Hnot0|]. intros j Hj. assert (j = 0)%nat as -> by lia. exact M.
  - destruct (mk cs (S i)) eqn:M.
    + right. rewrite (Hhere _ M), Nat2Z.id. split; [lia|]. split; [exact M|]. intros; lia.
    + rewrite (HnotS _ M). destruct IH as [[E A]|[B [K A]]].
      * left. split; [exact E|]. intros j Hj. destruct (Nat.eq_dec j (S i)) as [->|]; [exact M|apply A; lia].
      * right. split; [lia|]. split; [exact K|]. intros j Hj.
        destruct (Nat.eq_dec j (S i)) as [->|]; [exact M|apply A; lia].
Qed.

Lemma first_mark_spec cs :
  (first_mark cs <= length cs)%nat /\
  (forall j, (j < first_mark cs)%nat -> mk cs j = false) /\
  ((first_mark cs < length cs)%nat -> mk cs (first_mark cs) = true).
Proof.
  induction cs as [|c r [I1 [I2 I3]]]; cbn [first_mark length].
  - split; [lia|]. split; [intros; lia|intro; lia].
  - destruct (is_multi c || is_exec c) eqn:M.
    + split; [lia|]. split; [intros; lia|]. intros _. unfold at_. cbn. exact M.
    + split; [lia|]. split.
      * intros j Hj. destruct j as [|j]; [unfold at_; cbn; exact M|]. unfold at_. cbn [nth_error]. apply I2. lia.
      * intro H. unfold at_. cbn [nth_error]. apply I3. lia.
Qed.

Lemma nth_error_skipn' {A} (l : list A) : forall i j, nth_error (skipn i l) j = nth_error l (i + j).
Proof.
  revert l. intros l i. revert l. induction i as [|i IH]; intros l j; [reflexivity|].
  destruct l as [|x l]; cbn [skipn plus nth_error]; [now destruct j|apply IH].
Qed.
Lemma at_skipn f cs i j : at_ f (skipn i cs) j = at_ f cs (i + j).
Proof. unfold at_. now rewrite nth_error_skipn'. Qed.

Lemma scan_up_spec cs i : (i <= length cs)%nat ->
  exists e, scan_up cs i = Z.of_nat e /\ (i <= e <= length cs)%nat /\
            (forall j, (i <= j < e)%nat -> mk cs j = false) /\
            ((e < length cs)%nat -> mk cs e = true).
Proof.
  intro Hi. unfold scan_up. exists (i + first_mark (skipn i cs))%nat.
  destruct (first_mark_spec (skipn i cs)) as [F1 [F2 F3]]. rewrite skipn_length in F1, F3.
  split; [reflexivity|]. split; [lia|]. split.
  - intros j Hj. replace j with (i + (j - i))%nat by lia. rewrite <- at_skipn. apply F2. lia.
  - intro H. rewrite <- at_skipn. apply F3. lia.
Qed.

(** ---- what one pass of doresultfn queues ---- *)
Definition outside (cs : list bcmd) (i : nat) : Prop :=
  ~ exists z e, (z < i < e)%nat /\ mu cs z = true /\ ex cs e = true /\ nomark cs z e.

Inductive good (ps : list ipair) : list ipair -> Prop :=
| GoodOne i p : nth_error ps i = Some p -> marker (snd p) = false -> outside (map snd ps) i -> good ps [p]
| GoodBlock mi ei : (mi < ei)%nat -> mu (map snd ps) mi = true -> ex (map snd ps) ei = true ->
                    nomark (map snd ps) mi ei -> good ps (firstn (ei - mi + 1) (skipn mi ps)).

(** the scan state carried from one position to the next *)
Definition ss (cs : list bcmd) (i : nat) (mi ei : Z) : Prop :=
  ei < Z.of_nat i \/
  (-1 <= mi < Z.of_nat i /\ Z.of_nat i <= ei <= Z.of_nat (length cs) /\
   (mi = -1 \/ mk cs (Z.to_nat mi) = true) /\
   (ei < Z.of_nat (length cs) -> mk cs (Z.to_nat ei) = true) /\
   (forall j, mi < Z.of_nat j < ei -> mk cs j = false)).

Lemma ss_step cs i mi ei : ss cs i mi ei -> ss cs (S i) mi ei.
Proof.
  intros [H|[H1 [H2 H3]]]; [left; lia|].
  destruct (Z.eq_dec ei (Z.of_nat i)); [left; lia|right]. split; [lia|]. split; [lia|exact H3].
Qed.

Section Pass.
Variables (pol : policy) (cc : addr) (hasinit : bool) (attempts : nat) (fl : rflags).
Variables (ps : list ipair) (resps : list reply).
Let cs := map snd ps.
Hypothesis HW1 : W1 cs.
Hypothesis HW2 : W2 cs.
Hypothesis Hlen : length resps = length ps.
(** without no-slot commands there is no MULTI / EXEC in the batch at all *)
Hypothesis Hni : hasinit = false -> forall j, mk cs j = false.
(** MULTI carries no key: no node answers it with a redirect, and it is not retryable *)
Hypothesis Hgate : forall i ii cm r, nth_error ps i = Some (ii, cm) -> nth_error resps i = Some r -> is_multi cm = true ->
  match classify r (rf_ctx fl) (rf_closed fl) with
  | ModeNone => True
  | ModeRetry => b_retryable cm = false
  | _ => False
  end.

(** the property of queued actions that is being established (closed under [good] payloads) *)
Variable Qa : action -> Prop.
Hypothesis HQ : forall nc ask pl, good ps pl -> Qa (mkAct nc ask pl).

Definition J (i : nat) (d : drs) : Prop :=
  Forall Qa (d_acts d) /\ ss cs i (d_mi d) (d_ei d).

Lemma cs_nth i ii cm : nth_error ps i = Some (ii, cm) -> nth_error cs i = Some cm.
Proof. intro H. unfold cs. rewrite nth_error_map, H. reflexivity. Qed.

Lemma nth_cmd_nat z : 0 <= z -> nth_cmd cs z = nth_error cs (Z.to_nat z).
Proof. intro H. unfold nth_cmd. destruct (Z.ltb_spec z 0); [lia|reflexivity]. Qed.

Lemma block_nat (mi ei : nat) : (mi <= ei)%nat -> block ps (Z.of_nat mi) (Z.of_nat ei) = firstn (ei - mi + 1) (skipn mi ps).
Proof.
  intro H. unfold block. rewrite Nat2Z.id. f_equal.
  replace (Z.of_nat ei - Z.of_nat mi + 1) with (Z.of_nat (ei - mi + 1)) by lia. apply Nat2Z.id.
Qed.

(** nearest marker below a position that is inside a block is the block's MULTI *)
Lemma prev_is_multi i z e z' :
  (z < i)%nat -> (i <= e)%nat -> mu cs z = true -> nomark cs z e ->
  (z' < i)%nat -> mk cs z' = true -> (forall j, (z' < j < i)%nat -> mk cs j = false) -> z' = z.
Proof.
  intros Hz He Mz Nz Hz' Mz' Nz'.
  destruct (lt_eq_lt_dec z z') as [[L|E]|G]; [|auto|].
  - rewrite (Nz z') in Mz'; [discriminate|lia].
  - pose proof (mu_mk _ _ Mz) as X. rewrite (Nz' z) in X by lia. discriminate.
Qed.

(** rescan at an EXEC: the block found is the one the EXEC closes *)
Lemma rescan_exec i : ex cs i = true ->
  exists z, (z < i)%nat /\ mu cs z = true /\ nomark cs z i /\
            match i with O => -1 | S j => scan_down cs j end = Z.of_nat z /\ scan_up cs i = Z.of_nat i.
Proof.
  intro E. destruct (HW2 i E) as [z [Hz [Mz Nz]]]. exists z. split; [exact Hz|]. split; [exact Mz|]. split; [exact Nz|].
  split.
  - destruct i as [|j]; [lia|].
    destruct (scan_down_spec cs j) as [[_ A]|[B [K A]]].
    + pose proof (mu_mk _ _ Mz) as X. rewrite (A z) in X by lia. discriminate.
    + assert (Z.to_nat (scan_down cs j) = z).
      { apply (prev_is_multi (S j) z (S j) (Z.to_nat (scan_down cs j))); auto; try lia. intros q Hq. apply A. lia. }
      lia.
  - pose proof (at_lt _ _ _ E) as Hl. destruct (scan_up_spec cs i ltac:(lia)) as [e [-> [He [Ne Me]]]].
    f_equal. destruct (Nat.eq_dec e i) as [|Hne]; [assumption|].
    pose proof (ex_mk _ _ E) as X. rewrite (Ne i) in X by lia. discriminate.
Qed.

(** rescan at a plain command *)
Lemma rescan_plain i : (i < length cs)%nat -> mk cs i = false ->
  exists e, scan_up cs i = Z.of_nat e /\ (i < e <= length cs)%nat /\
            (forall j, (i <= j < e)%nat -> mk cs j = false) /\ ((e < length cs)%nat -> mk cs e = true) /\
            ((scan_down cs i = -1 /\ forall j, (j <= i)%nat -> mk cs j = false) \/
             (exists z, scan_down cs i = Z.of_nat z /\ (z < i)%nat /\ mk cs z = true /\
                        forall j, (z < j <= i)%nat -> mk cs j = false)).
Proof.
  intros Hi M. destruct (scan_up_spec cs i ltac:(lia)) as [e [-> [He [Ne Me]]]]. exists e. split; [reflexivity|].
  assert (e <> i) by (intros ->; rewrite (Me Hi) in M; discriminate).
  split; [lia|]. split; [exact Ne|]. split; [exact Me|].
  destruct (scan_down_spec cs i) as [[E A]|[B [K A]]]; [left; auto|right].
  exists (Z.to_nat (scan_down cs i)). split; [lia|]. split; [|split; [exact K|exact A]].
  destruct (Nat.eq_dec (Z.to_nat (scan_down cs i)) i) as [X|X]; [rewrite X in K; congruence|lia].
Qed.

(** a MULTI below a plain command, with nothing in between: the command is inside that block *)
Lemma inside_block i z e :
  (z < i)%nat -> mu cs z = true -> (forall j, (z < j <= i)%nat -> mk cs j = false) ->
  (i < e <= length cs)%nat -> (forall j, (i <= j < e)%nat -> mk cs j = false) -> ((e < length cs)%nat -> mk cs e = true) ->
  (e < length cs)%nat /\ ex cs e = true /\ nomark cs z e.
Proof.
  intros Hz Mz Nz He Ne Me. destruct (HW1 z Mz) as [e1 [H1 [E1 N1]]].
  pose proof (at_lt _ _ _ E1) as L1. pose proof (ex_mk _ _ E1) as K1.
  assert (i < e1)%nat by (destruct (le_lt_dec e1 i); [rewrite (Nz e1) in K1 by lia; discriminate|assumption]).
  assert (e <= e1)%nat by (destruct (le_lt_dec e e1); [assumption|rewrite (Ne e1) in K1 by lia; discriminate]).
  assert (e = e1).
  { destruct (Nat.eq_dec e e1); [assumption|]. assert (e < length cs)%nat by lia.
    pose proof (Me ltac:(lia)) as X. rewrite (N1 e) in X by lia. discriminate. }
  subst e1. auto.
Qed.

Lemma outside_of_prev i :
  ((forall j, (j <= i)%nat -> mk cs j = false) \/
   (exists z, (z < i)%nat /\ mk cs z = true /\ mu cs z = false /\ forall j, (z < j <= i)%nat -> mk cs j = false)) ->
  outside cs i.
Proof.
  intros H [z0 [e0 [Hze [M0 [E0 N0]]]]]. destruct H as [A|[z [Hz [K [NM A]]]]].
  - pose proof (mu_mk _ _ M0) as X. rewrite (A z0) in X by lia. discriminate.
  - assert (z = z0).
    { apply (prev_is_multi i z0 e0 z); auto; try lia. intros q Hq. apply A. lia. }
    subst. congruence.
Qed.

Lemma J_outcomes i ii cm (d : drs) MI EI (found skip : bool) nc ask rd1 dl1 rd3 dl3 res :
  Forall Qa (d_acts d) ->
  ss cs (S i) MI EI ->
  (found = true -> good ps (block ps MI EI)) ->
  (found = false -> skip = false -> good ps [(ii, cm)]) ->
  J (S i) (if found then mkDrs MI EI (d_acts d ++ [mkAct nc ask (block ps MI EI)]) rd1 dl1 res
           else if skip then mkDrs MI EI (d_acts d) (d_redirects d) (d_delay d) res
           else mkDrs MI EI (d_acts d ++ [mkAct nc ask [(ii, cm)]]) rd3 dl3 res).
Proof.
  intros Ha Hs H1 H3. destruct found.
  - split; cbn; [|exact Hs]. apply Forall_app. split; [exact Ha|]. constructor; [apply HQ; auto|constructor].
  - destruct skip.
    + split; cbn; [exact Ha|exact Hs].
    + split; cbn; [|exact Hs]. apply Forall_app. split; [exact Ha|]. constructor; [apply HQ; auto|constructor].
Qed.

(** the three obligations of [J_outcomes] for the scan state and the two tests of [dstep] *)
Lemma J_core i ii cm d :
  (i < length ps)%nat -> nth_error ps i = Some (ii, cm) -> is_multi cm = false -> ss cs i (d_mi d) (d_ei d) ->
  let rescan := hasinit && (d_ei d <? Z.of_nat i) in
  let MI := if rescan then (if is_exec cm then match i with O => -1 | S j => scan_down cs j end else scan_down cs i) else d_mi d in
  let EI := if rescan then scan_up cs i else d_ei d in
  let found := rescan && (0 <=? MI) && (EI <? Z.of_nat (length cs))
               && match nth_cmd cs MI, nth_cmd cs EI with
                  | Some cm_mi, Some cm_ei => is_multi cm_mi && is_exec cm_ei
                  | _, _ => false
                  end
               && match nth_error resps (Z.to_nat MI) with Some rm => is_ok rm | None => false end in
  let skip := hasinit && (MI <? Z.of_nat i) && (Z.of_nat i <=? EI) && (0 <=? MI)
              && match nth_cmd cs MI with Some cm_mi => is_multi cm_mi | None => false end in
  ss cs (S i) MI EI /\
  (found = true -> good ps (block ps MI EI)) /\
  (found = false -> skip = false -> good ps [(ii, cm)]).
Proof.
  intros Hi Ep Hnm Hss rescan MI EI found skip.
  pose proof (cs_nth _ _ _ Ep) as Ec.
  assert (Hlc : length cs = length ps) by (unfold cs; apply map_length).
  assert (Emk : mk cs i = marker cm) by (apply at_some; exact Ec).
  assert (Eex : ex cs i = is_exec cm) by (apply at_some; exact Ec).
  assert (Emu : mu cs i = false) by (rewrite (at_some _ _ _ _ Ec); exact Hnm).
  destruct rescan eqn:R.
  - (* the scan is redone at this position *)
    apply andb_true_iff in R. destruct R as [Hin R]. apply Z.ltb_lt in R.
    destruct (is_exec cm) eqn:X.
    + (* EXEC *)
      destruct (rescan_exec i Eex) as [z [Hz [Mz [Nz [Emi Eei]]]]].
      assert (EMI : MI = Z.of_nat z) by (unfold MI; exact Emi).
      assert (EEI : EI = Z.of_nat i) by (unfold EI; exact Eei).
      rewrite EMI, EEI. split; [left; lia|]. split.
      * intros _. rewrite block_nat by lia. apply GoodBlock; auto.
      * intros _ Hsk. exfalso. unfold skip in Hsk. rewrite EMI, EEI, Hin in Hsk.
        rewrite nth_cmd_nat in Hsk by lia. rewrite Nat2Z.id in Hsk.
        unfold at_ in Mz. destruct (nth_error cs z) as [cz|]; [|discriminate]. rewrite Mz in Hsk.
        destruct (Z.ltb_spec (Z.of_nat z) (Z.of_nat i)); [|lia].
        destruct (Z.leb_spec (Z.of_nat i) (Z.of_nat i)); [|lia].
        destruct (Z.leb_spec 0 (Z.of_nat z)); [|lia]. discriminate.
    + (* plain *)
      assert (Mi : mk cs i = false) by (rewrite Emk; unfold marker; now rewrite Hnm, X).
      destruct (rescan_plain i ltac:(lia) Mi) as [e [Eei [He [Ne [Me Hprev]]]]].
      assert (EEI : EI = Z.of_nat e) by (unfold EI; exact Eei).
      assert (EMI : MI = scan_down cs i) by reflexivity.
      destruct Hprev as [[Emi A]|[z [Emi [Hz [Kz A]]]]].
      * (* no marker at or below *)
        rewrite EMI, Emi, EEI. split.
        { right. split; [lia|]. split; [lia|]. split; [now left|]. split.
          - intro Hl. rewrite Nat2Z.id. apply Me. lia.
          - intros j Hj. destruct (le_lt_dec j i); [apply A; lia|apply Ne; lia]. }
        split.
        { intro Hf. unfold found in Hf. rewrite EMI, Emi in Hf. cbn in Hf. rewrite ?andb_false_r in Hf. cbn in Hf. discriminate. }
        intros _ _. apply (GoodOne ps i (ii, cm)); [exact Ep|cbn; rewrite <- Emk; exact Mi|].
        apply outside_of_prev. left. exact A.
      * rewrite EMI, Emi, EEI.
        assert (Hss' : ss cs (S i) (Z.of_nat z) (Z.of_nat e)).
        { right. split; [lia|]. split; [lia|]. split; [right; now rewrite Nat2Z.id|]. split.
          - intro Hl. rewrite Nat2Z.id. apply Me. lia.
          - intros j Hj. destruct (le_lt_dec j i); [apply A; lia|apply Ne; lia]. }
        split; [exact Hss'|].
        destruct (mu cs z) eqn:Mz.
        -- destruct (inside_block i z e Hz Mz A He Ne Me) as [Hl [Ee Nze]].
           split.
           ++ intros _. rewrite block_nat by lia. apply GoodBlock; auto; lia.
           ++ intros _ Hsk. exfalso. unfold skip in Hsk. rewrite EMI, Emi, EEI, Hin in Hsk.
              rewrite nth_cmd_nat in Hsk by lia. rewrite Nat2Z.id in Hsk.
              unfold at_ in Mz. destruct (nth_error cs z) as [cz|]; [|discriminate]. rewrite Mz in Hsk.
              destruct (Z.ltb_spec (Z.of_nat z) (Z.of_nat i)); [|lia].
              destruct (Z.leb_spec (Z.of_nat i) (Z.of_nat e)); [|lia].
              destruct (Z.leb_spec 0 (Z.of_nat z)); [|lia]. discriminate.
        -- split.
           ++ intro Hf. exfalso. unfold found in Hf. rewrite EMI, Emi in Hf.
              rewrite (nth_cmd_nat (Z.of_nat z)) in Hf by lia. rewrite Nat2Z.id in Hf.
              unfold at_ in Mz. destruct (nth_error cs z) as [cz|]; [rewrite Mz in Hf|]; cbn in Hf;
                rewrite ?andb_false_r in Hf; cbn in Hf; try discriminate.
              destruct (nth_cmd cs EI); cbn in Hf; rewrite ?andb_false_r in Hf; discriminate.
           ++ intros _ _. apply (GoodOne ps i (ii, cm)); [exact Ep|cbn; rewrite <- Emk; exact Mi|].
              apply outside_of_prev. right. exists z. auto.
  - (* the carried scan state is used *)
    assert (Hf : found = false) by (unfold found; reflexivity).
    split; [now apply ss_step|]. split; [rewrite Hf; discriminate|].
    intros _ Hsk.
    destruct hasinit eqn:Hin.
    + cbn [andb] in R. apply Z.ltb_ge in R.
      destruct Hss as [Hlt|[S1 [S2 [S3 [S4 S5]]]]]; [lia|].
      assert (EMI : MI = d_mi d) by reflexivity. assert (EEI : EI = d_ei d) by reflexivity.
      unfold skip in Hsk. rewrite EMI, EEI in Hsk. cbn [andb] in Hsk.
      destruct (Z.ltb_spec (d_mi d) (Z.of_nat i)); [|lia].
      destruct (Z.leb_spec (Z.of_nat i) (d_ei d)); [|lia]. cbn [andb] in Hsk.
      (* the carried MULTI test failed: the previous marker is not a MULTI *)
      assert (Hprev : d_mi d = -1 \/ (0 <= d_mi d /\ mk cs (Z.to_nat (d_mi d)) = true /\ mu cs (Z.to_nat (d_mi d)) = false)).
      { destruct S3 as [E|K]; [now left|]. destruct (Z.eq_dec (d_mi d) (-1)); [now left|right].
        assert (0 <= d_mi d) by lia. split; [assumption|]. split; [exact K|].
        destruct (Z.leb_spec 0 (d_mi d)); [|lia]. cbn [andb] in Hsk.
        rewrite nth_cmd_nat in Hsk by lia. unfold at_. destruct (nth_error cs (Z.to_nat (d_mi d))); [exact Hsk|reflexivity]. }
      destruct (Z.eq_dec (d_ei d) (Z.of_nat i)) as [Eq|Ne].
      * (* the position is the carried end marker: an EXEC whose MULTI is the carried start — impossible here *)
        exfalso. assert (Ki : mk cs i = true) by (rewrite <- (Nat2Z.id i), <- Eq; apply S4; lia).
        destruct (mk_cases _ _ Ki) as [Y|Y]; [congruence|].
        destruct (HW2 i Y) as [z [Hz [Mz Nz]]].
        destruct Hprev as [E|[P0 [K NM]]].
        -- pose proof (mu_mk _ _ Mz) as Kz. rewrite (S5 z) in Kz by lia. discriminate.
        -- assert (Z.to_nat (d_mi d) = z).
           { apply (prev_is_multi i z i (Z.to_nat (d_mi d))); auto; try lia. intros q Hq. apply S5. lia. }
           subst z. congruence.
      * assert (Mi : mk cs i = false) by (apply S5; lia).
        apply (GoodOne ps i (ii, cm)); [exact Ep|cbn; rewrite <- Emk; exact Mi|].
        apply outside_of_prev. destruct Hprev as [E|[P0 [K NM]]].
        -- left. intros j Hj. destruct (Nat.eq_dec j i) as [->|]; [exact Mi|apply S5; lia].
        -- right. exists (Z.to_nat (d_mi d)). split; [lia|]. split; [exact K|]. split; [exact NM|].
           intros j Hj. destruct (Nat.eq_dec j i) as [->|]; [exact Mi|apply S5; lia].
    + (* no no-slot command in the batch: no MULTI / EXEC anywhere *)
      apply (GoodOne ps i (ii, cm)); [exact Ep|cbn; rewrite <- Emk; now apply Hni|].
      apply outside_of_prev. left. intros j _. now apply Hni.
Qed.

(** one position of the pass keeps the invariant *)
Lemma J_step i d : (i < length ps)%nat -> J i d -> J (S i) (dstep pol cc hasinit attempts fl ps resps d i).
Proof.
  intros Hi [Hacts Hss].
  destruct (nth_error ps i) as [[ii cm]|] eqn:Ep; [|apply nth_error_None in Ep; lia].
  destruct (nth_error resps i) as [r|] eqn:Er; [|apply nth_error_None in Er; lia].
  unfold dstep. rewrite Ep, Er. fold cs.
  assert (Hsame : J (S i) (mkDrs (d_mi d) (d_ei d) (d_acts d) (d_redirects d) (d_delay d) (d_results d ++ [(ii, r)]))).
  { split; cbn; [exact Hacts|now apply ss_step]. }
  destruct (classify r (rf_ctx fl) (rf_closed fl)) as [|a|a|] eqn:CL; [exact Hsame| | |].
  all: cbv zeta.
  all: match goal with |- J _ (if ?g then _ else _) => destruct g eqn:Gate; [exact Hsame|] end.
  all: assert (Hnm : is_multi cm = false) by
      (destruct (is_multi cm) eqn:M; [|reflexivity]; pose proof (Hgate i ii cm r Ep Er M) as G; rewrite CL in G;
       try contradiction; cbn in Gate; rewrite G in Gate; rewrite andb_false_r in Gate; cbn in Gate; discriminate).
  all: cbn [d_acts d_mi d_ei d_redirects d_delay d_results].
  all: destruct (J_core i ii cm d Hi Ep Hnm Hss) as [C1 [C2 C3]].
  all: apply J_outcomes; [exact Hacts|exact C1|exact C2|exact C3].
Qed.

(** the whole pass *)
Lemma doresultfn_good acts redirects delay results :
  Forall Qa acts ->
  Forall Qa (d_acts (doresultfn pol cc hasinit attempts fl ps resps acts redirects delay results)).
Proof.
  intro Ha. unfold doresultfn. rewrite Hlen.
  assert (G : forall n k d, (k + n = length ps)%nat -> J k d ->
              J (k + n) (fold_left (dstep pol cc hasinit attempts fl ps resps) (seq k n) d)).
  { induction n as [|n IH]; intros k d Hk Hj; cbn [seq fold_left]; [now rewrite Nat.add_0_r|].
    replace (k + S n)%nat with (S k + n)%nat by lia. apply IH; [lia|]. apply J_step; [lia|exact Hj]. }
  apply (G (length ps) 0%nat); [reflexivity|]. split; cbn; [exact Ha|left; lia].
Qed.

End Pass.

(** ---- the invariant of every list of (index, command) pairs the client sends ---- *)
Section Inv.
Variable multi : list bcmd.

Definition idx_at (pl : list ipair) (j : nat) : option nat := option_map fst (nth_error pl j).

(** a MULTI…EXEC stretch of the list carries consecutive indices of the batch *)
Definition idt (pl : list ipair) : Prop :=
  forall z e iz, (z < e)%nat -> mu (map snd pl) z = true -> ex (map snd pl) e = true -> nomark (map snd pl) z e ->
    idx_at pl z = Some iz -> forall j, (z <= j <= e)%nat -> idx_at pl j = Some (iz + (j - z))%nat.

(** index k of the batch lies strictly inside a MULTI…EXEC block of the batch *)
Definition orig_inside (k : nat) : Prop :=
  exists lo hi, (lo < k < hi)%nat /\ mu multi lo = true /\ ex multi hi = true /\ nomark multi lo hi.

(** a plain command from inside a block of the batch is inside a block of the list *)
Definition mem (pl : list ipair) : Prop :=
  forall i p, nth_error pl i = Some p -> marker (snd p) = false -> orig_inside (fst p) ->
    exists z e, (z < i < e)%nat /\ mu (map snd pl) z = true /\ ex (map snd pl) e = true /\ nomark (map snd pl) z e.

Record txinv (pl : list ipair) : Prop := {
  tx_pairs : Forall (pair_ok multi) pl;
  tx_w1 : W1 (map snd pl);
  tx_w2 : W2 (map snd pl);
  tx_idt : idt pl;
  tx_mem : mem pl;
}.

Lemma txinv_nil : txinv [].
Proof.
  constructor; [constructor| | | |].
  - intros z H. unfold at_ in H. destruct z; discriminate.
  - intros z H. unfold at_ in H. destruct z; discriminate.
  - intros z e iz _ H. unfold at_ in H. destruct z; discriminate.
  - intros i p H. destruct i; discriminate.
Qed.

(** positions of a sub-list taken out of the middle *)
Lemma nth_error_firstn' {A} (l : list A) : forall n j, (j < n)%nat -> nth_error (firstn n l) j = nth_error l j.
Proof.
  induction l as [|x l IH]; intros n j H; [destruct n, j; reflexivity|].
  destruct n as [|n]; [lia|]. destruct j as [|j]; [reflexivity|]. cbn. apply IH. lia.
Qed.
Lemma nth_error_firstn_out {A} (l : list A) : forall n j, (n <= j)%nat -> nth_error (firstn n l) j = None.
Proof. intros n j H. apply nth_error_None. rewrite firstn_length. lia. Qed.

Lemma nth_error_mid {A} (l : list A) mi n j : (j < n)%nat -> nth_error (firstn n (skipn mi l)) j = nth_error l (mi + j).
Proof. intro H. rewrite nth_error_firstn' by exact H. apply nth_error_skipn'. Qed.

Lemma at_mid f (ps : list ipair) mi n j :
  at_ f (map snd (firstn n (skipn mi ps))) j = if (j <? n)%nat then at_ f (map snd ps) (mi + j) else false.
Proof.
  unfold at_. rewrite !nth_error_map. destruct (Nat.ltb_spec j n).
  - now rewrite nth_error_mid.
  - now rewrite nth_error_firstn_out.
Qed.

Lemma good_txinv ps pl : txinv ps -> good ps pl -> txinv pl.
Proof.
  intros [P W1p W2p I M] G. destruct G as [i p Ep Mp Op|mi ei Hlt Mmi Eei Nme].
  - (* a single plain command from outside every block *)
    assert (Hc : forall f z, at_ f (map snd [p]) z = true -> z = 0%nat /\ f (snd p) = true).
    { intros f z H. unfold at_ in H. destruct z as [|z]; cbn in H; [auto|destruct z; discriminate]. }
    constructor.
    + constructor; [|constructor]. rewrite Forall_forall in P. apply P. eapply nth_error_In; eauto.
    + intros z H. destruct (Hc _ _ H) as [_ X]. unfold marker in Mp. rewrite X in Mp. discriminate.
    + intros z H. destruct (Hc _ _ H) as [_ X]. unfold marker in Mp. rewrite X, orb_true_r in Mp. discriminate.
    + intros z e iz _ H. destruct (Hc _ _ H) as [_ X]. unfold marker in Mp. rewrite X in Mp. discriminate.
    + intros j q Hq Mq Oq. destruct j as [|j]; [|destruct j; discriminate]. cbn in Hq. inversion Hq; subst q.
      exfalso. apply Op. destruct (M i p Ep Mp Oq) as [z [e H]]. exists z, e. exact H.
  - (* a whole block *)
    set (n := (ei - mi + 1)%nat).
    assert (Hat : forall f j, at_ f (map snd (firstn n (skipn mi ps))) j = if (j <? n)%nat then at_ f (map snd ps) (mi + j) else false)
      by (intros; apply at_mid).
    assert (Hmk : forall j, (j < n)%nat -> mk (map snd (firstn n (skipn mi ps))) j = true -> j = 0%nat \/ j = (ei - mi)%nat).
    { intros j Hj H. rewrite Hat in H. destruct (Nat.ltb_spec j n); [|lia].
      destruct (Nat.eq_dec j 0); [now left|]. destruct (Nat.eq_dec j (ei - mi)); [now right|].
      rewrite (Nme (mi + j)%nat) in H by lia. discriminate. }
    assert (Hmu0 : forall z, mu (map snd (firstn n (skipn mi ps))) z = true -> z = 0%nat).
    { intros z H. pose proof H as H'. rewrite Hat in H'. destruct (Nat.ltb_spec z n); [|discriminate].
      destruct (Hmk z ltac:(lia) (mu_mk _ _ H)) as [E0|E0]; [assumption|]. subst z.
      replace (mi + (ei - mi))%nat with ei in H' by lia. exfalso. exact (mu_ex_excl _ _ H' Eei). }
    assert (Hexn : forall e, ex (map snd (firstn n (skipn mi ps))) e = true -> e = (ei - mi)%nat).
    { intros e H. pose proof H as H'. rewrite Hat in H'. destruct (Nat.ltb_spec e n); [|discriminate].
      destruct (Hmk e ltac:(lia) (ex_mk _ _ H)) as [E0|E0]; [|assumption]. subst e.
      rewrite Nat.add_0_r in H'. exfalso. exact (mu_ex_excl _ _ Mmi H'). }
    assert (Hnm : nomark (map snd (firstn n (skipn mi ps))) 0 (ei - mi)).
    { intros j Hj. rewrite Hat. destruct (Nat.ltb_spec j n); [|reflexivity]. apply Nme. lia. }
    assert (Hmu : mu (map snd (firstn n (skipn mi ps))) 0 = true).
    { rewrite Hat. destruct (Nat.ltb_spec 0 n); [|unfold n in *; lia]. now rewrite Nat.add_0_r. }
    assert (Hex : ex (map snd (firstn n (skipn mi ps))) (ei - mi) = true).
    { rewrite Hat. destruct (Nat.ltb_spec (ei - mi) n); [|unfold n in *; lia]. replace (mi + (ei - mi))%nat with ei by lia. exact Eei. }
    constructor.
    + apply Forall_forall. intros q Hq. apply In_firstn in Hq. apply In_skipn in Hq. rewrite Forall_forall in P. auto.
    + intros z H. rewrite (Hmu0 z H). exists (ei - mi)%nat. split; [lia|]. split; [exact Hex|exact Hnm].
    + intros e H. rewrite (Hexn e H). exists 0%nat. split; [lia|]. split; [exact Hmu|exact Hnm].
    + intros z e iz Hze Hz He _ Hiz j Hj. rewrite (Hmu0 z Hz) in *. rewrite (Hexn e He) in *.
      unfold idx_at in *. rewrite nth_error_mid in Hiz by (unfold n; lia). rewrite nth_error_mid by (unfold n; lia).
      rewrite Nat.add_0_r in Hiz. rewrite Nat.sub_0_r.
      pose proof (I mi ei iz Hlt Mmi Eei Nme Hiz (mi + j)%nat ltac:(lia)) as X. unfold idx_at in X.
      rewrite X. f_equal. lia.
    + intros j q Hq Mq _. assert (Hj : (j < n)%nat).
      { destruct (Nat.ltb_spec j n); [assumption|]. rewrite nth_error_firstn_out in Hq by assumption. discriminate. }
      assert (Kj : mk (map snd (firstn n (skipn mi ps))) j = false).
      { unfold at_. rewrite nth_error_map, Hq. cbn. exact Mq. }
      exists 0%nat, (ei - mi)%nat. split.
      * destruct (Nat.eq_dec j 0) as [->|]; [rewrite (mu_mk _ _ Hmu) in Kj; discriminate|].
        destruct (Nat.eq_dec j (ei - mi)) as [->|]; [rewrite (ex_mk _ _ Hex) in Kj; discriminate|]. unfold n in Hj. lia.
      * split; [exact Hmu|]. split; [exact Hex|exact Hnm].
Qed.

(** lists that satisfy the invariant can be concatenated: a block never straddles the seam *)
Lemma nomark_app_l l1 l2 a b : (b <= length l1)%nat -> nomark (l1 ++ l2) a b <-> nomark l1 a b.
Proof.
  intro H. split; intros N j Hj; specialize (N j Hj); [rewrite at_app_l in N by lia|rewrite at_app_l by lia]; exact N.
Qed.

Lemma txinv_app l1 l2 : txinv l1 -> txinv l2 -> txinv (l1 ++ l2).
Proof.
  intros [P1 A1 B1 I1 M1] [P2 A2 B2 I2 M2].
  set (n1 := length l1).
  assert (Lm : length (map snd l1) = n1) by apply map_length.
  assert (Hl : forall f z, (z < n1)%nat -> at_ f (map snd (l1 ++ l2)) z = at_ f (map snd l1) z).
  { intros. rewrite map_app. apply at_app_l. lia. }
  assert (Hr : forall f z, (n1 <= z)%nat -> at_ f (map snd (l1 ++ l2)) z = at_ f (map snd l2) (z - n1)).
  { intros. rewrite map_app, at_app_r by lia. now rewrite Lm. }
  (* a block of the concatenation that starts in l1 ends in l1 *)
  assert (Hend : forall z e, (z < e)%nat -> (z < n1)%nat -> mu (map snd (l1 ++ l2)) z = true ->
                             ex (map snd (l1 ++ l2)) e = true -> nomark (map snd (l1 ++ l2)) z e -> (e < n1)%nat).
  { intros z e Hze Hz Mz Ee Nze. rewrite Hl in Mz by exact Hz. destruct (A1 z Mz) as [e1 [H1 [E1 N1]]].
    pose proof (at_lt _ _ _ E1) as L1. rewrite Lm in L1.
    destruct (le_lt_dec e e1); [lia|]. exfalso.
    pose proof (ex_mk _ _ E1) as K. rewrite <- (Hl marker e1 L1) in K. rewrite (Nze e1) in K by lia. discriminate. }
  (* a block of the concatenation that ends in l2 starts in l2 *)
  assert (Hstart : forall z e, (z < e)%nat -> (n1 <= e)%nat -> mu (map snd (l1 ++ l2)) z = true ->
                               ex (map snd (l1 ++ l2)) e = true -> nomark (map snd (l1 ++ l2)) z e -> (n1 <= z)%nat).
  { intros z e Hze He Mz Ee Nze. destruct (le_lt_dec n1 z); [assumption|]. pose proof (Hend z e Hze ltac:(lia) Mz Ee Nze). lia. }
  constructor.
  - apply Forall_app. auto.
  - intros z Mz. destruct (le_lt_dec n1 z).
    + rewrite Hr in Mz by assumption. destruct (A2 _ Mz) as [e [H1 [E N]]]. exists (e + n1)%nat.
      split; [lia|]. split; [rewrite Hr by lia; now replace (e + n1 - n1)%nat with e by lia|].
      intros j Hj. rewrite Hr by lia. apply N. lia.
    + rewrite Hl in Mz by assumption. destruct (A1 _ Mz) as [e [H1 [E N]]]. pose proof (at_lt _ _ _ E) as L. rewrite Lm in L.
      exists e. split; [lia|]. split; [now rewrite Hl|]. intros j Hj. rewrite Hl by lia. apply N. lia.
  - intros e Ee. destruct (le_lt_dec n1 e).
    + rewrite Hr in Ee by assumption. destruct (B2 _ Ee) as [z [H1 [E N]]]. exists (z + n1)%nat.
      split; [lia|]. split; [rewrite Hr by lia; now replace (z + n1 - n1)%nat with z by lia|].
      intros j Hj. rewrite Hr by lia. apply N. lia.
    + rewrite Hl in Ee by assumption. destruct (B1 _ Ee) as [z [H1 [E N]]].
      exists z. split; [lia|]. split; [rewrite Hl by lia; exact E|]. intros j Hj. rewrite Hl by lia. apply N. lia.
  - intros z e iz Hze Mz Ee Nze Hiz j Hj. unfold idx_at in *. destruct (le_lt_dec n1 z).
    + rewrite nth_error_app2 in Hiz by (fold n1; lia). rewrite nth_error_app2 by (fold n1; lia). fold n1 in Hiz |- *.
      rewrite Hr in Mz, Ee by lia.
      assert (N2 : nomark (map snd l2) (z - n1) (e - n1)).
      { intros q Hq. specialize (Nze (q + n1)%nat ltac:(lia)). rewrite Hr in Nze by lia. now replace (q + n1 - n1)%nat with q in Nze by lia. }
      pose proof (I2 (z - n1)%nat (e - n1)%nat iz ltac:(lia) Mz Ee N2 Hiz (j - n1)%nat ltac:(lia)) as X. unfold idx_at in X.
      rewrite X. f_equal. lia.
    + pose proof (Hend z e Hze ltac:(lia) Mz Ee Nze) as He.
      rewrite nth_error_app1 in Hiz by (fold n1; lia). rewrite nth_error_app1 by (fold n1; lia).
      rewrite Hl in Mz, Ee by lia.
      assert (N1 : nomark (map snd l1) z e).
      { intros q Hq. specialize (Nze q Hq). rewrite Hl in Nze by lia. exact Nze. }
      exact (I1 z e iz Hze Mz Ee N1 Hiz j Hj).
  - intros i p Hp Mp Op. destruct (le_lt_dec n1 i).
    + rewrite nth_error_app2 in Hp by (fold n1; lia). fold n1 in Hp.
      destruct (M2 _ _ Hp Mp Op) as [z [e [Hze [Mz [Ee N]]]]]. exists (z + n1)%nat, (e + n1)%nat.
      split; [lia|]. split; [rewrite Hr by lia; now replace (z + n1 - n1)%nat with z by lia|].
      split; [rewrite Hr by lia; now replace (e + n1 - n1)%nat with e by lia|].
      intros q Hq. rewrite Hr by lia. apply N. lia.
    + rewrite nth_error_app1 in Hp by (fold n1; lia).
      destruct (M1 _ _ Hp Mp Op) as [z [e [Hze [Mz [Ee N]]]]]. pose proof (at_lt _ _ _ Ee) as L. rewrite Lm in L.
      exists z, e. split; [lia|]. split; [rewrite Hl by lia; exact Mz|]. split; [rewrite Hl by lia; exact Ee|].
      intros q Hq. rewrite Hl by lia. apply N. lia.
Qed.
End Inv.

(** ---- rounds ---- *)
Section Rounds.
Variable multi : list bcmd.
Variable srv : servers.
Variable hasinit : bool.

(** without no-slot commands there is no MULTI / EXEC in the batch (they carry no key) *)
Hypothesis Hnoinit : hasinit = false -> forall c, In c multi -> marker c = false.
(** MULTI carries no key: it is not retryable and no node answers it with MOVED / ASK *)
Hypothesis Hmulti : forall c a k, is_multi c = true ->
  b_retryable c = false /\ (forall x, srv c a k <> RMoved x) /\ (forall x, srv c a k <> RAsk x).

Definition group_tx (g : rgroup) : Prop := txinv multi (rg_cmds g) /\ txinv multi (rg_asks g).
Definition rmap_tx (m : rmap) : Prop := Forall (fun ag => group_tx (snd ag)) m.
Definition act_tx (a : action) : Prop := txinv multi (a_ps a).

Lemma rmap_add_tx a ask pl m : txinv multi pl -> rmap_tx m -> rmap_tx (rmap_add a ask pl m).
Proof.
  intro Hp. induction m as [|[k g] r IH]; intro Hm; cbn [rmap_add].
  - constructor; [|constructor]. cbn [snd]. destruct ask; split; cbn; auto using txinv_nil.
  - inversion Hm as [|? ? Hg Hr]; subst. cbn [snd] in Hg. destruct (addr_eqb a k).
    + constructor; [|exact Hr]. cbn [snd]. destruct Hg as [H1 H2].
      destruct ask; split; cbn [rg_cmds rg_asks]; auto using txinv_app.
    + constructor; [exact Hg|]. now apply IH.
Qed.

Lemma apply_actions_tx acts : Forall act_tx acts -> rmap_tx (apply_actions acts).
Proof.
  unfold apply_actions. intro H.
  assert (G : forall m, rmap_tx m -> rmap_tx (fold_left (fun m a => rmap_add (a_to a) (a_ask a) (a_ps a) m) acts m)).
  { induction H as [|a r Ha Hr IH]; intros m Hm; cbn [fold_left]; [exact Hm|]. apply IH. now apply rmap_add_tx. }
  apply G. constructor.
Qed.

Lemma pass_tx pol a attempts fl ps cn rs cn' acts redirects delay results :
  txinv multi ps -> exchange_on srv a cn ps = (rs, cn') -> Forall act_tx acts ->
  Forall act_tx (d_acts (doresultfn pol a hasinit attempts fl ps rs acts redirects delay results)).
Proof.
  intros T E Ha. destruct (exchange_on_spec srv a _ _ _ _ E) as [L S].
  apply (doresultfn_good pol a hasinit attempts fl ps rs (tx_w1 _ _ T) (tx_w2 _ _ T) L).
  - intros Hn j. unfold at_. rewrite nth_error_map. destruct (nth_error ps j) as [p|] eqn:Ep; [|reflexivity]. cbn.
    apply (Hnoinit Hn). pose proof (tx_pairs _ _ T) as P. rewrite Forall_forall in P.
    specialize (P p (nth_error_In _ _ Ep)). unfold pair_ok in P. eapply nth_error_In. exact P.
  - intros i ii cm r Ep Er M. destruct (S i _ _ Ep Er) as [k Hk]. cbn [snd] in Hk.
    destruct (Hmulti cm a k M) as [R [NM NA]]. subst r.
    destruct (srv cm a k) eqn:Es; cbn; try exact I; try exact R;
      try (destruct (rf_closed fl); try exact I; try exact R);
      try (destruct (rf_ctx fl); try exact I; try exact R);
      try (exfalso; eapply NM; reflexivity); try (exfalso; eapply NA; reflexivity).
  - intros nc ask pl G. unfold act_tx. cbn [a_ps]. exact (good_txinv multi ps pl T G).
  - exact Ha.
Qed.

(** asking_wire only decorates: the commands on the wire are the list itself *)
Fixpoint strip (w : list (option ipair)) : list ipair :=
  match w with [] => [] | None :: r => strip r | Some p :: r => p :: strip r end.
Lemma strip_asking ps : forall b, strip (asking_wire ps b) = ps.
Proof. induction ps as [|p r IH]; intro b; cbn [asking_wire]; [reflexivity|]. destruct b; cbn [strip]; now rewrite IH. Qed.
Lemma strip_map_some ps : strip (map Some ps) = ps.
Proof. induction ps as [|p r IH]; cbn; [reflexivity|now rewrite IH]. Qed.

Definition wsend_tx (w : wsend) : Prop := txinv multi (strip (w_wire w)).

Record rstate_tx (s : rstate) : Prop := {
  rt_acts : Forall act_tx (r_acts s);
  rt_sends : Forall wsend_tx (r_sends s);
}.

Lemma do_group_tx pol attempts fl st ag :
  group_tx (snd ag) -> rstate_tx st -> rstate_tx (do_group pol srv hasinit attempts fl st ag).
Proof.
  destruct ag as [a g]. cbn [snd]. intros [Tc Tk] [Ha Hs]. unfold do_group.
  set (st1 := match rg_cmds g with [] => st | _ => _ end).
  assert (H1 : rstate_tx st1).
  { unfold st1. destruct (rg_cmds g) as [|p ps] eqn:Eg; [split; assumption|].
    destruct (exchange_on srv a (r_cnt st) (p :: ps)) as [rs cn] eqn:E.
    split; cbn [r_acts r_sends].
    - eapply pass_tx; eauto.
    - apply Forall_app. split; [exact Hs|]. constructor; [|constructor]. unfold wsend_tx. cbn [w_wire]. now rewrite strip_map_some. }
  destruct (rg_asks g) as [|p ps] eqn:Eg; [exact H1|].
  destruct (exchange_on srv a (r_cnt st1) (p :: ps)) as [rs cn] eqn:E. destruct H1 as [Ha1 Hs1].
  split; cbn [r_acts r_sends].
  - eapply pass_tx; eauto.
  - apply Forall_app. split; [exact Hs1|]. constructor; [|constructor]. unfold wsend_tx. cbn [w_wire]. now rewrite strip_asking.
Qed.

Lemma fold_groups_tx pol attempts fl : forall m st,
  rmap_tx m -> rstate_tx st -> rstate_tx (fold_left (do_group pol srv hasinit attempts fl) m st).
Proof.
  induction m as [|ag m IH]; intros st Hm Hs; cbn [fold_left]; [exact Hs|].
  inversion Hm; subst. apply IH; [assumption|]. now apply do_group_tx.
Qed.

Lemma rounds_tx (c : bcfg) :
  (forall k l, Permutation (bc_perm c k l) l) ->
  forall fuel k m attempts redirects asg cn sends asg' sends' out,
  rmap_tx m -> Forall (fun kw => wsend_tx (snd kw)) sends ->
  rounds fuel c srv hasinit k m attempts redirects asg cn sends = (asg', sends', out) ->
  Forall (fun kw => wsend_tx (snd kw)) sends'.
Proof.
  intros Hperm. induction fuel as [|f IH]; intros k m attempts redirects asg cn sends asg' sends' out Hm Hs H.
  - cbn in H. inversion H; subst. exact Hs.
  - cbn [rounds] in H.
    set (st := fold_left (do_group (bc_policy c) srv hasinit attempts (bc_flags c k)) m (mkRstate [] 0 (-1) asg cn [])) in *.
    assert (Hst : rstate_tx st).
    { apply fold_groups_tx; [exact Hm|]. split; cbn; constructor. }
    destruct Hst as [Hacts Hsends].
    assert (Hs' : Forall (fun kw => wsend_tx (snd kw)) (sends ++ map (fun w => (k, w)) (r_sends st))).
    { apply Forall_app. split; [exact Hs|]. apply Forall_forall. intros kw Hin. apply in_map_iff in Hin.
      destruct Hin as [w [<- Hw]]. cbn [snd]. rewrite Forall_forall in Hsends. auto. }
    assert (Hm' : rmap_tx (apply_actions (bc_perm c k (r_acts st)))).
    { apply apply_actions_tx. apply Forall_forall. intros a Hin.
      apply (Permutation_in _ (Hperm k (r_acts st))) in Hin. rewrite Forall_forall in Hacts. auto. }
    destruct (apply_actions (bc_perm c k (r_acts st))) as [|x m'] eqn:Em.
    + inversion H; subst. exact Hs'.
    + destruct (0 <? r_redirects st)%nat.
      * destruct ((0 <? bc_max c) && (bc_max c <? redirects + 1)).
        -- inversion H; subst. exact Hs'.
        -- eapply IH; [exact Hm'|exact Hs'|exact H].
      * destruct (0 <=? r_delay st).
        -- eapply IH; [exact Hm'|exact Hs'|exact H].
        -- inversion H; subst. exact Hs'.
Qed.
End Rounds.

(** ---- round 0 and the theorem ---- *)
Section Top.
Variable multi : list bcmd.

Definition idpairs_from (k : nat) (cs : list bcmd) : list ipair := combine (seq k (length cs)) cs.

Lemma idpairs_nth k cs j c : nth_error cs j = Some c -> nth_error (idpairs_from k cs) j = Some ((k + j)%nat, c).
Proof.
  revert k j. induction cs as [|x r IH]; intros k j H; [destruct j; discriminate|].
  unfold idpairs_from. cbn [length seq combine]. destruct j as [|j]; cbn in H |- *.
  - inversion H; subst. now rewrite Nat.add_0_r.
  - fold (idpairs_from (S k) r). rewrite (IH (S k) j H). f_equal. f_equal. lia.
Qed.

Lemma idpairs_snd k cs : map snd (idpairs_from k cs) = cs.
Proof.
  revert k. induction cs as [|x r IH]; intro k; [reflexivity|]. unfold idpairs_from. cbn [length seq combine map snd].
  f_equal. apply (IH (S k)).
Qed.

Lemma idpairs_length k cs : length (idpairs_from k cs) = length cs.
Proof. unfold idpairs_from. rewrite combine_length, seq_length. lia. Qed.

Lemma txinv_identity : W1 multi -> W2 multi -> txinv multi (idpairs_from 0 multi).
Proof.
  intros A B.
  assert (Hn : forall j p, nth_error (idpairs_from 0 multi) j = Some p -> fst p = j /\ nth_error multi j = Some (snd p)).
  { intros j p H. destruct (nth_error multi j) as [c|] eqn:E.
    - rewrite (idpairs_nth 0 multi j c E) in H. inversion H; subst. cbn. auto.
    - apply nth_error_None in E. assert (nth_error (idpairs_from 0 multi) j = None) by (apply nth_error_None; rewrite idpairs_length; lia). congruence. }
  constructor.
  - apply Forall_forall. intros p Hp. apply In_nth_error in Hp. destruct Hp as [j Hj]. destruct (Hn j p Hj) as [E1 E2].
    unfold pair_ok. now rewrite E1.
  - now rewrite idpairs_snd.
  - now rewrite idpairs_snd.
  - intros z e iz Hze _ Ee _ Hiz j Hj. unfold idx_at in *.
    rewrite idpairs_snd in Ee. pose proof (at_lt _ _ _ Ee) as Le.
    destruct (nth_error multi j) as [c|] eqn:Ej; [|apply nth_error_None in Ej; lia].
    rewrite (idpairs_nth 0 multi j c Ej). cbn.
    destruct (nth_error multi z) as [cz|] eqn:Ez; [|apply nth_error_None in Ez; lia].
    rewrite (idpairs_nth 0 multi z cz Ez) in Hiz. cbn in Hiz. inversion Hiz; subst. f_equal. lia.
  - intros i p Hp Mp [lo [hi [Hl [Ml [Eh N]]]]]. destruct (Hn i p Hp) as [E1 _]. rewrite E1 in Hl.
    exists lo, hi. rewrite idpairs_snd. auto.
Qed.

(** lists without any MULTI / EXEC satisfy the invariant trivially *)
Lemma txinv_plain pl : (forall c, In c multi -> marker c = false) -> Forall (pair_ok multi) pl -> txinv multi pl.
Proof.
  intros Hno P.
  assert (Hm : forall j, mk (map snd pl) j = false).
  { intro j. unfold at_. rewrite nth_error_map. destruct (nth_error pl j) as [p|] eqn:E; [|reflexivity]. cbn.
    apply Hno. rewrite Forall_forall in P. specialize (P p (nth_error_In _ _ E)). eapply nth_error_In. exact P. }
  constructor; [exact P| | | |].
  - intros z H. pose proof (mu_mk _ _ H) as X. rewrite Hm in X. discriminate.
  - intros z H. pose proof (ex_mk _ _ H) as X. rewrite Hm in X. discriminate.
  - intros z e iz _ H. pose proof (mu_mk _ _ H) as X. rewrite Hm in X. discriminate.
  - intros i p _ _ [lo [hi [_ [Ml _]]]]. exfalso. unfold at_ in Ml. destruct (nth_error multi lo) as [c|] eqn:E; [|discriminate].
    pose proof (Hno c (nth_error_In _ _ E)) as X. unfold marker in X. rewrite Ml in X. discriminate.
Qed.

(** with a no-slot command in the batch everything goes to one connection, in order *)
Lemma rmap_add_single d pl ps : rmap_add d false pl [(d, mkRg ps [])] = [(d, mkRg (ps ++ pl) [])].
Proof. cbn. now rewrite addr_eqb_refl. Qed.

Lemma pick_multi_plain_one t d : forall cs k acc_ps,
  (forall c s, In c cs -> b_slot c = Some s -> tb_w t s = Some d) ->
  pick_multi_plain t (Some d) k cs [(d, mkRg acc_ps [])] = Some [(d, mkRg (acc_ps ++ idpairs_from k cs) [])].
Proof.
  induction cs as [|c r IH]; intros k acc_ps H; cbn [pick_multi_plain].
  - unfold idpairs_from. cbn. now rewrite app_nil_r.
  - assert (Hd : match b_slot c with Some s => tb_w t s | None => Some d end = Some d).
    { destruct (b_slot c) as [s|] eqn:E; [apply (H c s); [now left|exact E]|reflexivity]. }
    rewrite Hd, rmap_add_single. rewrite IH by (intros c0 s0 Hin; apply H; now right).
    unfold idpairs_from. cbn [length seq combine]. now rewrite <- app_assoc.
Qed.

Lemma scan_plain_same t : forall cs last l,
  scan_plain t true cs last = ScanOk (Some l) ->
  (forall x, last = Some x -> x = l) /\ forall c s, In c cs -> b_slot c = Some s -> s = l.
Proof.
  induction cs as [|c r IH]; intros last l H; cbn [scan_plain] in H.
  - inversion H; subst. split; [intros x E; now inversion E|intros c s []].
  - destruct (b_slot c) as [s|] eqn:Es.
    + destruct last as [l0|].
      * cbn [andb] in H. destruct (Z.eqb_spec l0 s) as [->|Ne]; cbn [negb] in H; [|discriminate].
        destruct (tb_w t s); [|discriminate]. destruct (IH _ _ H) as [A B]. specialize (A s eq_refl). subst l.
        split; [intros x E; now inversion E|]. intros c0 s0 [<-|Hin] E0; [congruence|eauto].
      * destruct (tb_w t s); [|discriminate]. destruct (IH _ _ H) as [A B]. specialize (A s eq_refl). subst l.
        split; [discriminate|]. intros c0 s0 [<-|Hin] E0; [congruence|eauto].
    + destruct (IH _ _ H) as [A B]. split; [exact A|]. intros c0 s0 [<-|Hin] E0; [congruence|eauto].
Qed.

Lemma scan_plain_none t : forall cs, scan_plain t true cs None = ScanOk None -> forall c s, In c cs -> b_slot c = Some s -> False.
Proof.
  induction cs as [|c r IH]; intros H c0 s0 Hin E; [destruct Hin|]. cbn [scan_plain] in H.
  destruct (b_slot c) as [s|] eqn:Es.
  - destruct (tb_w t s); [|discriminate].
    (* the scan continues with last = Some s and can only end with Some *)
    assert (X : forall cs last, last <> None -> scan_plain t true cs last <> ScanOk None).
    { clear. induction cs as [|c r IH]; intros last Hl; cbn [scan_plain]; [intro E; inversion E; congruence|].
      destruct (b_slot c); [|now apply IH]. destruct last as [l0|]; [|congruence].
      destruct (true && negb (l0 =? z)); [discriminate|]. destruct (tb_w t z); [|discriminate]. apply IH. discriminate. }
    exfalso. exact (X r (Some s) ltac:(discriminate) H).
  - destruct Hin as [<-|Hin]; [congruence|]. eapply IH; eauto.
Qed.

Lemma pick_multi_plain_all t d cs m :
  (forall c s, In c cs -> b_slot c = Some s -> tb_w t s = Some d) ->
  pick_multi_plain t (Some d) 0 cs [] = Some m ->
  m = [(d, mkRg (idpairs_from 0 cs) [])] \/ (cs = [] /\ m = []).
Proof.
  intros Hall H. destruct cs as [|c0 r].
  - cbn in H. inversion H. right. auto.
  - left. cbn [pick_multi_plain] in H.
    assert (Hd : match b_slot c0 with Some s => tb_w t s | None => Some d end = Some d).
    { destruct (b_slot c0) as [s|] eqn:E; [apply (Hall c0 s); [now left|exact E]|reflexivity]. }
    rewrite Hd in H. cbn [rmap_add] in H.
    rewrite (pick_multi_plain_one t d r 1%nat [(0%nat, c0)]) in H.
    + inversion H; subst. reflexivity.
    + intros c s Hin E. apply (Hall c s); [now right|exact E].
Qed.

Lemma pick_multi_init t str nsel fc m :
  pick_multi t str nsel fc multi = PickOk m true ->
  exists d, m = [(d, mkRg (idpairs_from 0 multi) [])] \/ (multi = [] /\ m = []).
Proof.
  unfold pick_multi. destruct (has_init multi) eqn:Hi; [cbn [negb andb]|].
  2:{ destruct (negb false && tb_rinit t && str).
      - destruct (pick_multi_repl t nsel 0 multi []); [intro H; inversion H|discriminate].
      - destruct (scan_plain t false multi None); try discriminate.
        destruct (match last with Some l => tb_w t l | None => fc end); [|discriminate].
        destruct (pick_multi_plain t (Some a) 0 multi []); [intro H; inversion H|discriminate]. }
  destruct (scan_plain t true multi None) as [last| |] eqn:Es; try discriminate.
  destruct (match last with Some l => tb_w t l | None => fc end) as [d|] eqn:Ed; [|discriminate].
  assert (Hall : forall c s, In c multi -> b_slot c = Some s -> tb_w t s = Some d).
  { intros c s Hin E. destruct last as [l|].
    - destruct (scan_plain_same t multi None l Es) as [_ B]. now rewrite (B c s Hin E).
    - exfalso. exact (scan_plain_none t multi Es c s Hin E). }
  intro H. exists d. destruct (pick_multi_plain t (Some d) 0 multi []) as [m0|] eqn:E0; [|discriminate].
  inversion H; subst m0. exact (pick_multi_plain_all t d multi m Hall E0).
Qed.

Theorem domulti_tx (srv : servers) (c : bcfg) t str nsel fc m init fuel asg sends out :
  (forall k l, Permutation (bc_perm c k l) l) ->
  W1 multi -> W2 multi ->
  (forall cm, In cm multi -> marker cm = true -> b_slot cm = None) ->
  (forall cm a k, is_multi cm = true ->
     b_retryable cm = false /\ (forall x, srv cm a k <> RMoved x) /\ (forall x, srv cm a k <> RAsk x)) ->
  pick_multi t str nsel fc multi = PickOk m init ->
  cluster_domulti fuel c srv init m = (asg, sends, out) ->
  forall k w, In (k, w) sends -> txinv multi (strip (w_wire w)).
Proof.
  intros Hperm A B Hslot Hmulti Hp H k w Hin. unfold cluster_domulti in H.
  assert (Hno : init = false -> forall cm, In cm multi -> marker cm = false).
  { intros Ei cm Hc. destruct (marker cm) eqn:M; [|reflexivity]. exfalso.
    pose proof (Hslot cm Hc M) as Sl.
    assert (has_init multi = true) by (unfold has_init; apply existsb_exists; exists cm; rewrite Sl; auto).
    unfold pick_multi in Hp. rewrite H0 in Hp. cbn [negb andb] in Hp.
    destruct (scan_plain t true multi None); try discriminate.
    destruct (match last with Some l => tb_w t l | None => fc end); [|discriminate].
    destruct (pick_multi_plain t (Some a) 0 multi []); [inversion Hp; congruence|discriminate]. }
  assert (Hm : rmap_tx multi m).
  { destruct init.
    - destruct (pick_multi_init t str nsel fc m Hp) as [d [->|[_ ->]]]; [|constructor].
      constructor; [|constructor]. split; cbn; [now apply txinv_identity|apply txinv_nil].
    - destruct (pick_multi_spec multi t str nsel fc m false Hp) as [Hok _].
      apply Forall_forall. intros ag Hag. unfold rmap_ok in Hok. rewrite Forall_forall in Hok. destruct (Hok ag Hag) as [P1 P2].
      split; apply txinv_plain; auto. }
  pose proof (rounds_tx multi srv init Hno Hmulti c Hperm _ _ _ _ _ _ _ _ _ _ _ Hm (Forall_nil _) H) as Hall.
  rewrite Forall_forall in Hall. exact (Hall (k, w) Hin).
Qed.

(** ASKING is sent once per plain command and once per transaction block, never inside a block *)
Lemma asking_wire_body : forall body e r,
  Forall (fun p => marker (snd p) = false) body -> is_exec (snd e) = true ->
  asking_wire (body ++ e :: r) true = map Some body ++ Some e :: asking_wire r false.
Proof.
  induction body as [|p b IH]; intros e r F E; cbn [app asking_wire map].
  - now rewrite E.
  - inversion F as [|? ? Hp Hb]; subst. unfold marker in Hp. apply orb_false_iff in Hp. destruct Hp as [_ Hx].
    rewrite Hx. cbn [negb]. now rewrite IH.
Qed.

Lemma asking_wire_block m body e r :
  is_multi (snd m) = true -> Forall (fun p => marker (snd p) = false) body -> is_exec (snd e) = true ->
  asking_wire (m :: body ++ e :: r) false = None :: Some m :: map Some body ++ Some e :: asking_wire r false.
Proof. intros M F E. cbn [asking_wire]. rewrite M. now rewrite asking_wire_body. Qed.

Lemma asking_wire_plain p r :
  marker (snd p) = false -> asking_wire (p :: r) false = None :: Some p :: asking_wire r false.
Proof. intro M. cbn [asking_wire]. unfold marker in M. apply orb_false_iff in M. destruct M as [-> _]. reflexivity. Qed.
End Top.
