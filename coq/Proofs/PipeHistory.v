(** C01_no_loss_no_dup: the delivery log of the reader is, at every moment, exactly an initial
    segment of the deliveries that the slots handed to the writer call for (owner, index, reply of
    that very command), in wire order: nothing is skipped, nothing is delivered twice, nothing goes to
    another slot. *)
From Coq Require Import List NArith ZArith Bool Arith Lia.
Require Import RV.Model.Base RV.Model.PipeQueue RV.Model.Pipe RV.Model.PipeLts.
Require Import RV.Proofs.PipeLtsBasics RV.Proofs.PipeReaderProofs RV.Proofs.PipeExclusive RV.Proofs.PipeRouting RV.Proofs.PipeLifecycle.
Import ListNotations.
Open Scope N_scope.

Section Hist.
  Variable g : config.
  Let sv := g_srv g.

  Fixpoint exp_from (o : N) (i : nat) (cs : list cmd) : list (N * nat * msg) :=
    match cs with
    | [] => []
    | c :: r => (o, i, result_of sv c) :: exp_from o (S i) r
    end.
  Definition exp_slot (sl : slot) := exp_from (s_owner sl) 0 (s_cmds sl).
  Definition expected (wlog : list slot) := flat_map exp_slot wlog.

  Record InvH (s : pstate) : Prop := mkInvH {
    h_off : p_b s = BOff -> p_wlog s = [] /\ p_dlog s = [];
    h_read : forall r, p_b s = BRead r ->
             expected (p_wlog s) =
             p_dlog s ++ exp_from (r_owner r) (r_ff r) (skipn (r_ff r) (r_multi r)) ++ flat_map exp_slot (q_wr (p_q s));
    h_pre : exists rest, expected (p_wlog s) = p_dlog s ++ rest
  }.

  Lemma invh_init : InvH (p_init g).
  Proof. constructor; cbn; auto. - intros r K; discriminate. - exists []. reflexivity. Qed.

  Lemma invh_same s s' :
    InvH s -> p_b s' = p_b s -> p_wlog s' = p_wlog s -> p_dlog s' = p_dlog s ->
    ((exists r, p_b s = BRead r) -> q_wr (p_q s') = q_wr (p_q s)) -> InvH s'.
  Proof.
    intros [h1 h2 h3] e1 e2 e3 e4. constructor; rewrite ?e1, ?e2, ?e3; auto.
    intros r Hr. rewrite (e4 (ex_intro _ r Hr)). auto.
  Qed.

  Lemma invh_post s s' :
    InvH s -> p_b s' <> BOff -> (forall r, p_b s' <> BRead r) -> p_wlog s' = p_wlog s -> p_dlog s' = p_dlog s -> InvH s'.
  Proof.
    intros [h1 h2 h3] e1 e2 e3 e4. constructor; rewrite ?e3, ?e4; auto.
    - intros K. contradiction.
    - intros r K. exfalso. eapply e2; eauto.
  Qed.

  Lemma invh_do_background s : InvH s -> InvB g s -> (p_bg s = false -> p_b s = BOff) -> InvH (do_background s).
  Proof.
    intros IH IB Hb. unfold do_background. destruct (p_bg s) eqn:E.
    - apply (invh_same s); auto.
    - destruct (h_off s IH (Hb eq_refl)) as [E1 E2]. destruct (b_off g s IB (Hb eq_refl)) as (Ewr&_).
      constructor; cbn.
      + intros K; discriminate.
      + intros r Hr. inversion Hr; subst. cbn. rewrite E1, E2, Ewr. reflexivity.
      + rewrite E1, E2. exists []. reflexivity.
  Qed.

  Hypothesis Hsrv : forall c, cmd_served_ok (g_r2ps g) (g_srv g) c = true.
  Hypothesis Hver : g_ver g <> 6%Z.

  Lemma exp_from_app o i l1 l2 : exp_from o i (l1 ++ l2) = exp_from o i l1 ++ exp_from o (i + List.length l1) l2.
  Proof.
    revert i. induction l1 as [|c l1 IH]; intros i; cbn; [now rewrite Nat.add_0_r|].
    rewrite IH. do 2 f_equal. f_equal. lia.
  Qed.

  Lemma invh_rstep s s' : InvA s -> InvB g s -> InvB g s' -> InvH s -> pstep g s LRStep = Some s' -> InvH s'.
  Proof.
    intros IA IB IB' IH H.
    destruct (rstep_effect g Hsrv Hver s s' IB H) as (r&r'&Eb&Eb'&Hpend&Hwlog&Hpc&Hcomp&Heff).
    pose proof (h_read s IH r Eb) as Hr.
    destruct Heff as [(D1&D2&D3&D4&D5)|(c&L&EL&Edl&EL'&Hland&Hfull)].
    - constructor.
      + rewrite Eb'. intros K; discriminate.
      + intros r0 K. rewrite Eb' in K. inversion K; subst r0. rewrite Hwlog, D1, D2, D3, D4, D5. exact Hr.
      + rewrite Hwlog, D1. apply (h_pre s IH).
    - assert (Hnew : expected (p_wlog s') =
                     p_dlog s' ++ exp_from (r_owner r') (r_ff r') (skipn (r_ff r') (r_multi r')) ++ flat_map exp_slot (q_wr (p_q s'))).
      { rewrite Hwlog, Hr, Edl, <- app_assoc. f_equal.
        destruct Hland as [(W1&W2&W3&W4&W5)|(sl&W1&W2&W3&W4&W5)].
        - rewrite W1, W2, W3, W4. cbn [pred].
          destruct (skipn (r_ff r) (r_multi r)) as [|c0 rest] eqn:Esk.
          + exfalso. assert (K : List.length (skipn (r_ff r) (r_multi r)) = 0%nat) by now rewrite Esk. rewrite skipn_length in K. lia.
          + cbn [app] in EL. inversion EL; subst c0.
            apply skipn_cons_nth in Esk as [_ Esk]. rewrite Esk. cbn [exp_from app]. reflexivity.
        - rewrite W1, W2, W3, W4, W5, skipn_all. cbn [exp_from app flat_map pred].
          rewrite W5, skipn_all in EL. cbn [app] in EL.
          destruct (s_cmds sl) as [|c0 rest] eqn:Ecs.
          + exfalso. destruct (b_cur g s' IB' r' Eb') as (_&_&K&_). rewrite W3, W4 in K. cbn in K. lia.
          + rewrite W1 in EL. cbn [flat_map] in EL. rewrite Ecs in EL. cbn [app] in EL. injection EL as Ec _. subst c0.
            unfold exp_slot. rewrite Ecs. cbn [exp_from skipn app]. reflexivity. }
      constructor.
      + rewrite Eb'. intros K; discriminate.
      + intros r0 K. rewrite Eb' in K. inversion K; subst r0. exact Hnew.
      + eexists. exact Hnew.
  Qed.


  Lemma expected_app l1 l2 : expected (l1 ++ l2) = expected l1 ++ expected l2.
  Proof. unfold expected. apply flat_map_app. Qed.

  Lemma invh_step s l s' : InvA s -> InvB g s -> InvH s -> pstep g s l = Some s' -> InvH s'.
  Proof.
    intros IA IB IH H.
    assert (IB' : InvB g s') by (eapply invb_step; eauto).
    assert (Hbo : p_bg s = false -> p_b s = BOff) by (intros K; apply (a_bgw s IA K)).
    destruct l; try (eapply invh_rstep; eauto; fail); cbn [pstep] in H.
    - break_step H. inversion H; subst. apply (invh_same s); auto.
    - break_step H; inversion H; subst; apply (invh_same s); auto.
    - break_step H; inversion H; subst; apply (invh_same s); auto.
    - (* LBg *) break_step H. inversion H; subst; clear H.
      pose proof (invh_do_background s IH IB Hbo) as K.
      apply (invh_same (do_background s)); auto.
    - break_step H. inversion H; subst. apply (invh_same s); auto.
    - break_step H; inversion H; subst; apply (invh_same s); auto.
    - (* LSyncFail *)
      destruct ((match k_pc (p_calls s t) with PSyncW | PSyncR _ => true | _ => false end) &&
                (if ctxerr then match k_ctx (p_calls s t) with CtxDeadline => k_done (p_calls s t) | _ => false end else true)) eqn:G; [|discriminate].
      apply andb_true_iff in G as [G _]. inversion H; subst; clear H.
      assert (Hsy : sync_user (p_calls s t) = true) by exact G.
      destruct (sync_off s t IA Hsy) as [Hbg Hb].
      set (e := if ctxerr then ECtx else EConn).
      set (s0 := set_wire (latch s e true) [] []).
      assert (I0 : InvH s0) by (apply (invh_same s); auto).
      destruct (h_off s IH Hb) as [E1 E2]. destruct (b_off g s IB Hb) as (Ewr&_).
      unfold do_background. cbn. rewrite Hbg. constructor; cbn.
      + intros K; discriminate.
      + intros r Hr. inversion Hr; subst. cbn. rewrite E1, E2, Ewr. reflexivity.
      + rewrite E1, E2. exists []. reflexivity.
    - break_step H. inversion H; subst. apply (invh_same s); auto.
    - break_step H; inversion H; subst; apply (invh_same s); auto.
    - (* LBgAfter *) break_step H. inversion H; subst; clear H.
      pose proof (invh_do_background s IH IB Hbo) as K.
      apply (invh_same (do_background s)); auto.
    - (* LPut *) break_step H. inversion H; subst; clear H.
      unfold q_put in E0. destruct (q_can_put (p_q s)); [|discriminate]. inversion E0; subst. apply (invh_same s); auto.
    - break_step H. inversion H; subst. apply (invh_same s); auto.
    - break_step H. inversion H; subst. apply (invh_same s); auto.
    - break_step H. inversion H; subst. apply (invh_same s); auto.
    - break_step H. inversion H; subst. apply (invh_same s); auto.
    - break_step H. inversion H; subst. apply (invh_same s); auto.
    - break_step H. inversion H; subst. apply (invh_same s); auto.
    - break_step H; inversion H; subst; apply (invh_same s); auto.
    - (* LWNext *)
      destruct (p_w s) eqn:Ew; try discriminate. destruct (wnext_blocked g (p_q s)); [discriminate|].
      unfold q_next_write in H. destruct (q_pend (p_q s)) as [|x p] eqn:Ep; [discriminate|]. inversion H; subst; clear H.
      destruct IH as [h1 h2 h3]. constructor; cbn.
      + intros K. destruct (b_off g s IB K) as (_&_&K'&_). congruence.
      + intros r Hr. rewrite expected_app, (h2 r Hr), flat_map_app. cbn. rewrite app_nil_r, <- !app_assoc. reflexivity.
      + destruct h3 as [rest Hrest]. exists (rest ++ exp_slot x). rewrite expected_app, Hrest. cbn. now rewrite app_nil_r, app_assoc.
    - break_step H. inversion H; subst. apply (invh_same s); auto.
    - break_step H. inversion H; subst. apply (invh_same s); auto.
    - break_step H. inversion H; subst. apply (invh_same s); auto.
    - break_step H. inversion H; subst. apply (invh_same s); auto.
    - (* LRFail *)
      destruct (p_b s) as [|r| | | |] eqn:Eb; try discriminate. break_step H. inversion H; subst; clear H.
      destruct b; apply (invh_post s); cbn; auto; try discriminate; intros r0 K; discriminate.
    - (* LPostSkip *) break_step H. inversion H; subst; clear H. apply (invh_post s); cbn; auto; try discriminate; intros r0 K; discriminate.
    - break_step H. inversion H; subst; clear H. apply (invh_post s); cbn; auto; try discriminate; intros r0 K; discriminate.
    - (* LCleanNW *) destruct (p_b s) eqn:Eb; try discriminate. break_step H. inversion H; subst; clear H.
      apply (invh_post s); cbn; rewrite ?Eb; auto; try discriminate; intros r0 K; discriminate.
    - destruct (p_b s) eqn:Eb; try discriminate. break_step H. inversion H; subst; clear H.
      apply (invh_post s); cbn; rewrite ?Eb; auto; try discriminate; intros r0 K; discriminate.
    - break_step H. inversion H; subst. assumption.
    - break_step H. inversion H; subst; clear H. apply (invh_post s); cbn; auto; try discriminate; intros r0 K; discriminate.
    - break_step H. inversion H; subst; clear H. apply (invh_post s); cbn; auto; try discriminate; intros r0 K; discriminate.
    - break_step H. inversion H; subst. apply (invh_same s); auto.
    - inversion H; subst. apply (invh_same s); auto.
    - break_step H. inversion H; subst. apply (invh_same s); auto.
    - break_step H. inversion H; subst. apply (invh_same s); auto.
    - (* LClose3 *)
      destruct (p_closers s t) as [| |bg ping| | |]; try discriminate. destruct bg.
      + inversion H; subst; clear H. pose proof (invh_do_background s IH IB Hbo) as K.
        apply (invh_same (do_background s)); auto.
      + destruct ping; [discriminate|]. inversion H; subst. apply (invh_same s); auto.
    - break_step H. inversion H; subst. apply (invh_same s); auto.
    - break_step H. inversion H; subst. apply (invh_same s); auto.
    - break_step H. inversion H; subst. apply (invh_same s); auto.
  Qed.

  Theorem hist_run sched : forall s s', InvA s -> InvB g s -> InvH s -> prun g sched s = Some s' -> InvA s' /\ InvB g s' /\ InvH s'.
  Proof.
    induction sched as [|l r IH]; intros s s' IA IB IHh H; cbn [prun] in H.
    - inversion H; subst; auto.
    - destruct (pstep g s l) as [s1|] eqn:E; [|discriminate]. eapply IH; [| | |exact H].
      + eapply inva_step; eauto.
      + eapply invb_step; eauto.
      + eapply invh_step; eauto.
  Qed.

  (** the delivery log is an initial segment of what the dequeued slots call for; while the reader
      runs, the remainder is exactly what is still to be delivered to the slot being filled and to the
      written slots, in order *)
  Theorem no_loss_no_dup sched s :
    prun g sched (p_init g) = Some s ->
    (exists rest, expected (p_wlog s) = p_dlog s ++ rest) /\
    (forall r, p_b s = BRead r ->
       expected (p_wlog s) =
       p_dlog s ++ exp_from (r_owner r) (r_ff r) (skipn (r_ff r) (r_multi r)) ++ flat_map exp_slot (q_wr (p_q s))).
  Proof.
    intros H. destruct (hist_run sched _ _ (inva_init g) (invb_init g) invh_init H) as (_&_&IH).
    split; [apply (h_pre s IH)|apply (h_read s IH)].
  Qed.
End Hist.
