From Coq Require Import List NArith ZArith Bool Lia Arith ZifyN ZifyNat ZifyBool.
Require Import RV.Model.Base RV.Model.Binary RV.Model.CacheCodec.
Require Import RV.Proofs.BinaryProofs RV.Proofs.RespMsgProofs.
Import ListNotations.
Open Scope N_scope.

(** * big-endian words *)

Lemma be_bytes_length k w : length (be_bytes k w) = k.
Proof. induction k as [|k IH]; cbn [be_bytes length]; [reflexivity|now rewrite IH]. Qed.

Lemma of_be_aux k : forall w acc,
  fold_left (fun a b => a * 256 + b) (be_bytes k w) acc = acc * 256 ^ N.of_nat k + w mod 256 ^ N.of_nat k.
Proof.
  induction k as [|k IH]; intros w acc.
  - cbn. rewrite N.mod_1_r. lia.
  - cbn [be_bytes fold_left]. rewrite IH.
    rewrite Nat2N.inj_succ, N.pow_succ_r'.
    set (p := 256 ^ N.of_nat k).
    assert (Hp : p <> 0) by (unfold p; apply N.pow_nonzero; lia).
    rewrite (N.mul_comm 256 p).
    rewrite (N.mod_mul_r w p 256) by lia.
    lia.
Qed.

Lemma of_be_be_bytes k w : w < 256 ^ N.of_nat k -> of_be (be_bytes k w) = w.
Proof. intros H. unfold of_be. rewrite of_be_aux. rewrite N.mod_small by assumption. lia. Qed.

(** * int64 <-> uint64 *)

Lemma wrap64_to_u64 v : in_i64 v -> wrap64 (Z.of_N (to_u64 v)) = v.
Proof.
  unfold in_i64, wrap64, to_u64, two63, two64. intros H.
  rewrite Z2N.id by (apply Z.mod_pos_bound; lia).
  rewrite Z.mod_mod by lia.
  destruct (Z.ltb_spec v 0) as [Hn|Hp].
  - assert (E : (v mod 18446744073709551616 = v + 18446744073709551616)%Z).
    { symmetry. apply (Z.mod_unique v _ (-1)); lia. }
    rewrite E. destruct (Z.ltb_spec (v + 18446744073709551616) 9223372036854775808); lia.
  - rewrite Z.mod_small by lia. destruct (Z.ltb_spec v 9223372036854775808); lia.
Qed.

Lemma to_u64_bound v : to_u64 v < 256 ^ N.of_nat 8.
Proof.
  unfold to_u64, two64.
  pose proof (Z.mod_pos_bound v 18446744073709551616 ltac:(lia)).
  change (256 ^ N.of_nat 8) with 18446744073709551616. lia.
Qed.

Lemma wrap64_small x : (0 <= x < two63)%Z -> wrap64 x = x.
Proof.
  unfold wrap64, two63, two64. intros H. rewrite Z.mod_small by lia.
  destruct (Z.ltb_spec x 9223372036854775808); lia.
Qed.

(** * list plumbing *)

Lemma zlen_app {A} (a b : list A) : zlen (a ++ b) = (zlen a + zlen b)%Z.
Proof. unfold zlen. rewrite app_length. lia. Qed.

Lemma zlen_nonneg {A} (a : list A) : (0 <= zlen a)%Z.
Proof. unfold zlen. lia. Qed.

Lemma to_nat_zlen {A} (a : list A) : Z.to_nat (zlen a) = length a.
Proof. unfold zlen. lia. Qed.

Lemma slice_mid pre mid post : slice (pre ++ mid ++ post) (zlen pre) (length mid) = mid.
Proof. unfold slice. rewrite to_nat_zlen, skipn_app_exact. apply firstn_app_exact. Qed.

Lemma nth_mid pre (x : N) post d : nth (Z.to_nat (zlen pre)) (pre ++ x :: post) d = x.
Proof. rewrite to_nat_zlen. rewrite app_nth2 by lia. now rewrite Nat.sub_diag. Qed.

Definition hdr (t w : N) : bytes := t :: be_bytes 8 w.

Lemma hdr_length t w : length (hdr t w) = 9%nat.
Proof. unfold hdr. cbn [length]. now rewrite be_bytes_length. Qed.

Lemma zlen_hdr t w : zlen (hdr t w) = 9%Z.
Proof. unfold zlen. now rewrite hdr_length. Qed.

Definition body (m : msg) : bytes :=
  match m with
  | Msg t s i a _ =>
    if is_intlike t then [] else if is_agg t then flat_map serialize a else s
  end.

Definition word (m : msg) : N :=
  match m with
  | Msg t s i a _ =>
    if is_intlike t then to_u64 i else if is_agg t then N.of_nat (length a) else blen s
  end.

Lemma serialize_split m : serialize m = hdr (m_typ m) (word m) ++ body m.
Proof.
  destruct m as [t s i a at']. cbn [serialize m_typ word body hdr app].
  destruct (is_intlike t); [now rewrite app_nil_r|]. destruct (is_agg t); reflexivity.
Qed.

Lemma serialize_length_ge m : (9 <= length (serialize m))%nat.
Proof. rewrite serialize_split, app_length, hdr_length. lia. Qed.

Lemma flat_serialize_length_ge l : (9 * length l <= length (flat_map serialize l))%nat.
Proof.
  induction l as [|x r IH]; cbn [flat_map length]; [lia|].
  rewrite app_length. pose proof (serialize_length_ge x). lia.
Qed.

(** * unfolding equations *)

Lemma um_S f c buf : um (S f) c buf =
    if (zlen buf <? c + 9)%Z then Err eCacheUnmarshal
    else
      let typ := nth (Z.to_nat c) buf 0 in
      let size := wrap64 (Z.of_N (of_be (slice buf (c + 1) 8))) in
      let c := (c + 9)%Z in
      if is_intlike typ then Ok (Msg typ [] size [] None, c)
      else if is_agg typ then
        if ((size <? 0) || (max_msgs <? size))%Z then Panic
        else
          match um_list f (Z.to_N size) c buf with
          | Ok (l, c') => Ok (Msg typ [] size l None, c')
          | Err e => Err e
          | Panic => Panic
          end
      else
        let e := wrap64 (c + size) in
        if (zlen buf <? e)%Z then Err eCacheUnmarshal
        else if (e <? c)%Z then Panic
        else Ok (Msg typ (slice buf c (Z.to_nat size)) size [] None, e).
Proof. reflexivity. Qed.

Lemma um_list_S f n c buf : um_list (S f) n c buf =
    if n =? 0 then Ok ([], c)
    else
      match um f c buf with
      | Ok (m, c1) =>
        match um_list f (n - 1) c1 buf with
        | Ok (l, c2) => Ok (m :: l, c2)
        | Err e => Err e
        | Panic => Panic
        end
      | Err e => Err e
      | Panic => Panic
      end.
Proof. reflexivity. Qed.

(** reading the 9-byte header that [serialize] wrote *)
Lemma header_read pre t w rest :
  w < 256 ^ N.of_nat 8 ->
  let buf := pre ++ hdr t w ++ rest in
  (zlen buf <? zlen pre + 9)%Z = false /\
  nth (Z.to_nat (zlen pre)) buf 0 = t /\
  of_be (slice buf (zlen pre + 1) 8) = w.
Proof.
  intros Hw buf. subst buf. repeat split.
  - rewrite !zlen_app. unfold zlen at 2. rewrite hdr_length. pose proof (zlen_nonneg rest). lia.
  - unfold hdr. cbn [app]. apply nth_mid.
  - unfold hdr. cbn [app].
    replace (pre ++ t :: be_bytes 8 w ++ rest) with ((pre ++ [t]) ++ be_bytes 8 w ++ rest)
      by (rewrite <- app_assoc; reflexivity).
    replace (zlen pre + 1)%Z with (zlen (pre ++ [t])) by (rewrite zlen_app; reflexivity).
    rewrite <- (be_bytes_length 8 w) at 2. rewrite slice_mid. now apply of_be_be_bytes.
Qed.

(** * fuel *)

Fixpoint cost (m : msg) : nat :=
  match m with
  | Msg _ _ _ a _ =>
    S (S ((fix cl (l : list msg) : nat := match l with [] => O | x :: r => (S (cost x) + cl r)%nat end) a))
  end.

Definition cost_l (l : list msg) : nat := fold_right (fun x acc => S (cost x) + acc)%nat O l.

Lemma cost_eq t s i a at' : cost (Msg t s i a at') = S (S (cost_l a)).
Proof.
  cbn [cost]. apply f_equal. apply f_equal.
  induction a as [|x r IH]; [reflexivity|]. cbn [cost_l fold_right]. fold (cost_l r). now rewrite <- IH.
Qed.

(** * the shape of cacheable messages *)

Lemma cacheable_inv t s i a at' : cacheable (Msg t s i a at') = true ->
  at' = None /\
  (if is_intlike t then in_i64 i /\ s = [] /\ a = []
   else if is_agg t then i = zlen a /\ s = [] /\ Forall (fun x => cacheable x = true) a
   else i = zlen s /\ a = []).
Proof.
  cbn [cacheable]. intros H.
  apply andb_true_iff in H as [Hat H].
  split; [destruct at'; [discriminate|reflexivity]|].
  destruct (is_intlike t).
  - apply andb_true_iff in H as [H Ha]. apply andb_true_iff in H as [Hi Hs].
    split; [|split].
    + unfold in_i64b in Hi. unfold in_i64. lia.
    + destruct s; [reflexivity|discriminate].
    + destruct a; [reflexivity|discriminate].
  - destruct (is_agg t).
    + apply andb_true_iff in H as [H Ha]. apply andb_true_iff in H as [Hi Hs].
      split; [lia|]. split; [destruct s; [reflexivity|discriminate]|].
      apply Forall_forall. intros x Hx. rewrite forallb_forall in Ha. now apply Ha.
    + apply andb_true_iff in H as [Hi Ha]. split; [lia|destruct a; [reflexivity|discriminate]].
Qed.

Lemma cost_le_length : forall m, cacheable m = true -> (cost m + 1 <= length (serialize m))%nat.
Proof.
  induction m as [t s i a at' IHa _] using msg_ind'. intros Hc.
  apply cacheable_inv in Hc as [_ Hc].
  rewrite cost_eq, serialize_split, app_length, hdr_length. cbn [body m_typ].
  destruct (is_intlike t).
  - destruct Hc as (_ & _ & ->). cbn. lia.
  - destruct (is_agg t).
    + destruct Hc as (_ & _ & Hall).
      assert (cost_l a <= length (flat_map serialize a))%nat.
      { clear - IHa Hall. induction a as [|x r IH]; cbn [cost_l fold_right flat_map length]; [lia|].
        inversion IHa; inversion Hall; subst. rewrite app_length. fold (cost_l r).
        specialize (IH ltac:(assumption) ltac:(assumption)). specialize (H1 ltac:(assumption)). lia. }
      lia.
    + destruct Hc as (_ & ->). cbn. lia.
Qed.

(** buffers are Go slices: their length is far below 2^63; the codec needs much less *)
Definition buf_bound : Z := 35184372088832%Z.   (* 2^45 *)

(** * round trip *)

Definition rt_P (m : msg) : Prop :=
  cacheable m = true -> forall pre post fuel,
    (cost m <= fuel)%nat ->
    (zlen (pre ++ serialize m ++ post) < buf_bound)%Z ->
    um fuel (zlen pre) (pre ++ serialize m ++ post) = Ok (m, (zlen pre + zlen (serialize m))%Z).

Lemma um_list_roundtrip : forall l, Forall rt_P l -> Forall (fun x => cacheable x = true) l ->
  forall pre post fuel,
    (S (cost_l l) <= fuel)%nat ->
    (zlen (pre ++ flat_map serialize l ++ post) < buf_bound)%Z ->
    um_list fuel (N.of_nat (length l)) (zlen pre) (pre ++ flat_map serialize l ++ post) =
    Ok (l, (zlen pre + zlen (flat_map serialize l))%Z).
Proof.
  induction l as [|x r IH]; intros HP Hc pre post fuel Hf Hb.
  - destruct fuel as [|f]; [lia|]. rewrite um_list_S. cbn. f_equal. f_equal. unfold zlen. cbn. lia.
  - destruct fuel as [|f]; [lia|]. rewrite um_list_S.
    inversion HP as [|? ? HPx HPr]; inversion Hc as [|? ? Hcx Hcr]; subst.
    cbn [length]. destruct (N.eqb_spec (N.of_nat (S (length r))) 0) as [E|_]; [lia|].
    cbn [flat_map] in *. rewrite <- app_assoc in *.
    cbn [cost_l fold_right] in Hf. fold (cost_l r) in Hf.
    rewrite (HPx Hcx pre (flat_map serialize r ++ post) f) by (try lia; assumption).
    replace (N.of_nat (S (length r)) - 1) with (N.of_nat (length r)) by lia.
    rewrite <- zlen_app.
    replace (pre ++ serialize x ++ flat_map serialize r ++ post)
      with ((pre ++ serialize x) ++ flat_map serialize r ++ post) in * by (now rewrite <- app_assoc).
    rewrite (IH HPr Hcr (pre ++ serialize x) post f) by (try lia; assumption).
    f_equal. f_equal. rewrite !zlen_app. lia.
Qed.

Lemma um_roundtrip : forall m, rt_P m.
Proof.
  induction m as [t s i a at' IHa _] using msg_ind'. intros Hc pre post fuel Hf Hb.
  pose proof (cacheable_inv _ _ _ _ _ Hc) as [-> Hshape].
  rewrite cost_eq in Hf. destruct fuel as [|f]; [lia|].
  rewrite serialize_split in *. cbn [m_typ] in *.
  set (w := word (Msg t s i a None)) in *.
  set (bd := body (Msg t s i a None)) in *.
  rewrite <- app_assoc in *.
  rewrite um_S.
  assert (Hw : w < 256 ^ N.of_nat 8).
  { subst w bd. cbn [word body] in *. destruct (is_intlike t); [apply to_u64_bound|].
    change (256 ^ N.of_nat 8) with 18446744073709551616.
    rewrite !zlen_app in Hb. unfold buf_bound in Hb.
    pose proof (zlen_nonneg pre). pose proof (zlen_nonneg post).
    pose proof (zlen_nonneg (hdr t (if is_agg t then N.of_nat (length a) else blen s))).
    destruct (is_agg t).
    - pose proof (flat_serialize_length_ge a). unfold zlen in *. lia.
    - unfold zlen, blen in *. lia. }
  destruct (header_read pre t w (bd ++ post) Hw) as (H1 & H2 & H3).
  rewrite H1, H2, H3. cbv zeta.
  rewrite !zlen_app, zlen_hdr in Hb.
  pose proof (zlen_nonneg pre) as Hpre. pose proof (zlen_nonneg post) as Hpost.
  unfold buf_bound in Hb.
  subst w bd. cbn [word body] in *.
  destruct (is_intlike t) eqn:Eint.
  - destruct Hshape as (Hi & -> & ->).
    rewrite wrap64_to_u64 by assumption. rewrite ?app_nil_r, ?zlen_app, ?zlen_hdr. reflexivity.
  - destruct (is_agg t) eqn:Eagg.
    + destruct Hshape as (-> & -> & Hall).
      pose proof (flat_serialize_length_ge a) as Hge.
      assert (Hsz : wrap64 (Z.of_N (N.of_nat (length a))) = zlen a).
      { rewrite wrap64_small; unfold zlen, two63 in *; lia. }
      rewrite Hsz.
      destruct (Z.ltb_spec (zlen a) 0) as [Hneg|_]; [unfold zlen in Hneg; lia|].
      destruct (Z.ltb_spec max_msgs (zlen a)) as [Hbig|_].
      { unfold max_msgs in Hbig. cbn in Hbig. unfold zlen in *. lia. }
      cbn [orb].
      replace (Z.to_N (zlen a)) with (N.of_nat (length a)) by (unfold zlen; lia).
      replace (pre ++ hdr t (N.of_nat (length a)) ++ flat_map serialize a ++ post)
        with ((pre ++ hdr t (N.of_nat (length a))) ++ flat_map serialize a ++ post) by (now rewrite <- app_assoc).
      replace (zlen pre + 9)%Z with (zlen (pre ++ hdr t (N.of_nat (length a))))
        by (rewrite zlen_app, zlen_hdr; lia).
      rewrite (um_list_roundtrip a IHa Hall).
      * f_equal. f_equal. rewrite !zlen_app, zlen_hdr. lia.
      * lia.
      * rewrite !zlen_app, zlen_hdr. unfold buf_bound. lia.
    + destruct Hshape as (-> & ->).
      assert (Hsz : wrap64 (Z.of_N (blen s)) = zlen s).
      { rewrite wrap64_small; unfold zlen, blen, two63 in *; lia. }
      rewrite Hsz.
      pose proof (zlen_nonneg s) as Hs.
      rewrite wrap64_small by (unfold two63; lia).
      destruct (Z.ltb_spec (zlen (pre ++ hdr t (blen s) ++ s ++ post)) (zlen pre + 9 + zlen s)) as [Hx|_].
      { rewrite !zlen_app, zlen_hdr in Hx. lia. }
      destruct (Z.ltb_spec (zlen pre + 9 + zlen s) (zlen pre + 9)) as [Hx|_]; [lia|].
      rewrite to_nat_zlen.
      replace (pre ++ hdr t (blen s) ++ s ++ post) with ((pre ++ hdr t (blen s)) ++ s ++ post) by (now rewrite <- app_assoc).
      replace (zlen pre + 9)%Z with (zlen (pre ++ hdr t (blen s)))
        by (rewrite zlen_app, zlen_hdr; lia).
      rewrite slice_mid. f_equal. f_equal. rewrite !zlen_app, zlen_hdr. lia.
Qed.

(** * size *)

Lemma serialize_length : forall m, N.of_nat (length (serialize m)) = cachesize m.
Proof.
  induction m as [t s i a at' IHa _] using msg_ind'.
  cbn [serialize cachesize length].
  destruct (is_intlike t); [rewrite be_bytes_length; lia|].
  destruct (is_agg t).
  - rewrite app_length, be_bytes_length.
    assert (N.of_nat (length (flat_map serialize a)) = fold_right (fun x acc => cachesize x + acc) 0 a).
    { clear - IHa. induction IHa as [|x r Hx Hr IH]; cbn [flat_map fold_right length]; [reflexivity|].
      rewrite app_length. lia. }
    lia.
  - rewrite app_length, be_bytes_length. unfold blen. lia.
Qed.

(** * truncation *)

Lemma firstn_app_ge {A} (l1 l2 : list A) j : (length l1 <= j)%nat ->
  firstn j (l1 ++ l2) = l1 ++ firstn (j - length l1) l2.
Proof. intros H. rewrite firstn_app. now rewrite firstn_all2 by lia. Qed.

Lemma firstn_app_lt {A} (l1 l2 : list A) j : (j <= length l1)%nat ->
  firstn j (l1 ++ l2) = firstn j l1.
Proof. intros H. rewrite firstn_app. replace (j - length l1)%nat with O by lia. cbn. now rewrite app_nil_r. Qed.

Definition tr_P (m : msg) : Prop :=
  cacheable m = true -> forall pre j fuel,
    (j < length (serialize m))%nat ->
    (j + 2 <= fuel)%nat ->
    (zlen (pre ++ serialize m) < buf_bound)%Z ->
    um fuel (zlen pre) (pre ++ firstn j (serialize m)) = Err eCacheUnmarshal.

Lemma um_short pre rest fuel : (length rest < 9)%nat -> (1 <= fuel)%nat ->
  um fuel (zlen pre) (pre ++ rest) = Err eCacheUnmarshal.
Proof.
  intros H Hf. destruct fuel as [|f]; [lia|]. rewrite um_S.
  rewrite zlen_app. destruct (Z.ltb_spec (zlen pre + zlen rest) (zlen pre + 9)) as [_|Hx]; [reflexivity|].
  unfold zlen in Hx. lia.
Qed.

Lemma um_list_trunc : forall l, Forall tr_P l -> Forall (fun x => cacheable x = true) l ->
  forall pre j fuel,
    (j < length (flat_map serialize l))%nat ->
    (j + 3 <= fuel)%nat ->
    (zlen (pre ++ flat_map serialize l) < buf_bound)%Z ->
    um_list fuel (N.of_nat (length l)) (zlen pre) (pre ++ firstn j (flat_map serialize l)) = Err eCacheUnmarshal.
Proof.
  induction l as [|x r IH]; intros HP Hc pre j fuel Hj Hf Hb.
  - cbn in Hj. lia.
  - destruct fuel as [|f]; [lia|]. rewrite um_list_S.
    inversion HP as [|? ? HPx HPr]; inversion Hc as [|? ? Hcx Hcr]; subst.
    cbn [length]. destruct (N.eqb_spec (N.of_nat (S (length r))) 0) as [E|_]; [lia|].
    cbn [flat_map] in *.
    destruct (Nat.lt_ge_cases j (length (serialize x))) as [Hlt|Hge].
    + rewrite firstn_app_lt by lia.
      rewrite (HPx Hcx pre j f); [reflexivity|lia|lia|].
      rewrite app_assoc, zlen_app in Hb. pose proof (zlen_nonneg (flat_map serialize r)). lia.
    + rewrite firstn_app_ge by lia.
      pose proof (cost_le_length x Hcx) as Hcost.
      pose proof (serialize_length_ge x) as H9.
      rewrite (um_roundtrip x Hcx pre (firstn (j - length (serialize x)) (flat_map serialize r)) f).
      * replace (N.of_nat (S (length r)) - 1) with (N.of_nat (length r)) by lia.
        rewrite <- zlen_app. rewrite app_assoc.
        rewrite (IH HPr Hcr (pre ++ serialize x) (j - length (serialize x))%nat f); [reflexivity| |lia|].
        -- rewrite app_length in Hj. lia.
        -- now rewrite <- app_assoc.
      * lia.
      * eapply Z.le_lt_trans; [|exact Hb]. rewrite !zlen_app.
        unfold zlen. rewrite firstn_length. lia.
Qed.

Lemma um_trunc : forall m, tr_P m.
Proof.
  induction m as [t s i a at' IHa _] using msg_ind'. intros Hc pre j fuel Hj Hf Hb.
  pose proof (cacheable_inv _ _ _ _ _ Hc) as [-> Hshape].
  rewrite serialize_split in *. cbn [m_typ] in *.
  set (w := word (Msg t s i a None)) in *.
  set (bd := body (Msg t s i a None)) in *.
  rewrite app_length, hdr_length in Hj.
  destruct (Nat.lt_ge_cases j 9) as [Hlt|Hge].
  { apply um_short; [|lia]. rewrite firstn_length. lia. }
  rewrite firstn_app_ge by (rewrite hdr_length; lia). rewrite hdr_length.
  destruct fuel as [|f]; [lia|]. rewrite um_S.
  rewrite !zlen_app in Hb. unfold zlen at 2 in Hb. rewrite hdr_length in Hb. unfold buf_bound in Hb.
  pose proof (zlen_nonneg pre) as Hpre.
  assert (Hw : w < 256 ^ N.of_nat 8).
  { subst w bd. cbn [word body] in *. destruct (is_intlike t); [apply to_u64_bound|].
    change (256 ^ N.of_nat 8) with 18446744073709551616.
    destruct (is_agg t).
    - pose proof (flat_serialize_length_ge a). unfold zlen in *. lia.
    - unfold zlen, blen in *. lia. }
  destruct (header_read pre t w (firstn (j - 9) bd) Hw) as (H1 & H2 & H3).
  rewrite H1, H2, H3. cbv zeta.
  subst w bd. cbn [word body] in *.
  destruct (is_intlike t) eqn:Eint.
  - cbn in Hj. lia.
  - destruct (is_agg t) eqn:Eagg.
    + destruct Hshape as (-> & -> & Hall).
      pose proof (flat_serialize_length_ge a) as Hge9.
      assert (Hsz : wrap64 (Z.of_N (N.of_nat (length a))) = zlen a).
      { rewrite wrap64_small; unfold zlen, two63 in *; lia. }
      rewrite Hsz.
      destruct (Z.ltb_spec (zlen a) 0) as [Hneg|_]; [unfold zlen in Hneg; lia|].
      destruct (Z.ltb_spec max_msgs (zlen a)) as [Hbig|_].
      { unfold max_msgs in Hbig. cbn in Hbig. unfold zlen in *. lia. }
      cbn [orb].
      replace (Z.to_N (zlen a)) with (N.of_nat (length a)) by (unfold zlen; lia).
      rewrite app_assoc.
      replace (zlen pre + 9)%Z with (zlen (pre ++ hdr t (N.of_nat (length a))))
        by (rewrite zlen_app; unfold zlen at 2; rewrite hdr_length; lia).
      rewrite (um_list_trunc a IHa Hall); try lia; [reflexivity|].
      rewrite !zlen_app. unfold zlen at 2. rewrite hdr_length. unfold buf_bound. lia.
    + destruct Hshape as (-> & ->).
      assert (Hsz : wrap64 (Z.of_N (blen s)) = zlen s).
      { rewrite wrap64_small; unfold zlen, blen, two63 in *; lia. }
      rewrite Hsz.
      rewrite wrap64_small by (unfold two63; pose proof (zlen_nonneg s); lia).
      destruct (Z.ltb_spec (zlen (pre ++ hdr t (blen s) ++ firstn (j - 9) s)) (zlen pre + 9 + zlen s)) as [_|Hx]; [reflexivity|].
      rewrite !zlen_app, zlen_hdr in Hx. unfold zlen in Hx. rewrite firstn_length in Hx. lia.
Qed.

(** * expiry field *)

Lemma expire_roundtrip pxat : get_expire_at (set_expire_at pxat) = (pxat mod two56)%Z.
Proof.
  unfold get_expire_at, set_expire_at.
  rewrite of_le_le_bytes.
  - rewrite Z2N.id; [reflexivity|]. apply Z.mod_pos_bound. reflexivity.
  - pose proof (Z.mod_pos_bound pxat two56 ltac:(reflexivity)) as H.
    change (256 ^ N.of_nat 7) with 72057594037927936. unfold two56 in *. lia.
Qed.

Lemma set_expire_length pxat : length (set_expire_at pxat) = 7%nat.
Proof. apply le_bytes_length. Qed.

(** * top level *)

Lemma cache_marshal_length m ttl : length ttl = 7%nat ->
  N.of_nat (length (cache_marshal m ttl)) = cache_size m.
Proof.
  intros H. unfold cache_marshal, cache_size. rewrite app_length, H. rewrite <- serialize_length. lia.
Qed.

Lemma cache_roundtrip m ttl : cacheable m = true -> length ttl = 7%nat ->
  (zlen (cache_marshal m ttl) < buf_bound)%Z ->
  cache_unmarshal_view (cache_marshal m ttl) = Ok (m, get_expire_at ttl).
Proof.
  intros Hc Ht Hb. unfold cache_unmarshal_view, cache_marshal in *.
  rewrite app_length, Ht.
  destruct (Nat.ltb_spec (7 + length (serialize m)) 7) as [Hx|_]; [lia|].
  replace 7%Z with (zlen ttl) by (unfold zlen; rewrite Ht; reflexivity).
  rewrite <- (app_nil_r (serialize m)) at 2.
  rewrite (um_roundtrip m Hc ttl []).
  - rewrite <- Ht. now rewrite firstn_app_exact.
  - pose proof (cost_le_length m Hc). lia.
  - now rewrite app_nil_r.
Qed.

Lemma cache_truncation m ttl k : cacheable m = true -> length ttl = 7%nat ->
  (zlen (cache_marshal m ttl) < buf_bound)%Z ->
  (k < length (cache_marshal m ttl))%nat ->
  cache_unmarshal_view (firstn k (cache_marshal m ttl)) = Err eCacheUnmarshal.
Proof.
  intros Hc Ht Hb Hk. unfold cache_unmarshal_view, cache_marshal in *.
  rewrite app_length, Ht in Hk.
  destruct (Nat.lt_ge_cases k 7) as [Hlt|Hge].
  - rewrite firstn_length, app_length, Ht.
    destruct (Nat.ltb_spec (Nat.min k (7 + length (serialize m))) 7) as [_|Hx]; [reflexivity|lia].
  - rewrite firstn_app_ge by lia. rewrite Ht.
    rewrite app_length, Ht, firstn_length.
    destruct (Nat.ltb_spec (7 + Nat.min (k - 7) (length (serialize m))) 7) as [Hx|_]; [lia|].
    replace 7%Z with (zlen ttl) by (unfold zlen; rewrite Ht; reflexivity).
    rewrite (um_trunc m Hc ttl (k - 7)%nat); [reflexivity|lia|lia|assumption].
Qed.

(** * attributes are not part of the encoding *)

Lemma serialize_strip : forall m, serialize (strip_attrs m) = serialize m.
Proof.
  induction m as [t s i a at' IHa _] using msg_ind'.
  cbn [strip_attrs serialize]. rewrite map_length.
  assert (E : flat_map serialize (map strip_attrs a) = flat_map serialize a).
  { clear - IHa. induction IHa as [|x r Hx Hr IH]; cbn [map flat_map]; [reflexivity|]. now rewrite Hx, IH. }
  now rewrite E.
Qed.

Lemma cachesize_strip m : cachesize (strip_attrs m) = cachesize m.
Proof. now rewrite <- !serialize_length, serialize_strip. Qed.
