(** int64 wrap-around lemmas shared by the RESP family proofs. *)
From Coq Require Import List NArith ZArith Bool Lia.
Require Import RV.Model.Base RV.Model.RespBase.
Open Scope Z_scope.

Lemma wrap64_small_z x : 0 <= x < two63 -> wrap64 x = x.
Proof.
  unfold wrap64, two63, two64. intros H. rewrite Z.mod_small by lia.
  destruct (Z.ltb_spec x 9223372036854775808); lia.
Qed.

Lemma wrap64_id x : in_i64 x -> wrap64 x = x.
Proof.
  unfold in_i64, wrap64, two63, two64. intros H.
  destruct (Z.ltb_spec x 0) as [Hn|Hp].
  - assert (E : x mod 18446744073709551616 = x + 18446744073709551616).
    { symmetry. apply (Z.mod_unique x _ (-1)); lia. }
    rewrite E. destruct (Z.ltb_spec (x + 18446744073709551616) 9223372036854775808); lia.
  - rewrite Z.mod_small by lia. destruct (Z.ltb_spec x 9223372036854775808); lia.
Qed.

Lemma wrap64_range x : in_i64 (wrap64 x).
Proof.
  unfold in_i64, wrap64, two63, two64.
  pose proof (Z.mod_pos_bound x 18446744073709551616 ltac:(lia)).
  destruct (Z.ltb_spec (x mod 18446744073709551616) 9223372036854775808); lia.
Qed.

Lemma zlen_app_b {A} (a b : list A) : zlen (a ++ b) = zlen a + zlen b.
Proof. unfold zlen. rewrite app_length. lia. Qed.
