(** Induction principle for the nested [msg] type and correctness of [msg_eqb]. *)
From Coq Require Import List NArith ZArith Bool Lia.
Require Import RV.Model.Base RV.Model.RespMsg.
Import ListNotations.
Open Scope N_scope.

Section MsgInd.
  Variable P : msg -> Prop.
  Definition optP (o : option msg) : Prop := match o with Some x => P x | None => True end.
  Hypothesis H : forall t s i a at',
    Forall P a -> optP at' -> P (Msg t s i a at').
  Fixpoint msg_ind' (m : msg) : P m :=
    match m with
    | Msg t s i a at' =>
      H t s i a at'
        ((fix go (l : list msg) : Forall P l :=
            match l with
            | [] => Forall_nil P
            | x :: r => Forall_cons x (msg_ind' x) (go r)
            end) a)
        (match at' as o return optP o with
         | Some x => msg_ind' x
         | None => I
         end)
    end.
End MsgInd.

Lemma list_eqb_bytes_true (a b : bytes) : bytes_eqb a b = true <-> a = b.
Proof.
  unfold bytes_eqb. revert b; induction a as [|x a IH]; intros [|y b]; cbn; split; try congruence; try discriminate.
  - intros Hx. apply andb_true_iff in Hx as [H1 H2]. apply N.eqb_eq in H1. apply IH in H2. congruence.
  - intros E. inversion E; subst. rewrite N.eqb_refl. cbn. now apply IH.
Qed.

Lemma msg_eqb_true : forall a b, msg_eqb a b = true <-> a = b.
Proof.
  induction a as [t s i l at' IHl IHat] using msg_ind'; intros [t2 s2 i2 l2 at2].
  cbn [msg_eqb].
  rewrite !andb_true_iff, N.eqb_eq, Z.eqb_eq, list_eqb_bytes_true.
  assert (Hl : forall l2, (fix go (l1 l2 : list msg) {struct l1} : bool :=
       match l1, l2 with
       | [], [] => true
       | x :: r1, y :: r2 => msg_eqb x y && go r1 r2
       | _, _ => false
       end) l l2 = true <-> l = l2).
  { clear - IHl. induction IHl as [|x r Hx Hr IH]; intros [|y r2]; split; try congruence; try discriminate.
    - intros Hb. apply andb_true_iff in Hb as [H1 H2]. apply Hx in H1. apply IH in H2. congruence.
    - intros E. inversion E; subst. apply andb_true_iff. split; [now apply Hx|now apply IH]. }
  rewrite Hl.
  assert (Ha : match at', at2 with Some x, Some y => msg_eqb x y | None, None => true | _, _ => false end = true <-> at' = at2).
  { destruct at' as [x|], at2 as [y|]; split; try congruence; try discriminate.
    - intros Hb. apply IHat in Hb. congruence.
    - intros E. inversion E; subst. now apply IHat. }
  rewrite Ha. split; [intros [[[[-> ->] ->] ->] ->]; reflexivity|intros E; inversion E; auto].
Qed.
