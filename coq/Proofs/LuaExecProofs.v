(** Proofs about Model/LuaExec.v (C30). *)
From Coq Require Import List NArith Bool Lia.
Require Import RV.Model.Base RV.Model.LuaExec.
Import ListNotations.
Open Scope N_scope.

(** case analysis on everything a run of [exec] looks at *)
Ltac split_match :=
  match goal with
  | |- context [match ?t with _ => _ end] =>
    lazymatch t with
    | context [match _ with _ => _ end] => fail
    | _ => destruct t eqn:?
    end
  end.

Ltac grind := repeat (unfold send, serve, next_env, quiet, body_reply, is_ok, is_noscript, sha_cmd, eval_cmd in *;
                     cbn [fst snd known server envq trace cached runs flush_before flt body readonly nosha loadsha
                           send serve next_env quiet body_reply is_ok is_noscript sha_cmd eval_cmd negb andb orb app] in *;
                     try split_match).

Ltac fin tag :=
  first [ exists (@nil N); split; [rewrite app_nil_r; reflexivity|tauto]
        | exists [tag]; split; [reflexivity|tauto]
        | exists [tag; tag]; split; [rewrite <- app_assoc; reflexivity|tauto] ].

(** the body of one Exec runs at most twice, and the run log only grows by this call's tag *)
Lemma exec_runs_bound : forall o x tag,
  exists l, runs (server (fst (exec o x tag))) = runs (server x) ++ l /\ (l = [] \/ l = [tag] \/ l = [tag; tag]).
Proof.
  intros [[] [] []] [[] [[] rn] env tr] tag; unfold exec; grind; try discriminate; fin tag.
Qed.

(** absent a script body that itself replies NOSCRIPT, at most once *)
Lemma exec_at_most_once : forall o x tag,
  (forall e, In e (envq x) -> body e <> BErr ENoScript) ->
  exists l, runs (server (fst (exec o x tag))) = runs (server x) ++ l /\ (l = [] \/ l = [tag]).
Proof.
  intros [[] [] []] [[] [[] rn] env tr] tag; unfold exec; grind; try discriminate; intros H;
  first [ exists (@nil N); split; [rewrite app_nil_r; reflexivity|tauto]
        | exists [tag]; split; [reflexivity|tauto]
        | exfalso; subst;
          match goal with
          | Hb : body ?e = BErr ENoScript |- _ => apply (H e); [cbn [In]; auto|exact Hb]
          end ].
Qed.

(** twice happens only through a body that replied NOSCRIPT, was not faulted, and found the script cached *)
Lemma exec_twice_only_if : forall o x tag l,
  runs (server (fst (exec o x tag))) = runs (server x) ++ l -> l = [tag; tag] ->
  exists e, In e (envq x) /\ body e = BErr ENoScript /\ flt e = FNone.
Proof.
  intros [[] [] []] [[] [[] rn] env tr] tag l; unfold exec; grind; try discriminate; intros H Hl; subst l;
  try (exfalso;
       first [ assert (H0 : rn ++ [] = rn ++ [tag; tag]) by (rewrite app_nil_r; exact H); apply app_inv_head in H0; discriminate
             | rewrite <- ?app_assoc in H; cbn [app] in H; apply app_inv_head in H; discriminate ]);
  subst; match goal with Hb : body ?e = BErr ENoScript |- _ => exists e; split; [cbn [In]; auto|split; [exact Hb|assumption]] end.
Qed.

(** ---- the command sequence of one Exec ---- *)

Definition ckind (p : cmdk * N * reply) : cmdk := fst (fst p).
Definition ctag (p : cmdk * N * reply) : N := snd (fst p).
Definition crep (p : cmdk * N * reply) : reply := snd p.

Definition is_cmd (c : cmdk) (t : N) (p : cmdk * N * reply) : bool := cmdk_eqb (ckind p) c && (ctag p =? t).

(** the decision tree of Exec, as a grammar over the commands one call sends (with their replies):
      [SCRIPT LOAD]?  then  EVAL                    (NoSha scripts)
                         |  EVALSHA                 (reply is not a NOSCRIPT error)
                         |  EVALSHA EVAL            (EVALSHA's reply is a NOSCRIPT error)
    SCRIPT LOAD is sent iff loadSha1 is on and the SHA-1 is not known yet; when it fails nothing else is sent *)
Definition shape_b (o : opts) (kn : bool) (tag : N) (added : list (cmdk * N * reply)) (res : reply) (kn' : bool) : bool :=
  let after (rest : list (cmdk * N * reply)) (kn1 : bool) : bool :=
    Bool.eqb kn' kn1 &&
    match rest with
    | [p] => (nosha o && is_cmd (eval_cmd o) tag p && reply_eqb res (crep p))
             || (negb (nosha o) && kn1 && is_cmd (sha_cmd o) tag p && negb (is_noscript (crep p)) && reply_eqb res (crep p))
    | [p; q] => negb (nosha o) && kn1 && is_cmd (sha_cmd o) tag p && is_noscript (crep p)
                && is_cmd (eval_cmd o) tag q && reply_eqb res (crep q)
    | _ => false
    end in
  if loadsha o && negb kn then
    match added with
    | p :: rest =>
      is_cmd CScriptLoad 0 p &&
      (if is_ok (crep p) then after rest true
       else match rest with [] => reply_eqb res (crep p) && negb kn' | _ => false end)
    | [] => false
    end
  else after added kn.

(** facts read off the sequence: NoSha scripts send EVAL/EVAL_RO only; read-only scripts only the _RO
    commands and the others never; the SHA-1 becomes known exactly by a successful SCRIPT LOAD *)
Definition facts_b (o : opts) (kn : bool) (tag : N) (added : list (cmdk * N * reply)) (res : reply) (kn' : bool) : bool :=
  shape_b o kn tag added res kn'
  && (negb (nosha o) || forallb (fun p => cmdk_eqb (ckind p) (eval_cmd o)) added)
  && forallb (fun p => is_load (ckind p) || Bool.eqb (is_ro (ckind p)) (readonly o)) added
  && (negb kn || forallb (fun p => negb (is_load (ckind p))) added)
  && Bool.eqb kn' (kn || existsb (fun p => is_load (ckind p) && is_ok (crep p)) added)
  && (negb kn || kn')
  (* a non-error reply to EVALSHA, whatever its text, is never followed by EVAL *)
  && (negb (existsb (fun p => is_sha (ckind p) && is_ok (crep p)) added)
      || negb (existsb (fun p => cmdk_eqb (ckind p) (eval_cmd o)) added)).

Lemma errk_eqb_refl : forall e, errk_eqb e e = true.
Proof. destruct e; reflexivity. Qed.

Lemma okind_eqb_refl : forall k, okind_eqb k k = true.
Proof. destruct k; reflexivity. Qed.

Ltac give_added :=
  first [ exists (@nil (cmdk * N * reply)); split; [rewrite app_nil_r; reflexivity|]
        | eexists [_]; split; [reflexivity|]
        | eexists [_; _]; split; [rewrite <- ?app_assoc; reflexivity|]
        | eexists [_; _; _]; split; [rewrite <- ?app_assoc; reflexivity|] ].

(** what the constructors can build: the NoSha constructors take no options (never NoSha + LoadSHA1), and a Lua
    value without SHA-1 is either NoSha or LoadSHA1 *)
Definition consistent (o : opts) (kn : bool) : bool := negb (nosha o && loadsha o) && (nosha o || loadsha o || kn).

Lemma exec_facts : forall o x tag, consistent o (known x) = true ->
  exists added, trace (fst (exec o x tag)) = trace x ++ added /\
    facts_b o (known x) tag added (snd (exec o x tag)) (known (fst (exec o x tag))) = true.
Proof.
  intros [[] [] []] [[] [[] rn] env tr] tag; unfold exec, consistent; grind; try discriminate; intros _;
  give_added; unfold facts_b, shape_b, is_cmd, ckind, ctag, crep;
  cbn [fst snd readonly nosha loadsha negb andb orb forallb existsb is_load is_ro is_sha is_ok is_noscript
       sha_cmd eval_cmd cmdk_eqb reply_eqb errk_eqb okind_eqb Bool.eqb];
  rewrite ?N.eqb_refl, ?errk_eqb_refl, ?okind_eqb_refl; reflexivity.
Qed.

(** ---- ExecMulti ---- *)

Inductive subseq {A : Type} : list A -> list A -> Prop :=
| sub_nil : subseq [] []
| sub_skip : forall x l m, subseq l m -> subseq l (x :: m)
| sub_take : forall x l m, subseq l m -> subseq (x :: l) (x :: m).

Lemma send_one : forall x c t,
  known (fst (send x c t)) = known x /\
  trace (fst (send x c t)) = trace x ++ [(c, t, snd (send x c t))] /\
  (runs (server (fst (send x c t))) = runs (server x) \/
   (runs (server (fst (send x c t))) = runs (server x) ++ [t] /\ is_load c = false)).
Proof.
  intros [kn [ca rn] env tr] c t. unfold send, next_env, serve.
  destruct env as [|e l]; cbn [envq server known trace cached runs flush_before flt body quiet fst snd];
  [|destruct (flush_before e); destruct (flt e)]; destruct c; try destruct ca; cbn [fst snd known trace server runs cached is_load]; auto.
Qed.

Lemma send_all_spec : forall tags x c,
  length (snd (send_all x c tags)) = length tags /\
  known (fst (send_all x c tags)) = known x /\
  trace (fst (send_all x c tags)) = trace x ++ map (fun p => (c, fst p, snd p)) (combine tags (snd (send_all x c tags))) /\
  exists l, runs (server (fst (send_all x c tags))) = runs (server x) ++ l /\ subseq l tags.
Proof.
  induction tags as [|t r IH]; intros x c; cbn [send_all].
  - cbn [fst snd length combine map]. rewrite app_nil_r. repeat split. exists []. rewrite app_nil_r. split; [reflexivity|constructor].
  - pose proof (send_one x c t) as [Hk [Ht Hr]].
    destruct (send x c t) as [x1 rp]. cbn [fst snd] in Hk, Ht, Hr.
    specialize (IH x1 c). destruct (send_all x1 c r) as [x2 rs]. cbn [fst snd] in *.
    destruct IH as [Hl [Hk2 [Ht2 [l [Hr2 Hs]]]]]. cbn [length combine map fst snd].
    split; [f_equal; exact Hl|]. split; [congruence|]. split.
    + rewrite Ht2, Ht, <- app_assoc. reflexivity.
    + destruct Hr as [Hr|[Hr _]]; rewrite Hr2, Hr.
      * exists l. split; [reflexivity|constructor; exact Hs].
      * exists (t :: l). split; [rewrite <- app_assoc; reflexivity|constructor; exact Hs].
Qed.

Definition load_ok (p : cmdk * N * reply) : bool := is_load (ckind p) && is_ok (crep p).

(** ExecMulti: one result per LuaExec, in order; each body at most once, in order; nothing runs when the load fails *)
Lemma exec_multi_spec : forall o x tags, consistent o (known x) = true ->
  let x' := fst (exec_multi o x tags) in
  let rs := snd (exec_multi o x tags) in
  length rs = length tags /\
  ((exists r, nosha o = false /\ is_ok r = false /\ trace x' = trace x ++ [(CScriptLoad, 0, r)] /\
              rs = map (fun _ => r) tags /\ runs (server x') = runs (server x) /\ known x' = known x)
   \/
   (exists pre c,
      ((nosha o = true /\ pre = [] /\ c = eval_cmd o /\ known x' = known x) \/
       (nosha o = false /\ c = sha_cmd o /\ known x' = true /\ exists r, is_ok r = true /\ pre = [(CScriptLoad, 0, r)])) /\
      trace x' = trace x ++ pre ++ map (fun p => (c, fst p, snd p)) (combine tags rs) /\
      exists l, runs (server x') = runs (server x) ++ l /\ subseq l tags)).
Proof.
  intros o x tags Hc. unfold exec_multi. destruct (nosha o) eqn:Hn; cbn [negb].
  - pose proof (send_all_spec tags x (eval_cmd o)) as [Hl [Hk [Ht Hr]]].
    cbn [andb]. destruct (send_all x (eval_cmd o) tags) as [x2 rs]. cbn [fst snd] in *.
    split; [exact Hl|]. right. exists [], (eval_cmd o). split; [left; auto|]. split; [exact Ht|exact Hr].
  - pose proof (send_one x CScriptLoad 0) as [Hk [Ht Hr]].
    destruct (send x CScriptLoad 0) as [x1 r0]. cbn [fst snd] in Hk, Ht, Hr.
    assert (Hrun : runs (server x1) = runs (server x)) by (destruct Hr as [Hr|[_ Hr]]; [exact Hr|discriminate]).
    unfold consistent in Hc. rewrite Hn in Hc. cbn [andb orb negb] in Hc.
    destruct r0 as [v kd|e].
    + (* loaded *)
      set (x1' := if loadsha o then {| known := true; server := server x1; envq := envq x1; trace := trace x1 |} else x1).
      assert (Hk1 : known x1' = true).
      { unfold x1'. destruct (loadsha o); [reflexivity|]. cbn [orb] in Hc. congruence. }
      assert (Ht1 : trace x1' = trace x1) by (unfold x1'; destruct (loadsha o); reflexivity).
      assert (Hr1 : runs (server x1') = runs (server x1)) by (unfold x1'; destruct (loadsha o); reflexivity).
      replace (if loadsha o then ({| known := true; server := server x1; envq := envq x1; trace := trace x1 |}, @None reply) else (x1, None))
        with (x1', @None reply) by (unfold x1'; destruct (loadsha o); reflexivity).
      cbn [andb]. rewrite Hk1.
      pose proof (send_all_spec tags x1' (sha_cmd o)) as [Hl [Hk2 [Ht2 [l [Hr2 Hs]]]]].
      destruct (send_all x1' (sha_cmd o) tags) as [x2 rs]. cbn [fst snd] in *.
      split; [exact Hl|]. right. exists [(CScriptLoad, 0, ROk v kd)], (sha_cmd o). split.
      * right. split; [reflexivity|]. split; [reflexivity|]. split; [congruence|]. exists (ROk v kd). split; reflexivity.
      * split.
        -- rewrite Ht2, Ht1, Ht, <- app_assoc. reflexivity.
        -- exists l. split; [rewrite Hr2, Hr1, Hrun; reflexivity|exact Hs].
    + (* the load failed *)
      cbn [fst snd]. split; [apply map_length|]. left. exists (RErr e).
      split; [reflexivity|]. split; [reflexivity|]. split; [exact Ht|]. split; [reflexivity|]. split; [exact Hrun|exact Hk].
Qed.

(** ---- histories: the SHA-1 is known exactly from the first successful SCRIPT LOAD on ---- *)

Lemma existsb_app_load : forall a b, existsb load_ok (a ++ b) = existsb load_ok a || existsb load_ok b.
Proof. intros. apply existsb_app. Qed.

Lemma lstep_known : forall o x p, consistent o (known x) = true -> loadsha o = true ->
  let x' := fst (lstep o x p) in
  consistent o (known x') = true /\ exists added, trace x' = trace x ++ added /\ known x' = known x || existsb load_ok added.
Proof.
  intros o x p Hc Hls. destruct p as [t|ts]; cbn [lstep].
  - destruct (exec_facts o x t Hc) as [added [Ht Hf]].
    destruct (exec o x t) as [x' r]. cbn [fst snd] in *.
    unfold facts_b in Hf. repeat (apply andb_prop in Hf; destruct Hf as [Hf ?]).
    assert (Hk : known x' = known x || existsb (fun p => is_load (ckind p) && is_ok (crep p)) added) by (apply eqb_prop; assumption).
    split.
    + unfold consistent in *. rewrite Hk. apply andb_prop in Hc. destruct Hc as [Hc1 Hc2]. rewrite Hc1. cbn [andb].
      rewrite Hls. destruct (nosha o); reflexivity.
    + exists added. split; [exact Ht|exact Hk].
  - pose proof (exec_multi_spec o x ts Hc) as Hs. destruct (exec_multi o x ts) as [x' rs]. cbn [fst snd] in *.
    destruct Hs as [_ [[r [Hn [Hr [Ht [_ [_ Hk]]]]]]|[pre [c [Hcase [Ht _]]]]]].
    + split; [rewrite Hk; exact Hc|]. exists [(CScriptLoad, 0, r)]. split; [exact Ht|].
      cbn [existsb load_ok ckind crep fst snd is_load andb]. rewrite Hr, Hk. destruct (known x); reflexivity.
    + destruct Hcase as [[Hn [Hp [_ Hk]]]|[Hn [_ [Hk [r [Hr Hp]]]]]].
      * exfalso. unfold consistent in Hc. rewrite Hn, Hls in Hc. discriminate.
      * split; [unfold consistent; rewrite Hn, Hls, Hk; reflexivity|].
        eexists. split; [exact Ht|]. subst pre. rewrite existsb_app_load.
        cbn [existsb load_ok ckind crep fst snd is_load andb]. rewrite Hr, Hk. cbn [orb]. destruct (known x); reflexivity.
Qed.

Lemma lrun_known : forall o ps x, consistent o (known x) = true -> loadsha o = true ->
  known x = existsb load_ok (trace x) ->
  let x' := fst (lrun o x ps) in
  consistent o (known x') = true /\ known x' = existsb load_ok (trace x') /\ (known x = true -> known x' = true).
Proof.
  intros o ps. induction ps as [|p r IH]; intros x Hc Hls Hinv; cbn [lrun].
  - cbn [fst]. auto.
  - pose proof (lstep_known o x p Hc Hls) as [Hc1 [added [Ht Hk]]].
    destruct (lstep o x p) as [x1 v]. cbn [fst] in *.
    assert (Hinv1 : known x1 = existsb load_ok (trace x1)) by (rewrite Ht, existsb_app_load, <- Hinv; exact Hk).
    specialize (IH x1 Hc1 Hls Hinv1). destruct (lrun o x1 r) as [x2 vs]. cbn [fst] in *.
    destruct IH as [H1 [H2 H3]]. split; [exact H1|]. split; [exact H2|].
    intros Hx. apply H3. rewrite Hk, Hx. reflexivity.
Qed.
