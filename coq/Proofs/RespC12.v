(** C12 glue: split independence of [decode], and the client's own reader on written commands (C14). *)
From Coq Require Import List Arith NArith ZArith Bool Lia.
Require Import RV.Model.Base RV.Model.RespWrite RV.Model.Resp.
Require Import RV.Proofs.RespIOProofs RV.Proofs.RespRoundtrip.
Import ListNotations.
Open Scope N_scope.

(** decoding a stream delivered in arbitrary chunks = decoding the concatenation *)
Theorem decode_split_independent B (chunks : list bytes) :
  decode B (concat chunks) =
  (fst (fst (decode_chunked B chunks)), flat (snd (fst (decode_chunked B chunks))), snd (decode_chunked B chunks)).
Proof.
  unfold decode, decode_chunked.
  rewrite <- (run_chunked_flat B (read_next (fuel_for (length (concat chunks))) None) ([], chunks) 0).
  reflexivity.
Qed.

(** a command written by writeCmd is the canonical encoding of the array of its arguments *)
Definition argv_value (argv : list bytes) : rv := VAgg tArray false (map (VBlob tBlobString) argv).

Lemma write_b_enc s : write_b 36 s = enc (VBlob tBlobString s).
Proof. unfold write_b, write_n. cbn [enc app]. now rewrite <- app_assoc. Qed.

Lemma flat_write_b argv : flat_map (write_b 36) argv = flat_map enc (map (VBlob tBlobString) argv).
Proof. induction argv as [|a r IH]; cbn [flat_map map]; [reflexivity|]. now rewrite write_b_enc, IH. Qed.

Lemma write_cmd_enc argv : write_cmd argv = enc (argv_value argv).
Proof.
  unfold write_cmd, argv_value, write_n. cbn [enc]. unfold agg_header, agg_trailer.
  change (is_pair_type tArray) with false. cbv iota.
  rewrite map_length, app_nil_r, flat_write_b. cbn [app]. now rewrite <- app_assoc.
Qed.

Lemma forallb_wf_blobs argv : Forall (fun a => blob_ok a = true) argv ->
  forallb wf (map (VBlob tBlobString) argv) = true.
Proof.
  induction 1 as [|a r Hx Hr IH]; cbn [map forallb wf]; [reflexivity|].
  rewrite Hx, IH. reflexivity.
Qed.

Lemma argv_value_wf argv :
  Forall (fun a => blob_ok a = true) argv -> agg_ok argv = true -> wf (argv_value argv) = true.
Proof.
  intros Ha Hn. cbn [wf argv_value].
  assert (E : agg_ok (map (VBlob tBlobString) argv) = true) by (unfold agg_ok, zlen in *; now rewrite map_length).
  rewrite E, (forallb_wf_blobs argv Ha). reflexivity.
Qed.

Theorem decode_write_cmd B argv rest : (32 <= B)%nat ->
  Forall (fun a => blob_ok a = true) argv -> agg_ok argv = true ->
  fst (decode B (write_cmd argv ++ rest)) =
  (Ok (Msg tArray [] (zlen argv) (map (fun a => Msg tBlobString a (zlen a) [] None) argv) None), rest).
Proof.
  intros HB Ha Hn. rewrite write_cmd_enc, decode_roundtrip by (auto using argv_value_wf).
  cbn [abs argv_value]. unfold zlen. rewrite map_length, map_map. reflexivity.
Qed.
