(** List lemmas and the specification of [eval] used by the pool proofs. *)
From Coq Require Import List NArith ZArith Bool Arith Lia.
Require Import RV.Model.Base RV.Model.Pool.
Import ListNotations.
Open Scope Z_scope.

Lemma memb_In : forall x l, memb x l = true <-> In x l.
Proof.
  intros x l. induction l as [|y r IH]; cbn [memb In].
  - split; [discriminate|tauto].
  - rewrite orb_true_iff, IH, Nat.eqb_eq. split; intros [H|H]; auto.
Qed.

Lemma memb_false_In : forall x l, memb x l = false <-> ~ In x l.
Proof.
  intros x l. rewrite <- memb_In. destruct (memb x l); split; intro H; try discriminate; try reflexivity.
  - exfalso. apply H. reflexivity.
Qed.

Lemma remove1_length : forall x l, memb x l = true -> S (length (remove1 x l)) = length l.
Proof.
  intros x l. induction l as [|y r IH]; cbn [memb remove1 length]; [discriminate|].
  intro H. destruct (Nat.eqb x y) eqn:E; [reflexivity|].
  cbn [orb] in H. cbn [length]. rewrite (IH H). reflexivity.
Qed.

Lemma remove1_In : forall x y l, In y (remove1 x l) -> In y l.
Proof.
  intros x y l. induction l as [|z r IH]; cbn [remove1 In]; [tauto|].
  destruct (Nat.eqb x z); cbn [In]; intros H; [right; exact H|].
  destruct H as [H|H]; [left; exact H|right; apply IH; exact H].
Qed.

Lemma remove1_In_other : forall x y l, y <> x -> In y l -> In y (remove1 x l).
Proof.
  intros x y l Hn. induction l as [|z r IH]; cbn [remove1 In]; [tauto|].
  intros [H|H].
  - subst z. destruct (Nat.eqb x y) eqn:E; [apply Nat.eqb_eq in E; congruence|left; reflexivity].
  - destruct (Nat.eqb x z); [exact H|right; apply IH; exact H].
Qed.

Lemma count_occ_remove1_same : forall x l,
  count_occ Nat.eq_dec (remove1 x l) x = pred (count_occ Nat.eq_dec l x).
Proof.
  intros x l. induction l as [|y r IH]; cbn [remove1 count_occ]; [reflexivity|].
  destruct (Nat.eqb x y) eqn:E.
  - apply Nat.eqb_eq in E. subst y. destruct (Nat.eq_dec x x) as [_|N]; [reflexivity|congruence].
  - apply Nat.eqb_neq in E. cbn [count_occ]. destruct (Nat.eq_dec y x) as [N|_]; [congruence|exact IH].
Qed.

Lemma count_occ_remove1_other : forall x y l, y <> x ->
  count_occ Nat.eq_dec (remove1 x l) y = count_occ Nat.eq_dec l y.
Proof.
  intros x y l Hn. induction l as [|z r IH]; cbn [remove1 count_occ]; [reflexivity|].
  destruct (Nat.eqb x z) eqn:E.
  - apply Nat.eqb_eq in E. subst z. destruct (Nat.eq_dec x y) as [N|_]; [congruence|reflexivity].
  - cbn [count_occ]. destruct (Nat.eq_dec z y); rewrite IH; reflexivity.
Qed.

Lemma wire_eqb_eq : forall a b, wire_eqb a b = true <-> a = b.
Proof.
  intros a b. destruct a, b; cbn [wire_eqb]; try (split; [discriminate|congruence]); try (split; reflexivity).
  rewrite Nat.eqb_eq. split; congruence.
Qed.

Lemma wmemb_In : forall x l, wmemb x l = true <-> In x l.
Proof.
  intros x l. induction l as [|y r IH]; cbn [wmemb In].
  - split; [discriminate|tauto].
  - rewrite orb_true_iff, IH, wire_eqb_eq. split; intros [H|H]; auto.
Qed.

Lemma count_counted_remove : forall w l, wmemb w l = true ->
  (count_counted (wremove1 w l) + (if counted w then 1 else 0) = count_counted l)%nat.
Proof.
  intros w l. induction l as [|y r IH]; cbn [wmemb wremove1 count_counted]; [discriminate|].
  intro H. destruct (wire_eqb w y) eqn:E.
  - apply wire_eqb_eq in E. subst y. lia.
  - cbn [orb] in H. cbn [count_counted]. specialize (IH H). lia.
Qed.

Fixpoint count_ctxdead (l : list wire) : nat :=
  match l with [] => O | CtxDead :: r => S (count_ctxdead r) | _ :: r => count_ctxdead r end.

Lemma count_ctxdead_remove : forall w l, wmemb w l = true ->
  (count_ctxdead (wremove1 w l) + (if wire_eqb w CtxDead then 1 else 0) = count_ctxdead l)%nat.
Proof.
  intros w l. induction l as [|y r IH]; cbn [wmemb wremove1 count_ctxdead]; [discriminate|].
  intro H. destruct (wire_eqb w y) eqn:E.
  - apply wire_eqb_eq in E. subst y. destruct w; cbn [wire_eqb count_ctxdead]; lia.
  - cbn [orb] in H. specialize (IH H). destruct y; cbn [count_ctxdead]; lia.
Qed.

Lemma wremove1_In : forall w x l, In x (wremove1 w l) -> In x l.
Proof.
  intros w x l. induction l as [|y r IH]; cbn [wremove1 In]; [tauto|].
  destruct (wire_eqb w y); cbn [In]; intros H; [right; exact H|].
  destruct H as [H|H]; [left; exact H|right; apply IH; exact H].
Qed.

Lemma real_ids_In : forall id l, In id (real_ids l) <-> In (Real id) l.
Proof.
  intros id l. induction l as [|y r IH]; cbn [real_ids In]; [tauto|].
  destruct y; cbn [In]; rewrite IH; split; intros H; try (right; exact H); try tauto.
  - destruct H as [H|H]; [left; congruence|right; exact H].
  - destruct H as [H|H]; [left; congruence|right; exact H].
  - destruct H as [H|H]; [discriminate|exact H].
  - destruct H as [H|H]; [discriminate|exact H].
  - destruct H as [H|H]; [discriminate|exact H].
Qed.

Lemma real_ids_remove_real : forall id l, NoDup (real_ids l) -> In (Real id) l ->
  ~ In id (real_ids (wremove1 (Real id) l)) /\
  (forall x, In x (real_ids (wremove1 (Real id) l)) -> In x (real_ids l)) /\
  NoDup (real_ids (wremove1 (Real id) l)).
Proof.
  intros id l. induction l as [|y r IH]; cbn [real_ids wremove1 In]; [tauto|].
  intros Hnd Hin. destruct (wire_eqb (Real id) y) eqn:E.
  - apply wire_eqb_eq in E. subst y. cbn [real_ids] in Hnd. inversion Hnd as [|a b Hni Hnd']; subst.
    split; [exact Hni|]. split; [intros x Hx; cbn [real_ids In]; right; exact Hx|exact Hnd'].
  - destruct Hin as [Hin|Hin]; [subst y; rewrite (proj2 (wire_eqb_eq _ _) eq_refl) in E; discriminate|].
    destruct y as [j| | |]; cbn [real_ids] in *.
    + inversion Hnd as [|a b Hni Hnd']; subst. destruct (IH Hnd' Hin) as (H1 & H2 & H3).
      assert (Hj : j <> id). { intro; subst j. cbn [wire_eqb] in E. rewrite Nat.eqb_refl in E. discriminate. }
      split; [cbn [In]; intros [H|H]; [congruence|tauto]|].
      split; [intros x [Hx|Hx]; [left; exact Hx|right; apply H2; exact Hx]|].
      constructor; [intro H; apply Hni; apply H2; exact H|exact H3].
    + apply IH; assumption.
    + apply IH; assumption.
    + apply IH; assumption.
Qed.

Lemma real_ids_remove_other : forall w l, (forall id, w <> Real id) -> real_ids (wremove1 w l) = real_ids l.
Proof.
  intros w l Hw. induction l as [|y r IH]; cbn [wremove1 real_ids]; [reflexivity|].
  destruct (wire_eqb w y) eqn:E.
  - apply wire_eqb_eq in E. subst y. destruct w; try reflexivity. exfalso. eapply Hw. reflexivity.
  - destruct y; cbn [real_ids]; rewrite IH; reflexivity.
Qed.

(** ---- specification of [eval] ---- *)

Definition ogot (o : outcome) : list nat := match o with OGot id => [id] | _ => [] end.

Lemma eval_spec : forall cfg dn cd brk ns l sz o l' sz' cl,
  eval cfg dn cd brk ns l sz = (o, l', sz', cl) ->
  l = cl ++ ogot o ++ l' /\
  sz' = sz - Z.of_nat (length cl) + (match o with OMake => 1 | _ => 0 end) /\
  (dn = true \/ cd = true -> cl = []) /\
  match o with
  | OPark => l' = [] /\ sz' = cap cfg /\ dn = false /\ cd = false
  | OCtxDead => cd = true
  | ODown => dn = true /\ cd = false
  | OMake => l' = [] /\ dn = false /\ cd = false /\ sz - Z.of_nat (length cl) <> cap cfg
  | OGot id => dn = false /\ cd = false /\ memb id ns = false /\ memb id brk = false
  end.
Proof.
  intros cfg dn cd brk ns l. induction l as [|w r IH]; intros sz o l' sz' cl H; cbn [eval] in H.
  - destruct ((sz =? cap cfg) && negb dn && negb cd) eqn:E1.
    + inversion H; subst. cbn [ogot app length]. apply andb_true_iff in E1. destruct E1 as [E1 E3].
      apply andb_true_iff in E1. destruct E1 as [E1 E2]. apply Z.eqb_eq in E1.
      apply negb_true_iff in E2. apply negb_true_iff in E3.
      repeat split; try reflexivity; try lia; try assumption.
    + destruct cd.
      * inversion H; subst. cbn [ogot app length]. repeat split; try reflexivity; try lia.
      * destruct dn.
        -- inversion H; subst. cbn [ogot app length]. repeat split; try reflexivity; try lia.
        -- inversion H; subst. cbn [ogot app length]. cbn [negb andb] in E1. rewrite !andb_true_r in E1.
           apply Z.eqb_neq in E1. repeat split; try reflexivity; try lia.
           all: try (intros [X|X]; discriminate).
  - destruct cd.
    + inversion H; subst. cbn [ogot app length]. repeat split; try reflexivity; try lia.
    + destruct dn.
      * inversion H; subst. cbn [ogot app length]. repeat split; try reflexivity; try lia.
      * destruct (memb w ns || memb w brk) eqn:E.
        -- destruct (eval cfg false false brk ns r (sz - 1)) as [[[o1 l1] sz1] cl1] eqn:E1.
           inversion H; subst. specialize (IH _ _ _ _ _ E1). destruct IH as (I1 & I2 & I3 & I4).
           split; [cbn [app]; rewrite I1; reflexivity|].
           split; [cbn [length]; lia|].
           split; [intros [X|X]; discriminate|].
           destruct o; try exact I4.
           destruct I4 as (J1 & J2 & J3 & J4). repeat split; try assumption. cbn [length]. lia.
        -- inversion H; subst. cbn [ogot app length]. apply orb_false_iff in E. destruct E as [E2 E3].
           repeat split; try reflexivity; try lia; try assumption.
           all: try (intros [X|X]; discriminate).
Qed.
