(** C01_exclusive_conn: the counting invariant of the waits counter, uniqueness of the caller that
    saw waits = 1, and the exclusive use of the connection (one synchronous caller or the background
    loops, never both). *)
From Coq Require Import List NArith ZArith Bool Arith Lia.
Require Import RV.Model.Base RV.Model.PipeQueue RV.Model.Pipe RV.Model.PipeLts RV.Proofs.PipeLtsBasics.
Import ListNotations.
Open Scope N_scope.

(** the thread saw waits = 1 when it incremented and has not decremented yet *)
Definition tokc (c : crec) : bool :=
  match k_pc c with
  | PLoad 1 | PBg | PSyncW | PSyncR _ | PDecr true | PBgAfter => true
  | _ => false
  end.
Definition tokk (k : kpc) : bool :=
  match k with K1 1 | K2 true _ => true | _ => false end.

Definition st_closed (s : pstate) : Prop := p_st s = 2 \/ p_st s = 4.

Record InvA (s : pstate) : Prop := mkInvA {
  a_nodup : NoDup (p_tids s);
  a_knodup : NoDup (p_ktids s);
  a_disj : forall t, In t (p_tids s) -> In t (p_ktids s) -> False;
  a_idle : forall t, ~ In t (p_tids s) -> k_pc (p_calls s t) = PIdle /\ k_drain (p_calls s t) = DNone;
  a_kidle : forall t, ~ In t (p_ktids s) -> p_closers s t = KIdle;
  a_count : p_waits s = hsum s;
  a_st : p_st s = 0 \/ p_st s = 1 \/ p_st s = 2 \/ p_st s = 4;
  a_bgst : p_bg s = true -> p_st s <> 0;
  a_bgw : p_bg s = false -> p_w s = WOff /\ p_b s = BOff;
  a_tok1 : forall t u, tokc (p_calls s t) = true -> tokc (p_calls s u) = true -> t = u;
  a_tok2 : forall t u, tokk (p_closers s t) = true -> tokk (p_closers s u) = true -> t = u;
  a_tok3 : forall t u, tokc (p_calls s t) = true -> tokk (p_closers s u) = true -> False;
  a_n1 : p_bg s = false -> forall t, k_comp (p_calls s t) = false /\ k_pc (p_calls s t) <> PGot /\ k_drain (p_calls s t) <> DGot;
  a_n2 : forall t, k_pc (p_calls s t) = PErr -> st_closed s;
  a_n3 : forall t, match p_closers s t with K2 _ _ | KWait _ | K5 => True | _ => False end -> st_closed s;
  a_e2 : p_bg s = true -> forall t, sync_user (p_calls s t) = false;
  a_dr : forall t, k_drain (p_calls s t) <> DNone -> k_pc (p_calls s t) = PRet
}.

Lemma sync_tok c : sync_user c = true -> tokc c = true.
Proof. unfold sync_user, tokc. destruct (k_pc c); try discriminate; reflexivity. Qed.

Lemma tokc_holds c : tokc c = true -> (1 <= holds c)%nat.
Proof. unfold tokc, holds. destruct (k_pc c) as [| |w| | |k| |b| | | | |]; try discriminate; intros _; lia. Qed.

Lemma tokk_holds k : tokk k = true -> kholds k = 1%nat.
Proof. destruct k as [|w|b p|t| |]; cbn; try discriminate; reflexivity. Qed.

Lemma hsum_zero_c s : InvA s -> hsum s = 0%nat -> forall t, holds (p_calls s t) = 0%nat.
Proof.
  intros I H t. unfold hsum in H.
  destruct (in_dec N.eq_dec t (p_tids s)) as [Hin|Hn].
  - apply (sumf_zero (fun t => holds (p_calls s t)) (p_tids s)); [lia|assumption].
  - destruct (a_idle s I t Hn) as [E1 E2]. unfold holds. now rewrite E1, E2.
Qed.

Lemma hsum_zero_k s : InvA s -> hsum s = 0%nat -> forall t, kholds (p_closers s t) = 0%nat.
Proof.
  intros I H t. unfold hsum in H.
  destruct (in_dec N.eq_dec t (p_ktids s)) as [Hin|Hn].
  - apply (sumf_zero (fun t => kholds (p_closers s t)) (p_ktids s)); [lia|assumption].
  - now rewrite (a_kidle s I t Hn).
Qed.

Lemma hsum_zero_notok s : InvA s -> hsum s = 0%nat ->
  (forall t, tokc (p_calls s t) = false) /\ (forall t, tokk (p_closers s t) = false).
Proof.
  intros I H. split; intros t.
  - destruct (tokc (p_calls s t)) eqn:E; [|reflexivity].
    apply tokc_holds in E. rewrite (hsum_zero_c s I H t) in E. lia.
  - destruct (tokk (p_closers s t)) eqn:E; [|reflexivity].
    apply tokk_holds in E. rewrite (hsum_zero_k s I H t) in E. lia.
Qed.

Lemma inva_init g : InvA (p_init g).
Proof.
  constructor; cbn.
  - constructor.
  - constructor.
  - intros t [].
  - intros t _. split; reflexivity.
  - intros; reflexivity.
  - reflexivity.
  - now left.
  - discriminate.
  - intros _; split; reflexivity.
  - intros t u H; discriminate.
  - intros t u H; discriminate.
  - intros t u H; discriminate.
  - intros _ t. repeat split; discriminate.
  - intros t H; discriminate.
  - intros t [].
  - discriminate.
  - intros t H. contradiction.
Qed.

(** Invariance of InvA under steps that do not touch what it talks about. *)
Definition ctl_eq (s s' : pstate) : Prop :=
  p_st s' = p_st s /\ p_bg s' = p_bg s /\ p_waits s' = p_waits s /\
  (p_bg s = false -> p_w s' = p_w s) /\ (p_bg s = false -> p_b s' = p_b s) /\
  p_tids s' = p_tids s /\ p_closers s' = p_closers s /\ p_ktids s' = p_ktids s /\
  (forall t, k_pc (p_calls s' t) = k_pc (p_calls s t) /\ k_drain (p_calls s' t) = k_drain (p_calls s t)) /\
  (p_bg s = false -> forall t, k_comp (p_calls s' t) = k_comp (p_calls s t)).

Lemma holds_eq c c' : k_pc c' = k_pc c -> k_drain c' = k_drain c -> holds c' = holds c.
Proof. unfold holds. intros -> ->. reflexivity. Qed.

Lemma tokc_eq c c' : k_pc c' = k_pc c -> tokc c' = tokc c.
Proof. unfold tokc. intros ->. reflexivity. Qed.

Lemma sync_eq c c' : k_pc c' = k_pc c -> sync_user c' = sync_user c.
Proof. unfold sync_user. intros ->. reflexivity. Qed.

Lemma hsum_ctl_eq s s' : ctl_eq s s' -> hsum s' = hsum s.
Proof.
  intros (e1&e2&e3&e4&e5&e6&e7&e8&e9&e10). unfold hsum. rewrite e6, e7, e8. f_equal.
  apply sumf_ext. intros t _. destruct (e9 t). now apply holds_eq.
Qed.

Lemma inva_ctl_eq s s' : ctl_eq s s' -> InvA s -> InvA s'.
Proof.
  intros E I. pose proof (hsum_ctl_eq s s' E) as Hh.
  destruct E as (e1&e2&e3&e4&e5&e6&e7&e8&e9&e10).
  assert (Epc : forall t, k_pc (p_calls s' t) = k_pc (p_calls s t)) by (intros t; apply e9).
  assert (Edr : forall t, k_drain (p_calls s' t) = k_drain (p_calls s t)) by (intros t; apply e9).
  assert (Etok : forall t, tokc (p_calls s' t) = tokc (p_calls s t)) by (intros t; apply tokc_eq, Epc).
  assert (Esy : forall t, sync_user (p_calls s' t) = sync_user (p_calls s t)) by (intros t; apply sync_eq, Epc).
  destruct I. constructor; unfold st_closed in *; rewrite ?e1, ?e2, ?e3, ?e6, ?e7, ?e8, ?Hh; auto.
  - intros t Ht. rewrite Epc, Edr. auto.
  - intros Hb. rewrite (e4 Hb), (e5 Hb). auto.
  - intros t u. rewrite !Etok. auto.
  - intros t u. rewrite Etok. eauto.
  - intros Hb t. rewrite Epc, Edr, (e10 Hb). auto.
  - intros t. rewrite Epc. eauto.
  - intros Hb t. rewrite Esy. auto.
  - intros t. rewrite Epc, Edr. auto.
Qed.

(** ** generic preservation lemmas for a step that rewrites one caller record *)

Lemma hsum_upd_call s s' t c' :
  InvA s -> In t (p_tids s) ->
  p_tids s' = p_tids s -> p_ktids s' = p_ktids s -> p_closers s' = p_closers s ->
  (forall u, p_calls s' u = upd (p_calls s) t c' u) ->
  (hsum s' + holds (p_calls s t) = hsum s + holds c')%nat.
Proof.
  intros I Hin e1 e2 e3 e4. unfold hsum. rewrite e1, e2, e3.
  rewrite (sumf_ext (fun u => holds (p_calls s' u)) (fun u => holds (upd (p_calls s) t c' u))) by (intros; now rewrite e4).
  pose proof (sumf_upd_in holds (p_calls s) t c' (p_tids s) (a_nodup s I) Hin). lia.
Qed.

Section CallStep.
  Variables (s s' : pstate) (t : N) (c' : crec).
  Hypothesis I : InvA s.
  Hypothesis Hin : In t (p_tids s).
  Hypothesis e_tids : p_tids s' = p_tids s.
  Hypothesis e_ktids : p_ktids s' = p_ktids s.
  Hypothesis e_closers : p_closers s' = p_closers s.
  Hypothesis e_calls : forall u, p_calls s' u = upd (p_calls s) t c' u.
  Hypothesis e_st : p_st s' = p_st s.
  Hypothesis e_bg : p_bg s' = p_bg s.
  Hypothesis e_w : p_w s' = p_w s.
  Hypothesis e_b : p_b s' = p_b s.

  Let c := p_calls s t.

  Lemma calls_t : p_calls s' t = c'.
  Proof. rewrite e_calls. apply upd_same. Qed.
  Lemma calls_o u : u <> t -> p_calls s' u = p_calls s u.
  Proof. intros H. rewrite e_calls. now apply upd_other. Qed.

  (** the number of counts held by t does not change *)
  Lemma inva_call_same :
    p_waits s' = p_waits s ->
    holds c' = holds c ->
    (tokc c' = true -> tokc c = true) ->
    (p_bg s = false -> k_comp c' = false /\ k_pc c' <> PGot /\ k_drain c' <> DGot) ->
    (k_pc c' = PErr -> st_closed s) ->
    (sync_user c' = true -> sync_user c = true \/ (p_st s = 0 /\ tokc c = true)) ->
    (k_drain c' <> DNone -> k_pc c' = PRet) ->
    InvA s'.
  Proof.
    intros e_waits Hh Htok Hn1 Hn2 Hsy Hdr.
    assert (Hs : hsum s' = hsum s).
    { pose proof (hsum_upd_call s s' t c' I Hin e_tids e_ktids e_closers e_calls). fold c in H. lia. }
    destruct I. constructor; unfold st_closed in *; rewrite ?e_tids, ?e_ktids, ?e_closers, ?e_st, ?e_bg, ?e_w, ?e_b, ?e_waits, ?Hs; auto.
    - intros u Hu. rewrite calls_o by (intros ->; contradiction). auto.
    - intros u v Hu Hv. destruct (N.eq_dec u t) as [->|Nu]; destruct (N.eq_dec v t) as [->|Nv]; auto.
      + rewrite calls_t in Hu. rewrite calls_o in Hv by assumption. symmetry. apply a_tok4; auto.
      + rewrite calls_t in Hv. rewrite calls_o in Hu by assumption. apply a_tok4; auto.
      + rewrite calls_o in Hu, Hv by assumption. auto.
    - intros u v Hu Hv. destruct (N.eq_dec u t) as [->|Nu].
      + rewrite calls_t in Hu. eapply a_tok6; eauto.
      + rewrite calls_o in Hu by assumption. eauto.
    - intros Hb u. destruct (N.eq_dec u t) as [->|Nu]; [rewrite calls_t; auto|rewrite calls_o by assumption; auto].
    - intros u Hu. destruct (N.eq_dec u t) as [->|Nu]; [rewrite calls_t in Hu; auto|rewrite calls_o in Hu by assumption; eauto].
    - intros Hb v. destruct (N.eq_dec v t) as [->|Nv]; [rewrite calls_t|rewrite calls_o by assumption; auto].
      destruct (sync_user c') eqn:E; [|reflexivity].
      destruct (Hsy eq_refl) as [H1|[H1 H2]].
      + rewrite <- (a_e3 Hb t). symmetry. exact H1.
      + exfalso. apply (a_bgst0 Hb). exact H1.
    - intros u. destruct (N.eq_dec u t) as [->|Nu]; [rewrite calls_t; auto|rewrite calls_o by assumption; auto].
  Qed.

  (** t gives its count back (decrement) and is neither a token holder nor anything special afterwards *)
  Lemma inva_call_dec :
    (S (p_waits s') = p_waits s)%nat ->
    (S (holds c') = holds c)%nat ->
    tokc c' = false -> sync_user c' = false ->
    (p_bg s = false -> k_comp c' = false /\ k_pc c' <> PGot /\ k_drain c' <> DGot) ->
    (k_pc c' = PErr -> False) ->
    (k_drain c' <> DNone -> k_pc c' = PRet) ->
    InvA s'.
  Proof.
    intros e_waits Hh Htok Hsy Hn1 Hn2 Hdr.
    assert (Hs : S (hsum s') = hsum s).
    { pose proof (hsum_upd_call s s' t c' I Hin e_tids e_ktids e_closers e_calls). fold c in H. lia. }
    pose proof (a_count s I) as Hc.
    destruct I. constructor; unfold st_closed in *; rewrite ?e_tids, ?e_ktids, ?e_closers, ?e_st, ?e_bg, ?e_w, ?e_b; auto.
    - intros u Hu. rewrite calls_o by (intros ->; contradiction). auto.
    - lia.
    - intros u v Hu Hv. destruct (N.eq_dec u t) as [->|Nu]; destruct (N.eq_dec v t) as [->|Nv]; auto.
      + rewrite calls_t in Hu. congruence.
      + rewrite calls_t in Hv. congruence.
      + rewrite calls_o in Hu, Hv by assumption. auto.
    - intros u v Hu Hv. destruct (N.eq_dec u t) as [->|Nu].
      + rewrite calls_t in Hu. congruence.
      + rewrite calls_o in Hu by assumption. eauto.
    - intros Hb u. destruct (N.eq_dec u t) as [->|Nu]; [rewrite calls_t; auto|rewrite calls_o by assumption; auto].
    - intros u Hu. destruct (N.eq_dec u t) as [->|Nu]; [rewrite calls_t in Hu; exfalso; auto|rewrite calls_o in Hu by assumption; eauto].
    - intros Hb v. destruct (N.eq_dec v t) as [->|Nv]; [rewrite calls_t; auto|rewrite calls_o by assumption; auto].
    - intros u. destruct (N.eq_dec u t) as [->|Nu]; [rewrite calls_t; auto|rewrite calls_o by assumption; auto].
  Qed.
End CallStep.

(** ** global modifications *)

Lemma inva_do_background s :
  InvA s -> (forall u, sync_user (p_calls s u) = false) -> InvA (do_background s).
Proof.
  intros I Hns.
  assert (Hh : hsum (do_background s) = hsum s) by (unfold do_background; destruct (p_bg s); reflexivity).
  destruct I.
  assert (Est : p_st (do_background s) = if N.eqb (p_st s) 0 then 1 else p_st s)
    by (unfold do_background; destruct (p_bg s); reflexivity).
  assert (Ebg : p_bg (do_background s) = true) by (unfold do_background; destruct (p_bg s); reflexivity).
  assert (Ecalls : p_calls (do_background s) = p_calls s) by (unfold do_background; destruct (p_bg s); reflexivity).
  assert (Etids : p_tids (do_background s) = p_tids s) by (unfold do_background; destruct (p_bg s); reflexivity).
  assert (Ekt : p_ktids (do_background s) = p_ktids s) by (unfold do_background; destruct (p_bg s); reflexivity).
  assert (Ecl : p_closers (do_background s) = p_closers s) by (unfold do_background; destruct (p_bg s); reflexivity).
  assert (Ew : p_waits (do_background s) = p_waits s) by (unfold do_background; destruct (p_bg s); reflexivity).
  assert (Hcl : st_closed s -> st_closed (do_background s)).
  { unfold st_closed. rewrite Est. intros [H|H]; rewrite H; cbn; auto. }
  constructor; rewrite ?Ecalls, ?Etids, ?Ekt, ?Ecl, ?Ew, ?Hh, ?Ebg; auto; try discriminate.
  - rewrite Est. destruct (N.eqb (p_st s) 0) eqn:E0; [auto|]. apply N.eqb_neq in E0. intuition.
  - intros _. rewrite Est. destruct (N.eqb (p_st s) 0) eqn:E0; [discriminate|]. now apply N.eqb_neq in E0.
  - intros t Ht. apply Hcl. eauto.
  - intros t Ht. apply Hcl. eauto.
Qed.

Lemma inva_do_exit s e : InvA s -> InvA (do_exit s e).
Proof.
  intros I. destruct I.
  assert (Hcl : st_closed s -> st_closed (do_exit s e)).
  { unfold st_closed; cbn. intros [H|H]; rewrite H; cbn; auto. }
  constructor; cbn; auto.
  - destruct (N.eqb (p_st s) 1) eqn:E1; [auto|]. assumption.
  - intros Hb. destruct (N.eqb (p_st s) 1) eqn:E1; [discriminate|]. auto.
  - intros t Ht. apply Hcl. eauto.
  - intros t Ht. apply Hcl. eauto.
Qed.

Lemma in_tids_pc s t : InvA s -> k_pc (p_calls s t) <> PIdle -> In t (p_tids s).
Proof.
  intros I H. destruct (in_dec N.eq_dec t (p_tids s)) as [|Hn]; [assumption|].
  destruct (a_idle s I t Hn). contradiction.
Qed.

Lemma in_tids_drain s t : InvA s -> k_drain (p_calls s t) <> DNone -> In t (p_tids s).
Proof.
  intros I H. destruct (in_dec N.eq_dec t (p_tids s)) as [|Hn]; [assumption|].
  destruct (a_idle s I t Hn). contradiction.
Qed.

Lemma ctl_eq_set_call s t c' :
  k_pc c' = k_pc (p_calls s t) -> k_drain c' = k_drain (p_calls s t) -> k_comp c' = k_comp (p_calls s t) ->
  ctl_eq s (set_call s t c').
Proof.
  intros e1 e2 e3.
  assert (K : forall u, k_pc (upd (p_calls s) t c' u) = k_pc (p_calls s u) /\
    k_drain (upd (p_calls s) t c' u) = k_drain (p_calls s u) /\
    k_comp (upd (p_calls s) t c' u) = k_comp (p_calls s u)).
  { intros u. unfold upd. destruct (N.eqb u t) eqn:E; [apply N.eqb_eq in E; subst; auto|auto]. }
  unfold ctl_eq; cbn. repeat split; try reflexivity; try apply K. intros _ u. apply K.
Qed.

Ltac call_same s t c' :=
  eapply (inva_call_same s _ t c');
  [eassumption | | reflexivity | reflexivity | reflexivity | intros ?; reflexivity | reflexivity | reflexivity
   | reflexivity | reflexivity | reflexivity | ..].

Ltac call_dec s t c' :=
  eapply (inva_call_dec s _ t c');
  [eassumption | | reflexivity | reflexivity | reflexivity | intros ?; reflexivity | reflexivity | reflexivity
   | reflexivity | reflexivity | ..].

Ltac n1_from I t :=
  let Hb := fresh "Hb" in
  intros Hb; destruct (a_n1 _ I Hb t) as (?&?&?); repeat split; cbn; auto; try discriminate; try congruence.

Ltac dr_from I t Epc :=
  let Hd := fresh "Hd" in
  intros Hd; try reflexivity; try (exfalso; apply Hd; reflexivity);
  pose proof (a_dr _ I t Hd) as Hd'; rewrite Epc in Hd'; try discriminate Hd'; try exact Hd'.

Ltac fin I t Epc :=
  cbn; unfold holds, tokc, sync_user; cbn; rewrite ?Epc;
  try solve [ reflexivity | discriminate | lia | intros; discriminate | intros [?|?]; discriminate
            | n1_from I t | auto | dr_from I t Epc ].

Section Steps.
  Variable g : config.

  Lemma step_LCtxDone s t s' : InvA s -> pstep g s (LCtxDone t) = Some s' -> InvA s'.
  Proof.
    intros I H. cbn [pstep] in H.
    assert (forall c, (if k_done (p_calls s t) then None else Some (set_call s t (with_done c))) = Some s' ->
                      c = p_calls s t -> InvA s') as K.
    { intros c H1 ->. destruct (k_done (p_calls s t)); [discriminate|]. inversion H1; subst; clear H1.
      apply (inva_ctl_eq s); [|assumption]. apply ctl_eq_set_call; reflexivity. }
    destruct (k_ctx (p_calls s t)); [discriminate| |];
      destruct (k_pc (p_calls s t)); try discriminate; eapply K; eauto.
  Qed.

  Lemma step_LLoad s t s' : InvA s -> pstep g s (LLoad t) = Some s' -> InvA s'.
  Proof.
    intros I H. cbn [pstep] in H.
    destruct (k_pc (p_calls s t)) as [| |w| | | | | | | | | |] eqn:Epc; try discriminate.
    assert (Hin : In t (p_tids s)) by (apply in_tids_pc; [assumption|congruence]).
    destruct (N.eqb (p_st s) 1) eqn:E1.
    { inversion H; subst; clear H. call_same s t (with_pc (p_calls s t) PPut); fin I t Epc. }
    destruct (N.eqb (p_st s) 0) eqn:E0.
    - apply N.eqb_eq in E0.
      destruct (negb (Nat.eqb w 1)) eqn:Ew.
      { inversion H; subst; clear H. call_same s t (with_pc (p_calls s t) PPut); fin I t Epc. }
      apply negb_false_iff, Nat.eqb_eq in Ew. subst w.
      destruct (needs_bg (p_calls s t)).
      + inversion H; subst; clear H. call_same s t (with_pc (p_calls s t) PBg); fin I t Epc.
      + inversion H; subst; clear H. call_same s t (with_pc (p_calls s t) PSyncW); fin I t Epc.
    - inversion H; subst; clear H. call_same s t (with_pc (p_calls s t) PErr); fin I t Epc.
      intros _. apply N.eqb_neq in E1, E0. destruct (a_st s I) as [?|[?|[?|?]]]; unfold st_closed; auto; contradiction.
  Qed.

  Lemma step_LSyncW s t s' : InvA s -> pstep g s (LSyncW t) = Some s' -> InvA s'.
  Proof.
    intros I H. cbn [pstep] in H.
    destruct (k_pc (p_calls s t)) eqn:Epc; try discriminate.
    assert (Hin : In t (p_tids s)) by (apply in_tids_pc; [assumption|congruence]).
    destruct (p_conn s); [|discriminate]. inversion H; subst; clear H.
    call_same s t (with_pc (p_calls s t) (PSyncR (List.length (k_cmds (p_calls s t))))); fin I t Epc.
  Qed.

  Lemma step_LSyncR s t s' : InvA s -> pstep g s (LSyncR t) = Some s' -> InvA s'.
  Proof.
    intros I H. cbn [pstep] in H.
    destruct (k_pc (p_calls s t)) as [| | | | |k| | | | | | |] eqn:Epc; try discriminate.
    destruct k as [|k]; [discriminate|].
    destruct (p_s2c s) as [|f r]; [discriminate|].
    assert (Hin : In t (p_tids s)) by (apply in_tids_pc; [assumption|congruence]).
    destruct (N.eqb (m_typ f) t_push).
    { inversion H; subst; clear H. apply (inva_ctl_eq s); [|assumption].
      unfold ctl_eq; cbn; repeat split; reflexivity. }
    inversion H; subst; clear H.
    destruct k as [|k].
    - call_same s t (with_pc (with_res (p_calls s t) (k_res (p_calls s t) ++ [RMsg f])) (PDecr true)); fin I t Epc.
    - call_same s t (with_pc (with_res (p_calls s t) (k_res (p_calls s t) ++ [RMsg f])) (PSyncR (S k))); fin I t Epc.
  Qed.

  Lemma step_LErr s t s' : InvA s -> pstep g s (LErr t) = Some s' -> InvA s'.
  Proof.
    intros I H. cbn [pstep] in H.
    destruct (k_pc (p_calls s t)) eqn:Epc; try discriminate.
    assert (Hin : In t (p_tids s)) by (apply in_tids_pc; [assumption|congruence]).
    inversion H; subst; clear H.
    call_same s t (with_pc (with_res (p_calls s t) (errs_for (p_calls s t) (the_err s))) (PDecr false)); fin I t Epc.
  Qed.

  Lemma step_LPut s t s' : InvA s -> pstep g s (LPut t) = Some s' -> InvA s'.
  Proof.
    intros I H. cbn [pstep] in H.
    destruct (k_pc (p_calls s t)) eqn:Epc; try discriminate.
    assert (Hin : In t (p_tids s)) by (apply in_tids_pc; [assumption|congruence]).
    destruct (q_put (p_q s) (slot_of t (p_calls s t))); [|discriminate].
    inversion H; subst; clear H.
    call_same s t (with_pc (p_calls s t) PWait); fin I t Epc.
  Qed.

  Lemma step_LRecv s t s' : InvA s -> pstep g s (LRecv t) = Some s' -> InvA s'.
  Proof.
    intros I H. cbn [pstep] in H.
    destruct (k_pc (p_calls s t)) eqn:Epc; try discriminate.
    assert (Hin : In t (p_tids s)) by (apply in_tids_pc; [assumption|congruence]).
    destruct (k_comp (p_calls s t)) eqn:Ec; [|discriminate].
    inversion H; subst; clear H.
    call_same s t (with_pc (with_comp (p_calls s t) false) PGot); fin I t Epc.
  Qed.

  Lemma step_LAbort s t s' : InvA s -> pstep g s (LAbort t) = Some s' -> InvA s'.
  Proof.
    intros I H. cbn [pstep] in H.
    destruct (k_pc (p_calls s t)) eqn:Epc; try discriminate.
    assert (Hin : In t (p_tids s)) by (apply in_tids_pc; [assumption|congruence]).
    destruct (k_done (p_calls s t)); [|discriminate].
    inversion H; subst; clear H.
    assert (Hd : k_drain (p_calls s t) = DNone).
    { destruct (k_drain (p_calls s t)) eqn:Ed; [reflexivity| | |];
        (assert (k_pc (p_calls s t) = PRet) by (apply (a_dr s I); congruence); congruence). }
    call_same s t (with_drain (with_ret (p_calls s t) (errs_for (p_calls s t) ECtx)) DWait); fin I t Epc.
    all: rewrite ?Hd; try reflexivity.
  Qed.

  Lemma do_background_set_call s t c :
    set_call (do_background s) t c = do_background (set_call s t c).
  Proof. unfold do_background; cbn. destruct (p_bg s); reflexivity. Qed.

  Lemma tok_no_sync_other s t : InvA s -> tokc (p_calls s t) = true -> sync_user (p_calls s t) = false ->
    forall u, sync_user (p_calls s u) = false.
  Proof.
    intros I Ht Hs u. destruct (sync_user (p_calls s u)) eqn:E; [|reflexivity].
    pose proof (sync_tok _ E) as Hu. rewrite <- (a_tok1 s I t u Ht Hu) in E. congruence.
  Qed.

  Lemma step_LBg s t s' : InvA s -> pstep g s (LBg t) = Some s' -> InvA s'.
  Proof.
    intros I H. cbn [pstep] in H.
    destruct (k_pc (p_calls s t)) eqn:Epc; try discriminate.
    assert (Hin : In t (p_tids s)) by (apply in_tids_pc; [assumption|congruence]).
    inversion H; subst; clear H.
    assert (I1 : InvA (do_background s)).
    { apply inva_do_background; [assumption|]. apply (tok_no_sync_other s t I); unfold tokc, sync_user; now rewrite Epc. }
    assert (Ec : p_calls (do_background s) = p_calls s) by (unfold do_background; destruct (p_bg s); reflexivity).
    assert (Et : p_tids (do_background s) = p_tids s) by (unfold do_background; destruct (p_bg s); reflexivity).
    assert (Epc1 : k_pc (p_calls (do_background s) t) = PBg) by (now rewrite Ec).
    rewrite <- Ec.
    call_same (do_background s) t (with_pc (p_calls (do_background s) t) PPut); try (now rewrite Et); fin I1 t Epc1.
  Qed.

  Lemma step_LSyncFail s t b s' : InvA s -> pstep g s (LSyncFail t b) = Some s' -> InvA s'.
  Proof.
    intros I H. cbn [pstep] in H.
    destruct ((match k_pc (p_calls s t) with PSyncW | PSyncR _ => true | _ => false end) &&
              (if b then match k_ctx (p_calls s t) with CtxDeadline => k_done (p_calls s t) | _ => false end else true)) eqn:G;
      [|discriminate].
    apply andb_true_iff in G as [G1 _].
    inversion H; subst; clear H.
    set (e := if b then ECtx else EConn).
    set (s0 := set_wire (latch s e true) [] []).
    assert (I0 : InvA s0).
    { apply (inva_ctl_eq s); [|assumption]. unfold ctl_eq; cbn; repeat split; reflexivity. }
    set (c' := with_pc (with_res (p_calls s t) (errs_for (p_calls s t) e)) (PDecr true)).
    assert (Hpc : k_pc (p_calls s0 t) = PSyncW \/ exists k, k_pc (p_calls s0 t) = PSyncR k).
    { cbn. destruct (k_pc (p_calls s t)); try discriminate; eauto. }
    assert (Hin : In t (p_tids s0)).
    { apply in_tids_pc; [assumption|]. destruct Hpc as [->|[k ->]]; discriminate. }
    assert (I1 : InvA (set_call s0 t c')).
    { call_same s0 t c'; try reflexivity; cbn.
      all: try (unfold holds, tokc, sync_user; cbn; destruct Hpc as [Hp|[k Hp]]; cbn in Hp; rewrite Hp; cbn).
      all: try solve [reflexivity | discriminate | intros; discriminate | intros [?|?]; discriminate | auto].
      all: try (intros Hb; destruct (a_n1 s0 I0 Hb t) as (?&?&?); repeat split; auto; discriminate).
      all: try (intros Hd; pose proof (a_dr s0 I0 t Hd) as Hd'; destruct Hpc as [Hp|[k Hp]]; rewrite Hp in Hd'; discriminate). }
    rewrite do_background_set_call.
    apply inva_do_background; [assumption|].
    apply (tok_no_sync_other _ t I1); cbn; rewrite upd_same; reflexivity.
  Qed.

  Lemma step_LBgAfter s t s' : InvA s -> pstep g s (LBgAfter t) = Some s' -> InvA s'.
  Proof.
    intros I H. cbn [pstep] in H.
    destruct (k_pc (p_calls s t)) eqn:Epc; try discriminate.
    assert (Hin : In t (p_tids s)) by (apply in_tids_pc; [assumption|congruence]).
    inversion H; subst; clear H.
    assert (Hns : forall u, sync_user (p_calls s u) = false).
    { apply (tok_no_sync_other s t I); unfold tokc, sync_user; now rewrite Epc. }
    assert (I1 : InvA (do_background s)) by (apply inva_do_background; assumption).
    assert (Ec : p_calls (do_background s) = p_calls s) by (unfold do_background; destruct (p_bg s); reflexivity).
    assert (Et : p_tids (do_background s) = p_tids s) by (unfold do_background; destruct (p_bg s); reflexivity).
    assert (Epc1 : k_pc (p_calls (do_background s) t) = PBgAfter) by (now rewrite Ec).
    rewrite <- Ec.
    call_same (do_background s) t (with_pc (p_calls (do_background s) t) (PDecr false));
      try (now rewrite Et); fin I1 t Epc1.
  Qed.

  Lemma step_LIncr s t s' : InvA s -> pstep g s (LIncr t) = Some s' -> InvA s'.
  Proof.
    intros I H. cbn [pstep] in H.
    destruct (k_pc (p_calls s t)) eqn:Epc; try discriminate.
    assert (Hin : In t (p_tids s)) by (apply in_tids_pc; [assumption|congruence]).
    destruct (k_done (p_calls s t)).
    { inversion H; subst; clear H.
      assert (Hd : k_drain (p_calls s t) = DNone).
      { destruct (k_drain (p_calls s t)) eqn:Ed; [reflexivity| | |];
          (assert (k_pc (p_calls s t) = PRet) by (apply (a_dr s I); congruence); congruence). }
      call_same s t (mkC (k_cmds (p_calls s t)) (k_multi (p_calls s t)) (k_ctx (p_calls s t)) (k_ctxput (p_calls s t)) true true PRet []
                         false (Some (errs_for (p_calls s t) ECtx)) DNone); fin I t Epc.
      all: rewrite ?Hd; try reflexivity; try (intros; repeat split; discriminate). }
    inversion H; subst; clear H.
    set (c' := with_pc (p_calls s t) (PLoad (S (p_waits s)))).
    set (s' := set_call (set_waits s (S (p_waits s))) t c').
    assert (Hd : k_drain (p_calls s t) = DNone).
    { destruct (k_drain (p_calls s t)) eqn:Ed; [reflexivity| | |];
        (assert (k_pc (p_calls s t) = PRet) by (apply (a_dr s I); congruence); congruence). }
    assert (Hs : hsum s' = S (hsum s)).
    { assert (H1 : holds c' = 1%nat) by (unfold holds, c'; cbn; now rewrite Hd).
      assert (H0 : holds (p_calls s t) = 0%nat) by (unfold holds; now rewrite Epc, Hd).
      pose proof (hsum_upd_call s s' t c' I Hin eq_refl eq_refl eq_refl (fun u => eq_refl)) as K.
      rewrite H1, H0 in K. lia. }
    assert (Eo : forall u, u <> t -> p_calls s' u = p_calls s u) by (intros u Hu; cbn; now apply upd_other).
    assert (Et : p_calls s' t = c') by (cbn; apply upd_same).
    assert (Htok : tokc c' = true -> hsum s = 0%nat).
    { unfold tokc, c'; cbn. rewrite <- (a_count s I). destruct (p_waits s); [reflexivity|discriminate]. }
    pose proof (a_count s I) as Hc.
    destruct I. constructor; fold s'; cbn [p_tids p_ktids p_closers p_st p_bg p_w p_b p_waits s' set_call set_calls set_waits]; auto.
    - intros u Hu. rewrite Eo by (intros ->; contradiction). auto.
    - change (S (p_waits s) = hsum s'). lia.
    - intros u v Hu Hv. destruct (N.eq_dec u t) as [->|Nu]; destruct (N.eq_dec v t) as [->|Nv]; auto.
      + rewrite Et in Hu. rewrite Eo in Hv by assumption.
        destruct (hsum_zero_notok s (mkInvA _ a_nodup0 a_knodup0 a_disj0 a_idle0 a_kidle0 a_count0 a_st0 a_bgst0 a_bgw0 a_tok4 a_tok5 a_tok6 a_n4 a_n5 a_n6 a_e3 a_dr0) (Htok Hu)) as [K _].
        rewrite K in Hv. discriminate.
      + rewrite Et in Hv. rewrite Eo in Hu by assumption.
        destruct (hsum_zero_notok s (mkInvA _ a_nodup0 a_knodup0 a_disj0 a_idle0 a_kidle0 a_count0 a_st0 a_bgst0 a_bgw0 a_tok4 a_tok5 a_tok6 a_n4 a_n5 a_n6 a_e3 a_dr0) (Htok Hv)) as [K _].
        rewrite K in Hu. discriminate.
      + rewrite Eo in Hu, Hv by assumption. auto.
    - intros u v Hu Hv. destruct (N.eq_dec u t) as [->|Nu].
      + rewrite Et in Hu.
        destruct (hsum_zero_notok s (mkInvA _ a_nodup0 a_knodup0 a_disj0 a_idle0 a_kidle0 a_count0 a_st0 a_bgst0 a_bgw0 a_tok4 a_tok5 a_tok6 a_n4 a_n5 a_n6 a_e3 a_dr0) (Htok Hu)) as [_ K].
        rewrite K in Hv. discriminate.
      + rewrite Eo in Hu by assumption. eauto.
    - intros Hb u. destruct (N.eq_dec u t) as [->|Nu]; [rewrite Et|rewrite Eo by assumption; auto].
      destruct (a_n4 Hb t) as (?&?&?). unfold c'; cbn. repeat split; auto; discriminate.
    - intros u Hu. destruct (N.eq_dec u t) as [->|Nu]; [rewrite Et in Hu; cbn in Hu; discriminate|rewrite Eo in Hu by assumption; eauto].
    - intros Hb v. destruct (N.eq_dec v t) as [->|Nv]; [rewrite Et; reflexivity|rewrite Eo by assumption; auto].
    - intros u. destruct (N.eq_dec u t) as [->|Nu]; [rewrite Et; cbn; rewrite Hd; contradiction|rewrite Eo by assumption; auto].
  Qed.

  Lemma drain_none s t : InvA s -> k_pc (p_calls s t) <> PRet -> k_drain (p_calls s t) = DNone.
  Proof.
    intros I H. destruct (k_drain (p_calls s t)) eqn:Ed; [reflexivity| | |];
      exfalso; apply H; apply (a_dr s I); congruence.
  Qed.

  Lemma waits_pos s t : InvA s -> In t (p_tids s) -> (1 <= holds (p_calls s t))%nat -> (1 <= p_waits s)%nat.
  Proof.
    intros I Hin Hh. rewrite (a_count s I). unfold hsum.
    pose proof (sumf_ge (fun t => holds (p_calls s t)) (p_tids s) t Hin) as K. cbn beta in K. lia.
  Qed.

  Lemma step_LFin s t s' : InvA s -> pstep g s (LFin t) = Some s' -> InvA s'.
  Proof.
    intros I H. cbn [pstep] in H.
    destruct (k_pc (p_calls s t)) eqn:Epc; try discriminate.
    assert (Hin : In t (p_tids s)) by (apply in_tids_pc; [assumption|congruence]).
    assert (Hd : k_drain (p_calls s t) = DNone) by (apply drain_none; [assumption|congruence]).
    assert (Hw : (1 <= p_waits s)%nat).
    { apply (waits_pos s t I Hin). unfold holds. rewrite Epc. lia. }
    inversion H; subst; clear H.
    call_dec s t (with_ret (p_calls s t) (k_res (p_calls s t))); fin I t Epc.
    all: rewrite ?Hd; try lia; try reflexivity.
    all: try (intros Hb _ _; destruct (a_n1 s I Hb t) as (_&K&_); congruence).
  Qed.

  Lemma step_LDrainFin s t s' : InvA s -> pstep g s (LDrainFin t) = Some s' -> InvA s'.
  Proof.
    intros I H. cbn [pstep] in H.
    destruct (k_drain (p_calls s t)) eqn:Ed; try discriminate.
    assert (Hin : In t (p_tids s)) by (apply in_tids_drain; [assumption|congruence]).
    assert (Epc : k_pc (p_calls s t) = PRet) by (apply (a_dr s I); congruence).
    assert (Hw : (1 <= p_waits s)%nat).
    { apply (waits_pos s t I Hin). unfold holds. rewrite Epc, Ed. lia. }
    inversion H; subst; clear H.
    call_dec s t (with_drain (p_calls s t) DDone); fin I t Epc.
    all: rewrite ?Ed; try lia; try reflexivity; try (intros; discriminate).
    all: try (intros Hb _ _; destruct (a_n1 s I Hb t) as (_&_&K); congruence).
  Qed.

  Lemma step_LDrainRecv s t s' : InvA s -> pstep g s (LDrainRecv t) = Some s' -> InvA s'.
  Proof.
    intros I H. cbn [pstep] in H.
    destruct (k_drain (p_calls s t)) eqn:Ed; try discriminate.
    assert (Hin : In t (p_tids s)) by (apply in_tids_drain; [assumption|congruence]).
    assert (Epc : k_pc (p_calls s t) = PRet) by (apply (a_dr s I); congruence).
    destruct (k_comp (p_calls s t)) eqn:Ec; [|discriminate].
    inversion H; subst; clear H.
    call_same s t (with_drain (with_comp (p_calls s t) false) DGot); fin I t Epc.
    all: rewrite ?Ed; try reflexivity; try (intros; discriminate).
    all: try (intros Hb; destruct (a_n1 s I Hb t) as (K&_&_); congruence).
  Qed.

  Lemma step_LPutFail s t s' : InvA s -> pstep g s (LPutFail t) = Some s' -> InvA s'.
  Proof.
    intros I H. cbn [pstep] in H.
    destruct (k_pc (p_calls s t)) eqn:Epc; try discriminate.
    destruct (g_kind g) eqn:Ek; [discriminate|].
    destruct (k_done (p_calls s t) && k_ctxput (p_calls s t)) eqn:G; [|discriminate].
    clear G.
    assert (Hin : In t (p_tids s)) by (apply in_tids_pc; [assumption|congruence]).
    assert (Hd : k_drain (p_calls s t) = DNone) by (apply drain_none; [assumption|congruence]).
    assert (Hw : (1 <= p_waits s)%nat).
    { apply (waits_pos s t I Hin). unfold holds. rewrite Epc. lia. }
    inversion H; subst; clear H.
    call_dec s t (with_ret (p_calls s t) (errs_for (p_calls s t) ECtx)); fin I t Epc.
    all: rewrite ?Hd; try lia; try reflexivity.
  Qed.

  Lemma step_LDecr s t s' : InvA s -> pstep g s (LDecr t) = Some s' -> InvA s'.
  Proof.
    intros I H. cbn [pstep] in H.
    destruct (k_pc (p_calls s t)) as [| | | | | | |st0| | | | |] eqn:Epc; try discriminate.
    assert (Hin : In t (p_tids s)) by (apply in_tids_pc; [assumption|congruence]).
    assert (Hd : k_drain (p_calls s t) = DNone) by (apply drain_none; [assumption|congruence]).
    assert (Hw : (1 <= p_waits s)%nat) by (apply (waits_pos s t I Hin); unfold holds; rewrite Epc; lia).
    destruct (st0 && negb (Nat.eqb (p_waits s) 1)) eqn:G.
    - (* others are counted after a synchronous call: background() comes next, the count is kept *)
      apply andb_true_iff in G as [-> G].
      inversion H; subst; clear H.
      call_same s t (with_pc (p_calls s t) PBgAfter); fin I t Epc.
    - inversion H; subst; clear H.
      call_dec s t (with_ret (p_calls s t) (k_res (p_calls s t))); fin I t Epc.
      all: rewrite ?Hd; try lia; try reflexivity.
  Qed.

  Lemma step_LCall s t cmds multi ck s' : InvA s -> pstep g s (LCall t cmds multi ck) = Some s' -> InvA s'.
  Proof.
    intros I H. cbn [pstep] in H.
    destruct (fresh s t && negb match cmds with [] => true | _ :: _ => false end &&
              (multi || Nat.eqb (List.length cmds) 1) && forallb wf_cmd cmds) eqn:G; [|discriminate].
    apply andb_true_iff in G as [G _]. apply andb_true_iff in G as [G _]. apply andb_true_iff in G as [G _].
    unfold fresh in G. apply andb_true_iff in G as [G1 G2].
    assert (Hn1 : ~ In t (p_tids s)).
    { intros Hin. apply negb_true_iff in G1. assert (existsb (N.eqb t) (p_tids s) = true); [|congruence].
      apply existsb_exists. exists t. split; [assumption|apply N.eqb_refl]. }
    assert (Hn2 : ~ In t (p_ktids s)).
    { intros Hin. apply negb_true_iff in G2. assert (existsb (N.eqb t) (p_ktids s) = true); [|congruence].
      apply existsb_exists. exists t. split; [assumption|apply N.eqb_refl]. }
    inversion H; subst; clear H.
    set (c' := mkC cmds multi ck true false false PIncr [] false None DNone).
    set (s' := add_tid (set_call s t c') t).
    assert (Eo : forall u, u <> t -> p_calls s' u = p_calls s u) by (intros u Hu; cbn; now apply upd_other).
    assert (Et : p_calls s' t = c') by (cbn; apply upd_same).
    assert (Hs : hsum s' = hsum s).
    { unfold hsum, s'; cbn. rewrite upd_same. cbn.
      rewrite (sumf_upd_notin holds (p_calls s) t c' (p_tids s) Hn1). reflexivity. }
    destruct I. constructor; fold s'; cbn [p_tids p_ktids p_closers p_st p_bg p_w p_b p_waits s' set_call set_calls add_tid]; auto.
    - constructor; assumption.
    - intros u [->|Hu] Hk; [contradiction|eauto].
    - intros u Hu. assert (u <> t) by (intros ->; apply Hu; now left). rewrite Eo by assumption. apply a_idle0. intros K. apply Hu. now right.
    - change (p_waits s = hsum s'). lia.
    - intros u v Hu Hv. destruct (N.eq_dec u t) as [->|Nu]; destruct (N.eq_dec v t) as [->|Nv]; auto.
      + rewrite Et in Hu. discriminate.
      + rewrite Et in Hv. discriminate.
      + rewrite Eo in Hu, Hv by assumption. auto.
    - intros u v Hu Hv. destruct (N.eq_dec u t) as [->|Nu]; [rewrite Et in Hu; discriminate|rewrite Eo in Hu by assumption; eauto].
    - intros Hb u. destruct (N.eq_dec u t) as [->|Nu]; [rewrite Et; unfold c'; cbn; repeat split; discriminate|rewrite Eo by assumption; auto].
    - intros u Hu. destruct (N.eq_dec u t) as [->|Nu]; [rewrite Et in Hu; cbn in Hu; discriminate|rewrite Eo in Hu by assumption; eauto].
    - intros Hb v. destruct (N.eq_dec v t) as [->|Nv]; [rewrite Et; reflexivity|rewrite Eo by assumption; auto].
    - intros u. destruct (N.eq_dec u t) as [->|Nu]; [rewrite Et; cbn; contradiction|rewrite Eo by assumption; auto].
  Qed.

  Lemma bg_of_b s : InvA s -> p_b s <> BOff -> p_bg s = true.
  Proof. intros I H. destruct (p_bg s) eqn:E; [reflexivity|]. destruct (a_bgw s I E). contradiction. Qed.
  Lemma bg_of_w s : InvA s -> p_w s <> WOff -> p_bg s = true.
  Proof. intros I H. destruct (p_bg s) eqn:E; [reflexivity|]. destruct (a_bgw s I E). contradiction. Qed.

  (** a step that only changes things InvA does not read, given that the background loops exist *)
  Lemma inva_bg_only s s' :
    InvA s -> p_bg s = true ->
    p_st s' = p_st s -> p_bg s' = p_bg s -> p_waits s' = p_waits s -> p_tids s' = p_tids s ->
    p_closers s' = p_closers s -> p_ktids s' = p_ktids s ->
    (forall t, k_pc (p_calls s' t) = k_pc (p_calls s t) /\ k_drain (p_calls s' t) = k_drain (p_calls s t)) ->
    InvA s'.
  Proof.
    intros I Hb e1 e2 e3 e4 e5 e6 e7. apply (inva_ctl_eq s); [|assumption].
    unfold ctl_eq. repeat split; auto; try apply e7; intros K; congruence.
  Qed.

  Lemma step_wire s l s' :
    InvA s -> pstep g s l = Some s' ->
    match l with LWNext | LWFlush | LSrv | LSrvPush _ | LCleanNW | LCleanSpin | LFail => True | _ => False end ->
    InvA s'.
  Proof.
    intros I H Hl. destruct l; try contradiction; cbn [pstep] in H.
    - destruct (p_w s); try discriminate. destruct (wnext_blocked g (p_q s)); [discriminate|].
      destruct (q_next_write (p_q s)) as [[sl q']|]; [|discriminate]. inversion H; subst; clear H.
      apply (inva_ctl_eq s); [|assumption]. unfold ctl_eq; cbn; repeat split; reflexivity.
    - destruct (p_w s); try discriminate.
      destruct (p_conn s && negb match p_wbuf s with [] => true | _ :: _ => false end); [|discriminate].
      inversion H; subst; clear H.
      apply (inva_ctl_eq s); [|assumption]. unfold ctl_eq; cbn; repeat split; reflexivity.
    - destruct (p_c2s s); [discriminate|]. destruct (p_conn s); [|discriminate]. inversion H; subst; clear H.
      apply (inva_ctl_eq s); [|assumption]. unfold ctl_eq; cbn; repeat split; reflexivity.
    - destruct (p_conn s && free_push (g_r2ps g) m && (N.eqb (m_typ m) t_push || p_bg s)); [|discriminate].
      inversion H; subst; clear H.
      apply (inva_ctl_eq s); [|assumption]. unfold ctl_eq; cbn; repeat split; reflexivity.
    - destruct (p_b s); try discriminate.
      destruct (p_wclosed s && negb (Nat.eqb (p_waits s) 0)); [|discriminate].
      destruct (q_next_write (p_q s)) as [[sl q']|]; [|discriminate]. inversion H; subst; clear H.
      apply (inva_ctl_eq s); [|assumption]. unfold ctl_eq; cbn; repeat split; reflexivity.
    - destruct (p_b s); try discriminate.
      destruct (negb (Nat.eqb (p_waits s) 0)); [|discriminate]. inversion H; subst; clear H. assumption.
    - destruct (p_conn s); [|discriminate]. inversion H; subst; clear H.
      apply (inva_ctl_eq s); [|assumption]. unfold ctl_eq; cbn; repeat split; reflexivity.
  Qed.

  Lemma step_LRStep s s' : InvA s -> pstep g s LRStep = Some s' -> InvA s'.
  Proof.
    intros I H. cbn [pstep] in H.
    destruct (p_b s) as [|r| | | |] eqn:Eb; try discriminate.
    destruct (p_s2c s) as [|f rest]; [discriminate|].
    destruct (reader_step (g_r2ps g) (g_ver g) (hd_error (q_wr (p_q s))) r f) as [r' acts].
    destruct (existsb is_bad acts); [discriminate|]. inversion H; subst; clear H.
    assert (Hbg : p_bg s = true) by (apply bg_of_b; [assumption|congruence]).
    pose proof (fold_apply_same_ctl (r_owner r') (r_resps r') acts (set_wire s (p_c2s s) rest)) as K.
    destruct K as (a1&a2&a3&a4&a5&a6&a7&a8&a9&a10&a11&a12&a13&a14&a15&a16&a17&a18).
    apply (inva_bg_only s); auto.
    intros t. destruct (a18 t) as (c1&c2&_). cbn in c1, c2. cbn. auto.
  Qed.

  Lemma step_LCleanNR s s' : InvA s -> pstep g s LCleanNR = Some s' -> InvA s'.
  Proof.
    intros I H. cbn [pstep] in H.
    destruct (p_b s) eqn:Eb; try discriminate.
    destruct (negb (Nat.eqb (p_waits s) 0)); [|discriminate].
    destruct (q_next_result (p_q s)) as [[sl q']|]; [|discriminate]. inversion H; subst; clear H.
    assert (Hbg : p_bg s = true) by (apply bg_of_b; [assumption|congruence]).
    apply (inva_bg_only s); auto.
    intros t. cbn. unfold upd. destruct (N.eqb t (s_owner sl)) eqn:E; [apply N.eqb_eq in E; subst; cbn; auto|auto].
  Qed.

  Lemma step_b_only s l s' :
    InvA s -> pstep g s l = Some s' ->
    match l with LPostSkip | LCleanExit => True | _ => False end -> InvA s'.
  Proof.
    intros I H Hl. destruct l; try contradiction; cbn [pstep] in H.
    - destruct (p_b s) eqn:Eb; try discriminate. destruct (p_wclosed s); [|discriminate]. inversion H; subst; clear H.
      assert (Hbg : p_bg s = true) by (apply bg_of_b; [assumption|congruence]).
      apply (inva_bg_only s); auto.
    - destruct (p_b s) eqn:Eb; try discriminate. destruct (Nat.eqb (p_waits s) 0); [|discriminate]. inversion H; subst; clear H.
      assert (Hbg : p_bg s = true) by (apply bg_of_b; [assumption|congruence]).
      apply (inva_bg_only s); auto.
  Qed.

  Lemma step_LWExit s s' : InvA s -> pstep g s LWExit = Some s' -> InvA s'.
  Proof.
    intros I H. cbn [pstep] in H.
    destruct (p_w s) eqn:Ew; try discriminate.
    destruct (negb (p_conn s) && negb match p_wbuf s with [] => true | _ :: _ => false end); [|discriminate].
    inversion H; subst; clear H.
    assert (Hbg : p_bg s = true) by (apply bg_of_w; [assumption|congruence]).
    apply (inva_bg_only (do_exit s EConn)); auto. apply inva_do_exit. assumption.
  Qed.

  Lemma step_LExtExit s s' : InvA s -> pstep g s LExtExit = Some s' -> InvA s'.
  Proof. intros I H. cbn [pstep] in H. inversion H; subst. now apply inva_do_exit. Qed.

  Lemma step_LRFail s s' : InvA s -> pstep g s LRFail = Some s' -> InvA s'.
  Proof.
    intros I H. cbn [pstep] in H.
    destruct (p_b s) as [|r| | | |] eqn:Eb; try discriminate.
    assert (Hbg : p_bg s = true) by (apply bg_of_b; [assumption|congruence]).
    destruct (reader_exit r) as [idx complete]. inversion H; subst; clear H.
    set (e := match p_err s with Some e => e | None => EConn end).
    match goal with |- InvA (set_b (do_exit ?s1 e) BPost) => set (s1' := s1) end.
    assert (I1 : InvA s1').
    { unfold s1'. destruct complete; [|assumption].
      apply (inva_bg_only s); auto.
      intros t. cbn. unfold upd. destruct (N.eqb t (r_owner r)) eqn:E; [apply N.eqb_eq in E; subst; cbn; auto|auto]. }
    assert (Hbg1 : p_bg s1' = true) by (unfold s1'; destruct complete; assumption).
    apply (inva_bg_only (do_exit s1' e)); auto. now apply inva_do_exit.
  Qed.

  Lemma step_LFinal s s' : InvA s -> pstep g s LFinal = Some s' -> InvA s'.
  Proof.
    intros I H. cbn [pstep] in H.
    destruct (p_b s) eqn:Eb; try discriminate. destruct (p_wclosed s); [|discriminate]. inversion H; subst; clear H.
    assert (Hbg : p_bg s = true) by (apply bg_of_b; [assumption|congruence]).
    destruct I. constructor; cbn; auto; unfold st_closed; cbn; auto.
    all: try (intros; discriminate); try congruence.
  Qed.

  Lemma fresh_notin s t : fresh s t = true -> ~ In t (p_tids s) /\ ~ In t (p_ktids s).
  Proof.
    unfold fresh. intros G. apply andb_true_iff in G as [G1 G2]. split; intros Hin.
    - apply negb_true_iff in G1. assert (existsb (N.eqb t) (p_tids s) = true); [|congruence].
      apply existsb_exists. exists t. split; [assumption|apply N.eqb_refl].
    - apply negb_true_iff in G2. assert (existsb (N.eqb t) (p_ktids s) = true); [|congruence].
      apply existsb_exists. exists t. split; [assumption|apply N.eqb_refl].
  Qed.

  (** a fresh pseudo-call that starts at PutOne with its count taken: waits + 1 *)
  Lemma inva_add_ping s s' t :
    InvA s -> ~ In t (p_tids s) -> ~ In t (p_ktids s) ->
    p_tids s' = t :: p_tids s -> p_ktids s' = p_ktids s -> p_closers s' = p_closers s ->
    (forall u, p_calls s' u = upd (p_calls s) t ping_call u) ->
    p_st s' = p_st s -> p_bg s' = p_bg s -> (p_bg s = false -> p_w s' = p_w s /\ p_b s' = p_b s) ->
    p_waits s' = S (p_waits s) ->
    InvA s'.
  Proof.
    intros I Hn1 Hn2 e1 e2 e3 e4 e5 e6 e7 e8.
    assert (Eo : forall u, u <> t -> p_calls s' u = p_calls s u) by (intros u Hu; rewrite e4; now apply upd_other).
    assert (Et : p_calls s' t = ping_call) by (rewrite e4; apply upd_same).
    assert (Hs : hsum s' = S (hsum s)).
    { unfold hsum. rewrite e1, e2, e3. cbn [sumf]. rewrite Et.
      rewrite (sumf_ext (fun u => holds (p_calls s' u)) (fun u => holds (upd (p_calls s) t ping_call u))) by (intros; now rewrite e4).
      rewrite (sumf_upd_notin holds (p_calls s) t ping_call (p_tids s) Hn1). reflexivity. }
    pose proof (a_count s I) as Hc.
    destruct I. constructor; unfold st_closed in *; rewrite ?e1, ?e2, ?e3, ?e5, ?e6, ?e8, ?Hs; auto.
    - constructor; assumption.
    - intros u [->|Hu] Hk; [contradiction|eauto].
    - intros u Hu. assert (u <> t) by (intros ->; apply Hu; now left). rewrite Eo by assumption. apply a_idle0. intros K. apply Hu. now right.
    - intros Hb. destruct (e7 Hb) as [-> ->]. auto.
    - intros u v Hu Hv. destruct (N.eq_dec u t) as [->|Nu]; destruct (N.eq_dec v t) as [->|Nv]; auto.
      + rewrite Et in Hu. discriminate.
      + rewrite Et in Hv. discriminate.
      + rewrite Eo in Hu, Hv by assumption. auto.
    - intros u v Hu Hv. destruct (N.eq_dec u t) as [->|Nu]; [rewrite Et in Hu; discriminate|rewrite Eo in Hu by assumption; eauto].
    - intros Hb u. destruct (N.eq_dec u t) as [->|Nu]; [rewrite Et; cbn; repeat split; discriminate|rewrite Eo by assumption; auto].
    - intros u Hu. destruct (N.eq_dec u t) as [->|Nu]; [rewrite Et in Hu; cbn in Hu; discriminate|rewrite Eo in Hu by assumption; eauto].
    - intros Hb v. destruct (N.eq_dec v t) as [->|Nv]; [rewrite Et; reflexivity|rewrite Eo by assumption; auto].
    - intros u. destruct (N.eq_dec u t) as [->|Nu]; [rewrite Et; cbn; contradiction|rewrite Eo by assumption; auto].
  Qed.

  Lemma step_LPostPing s t s' : InvA s -> pstep g s (LPostPing t) = Some s' -> InvA s'.
  Proof.
    intros I H. cbn [pstep] in H.
    destruct (p_b s) eqn:Eb; try discriminate.
    destruct (negb (p_wclosed s) && fresh s t) eqn:G; [|discriminate]. apply andb_true_iff in G as [_ G].
    destruct (fresh_notin s t G) as [Hn1 Hn2]. inversion H; subst; clear H.
    assert (Hbg : p_bg s = true) by (apply bg_of_b; [assumption|congruence]).
    eapply (inva_add_ping s _ t); eauto; try reflexivity. intros K. congruence.
  Qed.

  (** closer records *)
  Lemma hsum_upd_closer s s' t k' :
    InvA s -> In t (p_ktids s) ->
    p_tids s' = p_tids s -> p_ktids s' = p_ktids s -> p_calls s' = p_calls s ->
    (forall u, p_closers s' u = upd (p_closers s) t k' u) ->
    (hsum s' + kholds (p_closers s t) = hsum s + kholds k')%nat.
  Proof.
    intros I Hin e1 e2 e3 e4. unfold hsum. rewrite e1, e2, e3.
    rewrite (sumf_ext (fun u => kholds (p_closers s' u)) (fun u => kholds (upd (p_closers s) t k' u))) by (intros; now rewrite e4).
    pose proof (sumf_upd_in kholds (p_closers s) t k' (p_ktids s) (a_knodup s I) Hin). lia.
  Qed.

  Lemma in_ktids s t : InvA s -> p_closers s t <> KIdle -> In t (p_ktids s).
  Proof.
    intros I H. destruct (in_dec N.eq_dec t (p_ktids s)) as [|Hn]; [assumption|].
    rewrite (a_kidle s I t Hn) in H. contradiction.
  Qed.

  (** closer t moves on; the count it holds changes by [kholds k' - kholds old] together with waits *)
  Lemma inva_closer s s' t k' :
    InvA s -> In t (p_ktids s) ->
    p_tids s' = p_tids s -> p_ktids s' = p_ktids s -> p_calls s' = p_calls s ->
    (forall u, p_closers s' u = upd (p_closers s) t k' u) ->
    p_st s' = p_st s -> p_bg s' = p_bg s -> p_w s' = p_w s -> p_b s' = p_b s ->
    (p_waits s' + kholds (p_closers s t) = p_waits s + kholds k')%nat ->
    (tokk k' = true -> tokk (p_closers s t) = true) ->
    (match k' with K2 _ _ | KWait _ | K5 => True | _ => False end -> st_closed s) ->
    (kholds k' < kholds (p_closers s t) -> st_closed s)%nat ->
    InvA s'.
  Proof.
    intros I Hin e1 e2 e3 e4 e5 e6 e7 e8 e9 Htok Hn3 Hdec.
    pose proof (hsum_upd_closer s s' t k' I Hin e1 e2 e3 e4) as Hs.
    assert (Eo : forall u, u <> t -> p_closers s' u = p_closers s u) by (intros u Hu; rewrite e4; now apply upd_other).
    assert (Et : p_closers s' t = k') by (rewrite e4; apply upd_same).
    pose proof (a_count s I) as Hc.
    destruct I. constructor; unfold st_closed in *; rewrite ?e1, ?e2, ?e3, ?e5, ?e6, ?e7, ?e8; auto.
    - intros u Hu. rewrite Eo by (intros ->; contradiction). auto.
    - lia.
    - intros u v Hu Hv. destruct (N.eq_dec u t) as [->|Nu]; destruct (N.eq_dec v t) as [->|Nv]; auto.
      + rewrite Et in Hu. rewrite Eo in Hv by assumption. symmetry. apply a_tok5; auto.
      + rewrite Et in Hv. rewrite Eo in Hu by assumption. apply a_tok5; auto.
      + rewrite Eo in Hu, Hv by assumption. auto.
    - intros u v Hu Hv. destruct (N.eq_dec v t) as [->|Nv].
      + rewrite Et in Hv. eapply a_tok6; eauto.
      + rewrite Eo in Hv by assumption. eauto.
    - intros u Hu. destruct (N.eq_dec u t) as [->|Nu]; [rewrite Et in Hu; auto|rewrite Eo in Hu by assumption; eauto].
  Qed.

  Lemma step_LClose1 s t s' : InvA s -> pstep g s (LClose1 t) = Some s' -> InvA s'.
  Proof.
    intros I H. cbn [pstep] in H.
    destruct (fresh s t) eqn:G; [|discriminate]. destruct (fresh_notin s t G) as [Hn1 Hn2].
    inversion H; subst; clear H.
    set (w := S (p_waits s)).
    match goal with |- InvA ?x => set (s' := x) end.
    assert (Eo : forall u, u <> t -> p_closers s' u = p_closers s u) by (intros u Hu; cbn; now apply upd_other).
    assert (Et : p_closers s' t = K1 w) by (cbn; apply upd_same).
    assert (Hs : hsum s' = S (hsum s)).
    { unfold hsum, s'; cbn. rewrite upd_same. cbn.
      rewrite (sumf_upd_notin kholds (p_closers s) t (K1 w) (p_ktids s) Hn2). lia. }
    pose proof (a_count s I) as Hc.
    assert (Htok : tokk (K1 w) = true -> hsum s = 0%nat).
    { unfold tokk, w. rewrite <- Hc. destruct (p_waits s); [reflexivity|discriminate]. }
    pose proof I as I'.
    destruct I. constructor; fold s'; cbn [p_tids p_ktids p_calls p_st p_bg p_w p_b p_waits s' set_closer set_waits add_ktid latch]; auto.
    - constructor; assumption.
    - intros u Hu [->|Hk]; [contradiction|eauto].
    - intros u Hu. assert (u <> t) by (intros ->; apply Hu; now left). rewrite Eo by assumption. apply a_kidle0. intros K. apply Hu. now right.
    - change (S (p_waits s) = hsum s'). lia.
    - intros u v Hu Hv. destruct (N.eq_dec u t) as [->|Nu]; destruct (N.eq_dec v t) as [->|Nv]; auto.
      + rewrite Et in Hu. rewrite Eo in Hv by assumption.
        destruct (hsum_zero_notok s I' (Htok Hu)) as [_ K]. rewrite K in Hv. discriminate.
      + rewrite Et in Hv. rewrite Eo in Hu by assumption.
        destruct (hsum_zero_notok s I' (Htok Hv)) as [_ K]. rewrite K in Hu. discriminate.
      + rewrite Eo in Hu, Hv by assumption. auto.
    - intros u v Hu Hv. destruct (N.eq_dec v t) as [->|Nv].
      + rewrite Et in Hv. destruct (hsum_zero_notok s I' (Htok Hv)) as [K _]. rewrite K in Hu. discriminate.
      + rewrite Eo in Hv by assumption. eauto.
    - intros u Hu. destruct (N.eq_dec u t) as [->|Nu]; [rewrite Et in Hu; contradiction|rewrite Eo in Hu by assumption; eauto].
  Qed.

  Lemma inva_close_cas s :
    InvA s ->
    InvA (mkP (if N.eqb (p_st s) 0 || N.eqb (p_st s) 1 then 2 else p_st s) (p_bg s) (p_waits s) (p_err s) (p_q s) (p_w s) (p_wbuf s)
              (p_wclosed s) (p_conn s) (p_c2s s) (p_s2c s) (p_b s) (p_cache_closed s) (p_calls s) (p_tids s) (p_closers s)
              (p_ktids s) (p_wlog s) (p_dlog s) (p_sent s)).
  Proof.
    intros I.
    assert (Hcl : st_closed s -> (if N.eqb (p_st s) 0 || N.eqb (p_st s) 1 then 2 else p_st s) = 2 \/
                                 (if N.eqb (p_st s) 0 || N.eqb (p_st s) 1 then 2 else p_st s) = 4).
    { intros [K|K]; rewrite K; cbn; auto. }
    assert (Hne : (if N.eqb (p_st s) 0 || N.eqb (p_st s) 1 then 2 else p_st s) <> 0).
    { destruct (N.eqb (p_st s) 0) eqn:E0; [cbn; discriminate|]. destruct (N.eqb (p_st s) 1); cbn; [discriminate|]. now apply N.eqb_neq. }
    destruct I. constructor; cbn; unfold st_closed; cbn; auto.
    - destruct (N.eqb (p_st s) 0 || N.eqb (p_st s) 1); auto.
    - intros t Ht. apply Hcl. eauto.
    - intros t Ht. apply Hcl. eauto.
  Qed.

  Lemma step_LClose2 s t b s' : InvA s -> pstep g s (LClose2 t b) = Some s' -> InvA s'.
  Proof.
    intros I H. cbn [pstep] in H.
    destruct (p_closers s t) as [|w| | | |] eqn:Ek; try discriminate.
    assert (Hin : In t (p_ktids s)) by (apply in_ktids; [assumption|congruence]).
    inversion H; subst; clear H.
    pose proof (inva_close_cas s I) as I1.
    match type of I1 with InvA ?x => set (s1 := x) in * end.
    assert (Hst1 : st_closed s1).
    { unfold st_closed, s1; cbn. destruct (a_st s I) as [K|[K|[K|K]]]; rewrite K; cbn; auto. }
    eapply (inva_closer s1 _ t); try eassumption; try reflexivity.
    - cbn. rewrite Ek. cbn. lia.
    - cbn. rewrite Ek. unfold tokk. destruct (N.eqb (p_st s) 0); cbn; [|discriminate].
      destruct w as [|[|w]]; cbn; auto; discriminate.
    - intros _. exact Hst1.
    - intros _. exact Hst1.
  Qed.

  Lemma step_LClose3 s t s' : InvA s -> pstep g s (LClose3 t) = Some s' -> InvA s'.
  Proof.
    intros I H. cbn [pstep] in H.
    destruct (p_closers s t) as [| |bg ping| | |] eqn:Ek; try discriminate.
    assert (Hin : In t (p_ktids s)) by (apply in_ktids; [assumption|congruence]).
    assert (Hcl : st_closed s) by (apply (a_n3 s I t); now rewrite Ek).
    destruct bg.
    - inversion H; subst; clear H.
      assert (Hns : forall u, sync_user (p_calls s u) = false).
      { intros u. destruct (sync_user (p_calls s u)) eqn:E; [|reflexivity]. apply sync_tok in E.
        exfalso. apply (a_tok3 s I u t E). now rewrite Ek. }
      pose proof (inva_do_background s I Hns) as I1.
      assert (Ec : p_closers (do_background s) = p_closers s) by (unfold do_background; destruct (p_bg s); reflexivity).
      assert (Et : p_ktids (do_background s) = p_ktids s) by (unfold do_background; destruct (p_bg s); reflexivity).
      assert (Hcl1 : st_closed (do_background s)).
      { unfold st_closed, do_background. destruct Hcl as [K|K]; destruct (p_bg s); cbn; rewrite K; cbn; auto. }
      eapply (inva_closer (do_background s) _ t); try eassumption; try reflexivity.
      + now rewrite Et.
      + cbn [p_waits set_closer]. rewrite Ec, Ek. cbn. lia.
      + discriminate.
      + intros _. exact Hcl1.
      + intros _. exact Hcl1.
    - destruct ping; [discriminate|]. inversion H; subst; clear H.
      eapply (inva_closer s _ t); try eassumption; try reflexivity.
      + rewrite Ek. cbn. lia.
      + discriminate.
      + intros _. exact Hcl.
      + intros _. exact Hcl.
  Qed.

  Lemma step_LCloseJoin s t s' : InvA s -> pstep g s (LCloseJoin t) = Some s' -> InvA s'.
  Proof.
    intros I H. cbn [pstep] in H.
    destruct (p_closers s t) as [| | |t'| |] eqn:Ek; try discriminate.
    assert (Hin : In t (p_ktids s)) by (apply in_ktids; [assumption|congruence]).
    assert (Hcl : st_closed s) by (apply (a_n3 s I t); now rewrite Ek).
    destruct (k_pc (p_calls s t')); try discriminate. inversion H; subst; clear H.
    eapply (inva_closer s _ t); try eassumption; try reflexivity.
    - rewrite Ek. cbn. lia.
    - discriminate.
    - intros _. exact Hcl.
    - intros _. exact Hcl.
  Qed.

  Lemma step_LClose5 s t s' : InvA s -> pstep g s (LClose5 t) = Some s' -> InvA s'.
  Proof.
    intros I H. cbn [pstep] in H.
    destruct (p_closers s t) eqn:Ek; try discriminate.
    assert (Hin : In t (p_ktids s)) by (apply in_ktids; [assumption|congruence]).
    assert (Hcl : st_closed s) by (apply (a_n3 s I t); now rewrite Ek).
    assert (Hw : (1 <= p_waits s)%nat).
    { rewrite (a_count s I). unfold hsum.
      pose proof (sumf_ge (fun t => kholds (p_closers s t)) (p_ktids s) t Hin) as K. cbn beta in K. rewrite Ek in K. cbn in K. lia. }
    inversion H; subst; clear H.
    eapply (inva_closer s _ t); try eassumption; try reflexivity.
    - cbn. rewrite Ek. cbn. lia.
    - discriminate.
    - intros [].
    - intros _. exact Hcl.
  Qed.

  Lemma step_LClose4 s t t' s' : InvA s -> pstep g s (LClose4 t t') = Some s' -> InvA s'.
  Proof.
    intros I H. cbn [pstep] in H.
    destruct (p_closers s t) as [| |bg ping| | |] eqn:Ek; try discriminate.
    destruct bg; [discriminate|]. destruct ping; [|discriminate].
    destruct (fresh s t') eqn:G; [|discriminate]. destruct (fresh_notin s t' G) as [Hn1 Hn2].
    assert (Hin : In t (p_ktids s)) by (apply in_ktids; [assumption|congruence]).
    assert (Hcl : st_closed s) by (apply (a_n3 s I t); now rewrite Ek).
    inversion H; subst; clear H.
    set (s1 := add_tid (set_call (set_waits s (S (p_waits s))) t' ping_call) t').
    assert (I1 : InvA s1).
    { eapply (inva_add_ping s s1 t'); eauto; try reflexivity; try (intros _; split; reflexivity). }
    eapply (inva_closer s1 _ t); try eassumption; try reflexivity.
    - cbn. rewrite Ek. cbn. lia.
    - discriminate.
    - intros _. exact Hcl.
    - intros _. exact Hcl.
  Qed.

  Theorem inva_step s l s' : InvA s -> pstep g s l = Some s' -> InvA s'.
  Proof.
    intros I H. destruct l.
    - eapply step_LCall; eauto.
    - eapply step_LIncr; eauto.
    - eapply step_LLoad; eauto.
    - eapply step_LBg; eauto.
    - eapply step_LSyncW; eauto.
    - eapply step_LSyncR; eauto.
    - eapply step_LSyncFail; eauto.
    - eapply step_LErr; eauto.
    - eapply step_LDecr; eauto.
    - eapply step_LBgAfter; eauto.
    - eapply step_LPut; eauto.
    - eapply step_LPutFail; eauto.
    - eapply step_LRecv; eauto.
    - eapply step_LAbort; eauto.
    - eapply step_LFin; eauto.
    - eapply step_LDrainRecv; eauto.
    - eapply step_LDrainFin; eauto.
    - eapply step_LCtxDone; eauto.
    - eapply step_wire; eauto; constructor.
    - eapply step_wire; eauto; constructor.
    - eapply step_LWExit; eauto.
    - eapply step_wire; eauto; constructor.
    - eapply step_wire; eauto; constructor.
    - eapply step_LRStep; eauto.
    - eapply step_LRFail; eauto.
    - eapply step_b_only; eauto; constructor.
    - eapply step_LPostPing; eauto.
    - eapply step_wire; eauto; constructor.
    - eapply step_LCleanNR; eauto.
    - eapply step_wire; eauto; constructor.
    - eapply step_b_only; eauto; constructor.
    - eapply step_LFinal; eauto.
    - eapply step_wire; eauto; constructor.
    - eapply step_LExtExit; eauto.
    - eapply step_LClose1; eauto.
    - eapply step_LClose2; eauto.
    - eapply step_LClose3; eauto.
    - eapply step_LClose4; eauto.
    - eapply step_LCloseJoin; eauto.
    - eapply step_LClose5; eauto.
  Qed.

  Theorem inva_run sched : forall s s', InvA s -> prun g sched s = Some s' -> InvA s'.
  Proof.
    induction sched as [|l r IH]; intros s s' I H; cbn [prun] in H.
    - inversion H; subst; assumption.
    - destruct (pstep g s l) as [s1|] eqn:E; [|discriminate]. eapply IH; [|exact H]. eapply inva_step; eauto.
  Qed.

  (** the connection has at most one user: one synchronous caller, or the background loops *)
  Theorem exclusive_conn sched s : prun g sched (p_init g) = Some s -> (users s <= 1)%nat.
  Proof.
    intros H. pose proof (inva_run sched _ _ (inva_init g) H) as I.
    unfold users. destruct (bg_user s) eqn:Eb.
    - assert (Hbg : p_bg s = true).
      { unfold bg_user in Eb. destruct (p_bg s) eqn:E; [reflexivity|]. destruct (a_bgw s I E) as [K1 K2]. rewrite K1, K2 in Eb. discriminate. }
      rewrite (filter_nil (fun t => sync_user (p_calls s t))); [cbn; lia|]. intros x _. apply (a_e2 s I Hbg).
    - pose proof (filter_atmost1 (fun t => sync_user (p_calls s t)) (p_tids s) (a_nodup s I)) as K.
      cbn beta in K. rewrite Nat.add_0_r. apply K.
      intros x y _ _ Hx Hy. apply (a_tok1 s I); now apply sync_tok.
  Qed.
End Steps.
