(** Equality test on byte strings. *)
From Coq Require Import List NArith Bool.
Require Import RV.Model.Base.
Import ListNotations.
Open Scope N_scope.

(** ---- byte strings ---- *)

Lemma bytes_eqb_refl (a : bytes) : bytes_eqb a a = true.
Proof.
  unfold bytes_eqb. induction a as [|x a IH]; cbn [list_eqb]; [reflexivity|].
  rewrite N.eqb_refl, IH. reflexivity.
Qed.

Lemma bytes_eqb_eq (a b : bytes) : bytes_eqb a b = true <-> a = b.
Proof.
  split; [|intros ->; apply bytes_eqb_refl].
  unfold bytes_eqb. revert b. induction a as [|x a IH]; intros [|y b]; cbn [list_eqb]; try discriminate; [reflexivity|].
  intros H. apply andb_true_iff in H as [H1 H2]. apply N.eqb_eq in H1. subst. f_equal. apply IH, H2.
Qed.

Lemma bytes_eqb_neq (a b : bytes) : bytes_eqb a b = false <-> a <> b.
Proof.
  split.
  - intros H E. apply bytes_eqb_eq in E. congruence.
  - intros H. destruct (bytes_eqb a b) eqn:E; [apply bytes_eqb_eq in E; contradiction|reflexivity].
Qed.

Lemma bytes_eqb_sym (a b : bytes) : bytes_eqb a b = bytes_eqb b a.
Proof.
  destruct (bytes_eqb a b) eqn:E.
  - apply bytes_eqb_eq in E. subst. symmetry. apply bytes_eqb_refl.
  - symmetry. apply bytes_eqb_neq. apply bytes_eqb_neq in E. congruence.
Qed.

